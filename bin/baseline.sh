#!/bin/bash
# Runs the repository's own test suite (guard off; there are no hooks) and prints pass/fail counts.
export GOFLAGS=-mod=mod GOPROXY=off GOSUMDB=off GOTOOLCHAIN=local
cd "${1:-/repo}" || exit 2
out=$(go test -mod=mod -json -vet=off -count=1 -timeout 25m ./... 2>&1)
pass=$(printf '%s\n' "$out" | grep -c '"Action":"pass","Package":"[^"]*","Test"')
fail=$(printf '%s\n' "$out" | grep -c '"Action":"fail","Package":"[^"]*","Test"')
echo "pass=$pass fail=$fail"
if [ "$fail" != 0 ] || [ "$pass" -lt 163 ]; then
  printf '%s\n' "$out" | grep '"Action":"fail"' | head -20
  printf '%s\n' "$out" | grep -v '"Action":"\(run\|pass\|output\|pause\|cont\|start\)"' | head -20
  exit 1
fi
