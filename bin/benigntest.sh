#!/bin/bash
# benigntest.sh <dir-with-p*.diff>... : apply each behaviour-preserving patch to a scratch copy of
# /repo and run every property check on it; any unlisted VIOLATION/UNDECIDED is a false alarm.
here=$(cd "$(dirname "$0")/.." && pwd)
export GOFLAGS=-mod=mod GOPROXY=off GOSUMDB=off GOTOOLCHAIN=local GOWORK=off
work=$(mktemp -d /tmp/rl_benign.XXXXXX)
trap 'rm -rf "$work"' EXIT
rsync -a --exclude .git "${VERIF_REPO:-/repo}/" "$work/base/"
n=0
for d in "$@"; do
  d=$(cd "$d" && pwd)
  for p in "$d"/p*.diff "$d"/patch.diff; do
    [ -f "$p" ] || continue
    name=$(basename "$(dirname "$(dirname "$p")")")-$(basename "$p" .diff)
    (
      cp -r "$work/base" "$work/$name"
      if ! (cd "$work/$name" && git apply "$p" 2>/dev/null); then echo "BENIGN $name: patch does not apply"; rm -rf "$work/$name"; exit; fi
      "$here/bin/rosmarlint" -repo "$work/$name" -prop "${BENIGN_PROP:-all}" -known "$here/known_findings.json" > "$work/$name.out" 2>&1
      bad=$(grep -E '^[^ ].*: (VIOLATION|UNDECIDED): ' "$work/$name.out" | sed -E 's/^[^ ]+: //' | sort -u)
      if grep -q "load failed" "$work/$name.out"; then echo "BENIGN $name: does not type-check"; 
      elif [ -z "$bad" ]; then echo "BENIGN $name: silent"; else echo "BENIGN $name: FALSE ALARM"; printf '%s\n' "$bad" | sed 's/^/     /'; fi
      rm -rf "$work/$name"
    ) &
    n=$((n+1)); if [ $((n % 6)) -eq 0 ]; then wait; fi
  done
done
wait
