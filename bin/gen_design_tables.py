#!/usr/bin/env python3
"""Regenerates the generated blocks of DESIGN.md (per-property rule table, seeded-change table)
from the checker's own property table, known_findings.json and seeded/*/meta.json."""
import json, subprocess, os, glob, re
here = os.path.dirname(os.path.dirname(os.path.abspath(__file__)))
props = json.loads(subprocess.check_output([os.path.join(here, "bin", "rosmarlint"), "-repo", "/repo", "-dump", "props"]))
kf = json.load(open(os.path.join(here, "known_findings.json")))
fid = {}
for k in kf["known"]:
    m = re.search(r"\bF\d+[a-z]?\b", k.get("what", "") + " " + k.get("id", ""))
    for p in ([k["property"]] if isinstance(k["property"], str) else k["property"]):
        fid.setdefault(p, set()).add(m.group(0) if m else k["key"].split(" / ")[0])
rows = ["| id | rules | known findings on today's tree |", "|---|---|---|"]
for p in props:
    rules = ", ".join(p["Rules"])
    if p.get("Scope"):
        rules += " (scoped: " + "; ".join(f"{r} to the functions reachable from {'/'.join(v)}" for r, v in p["Scope"].items()) + ")"
    rows.append(f"| {p['ID']} | {rules} | {', '.join(sorted(fid.get(p['ID'], []))) or '–'} |")
props_block = "\n".join(rows)

seeds = []
for mf in sorted(glob.glob(os.path.join(here, "seeded", "*", "meta.json"))):
    m = json.load(open(mf))
    name = os.path.basename(os.path.dirname(mf))
    det = sorted({d.split(" / ")[0] for d in m.get("detected_by", [])})
    seeds.append((name, m.get("wave", 1), m["change"], det))
rows = ["| seed | wave | change | caught by |", "|---|---|---|---|"]
for name, wave, change, det in seeds:
    rows.append(f"| {name} | {wave} | {change.replace('|', '/')} | {', '.join(det) if det else '**missed**'} |")
caught = sum(1 for s in seeds if s[3])
seeds_block = f"{caught} of {len(seeds)} caught.\n\n" + "\n".join(rows)

path = os.path.join(here, "DESIGN.md")
s = open(path).read()
def put(s, tag, body):
    b, e = f"<!-- BEGIN:{tag} -->", f"<!-- END:{tag} -->"
    i, j = s.index(b), s.index(e)
    return s[:i + len(b)] + "\n" + body + "\n" + s[j:]
s = put(s, "props", props_block)
s = put(s, "seeds", seeds_block)
open(path, "w").write(s)
print("props", len(props), "seeds", len(seeds), "caught", caught)
