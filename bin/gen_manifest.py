#!/usr/bin/env python3
"""Regenerates /verif/MANIFEST.json from the checker's own property table
(rosmarlint -dump props), so that the manifest never claims a rule that is not built."""
import json, subprocess, os, sys
here = os.path.dirname(os.path.dirname(os.path.abspath(__file__)))
props = json.loads(subprocess.check_output([os.path.join(here, "bin", "rosmarlint"), "-repo", os.environ.get("VERIF_REPO", "/repo"), "-dump", "props"]))
all_ids = [json.loads(l)["id"] for l in open(os.path.join(here, "properties.jsonl"))]
checks = []
claimed = set()
for p in props:
    if not p["Rules"]:
        continue
    claimed.add(p["ID"])
    checks.append({
        "property_id": p["ID"],
        "quick_cmd": f"bin/check {p['ID']} quick",
        "thorough_cmd": f"bin/check {p['ID']} thorough",
        "evidence_file": f"/verif/evidence/{p['ID']}.json",
        "replay_cmd_template": "bin/check --explain {path}",
        "engine": "rosmarlint",
        "level_claimed": {
            "category": "other",
            "text": "Static analysis of /repo's current source (type-checked program, SSA, call graph, parsed embedded SQL). Decides structural NECESSARY conditions of the property on every statement / path / call site, not the behaviour itself: " + p["Explanation"] + " NOT decided: " + p["NotDecided"],
            "design_ref": "DESIGN.md sections 4 and 5 (" + p["ID"] + ")"
        },
        "level_note": "Trusted: go/types + go/ssa (x/tools v0.29.0), SQLite semantics of the parsed statement subset, database/sql binding a Tx to one connection, sync.Mutex. Abstractions: locks identified by (type, field); values compared by syntactic term equality; VTA call graph. A rule that cannot decide reports UNDECIDED and the check fails.",
        "technique": "static analysis: custom SSA/CFG/call-graph checker with embedded-SQL parsing; rules " + ", ".join(p["Rules"])
    })
na = [{"property_id": i, "reason": "no rule of the static checker is implemented for it yet"} for i in all_ids if i not in claimed]
manifest = {
    "version": 1,
    "setup_cmd": "cd /verif/checker && GOFLAGS=-mod=vendor GOPROXY=off GOSUMDB=off GOTOOLCHAIN=local GOWORK=off go build -o ../bin/rosmarlint ./cmd/rosmarlint",
    "hooks": {
        "guard": "verif",
        "enable": "none needed: the checks read /repo's source as it is built (no instrumentation, no build tag used)",
        "baseline_off_cmd": "/verif/bin/baseline.sh /repo",
        "source_commits": [],
        "add_only": True
    },
    "engines": [{
        "name": "rosmarlint",
        "path": "/verif/checker",
        "serves_properties": sorted(claimed),
        "kind_free_text": "repository-specific static analyzer (Go, golang.org/x/tools v0.29.0 vendored): go/packages + go/ssa + VTA call graph; constant folding of every embedded SQL statement into finite variant sets, own SQLite-subset parser, schema model; cut-reachability guard engine on SSA CFGs; must-hold lockset + lock-order engine; reaching-definition term engine"
    }],
    "checks": checks,
    "not_applicable": na,
    "notes": "All checks decide structural necessary conditions (level 'other'); see DESIGN.md. known_findings.json lists genuine defects recorded but not repaired; repaired ones are 'fix:' commits in /repo listed under 'fixed'."
}
json.dump(manifest, open(os.path.join(here, "MANIFEST.json"), "w"), indent=1)
print("claimed", len(checks), "not_applicable", len(na))
