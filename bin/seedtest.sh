#!/bin/bash
# seedtest.sh <patch.diff> [prop...] : apply a seeded change to /repo, run the checks, undo it.
patch=$1; shift
props=${@:-all}
cd /repo || exit 2
if [ -n "$(git status --porcelain)" ]; then echo "/repo not clean"; exit 2; fi
git apply "$patch" || { echo "patch does not apply"; exit 2; }
for p in $props; do
  /verif/bin/rosmarlint -repo /repo -prop $p -known /verif/known_findings.json -evidence /tmp/seedtest_ev 2>&1 | grep -E "VIOLATION|UNDECIDED|load failed|panic" | cut -c1-330
done
git checkout -- . && git status --porcelain
