#!/usr/bin/env python3
"""store_seeds.py <wave-dir> <verify-log> <wave-number>: copies confirmed seeded changes (out/a, out/b
of each property directory) into seeded/<id>-<next letter>/ with a meta.json."""
import json, os, shutil, re, subprocess, sys
root, logf, wave = sys.argv[1], sys.argv[2], int(sys.argv[3])
here = os.path.dirname(os.path.dirname(os.path.abspath(__file__)))
log = {}
for l in open(logf):
    m = re.match(r'RESULT (C\d\d)-\d([ab]) (.*)', l.strip())
    if m: log[(m.group(1), m.group(2))] = m.group(3)
head = subprocess.check_output(['git', '-C', '/repo', 'rev-parse', '--short', 'HEAD']).decode().strip()
for (p, v), res in sorted(log.items()):
    src = f'{root}/{p}/out/{v}'
    have = sorted(x for x in os.listdir(f'{here}/seeded') if x.startswith(p + '-'))
    if any(open(f'{here}/seeded/{h}/patch.diff').read() == open(f'{src}/patch.diff').read() for h in have):
        continue
    letters = [x.split('-')[1] for x in have]
    L = next(c for c in 'abcdefghijklmnopqrstuvwxyz' if c not in letters)
    name = f'{p}-{L}'
    if 'confirmed=yes' not in res:
        print('NOT CONFIRMED', p, v, res); continue
    dst = f'{here}/seeded/{name}'
    os.makedirs(dst)
    for f in ('patch.diff', 'demo_test.go', 'README.md'):
        if os.path.exists(f'{src}/{f}'): shutil.copy(f'{src}/{f}', dst)
    title = ''
    if os.path.exists(f'{src}/README.md'):
        for line in open(f'{src}/README.md'):
            if line.startswith('#'):
                title = re.sub(r'^#+\s*', '', line.strip())
                title = re.sub(r'^(Seeded change|Seed|Change)?\s*[AB]?\s*\(?(property )?(C\d\d)?\)?\s*(/|seed)?\s*(change|seed)?\s*[AB]?\s*\)?\s*[—:–-]+\s*', '', title, flags=re.I)
                break
    meta = {"property": p, "change": title or "see README.md", "needs_to_manifest": "see README.md", "wave": wave,
            "origin": "written by an independent sub-agent given only the property text, a scratch worktree and the list of ideas already used for this property",
            "confirmed": {"command": f"bin/verify_seed.sh seeded/{name} {name}", "repo_head": head, "result": res,
                          "meaning": "in a scratch worktree of /repo HEAD: patch applies and builds; the full existing suite passes with it (163 tests); the demonstration fails with it and passes without it"},
            "detected_by": []}
    json.dump(meta, open(f'{dst}/meta.json', 'w'), indent=1)
    print('stored', name, '|', title[:100])
