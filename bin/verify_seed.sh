#!/bin/bash
# verify_seed.sh <src-dir-with patch.diff+demo_test.go> <name>
# Confirms a seeded change in a scratch worktree of /repo HEAD: (1) patch applies and builds,
# (2) the whole existing suite passes with it, (3) the demo fails with it, (4) the demo passes
# without it. Prints one RESULT line. The worktree is removed afterwards.
export GOFLAGS=-mod=mod GOPROXY=off GOSUMDB=off GOTOOLCHAIN=local
src=$1; name=$2
wt=$(mktemp -d /tmp/vseed.XXXXXX)
rmdir "$wt"
git -C /repo worktree add -q --detach "$wt" HEAD || { echo "RESULT $name worktree-failed"; exit 2; }
trap 'git -C /repo worktree remove --force "$wt" >/dev/null 2>&1; rm -rf "$wt"' EXIT
cd "$wt" || exit 2
demo=zz_seed_demo_test.go
run_demo() { # prints pass/fail
  cp "$src/demo_test.go" "$wt/$demo"
  pat=$(grep -o '^func Test[A-Za-z0-9_]*' "$wt/$demo" | sed 's/func //' | paste -sd'|')
  if go test -vet=off -count=1 -timeout 10m -run "^($pat)\$" . >"$wt/.demo.log" 2>&1; then echo pass; else echo fail; fi
  rm -f "$wt/$demo"
}
base_demo=$(run_demo)
if ! git apply "$src/patch.diff" 2>"$wt/.apply.log"; then echo "RESULT $name patch-does-not-apply $(head -c 300 $wt/.apply.log)"; exit 1; fi
if ! go build ./... >"$wt/.build.log" 2>&1; then echo "RESULT $name build-fails"; exit 1; fi
suite=$(/verif/bin/baseline.sh "$wt" | head -1)
patched_demo=$(run_demo)
tail -5 "$wt/.demo.log" | cut -c1-200 > /tmp/vseed_last_$name.log
ok=no
if [ "$base_demo" = pass ] && [ "$patched_demo" = fail ] && echo "$suite" | grep -q "pass=163 fail=0"; then ok=yes; fi
echo "RESULT $name confirmed=$ok suite_with_patch=[$suite] demo_without_patch=$base_demo demo_with_patch=$patched_demo"
