package main

import (
	"flag"
	"fmt"
	"os"

	"rosmarlint/lint"
)

func main() {
	repo := flag.String("repo", "/repo", "repository to analyse")
	dump := flag.String("dump", "", "debug dump: sites|anchors")
	prop := flag.String("prop", "", "property id (C01..C20) or 'all'")
	tier := flag.String("tier", "quick", "quick|thorough")
	evidence := flag.String("evidence", "", "evidence output directory")
	known := flag.String("known", "", "known findings file")
	useCHA := flag.Bool("cha", false, "use the CHA call graph instead of VTA")
	explain := flag.String("explain", "", "re-derive one violation record (path to its json)")
	extra := flag.String("extra", "", "JSON file with thorough-tier extras to embed in the evidence")
	flag.Parse()
	os.Exit(lint.Main(lint.Options{Repo: *repo, Dump: *dump, Prop: *prop, Tier: *tier, EvidenceDir: *evidence, KnownFile: *known, UseCHA: *useCHA, Explain: *explain, Extra: *extra}))
}

var _ = fmt.Sprint
