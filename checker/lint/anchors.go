package lint

import (
	"fmt"
	"go/types"
	"sort"
	"strings"

	"golang.org/x/tools/go/ssa"
)

// Anchors are the handful of functions, types and fields that the rules are about. They
// are found by ROLE (what they do), not by name, so that renaming them is not an alarm.
// An anchor that cannot be found, or is ambiguous, is recorded in Problems and every rule
// that needs it reports UNDECIDED.
type Anchors struct {
	BucketType     *types.Named // struct with a *sql.DB field
	CollectionType *types.Named // struct with a *Bucket field
	EventType      *types.Named // struct whose pointer method returns *sgbucket.FeedEvent
	Queryable      *types.Named // interface {Exec, Query, QueryRow}

	DBField     *types.Var // Bucket.<*sql.DB>
	ClosedField *types.Var // Bucket.<bool tested by the txn runner>
	FeedsField  *types.Var // Bucket.<map[...][]*feed>
	CollsField  *types.Var // Bucket.<map[...]*Collection>
	BucketMutex *types.Var // Bucket.<*sync.Mutex>
	ExpMgrField *types.Var // Bucket.<*expiryManager>
	CollIDField *types.Var // Collection.<id>
	CollBucket  *types.Var // Collection.<*Bucket>
	CollMutex   *types.Var // Collection.<sync.Mutex>
	ViewCache   *types.Var // Collection.<map[viewKey]*rosmarView>

	TxnRunner     *ssa.Function   // outermost function that takes the transaction body (func(*sql.Tx) error) and leads to Begin
	TxnCore       *ssa.Function   // the function that calls (*sql.DB).Begin (== TxnRunner unless the runner was split into helpers)
	TxnChain      []*ssa.Function // TxnRunner ... TxnCore
	Allocator     *ssa.Function   // direct caller of TxnRunner that hands a new CAS to a callback parameter
	AllocClos     *ssa.Function   // the function that invokes the write callback with the new CAS: the closure Allocator passes to TxnRunner, or the method that closure delegates to
	AllocOuter    *ssa.Function   // the closure Allocator passes to TxnRunner (== AllocClos unless it delegates)
	ClockNow      *ssa.Function   // source of the CAS inside AllocClos
	ClockGlobal   *ssa.Global     // package-level variable the clock is loaded from
	ClockType     *types.Named    // its struct type
	MarkHelper    *ssa.Function   // helper called by AllocClos after the callback (setLastCas)
	Converter     *ssa.Function   // (*event) -> *sgbucket.FeedEvent
	PostFn        *ssa.Function   // takes *event, calls Converter
	FanoutFn      *ssa.Function   // takes *FeedEvent, pushes to the feeds of the collection
	ScanHelper    *ssa.Function   // scan(row *sql.Row, vals ...any)
	PoolFns       []*ssa.Function // functions returning Queryable
	AbsExpiry     *ssa.Function   // offset-to-absolute expiry
	NowAsExpiry   *ssa.Function
	CloneFn       *ssa.Function   // (*Bucket) -> *Bucket copying the shared fields
	OpenFn        *ssa.Function   // calls sql.Open
	ShutdownFn    *ssa.Function   // calls (*sql.DB).Close
	ShutdownSteps []*ssa.Function // steps of the shutdown routine that it alone calls (e.g. the one closing the handle)
	WithMetaFn    *ssa.Function   // common callee of SetWithMeta and DeleteWithMeta
	ConvWrappers  map[*ssa.Function]bool // thin wrappers that call the converter and return its result

	Problems map[string]string
}

func (a *Anchors) problem(name, format string, args ...any) {
	if a.Problems == nil {
		a.Problems = map[string]string{}
	}
	if _, dup := a.Problems[name]; !dup {
		a.Problems[name] = fmt.Sprintf(format, args...)
	}
}

func isNamed(t types.Type, pkgPath, name string) bool {
	if p, ok := t.(*types.Pointer); ok {
		t = p.Elem()
	}
	n, ok := t.(*types.Named)
	if !ok {
		return false
	}
	return n.Obj().Name() == name && n.Obj().Pkg() != nil && n.Obj().Pkg().Path() == pkgPath
}

func isPtrToNamed(t types.Type, pkgPath, name string) bool {
	p, ok := t.(*types.Pointer)
	return ok && isNamed(p.Elem(), pkgPath, name)
}

const sgbucketPath = "github.com/couchbase/sg-bucket"

// calleeOf returns the statically known callee of a call instruction, or nil.
func calleeOf(c ssa.CallInstruction) *ssa.Function {
	return c.Common().StaticCallee()
}

// isMethodCall reports whether the call is to method `name` of (pointer to) pkg.typ,
// either statically or through an interface.
func isMethodCall(c *ssa.CallCommon, pkgPath, typ, name string) bool {
	if c.IsInvoke() {
		return c.Method.Name() == name && isNamed(c.Value.Type(), pkgPath, typ)
	}
	f := c.StaticCallee()
	if f == nil || f.Name() != name || f.Signature.Recv() == nil {
		return false
	}
	return isNamed(f.Signature.Recv().Type(), pkgPath, typ)
}

func (m *Model) eachCall(fn *ssa.Function, f func(ssa.CallInstruction)) {
	for _, b := range fn.Blocks {
		for _, in := range b.Instrs {
			if c, ok := in.(ssa.CallInstruction); ok {
				f(c)
			}
		}
	}
}

func (m *Model) fnsCalling(pred func(*ssa.CallCommon) bool) []*ssa.Function {
	var out []*ssa.Function
	for _, fn := range m.Funcs {
		hit := false
		m.eachCall(fn, func(c ssa.CallInstruction) {
			if pred(c.Common()) {
				hit = true
			}
		})
		if hit {
			out = append(out, fn)
		}
	}
	return out
}

func names(fns []*ssa.Function) string {
	var s []string
	for _, f := range fns {
		s = append(s, f.String())
	}
	sort.Strings(s)
	return strings.Join(s, ", ")
}

func (m *Model) resolveAnchors() error {
	a := &m.A
	scope := m.SSA.Pkg.Scope()
	pkgPath := m.SSA.Pkg.Path()

	// ---- types by shape
	for _, nm := range scope.Names() {
		tn, ok := scope.Lookup(nm).(*types.TypeName)
		if !ok || tn.IsAlias() {
			continue
		}
		named, ok := tn.Type().(*types.Named)
		if !ok {
			continue
		}
		switch u := named.Underlying().(type) {
		case *types.Struct:
			for i := 0; i < u.NumFields(); i++ {
				f := u.Field(i)
				if isPtrToNamed(f.Type(), "database/sql", "DB") {
					if a.BucketType != nil && a.BucketType != named {
						a.problem("BucketType", "two struct types hold a *sql.DB: %s and %s", a.BucketType, named)
					}
					a.BucketType = named
					a.DBField = f
				}
			}
		case *types.Interface:
			if u.NumMethods() == 3 {
				ns := []string{u.Method(0).Name(), u.Method(1).Name(), u.Method(2).Name()}
				sort.Strings(ns)
				if strings.Join(ns, ",") == "Exec,Query,QueryRow" {
					a.Queryable = named
				}
			}
		}
	}
	if a.BucketType == nil {
		a.problem("BucketType", "no struct type with a *sql.DB field")
		return nil
	}
	if a.Queryable == nil {
		a.problem("Queryable", "no interface with methods Exec, Query, QueryRow")
	}
	bst := a.BucketType.Underlying().(*types.Struct)
	for _, nm := range scope.Names() {
		tn, ok := scope.Lookup(nm).(*types.TypeName)
		if !ok || tn.IsAlias() {
			continue
		}
		named, ok := tn.Type().(*types.Named)
		if !ok {
			continue
		}
		st, ok := named.Underlying().(*types.Struct)
		if !ok || named == a.BucketType {
			continue
		}
		hasBucket, hasEmbeddedName := false, false
		var bf *types.Var
		for i := 0; i < st.NumFields(); i++ {
			f := st.Field(i)
			if p, ok := f.Type().(*types.Pointer); ok && p.Elem() == a.BucketType {
				hasBucket = true
				bf = f
			}
			if f.Embedded() && isNamed(f.Type(), sgbucketPath, "DataStoreNameImpl") {
				hasEmbeddedName = true
			}
		}
		if hasBucket && hasEmbeddedName {
			a.CollectionType = named
			a.CollBucket = bf
		}
	}
	if a.CollectionType == nil {
		a.problem("CollectionType", "no struct type with a *Bucket field and an embedded DataStoreNameImpl")
	} else {
		cst := a.CollectionType.Underlying().(*types.Struct)
		for i := 0; i < cst.NumFields(); i++ {
			f := cst.Field(i)
			if n, ok := f.Type().(*types.Named); ok && n.Obj().Pkg() == m.SSA.Pkg {
				if b, ok := n.Underlying().(*types.Basic); ok && b.Info()&types.IsInteger != 0 {
					if a.CollIDField != nil {
						a.problem("CollIDField", "two integer-typed id fields in %s", a.CollectionType)
					}
					a.CollIDField = f
				}
			}
			if isNamed(f.Type(), "sync", "Mutex") {
				a.CollMutex = f
			}
			if mp, ok := f.Type().Underlying().(*types.Map); ok {
				if _, isPtr := mp.Elem().(*types.Pointer); isPtr {
					a.ViewCache = f
				}
			}
		}
		if a.CollIDField == nil {
			a.problem("CollIDField", "collection type has no field of a package-local integer type")
		}
	}
	for i := 0; i < bst.NumFields(); i++ {
		f := bst.Field(i)
		switch t := f.Type().Underlying().(type) {
		case *types.Map:
			switch el := t.Elem().(type) {
			case *types.Slice:
				a.FeedsField = f
			case *types.Pointer:
				if a.CollectionType != nil && el.Elem() == a.CollectionType {
					a.CollsField = f
				}
			}
		case *types.Pointer:
			if isNamed(t.Elem(), "sync", "Mutex") {
				a.BucketMutex = f
			} else if n, ok := t.Elem().(*types.Named); ok && n.Obj().Pkg() == m.SSA.Pkg {
				if st, ok := n.Underlying().(*types.Struct); ok {
					for j := 0; j < st.NumFields(); j++ {
						if isPtrToNamed(st.Field(j).Type(), "time", "Timer") {
							a.ExpMgrField = f
						}
					}
				}
			}
		}
		if isNamed(f.Type(), "sync", "Mutex") {
			a.BucketMutex = f
		}
	}
	if a.FeedsField == nil {
		a.problem("FeedsField", "bucket type has no map-of-slices field (feed registry)")
	}
	if a.BucketMutex == nil {
		a.problem("BucketMutex", "bucket type has no sync.Mutex field")
	}

	// ---- functions by role
	one := func(name string, fns []*ssa.Function) *ssa.Function {
		if len(fns) == 1 {
			return fns[0]
		}
		if len(fns) == 0 {
			a.problem(name, "no function plays the role %s", name)
		} else {
			a.problem(name, "role %s is ambiguous: %s", name, names(fns))
		}
		return nil
	}
	a.TxnCore = one("TxnRunner", m.fnsCalling(func(c *ssa.CallCommon) bool {
		return isMethodCall(c, "database/sql", "DB", "Begin") || isMethodCall(c, "database/sql", "DB", "BeginTx")
	}))
	a.TxnRunner = a.TxnCore
	if a.TxnCore != nil {
		// walk outwards while the only caller merely passes its own func parameter along
		a.TxnChain = []*ssa.Function{a.TxnCore}
		cur := a.TxnCore
		for depth := 0; depth < 4; depth++ {
			var outer *ssa.Function
			n := 0
			for _, g := range m.Funcs {
				m.eachCall(g, func(c ssa.CallInstruction) {
					if c.Common().StaticCallee() != cur {
						return
					}
					n++
					for _, arg := range c.Common().Args {
						if p, ok := stripConv(arg).(*ssa.Parameter); ok && p.Parent() == g {
							if _, isFn := p.Type().Underlying().(*types.Signature); isFn {
								outer = g
							}
						}
					}
				})
			}
			if outer == nil || n != 1 {
				break
			}
			cur = outer
			a.TxnChain = append([]*ssa.Function{cur}, a.TxnChain...)
		}
		a.TxnRunner = cur
	}
	a.OpenFn = one("OpenFn", m.fnsCalling(func(c *ssa.CallCommon) bool {
		f := c.StaticCallee()
		return f != nil && f.Pkg != nil && f.Pkg.Pkg.Path() == "database/sql" && f.Name() == "Open"
	}))
	a.ShutdownFn = one("ShutdownFn", m.fnsCalling(func(c *ssa.CallCommon) bool { return isMethodCall(c, "database/sql", "DB", "Close") }))
	// the shutdown routine may delegate the closing of the handle to a step of its own
	// (`_closeFeeds(); _closeHandle()`): an unexported, lock-free function with exactly one static
	// caller that is itself unexported and takes no lock is a step of that caller
	for depth := 0; depth < 3 && a.ShutdownFn != nil; depth++ {
		cur := a.ShutdownFn
		if cur.Object() != nil && cur.Object().Exported() {
			break
		}
		callers := m.staticCallersOf(cur)
		if len(callers) != 1 {
			break
		}
		g := callers[0].Parent()
		if g == nil || g.Parent() != nil || g == a.OpenFn || (g.Object() != nil && g.Object().Exported()) {
			break
		}
		locks := false
		for _, f := range []*ssa.Function{cur, g} {
			m.eachCall(f, func(c ssa.CallInstruction) {
				if t := c.Common().StaticCallee(); t != nil && t.Pkg != nil && t.Pkg.Pkg.Path() == "sync" {
					locks = true
				}
			})
		}
		if locks {
			break
		}
		a.ShutdownSteps = append(a.ShutdownSteps, cur)
		a.ShutdownFn = g
	}

	// closed flag: the bool field of the bucket loaded in the txn runner
	if a.TxnRunner != nil {
		seen := map[*types.Var]bool{}
		for _, cf := range a.TxnChain {
			for _, b := range cf.Blocks {
				for _, in := range b.Instrs {
					if fa, ok := in.(*ssa.FieldAddr); ok {
						f := fieldOf(fa)
						if f != nil && types.Identical(f.Type(), types.Typ[types.Bool]) && ownerIs(fa, a.BucketType) {
							seen[f] = true
						}
					}
				}
			}
		}
		if len(seen) == 1 {
			for f := range seen {
				a.ClosedField = f
			}
		} else {
			a.problem("ClosedField", "txn runner tests %d bool fields of the bucket (want exactly 1)", len(seen))
		}
	}

	// converter / event type
	var convs []*ssa.Function
	for _, fn := range m.Funcs {
		if fn.Parent() != nil || fn.Signature.Recv() == nil || fn.Origin() != nil || fn.Pkg != m.SSA {
			continue
		}
		res := fn.Signature.Results()
		if res.Len() == 1 && isPtrToNamed(res.At(0).Type(), sgbucketPath, "FeedEvent") {
			// a function from FeedEvent to FeedEvent adapts an event, it does not build one
			adapts := false
			for i := 0; i < fn.Signature.Params().Len(); i++ {
				t := fn.Signature.Params().At(i).Type()
				if isPtrToNamed(t, sgbucketPath, "FeedEvent") || isNamed(t, sgbucketPath, "FeedEvent") {
					adapts = true
				}
			}
			if adapts {
				continue
			}
			if p, ok := fn.Signature.Recv().Type().(*types.Pointer); ok {
				if n, ok := p.Elem().(*types.Named); ok && n.Obj().Pkg() == m.SSA.Pkg {
					convs = append(convs, fn)
				}
			}
		}
	}
	// a candidate that merely forwards to another candidate (and hands its result on) is a wrapper
	if len(convs) > 1 {
		isCand := map[*ssa.Function]bool{}
		for _, f := range convs {
			isCand[f] = true
		}
		var builders []*ssa.Function
		for _, f := range convs {
			forwards := false
			m.eachCall(f, func(c ssa.CallInstruction) {
				if g := c.Common().StaticCallee(); g != nil && g != f && isCand[g] {
					forwards = true
				}
			})
			if !forwards {
				builders = append(builders, f)
			}
		}
		if len(builders) == 1 {
			convs = builders
		}
	}
	a.Converter = one("Converter", convs)
	if a.Converter != nil {
		a.EventType = a.Converter.Signature.Recv().Type().(*types.Pointer).Elem().(*types.Named)
	}
	// thin wrappers of the converter: take the event, call the converter and hand its result on
	a.ConvWrappers = map[*ssa.Function]bool{}
	if a.Converter != nil {
		for _, fn := range m.Funcs {
			if fn.Parent() != nil || fn == a.Converter || fn.Signature.Results().Len() != 1 || !types.Identical(fn.Signature.Results().At(0).Type(), a.Converter.Signature.Results().At(0).Type()) {
				continue
			}
			m.eachCall(fn, func(c ssa.CallInstruction) {
				if c.Common().StaticCallee() == a.Converter {
					a.ConvWrappers[fn] = true
				}
			})
		}
	}
	// post function: takes *event and calls the converter
	if a.Converter != nil {
		var posts []*ssa.Function
		for _, fn := range m.Funcs {
			if fn.Parent() != nil || a.ConvWrappers[fn] {
				continue
			}
			takes := false
			for _, p := range fn.Params {
				if pt, ok := p.Type().(*types.Pointer); ok && pt.Elem() == a.EventType && p != fn.Params[0] {
					takes = true
				}
			}
			if !takes {
				continue
			}
			calls := false
			m.eachCall(fn, func(c ssa.CallInstruction) {
				if c.Common().StaticCallee() == a.Converter || a.ConvWrappers[c.Common().StaticCallee()] {
					calls = true
				}
			})
			if calls {
				posts = append(posts, fn)
			}
		}
		a.PostFn = one("PostFn", posts)
	}
	if a.PostFn != nil {
		var fan []*ssa.Function
		m.eachCall(a.PostFn, func(c ssa.CallInstruction) {
			f := c.Common().StaticCallee()
			if f == nil || !m.inPkg(f) {
				return
			}
			for _, p := range f.Params {
				if isPtrToNamed(p.Type(), sgbucketPath, "FeedEvent") {
					fan = append(fan, f)
				}
			}
		})
		a.FanoutFn = one("FanoutFn", fan)
	}

	// allocator wrapper and clock: the direct caller of the runner that has a parameter of a func type
	// returning the event type (the write callback), and the function value it hands to the runner
	if a.TxnRunner != nil && a.EventType != nil {
		var allocs []*ssa.Function
		for _, fn := range m.Funcs {
			if fn.Parent() != nil {
				continue
			}
			hasCb := false
			for _, p := range fn.Params {
				if sig, ok := p.Type().Underlying().(*types.Signature); ok && sig.Results().Len() > 0 {
					if pt, ok := sig.Results().At(0).Type().(*types.Pointer); ok && pt.Elem() == a.EventType {
						hasCb = true
					}
				}
			}
			if !hasCb {
				continue
			}
			m.eachCall(fn, func(c ssa.CallInstruction) {
				if callee := c.Common().StaticCallee(); callee != a.TxnRunner && !m.forwardsToRunner(callee) {
					return
				}
				for _, arg := range c.Common().Args {
					for _, t := range m.funcTargets(arg) {
						if m.inPkg(t) {
							a.Allocator, a.AllocClos = fn, t
							allocs = append(allocs, fn)
						}
					}
				}
			})
		}
		if len(allocs) != 1 {
			a.Allocator, a.AllocClos = nil, nil
			if len(allocs) == 0 {
				a.problem("Allocator", "no direct caller of the txn runner takes a write callback returning the event type")
			} else {
				a.problem("Allocator", "ambiguous CAS allocator wrappers: %s", names(allocs))
			}
		}
	}
	a.AllocOuter = a.AllocClos
	if a.AllocClos != nil {
		// the closure may delegate its body to a named function that is handed the callback
		invokesCb := func(f *ssa.Function) bool {
			found := false
			m.eachCall(f, func(cc ssa.CallInstruction) {
				if cc.Common().StaticCallee() != nil || cc.Common().IsInvoke() {
					return
				}
				if _, isB := cc.Common().Value.(*ssa.Builtin); isB {
					return
				}
				if sig, ok := cc.Common().Value.Type().Underlying().(*types.Signature); ok && sig.Results().Len() > 0 {
					if pt, ok := sig.Results().At(0).Type().(*types.Pointer); ok && pt.Elem() == a.EventType {
						found = true
					}
				}
			})
			return found
		}
		if !invokesCb(a.AllocClos) {
			var bodies []*ssa.Function
			m.eachCall(a.AllocClos, func(cc ssa.CallInstruction) {
				if f := cc.Common().StaticCallee(); f != nil && m.inPkg(f) && invokesCb(f) {
					bodies = append(bodies, f)
				}
			})
			if len(bodies) == 1 {
				a.AllocClos = bodies[0]
			}
		}
	}
	if a.AllocClos != nil {
		// the callback call: find the argument that is not the *sql.Tx; trace it to a call
		m.eachCall(a.AllocClos, func(cc ssa.CallInstruction) {
			if cc.Common().StaticCallee() != nil || cc.Common().IsInvoke() {
				return
			}
			if _, isB := cc.Common().Value.(*ssa.Builtin); isB {
				return
			}
			for _, arg := range cc.Common().Args {
				if isPtrToNamed(arg.Type(), "database/sql", "Tx") {
					continue
				}
				v, _ := m.resolve(arg, topFrame(a.AllocClos))
				v = stripConv(v)
				if call, ok := v.(*ssa.Call); ok {
					if f := call.Common().StaticCallee(); f != nil {
						a.ClockNow = f
						if len(call.Common().Args) > 0 {
							if ld, ok := call.Common().Args[0].(*ssa.UnOp); ok {
								if g, ok := ld.X.(*ssa.Global); ok {
									a.ClockGlobal = g
								}
							}
						}
					}
				}
			}
		})
		if a.ClockNow == nil {
			a.problem("ClockNow", "the CAS handed to the callback in %s is not the result of a call", a.AllocClos)
		} else if a.ClockNow.Signature.Recv() != nil {
			if p, ok := a.ClockNow.Signature.Recv().Type().(*types.Pointer); ok {
				a.ClockType, _ = p.Elem().(*types.Named)
			}
		}
		// mark helper: static package-local callee in the closure that receives the *sql.Tx
		var marks []*ssa.Function
		m.eachCall(a.AllocClos, func(cc ssa.CallInstruction) {
			f := cc.Common().StaticCallee()
			if f == nil || !m.inPkg(f) || f == a.ClockNow {
				return
			}
			for _, arg := range cc.Common().Args {
				if isPtrToNamed(arg.Type(), "database/sql", "Tx") {
					marks = append(marks, f)
				}
			}
		})
		if len(marks) == 1 { // optional: the mark statements may also sit in the closure itself
			a.MarkHelper = marks[0]
		}
	}

	// scan helper, pool accessors, expiry helpers, clone
	var scans, abs, nows, clones []*ssa.Function
	for _, fn := range m.Funcs {
		if fn.Parent() != nil || fn.Pkg != m.SSA {
			continue
		}
		sig := fn.Signature
		if sig.Recv() == nil && sig.Params().Len() == 2 && sig.Variadic() && isPtrToNamed(sig.Params().At(0).Type(), "database/sql", "Row") {
			scans = append(scans, fn)
		}
		if a.Queryable != nil && sig.Results().Len() == 1 && sig.Results().At(0).Type() == a.Queryable {
			a.PoolFns = append(a.PoolFns, fn)
		}
		if sig.Recv() == nil && sig.Params().Len() == 0 && sig.Results().Len() == 1 && types.Identical(sig.Results().At(0).Type(), types.Typ[types.Uint32]) {
			callsNow := false
			m.eachCall(fn, func(c ssa.CallInstruction) {
				if f := c.Common().StaticCallee(); f != nil && f.Pkg != nil && f.Pkg.Pkg.Path() == "time" && f.Name() == "Now" {
					callsNow = true
				}
			})
			if callsNow {
				nows = append(nows, fn)
			}
		}
		if sig.Recv() != nil && sig.Params().Len() == 0 && sig.Results().Len() == 1 {
			if p, ok := sig.Results().At(0).Type().(*types.Pointer); ok && p.Elem() == a.BucketType {
				if rp, ok := sig.Recv().Type().(*types.Pointer); ok && rp.Elem() == a.BucketType {
					clones = append(clones, fn)
				}
			}
		}
	}
	a.ScanHelper = one("ScanHelper", scans)
	a.NowAsExpiry = one("NowAsExpiry", nows)
	a.CloneFn = one("CloneFn", clones)
	if a.NowAsExpiry != nil {
		for _, fn := range m.Funcs {
			if fn.Parent() != nil || fn.Pkg != m.SSA {
				continue
			}
			sig := fn.Signature
			if sig.Recv() == nil && sig.Params().Len() == 1 && sig.Results().Len() == 1 &&
				types.Identical(sig.Params().At(0).Type(), types.Typ[types.Uint32]) && types.Identical(sig.Results().At(0).Type(), types.Typ[types.Uint32]) {
				calls := false
				m.eachCall(fn, func(c ssa.CallInstruction) {
					if c.Common().StaticCallee() == a.NowAsExpiry {
						calls = true
					}
				})
				if calls {
					abs = append(abs, fn)
				}
			}
		}
		a.AbsExpiry = one("AbsExpiry", abs)
	}
	if len(a.PoolFns) == 0 {
		a.problem("PoolFns", "no function returns the queryable interface")
	}
	if a.CollectionType != nil {
		s1 := m.lookupMethod(a.CollectionType.Obj().Name(), "SetWithMeta")
		s2 := m.lookupMethod(a.CollectionType.Obj().Name(), "DeleteWithMeta")
		if s1 != nil && s2 != nil {
			c1 := map[*ssa.Function]bool{}
			m.eachCall(s1, func(c ssa.CallInstruction) {
				if f := c.Common().StaticCallee(); f != nil && m.inPkg(f) {
					c1[f] = true
				}
			})
			m.eachCall(s2, func(c ssa.CallInstruction) {
				if f := c.Common().StaticCallee(); f != nil && c1[f] {
					a.WithMetaFn = f
				}
			})
		}
	}
	_ = pkgPath
	return nil
}

// derivesFromParam reports whether v (a value inside closure clos, nested in fn) is a load
// of a captured variable that holds one of fn's func-typed parameters.
func (m *Model) derivesFromParam(v ssa.Value, clos, fn *ssa.Function) bool {
	v = stripConv(v)
	if ld, ok := v.(*ssa.UnOp); ok {
		v = ld.X
	}
	fv, ok := v.(*ssa.FreeVar)
	if !ok {
		return false
	}
	// find binding
	for i, x := range clos.FreeVars {
		if x != fv {
			continue
		}
		for _, b := range fn.Blocks {
			for _, in := range b.Instrs {
				if mc, ok := in.(*ssa.MakeClosure); ok && mc.Fn == clos {
					bind := mc.Bindings[i]
					if p, ok := bind.(*ssa.Parameter); ok {
						_, isFunc := p.Type().Underlying().(*types.Signature)
						return isFunc
					}
					if al, ok := bind.(*ssa.Alloc); ok {
						for _, ref := range *al.Referrers() {
							if st, ok := ref.(*ssa.Store); ok && st.Addr == al {
								if p, ok := st.Val.(*ssa.Parameter); ok {
									_, isFunc := p.Type().Underlying().(*types.Signature)
									return isFunc
								}
							}
						}
					}
				}
			}
		}
	}
	return false
}

// stripConv removes value-preserving wrappers.
func stripConv(v ssa.Value) ssa.Value {
	for {
		switch x := v.(type) {
		case *ssa.ChangeType:
			v = x.X
		case *ssa.Convert:
			v = x.X
		case *ssa.MakeInterface:
			v = x.X
		case *ssa.ChangeInterface:
			v = x.X
		default:
			return v
		}
	}
}

// fieldOf returns the struct field addressed by a FieldAddr.
func fieldOf(fa *ssa.FieldAddr) *types.Var {
	t := fa.X.Type()
	if p, ok := t.Underlying().(*types.Pointer); ok {
		t = p.Elem()
	}
	st, ok := t.Underlying().(*types.Struct)
	if !ok {
		return nil
	}
	return st.Field(fa.Field)
}

func fieldOfField(f *ssa.Field) *types.Var {
	st, ok := f.X.Type().Underlying().(*types.Struct)
	if !ok {
		return nil
	}
	return st.Field(f.Field)
}

// ownerIs reports whether the FieldAddr addresses a field of the given named struct type.
func ownerIs(fa *ssa.FieldAddr, named *types.Named) bool {
	t := fa.X.Type()
	if p, ok := t.Underlying().(*types.Pointer); ok {
		t = p.Elem()
	}
	if t == named {
		return true
	}
	// a field of a struct that is itself a (possibly embedded) struct-valued field of `named`
	if inner, ok := stripConv(fa.X).(*ssa.FieldAddr); ok {
		if f := fieldOf(inner); f != nil {
			if _, isStruct := f.Type().Underlying().(*types.Struct); isStruct {
				return ownerIs(inner, named)
			}
		}
	}
	return false
}

// AnchorReport lists resolved anchors for the evidence.
func (m *Model) AnchorReport() map[string]string {
	out := map[string]string{}
	fn := func(k string, f *ssa.Function) {
		if f != nil {
			out[k] = m.declName(f) + " @ " + m.pos(f.Pos())
		}
	}
	a := &m.A
	fn("txn_runner", a.TxnRunner)
	fn("cas_allocator", a.Allocator)
	fn("clock_now", a.ClockNow)
	fn("mark_helper", a.MarkHelper)
	fn("event_converter", a.Converter)
	fn("post_fn", a.PostFn)
	fn("fanout_fn", a.FanoutFn)
	fn("scan_helper", a.ScanHelper)
	fn("abs_expiry", a.AbsExpiry)
	fn("clone_fn", a.CloneFn)
	fn("open_fn", a.OpenFn)
	fn("shutdown_fn", a.ShutdownFn)
	v := func(k string, f *types.Var) {
		if f != nil {
			out[k] = f.Name()
		}
	}
	v("bucket.db", a.DBField)
	v("bucket.closed", a.ClosedField)
	v("bucket.feeds", a.FeedsField)
	v("bucket.mutex", a.BucketMutex)
	v("collection.id", a.CollIDField)
	if a.BucketType != nil {
		out["bucket_type"] = a.BucketType.Obj().Name()
	}
	if a.CollectionType != nil {
		out["collection_type"] = a.CollectionType.Obj().Name()
	}
	if a.EventType != nil {
		out["event_type"] = a.EventType.Obj().Name()
	}
	var pools []string
	for _, f := range a.PoolFns {
		pools = append(pools, m.declName(f))
	}
	sort.Strings(pools)
	out["pool_accessors"] = strings.Join(pools, ", ")
	for k, p := range a.Problems {
		out["UNRESOLVED:"+k] = p
	}
	return out
}

// forwardsToRunner: f is a thin wrapper that hands its own function-typed parameter to the
// transaction runner (see runnerForwarders; usable before the allocator anchor is known).
func (m *Model) forwardsToRunner(f *ssa.Function) bool {
	if f == nil || f.Parent() != nil || len(f.Blocks) == 0 || m.A.TxnRunner == nil {
		return false
	}
	found := false
	m.eachCall(f, func(c ssa.CallInstruction) {
		if c.Common().StaticCallee() != m.A.TxnRunner {
			return
		}
		for _, arg := range c.Common().Args {
			if p, ok := arg.(*ssa.Parameter); ok && p.Parent() == f {
				if _, isFn := p.Type().Underlying().(*types.Signature); isFn {
					found = true
				}
			}
		}
	})
	return found
}

// flatField: a leaf field of a struct with struct-valued fields flattened one level; idx is the
// field index used in locations (nested: nestIdx(outer, inner)).
type flatField struct {
	v   *types.Var
	idx int
}

func nestIdx(outer, inner int) int { return (outer+1)*1024 + inner }

func flatFields(st *types.Struct) []flatField {
	var out []flatField
	for i := 0; i < st.NumFields(); i++ {
		f := st.Field(i)
		if in, ok := f.Type().Underlying().(*types.Struct); ok && f.Pkg() != nil && in.NumFields() > 0 && sameNamedPkg(f) {
			for j := 0; j < in.NumFields(); j++ {
				out = append(out, flatField{in.Field(j), nestIdx(i, j)})
			}
			continue
		}
		out = append(out, flatField{f, i})
	}
	return out
}

// sameNamedPkg: the field's struct type is declared in the field's own package (time.Time and
// the like stay leaves).
func sameNamedPkg(f *types.Var) bool {
	n, ok := f.Type().(*types.Named)
	if !ok {
		return true // anonymous struct type
	}
	return n.Obj().Pkg() == f.Pkg()
}
