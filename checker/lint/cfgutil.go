package lint

import (
	"go/token"
	"go/types"

	"golang.org/x/tools/go/ssa"
)

// edge is a CFG edge identified by block indices.
type edge struct{ from, to int }

// cut describes a CFG with some edges and blocks removed.
type cut struct {
	edges  map[edge]bool
	blocks map[int]bool
	// triples: (pred, blk, succ): the transfer blk->succ is removed for control that entered
	// blk from pred. Used for If blocks whose condition is a phi of values computed in the
	// predecessors (go/ssa's form of tag-less switch cases and of conditions kept in variables).
	triples map[[3]int]bool
}

func newCut() *cut {
	return &cut{edges: map[edge]bool{}, blocks: map[int]bool{}, triples: map[[3]int]bool{}}
}

// phiIf returns the phi that is the condition of the block's If, if the block is such a
// "threaded" decision block.
func phiIf(b *ssa.BasicBlock) (*ssa.Phi, *ssa.If) {
	if len(b.Instrs) == 0 {
		return nil, nil
	}
	iff, ok := b.Instrs[len(b.Instrs)-1].(*ssa.If)
	if !ok {
		return nil, nil
	}
	v := iff.Cond
	for {
		if u, ok := v.(*ssa.UnOp); ok && u.Op == token.NOT {
			v = u.X
			continue
		}
		break
	}
	phi, ok := v.(*ssa.Phi)
	if !ok || phi.Block() != b {
		return nil, nil
	}
	return phi, iff
}

// constBoolOutcome: if entering blk from its i-th predecessor fixes the If's outcome, which successor is taken?
func constBoolOutcome(b *ssa.BasicBlock, predIdx int) (*ssa.BasicBlock, bool) {
	phi, iff := phiIf(b)
	if phi == nil || predIdx < 0 || predIdx >= len(phi.Edges) {
		return nil, false
	}
	c, ok := phi.Edges[predIdx].(*ssa.Const)
	if !ok || c.Value == nil {
		return nil, false
	}
	val := c.Value.String() == "true"
	// negations between the phi and the If
	v := iff.Cond
	for {
		if u, ok := v.(*ssa.UnOp); ok && u.Op == token.NOT {
			val = !val
			v = u.X
			continue
		}
		break
	}
	if val {
		return b.Succs[0], true
	}
	return b.Succs[1], true
}

func (c *cut) cutEdge(from, to *ssa.BasicBlock) { c.edges[edge{from.Index, to.Index}] = true }
func (c *cut) cutBlock(b *ssa.BasicBlock)       { c.blocks[b.Index] = true }

// reachableFrom returns the set of block indices reachable from `from` (inclusive) without
// crossing cut edges or entering cut blocks.
func reachableFrom(from *ssa.BasicBlock, c *cut) map[int]bool {
	seen := map[int]bool{}
	if c != nil && c.blocks[from.Index] {
		return seen
	}
	// state = (block, predecessor index) for threaded decision blocks, (block, -1) otherwise
	type state struct{ b, p int }
	visited := map[state]bool{}
	type item struct {
		b *ssa.BasicBlock
		p int // index into b.Preds, or -1
	}
	stack := []item{{from, -1}}
	visited[state{from.Index, -1}] = true
	seen[from.Index] = true
	for len(stack) > 0 {
		it := stack[len(stack)-1]
		stack = stack[:len(stack)-1]
		b := it.b
		forced, isForced := (*ssa.BasicBlock)(nil), false
		if it.p >= 0 {
			forced, isForced = constBoolOutcome(b, it.p)
		}
		for _, s := range b.Succs {
			if isForced && s != forced {
				continue
			}
			if c != nil && (c.edges[edge{b.Index, s.Index}] || c.blocks[s.Index]) {
				continue
			}
			if c != nil && it.p >= 0 && c.triples[[3]int{b.Preds[it.p].Index, b.Index, s.Index}] {
				continue
			}
			// entering s from b: remember which predecessor when s is a threaded decision block
			pi := -1
			if phi, _ := phiIf(s); phi != nil {
				for i, p := range s.Preds {
					if p == b {
						pi = i
					}
				}
			}
			st := state{s.Index, pi}
			if !visited[st] {
				visited[st] = true
				seen[s.Index] = true
				stack = append(stack, item{s, pi})
			}
		}
	}
	return seen
}

func entryReach(fn *ssa.Function, c *cut) map[int]bool {
	if len(fn.Blocks) == 0 {
		return map[int]bool{}
	}
	return reachableFrom(fn.Blocks[0], c)
}

// instrReachable: can control flow get from instruction a to instruction b (a strictly
// before b if they share a block, unless the block is in a cycle)?
func instrReachable(a, b ssa.Instruction, c *cut) bool {
	ba, bb := a.Block(), b.Block()
	if ba == bb {
		ia, ib := indexIn(ba, a), indexIn(bb, b)
		if ia < ib {
			return true
		}
		// needs a cycle through the block
		for _, s := range ba.Succs {
			if c != nil && (c.edges[edge{ba.Index, s.Index}] || c.blocks[s.Index]) {
				continue
			}
			if reachableFrom(s, c)[bb.Index] {
				return true
			}
		}
		return false
	}
	for _, s := range ba.Succs {
		if c != nil && (c.edges[edge{ba.Index, s.Index}] || c.blocks[s.Index]) {
			continue
		}
		if reachableFrom(s, c)[bb.Index] {
			return true
		}
	}
	return false
}

func indexIn(b *ssa.BasicBlock, in ssa.Instruction) int {
	for i, x := range b.Instrs {
		if x == in {
			return i
		}
	}
	return -1
}

// ---- conditions ----

// cond is a normalised branch condition: X op Y, where op is one of == != < <= > >=, or a
// plain boolean value (op "" and Y nil). trueSucc/falseSucc are the successors of the If.
type cond struct {
	If   *ssa.If
	Op   token.Token // EQL, NEQ, LSS, LEQ, GTR, GEQ, or ILLEGAL for a bare boolean
	X, Y ssa.Value
	Neg  bool // the boolean was negated (!x)
}

func condOf(iff *ssa.If) cond {
	c := cond{If: iff}
	v := iff.Cond
	for {
		if u, ok := v.(*ssa.UnOp); ok && u.Op == token.NOT {
			c.Neg = !c.Neg
			v = u.X
			continue
		}
		break
	}
	if b, ok := v.(*ssa.BinOp); ok {
		switch b.Op {
		case token.EQL, token.NEQ, token.LSS, token.LEQ, token.GTR, token.GEQ:
			c.Op, c.X, c.Y = b.Op, b.X, b.Y
			return c
		}
	}
	c.X = v
	return c
}

// succWhen returns the successor taken when the (un-negated) comparison X op Y evaluates
// to `outcome`.
func (c cond) succWhen(outcome bool) *ssa.BasicBlock {
	if c.Neg {
		outcome = !outcome
	}
	if outcome {
		return c.If.Block().Succs[0]
	}
	return c.If.Block().Succs[1]
}

// equalEdge returns the successor taken when X == Y holds (for == and != conditions).
func (c cond) equalEdge() (*ssa.BasicBlock, bool) {
	switch c.Op {
	case token.EQL:
		return c.succWhen(true), true
	case token.NEQ:
		return c.succWhen(false), true
	}
	return nil, false
}

func isNilConst(v ssa.Value) bool {
	c, ok := v.(*ssa.Const)
	return ok && c.Value == nil && !isBasic(c.Type())
}

func isBasic(t types.Type) bool {
	_, ok := t.Underlying().(*types.Basic)
	return ok
}

func isZeroConst(v ssa.Value) bool {
	c, ok := stripConv(v).(*ssa.Const)
	if !ok || c.Value == nil {
		return false
	}
	if b, ok := c.Type().Underlying().(*types.Basic); ok && b.Info()&types.IsInteger != 0 {
		return c.Int64() == 0 || c.Uint64() == 0
	}
	return false
}

// allIfs lists the If instructions of a function.
func allIfs(fn *ssa.Function) []*ssa.If {
	var out []*ssa.If
	for _, b := range fn.Blocks {
		if len(b.Instrs) == 0 {
			continue
		}
		if iff, ok := b.Instrs[len(b.Instrs)-1].(*ssa.If); ok {
			out = append(out, iff)
		}
	}
	return out
}

// returns lists the Return instructions of a function (excluding the recover block's).
func returnsOf(fn *ssa.Function) []*ssa.Return {
	var out []*ssa.Return
	for _, b := range fn.Blocks {
		if b == fn.Recover {
			continue
		}
		if len(b.Instrs) == 0 {
			continue
		}
		if r, ok := b.Instrs[len(b.Instrs)-1].(*ssa.Return); ok {
			out = append(out, r)
		}
	}
	return out
}

// ---- post-dominators ----

// postDominators computes, for each block, the set of blocks that post-dominate it
// (every path from the block to a function exit passes through them).
func postDominators(fn *ssa.Function) []map[int]bool {
	n := len(fn.Blocks)
	pd := make([]map[int]bool, n)
	exits := map[int]bool{}
	for _, b := range fn.Blocks {
		if len(b.Succs) == 0 {
			exits[b.Index] = true
		}
	}
	all := map[int]bool{}
	for i := 0; i < n; i++ {
		all[i] = true
	}
	for i := 0; i < n; i++ {
		if exits[i] {
			pd[i] = map[int]bool{i: true}
		} else {
			cp := map[int]bool{}
			for k := range all {
				cp[k] = true
			}
			pd[i] = cp
		}
	}
	changed := true
	for changed {
		changed = false
		for i := n - 1; i >= 0; i-- {
			b := fn.Blocks[i]
			if exits[i] {
				continue
			}
			var inter map[int]bool
			for _, s := range b.Succs {
				if inter == nil {
					inter = map[int]bool{}
					for k := range pd[s.Index] {
						inter[k] = true
					}
				} else {
					for k := range inter {
						if !pd[s.Index][k] {
							delete(inter, k)
						}
					}
				}
			}
			if inter == nil {
				inter = map[int]bool{}
			}
			inter[i] = true
			if len(inter) != len(pd[i]) {
				pd[i] = inter
				changed = true
			}
		}
	}
	return pd
}

// controllingConds returns the If instructions on which block b is control dependent,
// transitively up to the entry: an If controls b when b post-dominates one of the If's
// successors (or is it) but does not post-dominate the If's block. The bool is the branch
// outcome (true successor = true) leading to b.
type ctrl struct {
	If     *ssa.If
	Branch bool
}

func controllingConds(fn *ssa.Function, b *ssa.BasicBlock) []ctrl {
	pd := postDominators(fn)
	var out []ctrl
	seen := map[*ssa.BasicBlock]bool{}
	var visit func(x *ssa.BasicBlock)
	visit = func(x *ssa.BasicBlock) {
		if seen[x] {
			return
		}
		seen[x] = true
		for _, iff := range allIfs(fn) {
			ib := iff.Block()
			if pd[ib.Index][x.Index] && ib != x {
				continue // x post-dominates the If: not controlled by it
			}
			for si, s := range ib.Succs {
				if s == x || pd[s.Index][x.Index] {
					if ib == x {
						continue
					}
					out = append(out, ctrl{iff, si == 0})
					visit(ib)
				}
			}
		}
	}
	visit(b)
	return out
}

// mustPassThrough: does every path from the entry to any normal return pass through one
// of the given blocks (or one of the exempt edges)? Decided by deleting them and testing
// whether a return is still reachable.
func mustPassThrough(fn *ssa.Function, through []*ssa.BasicBlock, exempt *cut) (bool, *ssa.Return) {
	c := newCut()
	if exempt != nil {
		for e := range exempt.edges {
			c.edges[e] = true
		}
		for b := range exempt.blocks {
			c.blocks[b] = true
		}
	}
	for _, b := range through {
		c.cutBlock(b)
	}
	reach := entryReach(fn, c)
	for _, r := range returnsOf(fn) {
		if reach[r.Block().Index] {
			return false, r
		}
	}
	return true, nil
}

// decision is one branch decision of a function: an If, seen from any predecessor, or (for
// a threaded decision block) from one particular predecessor with that predecessor's value.
type decision struct {
	If   *ssa.If
	Pred *ssa.BasicBlock // nil: any predecessor
	C    cond
}

func condOfValue(v ssa.Value, iff *ssa.If) cond {
	c := cond{If: iff}
	for {
		if u, ok := v.(*ssa.UnOp); ok && u.Op == token.NOT {
			c.Neg = !c.Neg
			v = u.X
			continue
		}
		break
	}
	if b, ok := v.(*ssa.BinOp); ok {
		switch b.Op {
		case token.EQL, token.NEQ, token.LSS, token.LEQ, token.GTR, token.GEQ:
			c.Op, c.X, c.Y = b.Op, b.X, b.Y
			return c
		}
	}
	c.X = v
	return c
}

// decisions lists the branch decisions of fn. Conditions held in cells (captured or local
// variables) are resolved to the comparison that was stored, through `resolve`.
func (m *Model) decisions(fn *ssa.Function, fr *frame) []decision {
	var out []decision
	norm := func(cd cond, iff *ssa.If) cond {
		if cd.Op == token.ILLEGAL && cd.X != nil {
			rv, _ := m.resolve(cd.X, fr)
			if rv != cd.X {
				inner := condOfValue(rv, iff)
				if cd.Neg {
					inner.Neg = !inner.Neg
				}
				return inner
			}
		}
		return cd
	}
	for _, iff := range allIfs(fn) {
		if phi, _ := phiIf(iff.Block()); phi != nil {
			// negations between phi and If
			neg := false
			v := iff.Cond
			for {
				if u, ok := v.(*ssa.UnOp); ok && u.Op == token.NOT {
					neg = !neg
					v = u.X
					continue
				}
				break
			}
			for i, e := range phi.Edges {
				if _, isConst := e.(*ssa.Const); isConst {
					continue // outcome fixed; handled by reachability itself
				}
				cd := condOfValue(e, iff)
				if neg {
					cd.Neg = !cd.Neg
				}
				out = append(out, decision{iff, iff.Block().Preds[i], norm(cd, iff)})
			}
			continue
		}
		out = append(out, decision{iff, nil, norm(condOf(iff), iff)})
	}
	return out
}

// cutSucc removes, from this decision, the transfer to successor s.
func (d decision) cutSucc(c *cut, s *ssa.BasicBlock) {
	b := d.If.Block()
	if d.Pred == nil {
		c.cutEdge(b, s)
		return
	}
	c.triples[[3]int{d.Pred.Index, b.Index, s.Index}] = true
}

// cutEqual / cutNotEqual remove the edge taken when X == Y holds / does not hold.
func (d decision) cutEqual(c *cut) bool {
	eq, ok := d.C.equalEdge()
	if !ok {
		return false
	}
	d.cutSucc(c, eq)
	return true
}

func (d decision) cutNotEqual(c *cut) bool {
	eq, ok := d.C.equalEdge()
	if !ok {
		return false
	}
	for _, s := range d.If.Block().Succs {
		if s != eq {
			d.cutSucc(c, s)
		}
	}
	return true
}
