// Package lint is the rosmar-specific static checker: it loads /repo's current source,
// builds SSA and call graphs, extracts and parses every embedded SQL statement, and
// evaluates the rule catalogue of DESIGN.md section 4.
package lint

import (
	"fmt"
	"go/token"
	"go/types"
	"os"
	"path/filepath"
	"sort"
	"strings"
	"time"

	"golang.org/x/tools/go/callgraph"
	"golang.org/x/tools/go/callgraph/cha"
	"golang.org/x/tools/go/callgraph/vta"
	"golang.org/x/tools/go/packages"
	"golang.org/x/tools/go/ssa"
	"golang.org/x/tools/go/ssa/ssautil"

	"rosmarlint/sqlp"
)

// Model is everything the rules look at.
type Model struct {
	RepoDir string
	Fset    *token.FileSet
	Pkg     *packages.Package
	Prog    *ssa.Program
	SSA     *ssa.Package
	Funcs   []*ssa.Function // every function of the package incl. closures and instantiations, sorted by position
	CHA     *callgraph.Graph
	VTA     *callgraph.Graph
	CG      *callgraph.Graph // the graph rules use (VTA unless -cha)

	guardAcc []guardVerdict // R-GUARDED: per-access verdicts, grouped before being reported

	Schema *Schema
	Sites  []*SQLSite

	// anchors resolved by role
	A Anchors

	// caches
	rd            map[*ssa.Function]*reachDefs
	strMemo       map[strKey][]string
	Stats         map[string]int
	LoadSeconds   float64
	fwCache       map[*ssa.Function]runnerForwarder
	calleeCache   map[*ssa.Function][]callEdge
	lm            *lockModel
	hoCache       map[*ssa.Function]map[int]bool
	helperHeld    map[*ssa.Function]lockset
	wrapperCache  map[*ssa.Function]wrapperInfo
	relWrapperCache map[*ssa.Function]wrapperInfo
	docWriteCache []*docWrite
}

// Load type-checks and builds the model. Any type error fails the load.
func Load(repoDir string, useCHA bool) (*Model, error) {
	t0 := time.Now()
	abs, err := filepath.Abs(repoDir)
	if err != nil {
		return nil, err
	}
	cfg := &packages.Config{
		Mode:  packages.LoadAllSyntax | packages.NeedModule,
		Dir:   abs,
		Tests: false,
		Env: append(os.Environ(), "GOFLAGS=-mod=mod", "GOPROXY=off", "GOSUMDB=off", "GOWORK=off",
			"GOTOOLCHAIN=local", "CGO_ENABLED=1"),
	}
	pkgs, err := packages.Load(cfg, ".")
	if err != nil {
		return nil, fmt.Errorf("packages.Load: %w", err)
	}
	if len(pkgs) != 1 {
		return nil, fmt.Errorf("expected exactly one root package in %s, got %d", abs, len(pkgs))
	}
	root := pkgs[0]
	var errs []string
	packages.Visit(pkgs, nil, func(p *packages.Package) {
		for _, e := range p.Errors {
			errs = append(errs, e.Error())
		}
	})
	if len(errs) > 0 {
		return nil, fmt.Errorf("type/load errors (the checker refuses to analyse a tree that does not build):\n  %s", strings.Join(errs, "\n  "))
	}
	if len(root.Syntax) == 0 {
		return nil, fmt.Errorf("root package has no syntax")
	}
	prog, ssaPkgs := ssautil.AllPackages(pkgs, ssa.InstantiateGenerics)
	prog.Build()
	m := &Model{
		RepoDir:      abs,
		Fset:         root.Fset,
		Pkg:          root,
		Prog:         prog,
		SSA:          ssaPkgs[0],
		rd:           map[*ssa.Function]*reachDefs{},
		strMemo:      map[strKey][]string{},
		Stats:        map[string]int{},
		calleeCache:  map[*ssa.Function][]callEdge{},
		hoCache:      map[*ssa.Function]map[int]bool{},
		helperHeld:   map[*ssa.Function]lockset{},
		wrapperCache: map[*ssa.Function]wrapperInfo{},
	}
	if m.SSA == nil {
		return nil, fmt.Errorf("no SSA package for root")
	}
	fieldPtrMemo := map[*types.Var]bool{}
	fieldPointerWritten = func(f *types.Var) bool {
		if v, ok := fieldPtrMemo[f]; ok {
			return v
		}
		fieldPtrMemo[f] = true // cycles: conservative
		written := false
		for _, g := range m.Funcs {
			for _, b := range g.Blocks {
				for _, ins := range b.Instrs {
					switch x := ins.(type) {
					case *ssa.FieldAddr:
						if fieldOf(x) != f || x.Referrers() == nil {
							continue
						}
						for _, ref := range *x.Referrers() {
							if ld, ok := ref.(*ssa.UnOp); ok && ld.Op == token.MUL {
								if pointerWritten(ld, 0, map[ssa.Value]bool{}) {
									written = true
								}
							}
						}
					case *ssa.Field:
						if fieldOfField(x) == f && pointerWritten(x, 0, map[ssa.Value]bool{}) {
							written = true
						}
					}
				}
			}
		}
		fieldPtrMemo[f] = written
		return written
	}
	all := ssautil.AllFunctions(prog)
	for fn := range all {
		if m.inPkg(fn) {
			m.Funcs = append(m.Funcs, fn)

		}
	}
	sort.Slice(m.Funcs, func(i, j int) bool {
		pi, pj := m.Funcs[i].Pos(), m.Funcs[j].Pos()
		if pi != pj {
			return pi < pj
		}
		return m.Funcs[i].String() < m.Funcs[j].String()
	})
	m.CHA = cha.CallGraph(prog)
	m.VTA = vta.CallGraph(all, m.CHA)
	if useCHA {
		m.CG = m.CHA
	} else {
		m.CG = m.VTA
	}
	m.Stats["packages_loaded"] = countPkgs(pkgs)
	m.Stats["functions"] = len(m.Funcs)
	if err := m.loadSchema(); err != nil {
		return nil, err
	}
	if err := m.resolveAnchors(); err != nil {
		return nil, err
	}
	m.collectSites()
	m.LoadSeconds = time.Since(t0).Seconds()
	return m, nil
}

func countPkgs(pkgs []*packages.Package) int {
	n := 0
	packages.Visit(pkgs, nil, func(*packages.Package) { n++ })
	return n
}

// inPkg reports whether fn belongs to the analysed package (declared functions, methods,
// closures nested in them, and instantiations of its generic functions).
func (m *Model) inPkg(fn *ssa.Function) bool {
	if fn.Synthetic != "" && fn.Pkg == nil && fn.Object() != nil && fn.Object().Pkg() == m.SSA.Pkg {
		return true // bound-method closures and thunks of this package's methods
	}
	for f := fn; f != nil; f = f.Parent() {
		if f.Pkg == m.SSA {
			return true
		}
		if o := f.Origin(); o != nil && o.Pkg == m.SSA {
			return true
		}
	}
	return false
}

// declName names a function by its enclosing declared function (closures are not
// numbered, so that keys survive the insertion of another closure).
func (m *Model) declName(fn *ssa.Function) string {
	if fn == nil {
		return "<package>"
	}
	root := fn
	depth := 0
	for root.Parent() != nil {
		root = root.Parent()
		depth++
	}
	// functions that play a fixed role are named by that role, so that obligation keys (and
	// the known-findings file that matches them) survive a rename of an unexported helper
	if role := m.roleOf(root); role != "" {
		if depth > 0 {
			return role + "$closure"
		}
		return role
	}
	// an unexported helper whose only caller plays a role is named after that role (extracting
	// part of an anchor function into a helper must not rename the obligations about that part)
	if root.Object() != nil && !root.Object().Exported() && root.Signature.Recv() != nil || root.Object() != nil && !root.Object().Exported() {
		if node := m.CG.Nodes[root]; node != nil {
			var callers []*ssa.Function
			seen := map[*ssa.Function]bool{}
			for _, e := range node.In {
				if e.Site != nil && e.Site.Common().StaticCallee() == root && !seen[e.Caller.Func] {
					seen[e.Caller.Func] = true
					callers = append(callers, e.Caller.Func)
				}
			}
			if len(callers) == 1 {
				if role := m.roleOf(rootOf(callers[0])); role != "" {
					if depth > 0 {
						return role + "$closure"
					}
					return role
				}
			}
		}
	}
	name := root.String()
	if o := root.Origin(); o != nil {
		name = o.String()
	}
	name = strings.TrimPrefix(name, m.SSA.Pkg.Path()+".")
	name = strings.ReplaceAll(name, m.SSA.Pkg.Path()+".", "")
	if depth > 0 {
		name += "$closure"
	}
	return name
}

// rootOf returns the outermost enclosing declared function.
func rootOf(fn *ssa.Function) *ssa.Function {
	for fn.Parent() != nil {
		fn = fn.Parent()
	}
	return fn
}

func (m *Model) pos(p token.Pos) string {
	if !p.IsValid() {
		return "?"
	}
	pp := m.Fset.Position(p)
	rel, err := filepath.Rel(m.RepoDir, pp.Filename)
	if err != nil {
		rel = pp.Filename
	}
	return fmt.Sprintf("%s:%d", rel, pp.Line)
}

func (m *Model) instrPos(i ssa.Instruction) string {
	if i == nil {
		return "?"
	}
	if p := i.Pos(); p.IsValid() {
		return m.pos(p)
	}
	// fall back to the nearest positioned instruction in the block, then the function
	if b := i.Block(); b != nil {
		for _, x := range b.Instrs {
			if x.Pos().IsValid() {
				return m.pos(x.Pos())
			}
		}
	}
	return m.pos(i.Parent().Pos())
}

// funcByRole helpers -------------------------------------------------------

// lookupMethod finds a method of a named type in the package by receiver type name and
// method name (used only for exported API names and schema-level slots).
func (m *Model) lookupMethod(typeName, method string) *ssa.Function {
	obj := m.SSA.Pkg.Scope().Lookup(typeName)
	if obj == nil {
		return nil
	}
	named, ok := obj.Type().(*types.Named)
	if !ok {
		return nil
	}
	for _, t := range []types.Type{named, types.NewPointer(named)} {
		sel := m.Prog.MethodSets.MethodSet(t).Lookup(m.SSA.Pkg, method)
		if sel != nil {
			return m.Prog.MethodValue(sel)
		}
	}
	return nil
}

func (m *Model) namedType(name string) *types.Named {
	obj := m.SSA.Pkg.Scope().Lookup(name)
	if obj == nil {
		return nil
	}
	n, _ := obj.Type().(*types.Named)
	return n
}

// Schema model ----------------------------------------------------------------

type Table struct {
	Name    string
	Columns map[string]*sqlp.ColumnDef // lower-case name
	Order   []string
	Uniques [][]string
}

type Schema struct {
	Tables map[string]*Table // lower-case
	Stmts  []*sqlp.Stmt
	File   string
}

func (s *Schema) Table(name string) *Table { return s.Tables[strings.ToLower(name)] }

func (t *Table) Col(name string) *sqlp.ColumnDef {
	if t == nil {
		return nil
	}
	return t.Columns[strings.ToLower(name)]
}

// loadSchema finds the embedded schema script through the //go:embed directive of a
// package-level string variable and parses it.
func (m *Model) loadSchema() error {
	var file string
	for _, f := range m.Pkg.Syntax {
		for _, cg := range f.Comments {
			for _, c := range cg.List {
				if strings.HasPrefix(c.Text, "//go:embed ") {
					name := strings.TrimSpace(strings.TrimPrefix(c.Text, "//go:embed "))
					if strings.HasSuffix(name, ".sql") {
						file = filepath.Join(m.RepoDir, name)
					}
				}
			}
		}
	}
	if file == "" {
		return fmt.Errorf("anchor unresolved: no //go:embed *.sql schema script found")
	}
	src, err := os.ReadFile(file)
	if err != nil {
		return err
	}
	stmts, err := sqlp.ParseScript(string(src))
	if err != nil {
		return fmt.Errorf("schema %s: %w", file, err)
	}
	sc := &Schema{Tables: map[string]*Table{}, Stmts: stmts, File: file}
	for _, st := range stmts {
		if st.Kind == sqlp.SCreateTable {
			t := &Table{Name: st.Table, Columns: map[string]*sqlp.ColumnDef{}, Uniques: st.Uniques}
			for i := range st.Columns {
				c := &st.Columns[i]
				t.Columns[strings.ToLower(c.Name)] = c
				t.Order = append(t.Order, c.Name)
			}
			sc.Tables[strings.ToLower(st.Table)] = t
		}
	}
	if len(sc.Tables) == 0 {
		return fmt.Errorf("schema %s declares no tables", file)
	}
	m.Schema = sc
	return nil
}

// roleOf names the anchor functions by what they do.
func (m *Model) roleOf(fn *ssa.Function) string {
	a := &m.A
	switch fn {
	case nil:
		return ""
	case a.TxnRunner:
		return "<txn-runner>"
	case a.Allocator:
		return "<cas-allocator>"
	case a.PostFn:
		return "<post-event>"
	case a.FanoutFn:
		return "<fan-out>"
	case a.Converter:
		return "<event-converter>"
	case a.ShutdownFn:
		return "<shutdown-routine>"
	case a.CloneFn:
		return "<handle-copy>"
	case a.ClockNow:
		return "<clock-now>"
	case a.AbsExpiry:
		return "<offset-to-absolute>"
	case a.WithMetaFn:
		return "<with-meta-writer>"
	}
	return ""
}
