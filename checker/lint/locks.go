package lint

import (
	"go/types"
	"sort"
	"strings"

	"golang.org/x/tools/go/ssa"
)

// ---- hybrid call edges ----

type callEdge struct {
	Site    ssa.CallInstruction
	Callee  *ssa.Function
	IsGo    bool
	Lexical bool          // function value handed to a higher-order helper at this site
	Via     *ssa.Function // the helper that will invoke it
}

// calleesOf returns the package-local callees of fn: static callees; VTA-resolved targets
// of dynamic calls (except the callback invocations inside the transaction runner and the
// CAS allocator, which are replaced by lexical edges from the function that passes the
// closure, so that each caller reaches only its own closure).
func (m *Model) calleesOf(fn *ssa.Function) []callEdge {
	if ce, ok := m.calleeCache[fn]; ok {
		return ce
	}
	var out []callEdge
	node := m.CG.Nodes[fn]
	m.eachCall(fn, func(c ssa.CallInstruction) {
		_, isGo := c.(*ssa.Go)
		if callee := c.Common().StaticCallee(); callee != nil {
			if m.inPkg(callee) {
				out = append(out, callEdge{Site: c, Callee: callee, IsGo: isGo})
			}
			if callee == m.A.TxnRunner || callee == m.A.Allocator {
				for _, arg := range c.Common().Args {
					if mc, ok := arg.(*ssa.MakeClosure); ok {
						out = append(out, callEdge{Site: c, Callee: mc.Fn.(*ssa.Function), IsGo: isGo, Lexical: true, Via: m.A.TxnRunner})
					} else if f, ok := arg.(*ssa.Function); ok {
						out = append(out, callEdge{Site: c, Callee: f, IsGo: isGo, Lexical: true, Via: m.A.TxnRunner})
					}
				}
			} else if m.inPkg(callee) {
				// any other higher-order helper that invokes a func-typed parameter (withLock(fn) etc.):
				// the function value passed here runs inside the helper; reach it from this call site
				// only, not from every other caller of the helper
				for pi := range m.hoParams(callee) {
					if pi < len(c.Common().Args) {
						for _, t := range m.funcTargets(c.Common().Args[pi]) {
							if m.inPkg(t) {
								out = append(out, callEdge{Site: c, Callee: t, IsGo: isGo, Lexical: true, Via: callee})
							}
						}
					}
				}
			}
			// time.AfterFunc(d, f): f runs later on its own goroutine
			if callee.Pkg != nil && callee.Pkg.Pkg.Path() == "time" && callee.Name() == "AfterFunc" {
				for _, t := range m.funcTargets(c.Common().Args[1]) {
					out = append(out, callEdge{Site: c, Callee: t, IsGo: true})
				}
			}
			return
		}
		if !c.Common().IsInvoke() && m.isAllocCallback(c.Common()) {
			return // the allocator's write callback: reached lexically from the function that passes it
		}
		if p, ok := c.Common().Value.(*ssa.Parameter); ok && !c.Common().IsInvoke() && p.Parent() == fn {
			if _, isFn := p.Type().Underlying().(*types.Signature); isFn {
				return // a func-typed parameter being invoked: handled lexically at the helper's call sites
			}
		}
		if node == nil {
			return
		}
		for _, e := range node.Out {
			if e.Site == c && m.inPkg(e.Callee.Func) {
				out = append(out, callEdge{Site: c, Callee: e.Callee.Func, IsGo: isGo})
			}
		}
	})
	m.calleeCache[fn] = out
	return out
}

// funcTargets resolves a function-typed value to concrete functions (bound methods, closures).
func (m *Model) funcTargets(v ssa.Value) []*ssa.Function {
	switch x := v.(type) {
	case *ssa.MakeClosure:
		f := x.Fn.(*ssa.Function)
		// bound method wrapper: find the method it calls
		if strings.HasSuffix(f.Name(), "$bound") {
			var out []*ssa.Function
			m.eachCall(f, func(c ssa.CallInstruction) {
				if t := c.Common().StaticCallee(); t != nil {
					out = append(out, t)
				}
			})
			return out
		}
		return []*ssa.Function{f}
	case *ssa.Function:
		return []*ssa.Function{x}
	}
	return nil
}

// reachHybrid: functions reachable from fn over calleesOf (optionally not crossing `go`).
func (m *Model) reachHybrid(fn *ssa.Function, crossGo bool) map[*ssa.Function]bool {
	seen := map[*ssa.Function]bool{}
	var visit func(f *ssa.Function)
	visit = func(f *ssa.Function) {
		if seen[f] {
			return
		}
		seen[f] = true
		for _, e := range m.calleesOf(f) {
			if e.IsGo && !crossGo {
				continue
			}
			visit(e.Callee)
		}
	}
	visit(fn)
	return seen
}

// ---- lock identities ----

type lockID struct {
	Field *types.Var
	Owner string
	Role  string
}

func (l lockID) String() string {
	if l.Role != "" {
		return l.Role
	}
	return l.Owner + "." + l.Field.Name()
}

type lockOp struct {
	Instr    ssa.CallInstruction
	Lock     lockID
	Acquire  bool
	Deferred bool
}

// lockOpOf recognises Lock/Unlock calls on sync.Mutex fields and on sync.Cond.L.
func (m *Model) lockOpOf(c ssa.CallInstruction) (lockOp, bool) {
	cc := c.Common()
	_, deferred := c.(*ssa.Defer)
	var name string
	var recv ssa.Value
	switch {
	case isMethodCall(cc, "sync", "Mutex", "Lock"), isMethodCall(cc, "sync", "Mutex", "Unlock"), isMethodCall(cc, "sync", "RWMutex", "Lock"), isMethodCall(cc, "sync", "RWMutex", "Unlock"):
		name = cc.StaticCallee().Name()
		recv = cc.Args[0]
	case cc.IsInvoke() && isNamed(cc.Value.Type(), "sync", "Locker") && (cc.Method.Name() == "Lock" || cc.Method.Name() == "Unlock"):
		name = cc.Method.Name()
		recv = cc.Value
	default:
		// acquire wrappers: a package function that returns with a lock held (and hands back the release function)
		if callee := cc.StaticCallee(); callee != nil && !deferred {
			if l, ok := m.lockWrapper(callee); ok {
				return lockOp{Instr: c, Lock: l, Acquire: true}, true
			}
		}
		// release wrappers: a small package function that does nothing but release one lock
		if callee := cc.StaticCallee(); callee != nil {
			if l, ok := m.releaseWrapper(callee); ok {
				return lockOp{Instr: c, Lock: l, Acquire: false, Deferred: deferred}, true
			}
		}
		// calling the release function such a wrapper returned: `defer b.lock()()`
		if call, ok := cc.Value.(*ssa.Call); ok && !cc.IsInvoke() {
			if w := call.Common().StaticCallee(); w != nil {
				if l, ok := m.lockWrapper(w); ok && m.wrapperReturnsRelease(w) {
					return lockOp{Instr: c, Lock: l, Acquire: false, Deferred: deferred}, true
				}
			}
		}
		return lockOp{}, false
	}
	f, owner := m.lockFieldOf(recv)
	if f == nil {
		return lockOp{}, false
	}
	return lockOp{Instr: c, Lock: lockID{f, owner, m.lockRole(f, owner)}, Acquire: name == "Lock", Deferred: deferred}, true
}

func (m *Model) lockFieldOf(v ssa.Value) (*types.Var, string) {
	v = stripConv(v)
	ownerName := func(fa *ssa.FieldAddr) string {
		t := fa.X.Type()
		if p, ok := t.Underlying().(*types.Pointer); ok {
			t = p.Elem()
		}
		if n, ok := t.(*types.Named); ok {
			return n.Obj().Name()
		}
		return t.String()
	}
	switch x := v.(type) {
	case *ssa.FieldAddr:
		// &x.mu (sync.Mutex value field), or &cond.L
		f := fieldOf(x)
		if f != nil && f.Name() == "L" && isNamed(x.X.Type(), "sync", "Cond") {
			// identify by the field that holds the *sync.Cond
			if ld, ok := stripConv(x.X).(*ssa.UnOp); ok {
				if fa2, ok := ld.X.(*ssa.FieldAddr); ok {
					return fieldOf(fa2), ownerName(fa2)
				}
			}
			return nil, ""
		}
		return f, ownerName(x)
	case *ssa.UnOp:
		// load of a *sync.Mutex field, or of cond.L
		if fa, ok := x.X.(*ssa.FieldAddr); ok {
			f := fieldOf(fa)
			if f != nil && f.Name() == "L" && isNamed(fa.X.Type(), "sync", "Cond") {
				if ld, ok := stripConv(fa.X).(*ssa.UnOp); ok {
					if fa2, ok := ld.X.(*ssa.FieldAddr); ok {
						return fieldOf(fa2), ownerName(fa2)
					}
				}
				return nil, ""
			}
			return f, ownerName(fa)
		}
	}
	return nil, ""
}

// ---- lockset dataflow ----

type lockset map[lockID]bool

func (s lockset) clone() lockset {
	o := lockset{}
	for k := range s {
		o[k] = true
	}
	return o
}

func (s lockset) String() string {
	var ks []string
	for k := range s {
		ks = append(ks, k.String())
	}
	sort.Strings(ks)
	return "{" + strings.Join(ks, ", ") + "}"
}

func intersect(a, b lockset) lockset {
	o := lockset{}
	for k := range a {
		if b[k] {
			o[k] = true
		}
	}
	return o
}

type fnLocks struct {
	mustAt      map[ssa.Instruction]lockset // must-hold before the instruction
	mayAtReturn map[*ssa.Return]lockset     // locks possibly still held (not by defer) at a return
	ops         []lockOp
}

type lockModel struct {
	entry map[*ssa.Function]lockset // must-hold on entry (nil = top)
	fns   map[*ssa.Function]*fnLocks
	acq   map[*ssa.Function]lockset // may-acquire, transitively (not across go)
	roots map[*ssa.Function]string
}

func (m *Model) locks() *lockModel {
	if m.lm != nil {
		return m.lm
	}
	lm := &lockModel{entry: map[*ssa.Function]lockset{}, fns: map[*ssa.Function]*fnLocks{}, acq: map[*ssa.Function]lockset{}, roots: map[*ssa.Function]string{}}
	m.lm = lm
	// callers map over hybrid edges
	callers := map[*ssa.Function][]struct {
		from *ssa.Function
		e    callEdge
	}{}
	for _, fn := range m.Funcs {
		for _, e := range m.calleesOf(fn) {
			callers[e.Callee] = append(callers[e.Callee], struct {
				from *ssa.Function
				e    callEdge
			}{fn, e})
		}
	}
	// roots: exported API, functions without callers, goroutine/timer targets
	for _, fn := range m.Funcs {
		if fn.Parent() == nil && (fn.Object() != nil && fn.Object().Exported()) {
			lm.roots[fn] = "exported"
		}
		if len(callers[fn]) == 0 && fn.Synthetic == "" {
			lm.roots[fn] = "no callers"
		}
	}
	for _, fn := range m.Funcs {
		for _, e := range m.calleesOf(fn) {
			if e.IsGo {
				if _, ok := lm.roots[e.Callee]; !ok {
					lm.roots[e.Callee] = "goroutine"
				} else {
					lm.roots[e.Callee] += "+goroutine"
				}
			}
		}
	}
	for fn := range lm.roots {
		lm.entry[fn] = lockset{}
	}
	// fixpoint
	for iter := 0; iter < 30; iter++ {
		changed := false
		for _, fn := range m.Funcs {
			ent, known := lm.entry[fn]
			if !known {
				continue // top: not yet reached
			}
			fl := m.flowLocks(fn, ent)
			lm.fns[fn] = fl
			for _, e := range m.calleesOf(fn) {
				var at lockset
				if e.IsGo {
					at = lockset{}
				} else {
					at = fl.mustAt[e.Site]
					if at == nil {
						at = lockset{}
					}
					if e.Lexical && e.Via != nil {
						at = at.clone()
						for l := range m.heldInsideHelper(e.Via) {
							at[l] = true
						}
					}
				}
				old, had := lm.entry[e.Callee]
				var nw lockset
				if !had {
					nw = at.clone()
				} else {
					nw = intersect(old, at)
				}
				if _, isRoot := lm.roots[e.Callee]; isRoot {
					nw = lockset{}
				}
				if !had || len(nw) != len(old) {
					lm.entry[e.Callee] = nw
					changed = true
				}
			}
		}
		if !changed {
			break
		}
	}
	// may-acquire summaries
	var acq func(fn *ssa.Function, stack map[*ssa.Function]bool) lockset
	acq = func(fn *ssa.Function, stack map[*ssa.Function]bool) lockset {
		if s, ok := lm.acq[fn]; ok {
			return s
		}
		if stack[fn] {
			return lockset{}
		}
		stack[fn] = true
		s := lockset{}
		m.eachCall(fn, func(c ssa.CallInstruction) {
			if op, ok := m.lockOpOf(c); ok && op.Acquire {
				s[op.Lock] = true
			}
		})
		for _, e := range m.calleesOf(fn) {
			if e.IsGo {
				continue
			}
			for k := range acq(e.Callee, stack) {
				s[k] = true
			}
		}
		delete(stack, fn)
		lm.acq[fn] = s
		return s
	}
	for _, fn := range m.Funcs {
		acq(fn, map[*ssa.Function]bool{})
	}
	return lm
}

// flowLocks runs the intraprocedural must/may lockset dataflow.
func (m *Model) flowLocks(fn *ssa.Function, entry lockset) *fnLocks {
	fl := &fnLocks{mustAt: map[ssa.Instruction]lockset{}, mayAtReturn: map[*ssa.Return]lockset{}}
	n := len(fn.Blocks)
	if n == 0 {
		return fl
	}
	type st struct {
		must, may lockset
		deferred  lockset // locks whose unlock is deferred (stay held to exit)
		set       bool
	}
	in := make([]st, n)
	out := make([]st, n)
	in[0] = st{must: entry.clone(), may: lockset{}, deferred: lockset{}, set: true}
	for iter := 0; iter < 40; iter++ {
		changed := false
		for bi, b := range fn.Blocks {
			cur := in[bi]
			if bi != 0 {
				cur = st{}
				for _, p := range b.Preds {
					po := out[p.Index]
					if !po.set {
						continue
					}
					if !cur.set {
						cur = st{must: po.must.clone(), may: po.may.clone(), deferred: po.deferred.clone(), set: true}
					} else {
						cur.must = intersect(cur.must, po.must)
						for k := range po.may {
							cur.may[k] = true
						}
						for k := range po.deferred {
							cur.deferred[k] = true
						}
					}
				}
			} else {
				cur = st{must: cur.must.clone(), may: cur.may.clone(), deferred: cur.deferred.clone(), set: true}
			}
			if !cur.set {
				continue
			}
			for _, ins := range b.Instrs {
				fl.mustAt[ins] = cur.must.clone()
				if c, ok := ins.(ssa.CallInstruction); ok {
					if op, ok := m.lockOpOf(c); ok {
						switch {
						case op.Acquire && !op.Deferred:
							cur.must[op.Lock] = true
							cur.may[op.Lock] = true
						case !op.Acquire && op.Deferred:
							cur.deferred[op.Lock] = true
							delete(cur.may, op.Lock) // released at exit by the defer
						case !op.Acquire:
							delete(cur.must, op.Lock)
							delete(cur.may, op.Lock)
						}
					}
				}
				if ret, ok := ins.(*ssa.Return); ok {
					fl.mayAtReturn[ret] = cur.may.clone()
				}
			}
			prev := out[bi]
			if !prev.set || len(prev.must) != len(cur.must) || len(prev.may) != len(cur.may) || len(prev.deferred) != len(cur.deferred) {
				out[bi] = cur
				changed = true
			}
		}
		if !changed {
			break
		}
	}
	m.eachCall(fn, func(c ssa.CallInstruction) {
		if op, ok := m.lockOpOf(c); ok {
			fl.ops = append(fl.ops, op)
		}
	})
	return fl
}

// heldAt returns the must-hold set at an instruction (entry locks included).
func (m *Model) heldAt(in ssa.Instruction) lockset {
	lm := m.locks()
	fl := lm.fns[in.Parent()]
	if fl == nil {
		return lockset{}
	}
	if s, ok := fl.mustAt[in]; ok {
		return s
	}
	return lockset{}
}

// lockRole names the well-known locks by role (rename-proof keys).
func (m *Model) lockRole(f *types.Var, owner string) string {
	a := &m.A
	switch {
	case f == a.BucketMutex:
		return "bucket-mutex"
	case f == a.CollMutex:
		return "collection-mutex"
	}
	if a.ClockType != nil && owner == a.ClockType.Obj().Name() {
		return "clock-mutex"
	}
	if reg, mu, _ := m.registryType(); reg != nil && f == mu {
		return "registry-lock"
	}
	if a.ExpMgrField != nil {
		if pt, ok := a.ExpMgrField.Type().(*types.Pointer); ok {
			if n, ok := pt.Elem().(*types.Named); ok && n.Obj().Name() == owner {
				return "expiry-mutex"
			}
		}
	}
	if isPtrToNamed(f.Type(), "sync", "Cond") {
		return "queue-lock"
	}
	return ""
}

// hoParams: indices of the func-typed parameters a function invokes itself.
func (m *Model) hoParams(fn *ssa.Function) map[int]bool {
	if r, ok := m.hoCache[fn]; ok {
		return r
	}
	out := map[int]bool{}
	m.hoCache[fn] = out
	idx := func(v ssa.Value) int {
		if p, ok := stripConv(v).(*ssa.Parameter); ok {
			for i, q := range fn.Params {
				if q == p {
					return i
				}
			}
		}
		return -1
	}
	m.eachCall(fn, func(c ssa.CallInstruction) {
		if c.Common().IsInvoke() {
			return
		}
		if i := idx(c.Common().Value); i >= 0 {
			out[i] = true
		}
		// passed down to another helper that invokes it
		if callee := c.Common().StaticCallee(); callee != nil && m.inPkg(callee) && callee != fn {
			for j, arg := range c.Common().Args {
				if i := idx(arg); i >= 0 {
					if _, isFn := arg.Type().Underlying().(*types.Signature); isFn && m.hoParams(callee)[j] {
						out[i] = true
					}
				}
			}
		}
	})
	return out
}

// isAllocCallback: a dynamic call of a function value whose first result is the event type
// (the write callback handed to the CAS allocator).
func (m *Model) isAllocCallback(cc *ssa.CallCommon) bool {
	if m.A.EventType == nil || cc.StaticCallee() != nil {
		return false
	}
	sig, ok := cc.Value.Type().Underlying().(*types.Signature)
	if !ok || sig.Results().Len() == 0 {
		return false
	}
	pt, ok := sig.Results().At(0).Type().(*types.Pointer)
	return ok && pt.Elem() == m.A.EventType
}

// heldInsideHelper: the locks a higher-order helper holds (relative to its own entry) at the
// point where it invokes its function parameter.
func (m *Model) heldInsideHelper(h *ssa.Function) lockset {
	if r, ok := m.helperHeld[h]; ok {
		return r
	}
	out := lockset{}
	m.helperHeld[h] = out
	fl := m.flowLocks(h, lockset{})
	first := true
	meet := func(held lockset) {
		if first {
			for l := range held {
				out[l] = true
			}
			first = false
			return
		}
		for l := range out {
			if !held[l] {
				delete(out, l)
			}
		}
	}
	m.eachCall(h, func(c ssa.CallInstruction) {
		if c.Common().IsInvoke() {
			return
		}
		if p, ok := c.Common().Value.(*ssa.Parameter); ok && p.Parent() == h {
			meet(fl.mustAt[c])
			return
		}
		if callee := c.Common().StaticCallee(); callee != nil && m.inPkg(callee) && callee != h {
			for j, arg := range c.Common().Args {
				if p, ok := stripConv(arg).(*ssa.Parameter); ok && p.Parent() == h && m.hoParams(callee)[j] {
					held := fl.mustAt[c].clone()
					for l := range m.heldInsideHelper(callee) {
						held[l] = true
					}
					meet(held)
				}
			}
		}
	})
	return out
}

// lockWrapper: does fn return, on every path, holding exactly one lock it acquired itself?
func (m *Model) lockWrapper(fn *ssa.Function) (lockID, bool) {
	if r, ok := m.wrapperCache[fn]; ok {
		return r.l, r.ok
	}
	m.wrapperCache[fn] = wrapperInfo{}
	if !m.inPkg(fn) || len(fn.Blocks) == 0 || len(fn.Blocks) > 3 {
		return lockID{}, false
	}
	var acq []lockOp
	okShape := true
	m.eachCall(fn, func(c ssa.CallInstruction) {
		cc := c.Common()
		if isMethodCall(cc, "sync", "Mutex", "Lock") {
			if f, owner := m.lockFieldOf(cc.Args[0]); f != nil {
				acq = append(acq, lockOp{Instr: c, Lock: lockID{f, owner, m.lockRole(f, owner)}, Acquire: true})
			}
		} else if isMethodCall(cc, "sync", "Mutex", "Unlock") {
			okShape = false
		} else if op, ok := m.lockOpOf(c); ok {
			// a lock reached through an interface (the Locker of a condition variable)
			if op.Acquire {
				acq = append(acq, op)
			} else {
				okShape = false
			}
		}
	})
	if !okShape || len(acq) != 1 {
		return lockID{}, false
	}
	m.wrapperCache[fn] = wrapperInfo{acq[0].Lock, true}
	return acq[0].Lock, true
}

// releaseWrapper: a package function whose only lock operation is one Unlock (of a mutex field
// or of the Locker of a condition variable) and that calls nothing else.
func (m *Model) releaseWrapper(fn *ssa.Function) (lockID, bool) {
	if r, ok := m.relWrapperCache[fn]; ok {
		return r.l, r.ok
	}
	if m.relWrapperCache == nil {
		m.relWrapperCache = map[*ssa.Function]wrapperInfo{}
	}
	m.relWrapperCache[fn] = wrapperInfo{}
	if !m.inPkg(fn) || len(fn.Blocks) != 1 {
		return lockID{}, false
	}
	var rel []lockOp
	okShape := true
	m.eachCall(fn, func(c ssa.CallInstruction) {
		cc := c.Common()
		_, deferred := c.(*ssa.Defer)
		isUnlock := isMethodCall(cc, "sync", "Mutex", "Unlock") || isMethodCall(cc, "sync", "RWMutex", "Unlock") || cc.IsInvoke() && isNamed(cc.Value.Type(), "sync", "Locker") && cc.Method.Name() == "Unlock"
		if !isUnlock || deferred {
			okShape = false
			return
		}
		recv := cc.Value
		if !cc.IsInvoke() {
			recv = cc.Args[0]
		}
		if f, owner := m.lockFieldOf(recv); f != nil {
			rel = append(rel, lockOp{Instr: c, Lock: lockID{f, owner, m.lockRole(f, owner)}})
		} else {
			okShape = false
		}
	})
	if !okShape || len(rel) != 1 {
		return lockID{}, false
	}
	m.relWrapperCache[fn] = wrapperInfo{rel[0].Lock, true}
	return rel[0].Lock, true
}

// wrapperReturnsRelease: the wrapper's result is the Unlock method value of the lock it took.
func (m *Model) wrapperReturnsRelease(fn *ssa.Function) bool {
	for _, ret := range returnsOf(fn) {
		if len(ret.Results) != 1 {
			return false
		}
		// (an instantiation wrapper or a forwarding wrapper hands on what the inner wrapper returns)
		if call, ok := ret.Results[0].(*ssa.Call); ok {
			if w := call.Common().StaticCallee(); w != nil && w != fn {
				if _, isW := m.lockWrapper(w); isW && m.wrapperReturnsRelease(w) {
					continue
				}
			}
		}
		// (the Unlock method value of a lock held through an interface: the bound wrapper invokes it)
		if mc, ok := ret.Results[0].(*ssa.MakeClosure); ok {
			if f, ok := mc.Fn.(*ssa.Function); ok && f.Name() == "Unlock$bound" {
				continue
			}
		}
		ts := m.funcTargets(ret.Results[0])
		if len(ts) != 1 || ts[0].Name() != "Unlock" {
			return false
		}
	}
	return true
}

type wrapperInfo struct {
	l  lockID
	ok bool
}
