package lint

import (
	"encoding/json"
	"fmt"
	"os"
	"sort"
	"strings"
)

type Options struct {
	Repo        string
	Dump        string
	Prop        string
	Tier        string
	EvidenceDir string
	KnownFile   string
	UseCHA      bool
	Explain     string
	Extra       string // JSON file merged into the evidence's coverage (thorough tier extras)
}

func Main(o Options) int {
	m, err := Load(o.Repo, o.UseCHA)
	if err != nil {
		fmt.Fprintln(os.Stderr, "rosmarlint: load failed:", err)
		return 2
	}
	switch o.Dump {
	case "anchors":
		rep := m.AnchorReport()
		for _, k := range sortedKeys(rep) {
			fmt.Printf("%-22s %s\n", k, rep[k])
		}
		return 0
	case "props":
		type pj struct {
			ID, Title, Explanation, NotDecided string
			Rules, Dropped                     []string
		}
		var out []pj
		for _, id := range sortedKeys(propTable) {
			pd := propTable[id]
			out = append(out, pj{id, pd.Title, pd.Explanation, pd.NotDecided, pd.Rules, pd.Dropped})
		}
		b, _ := json.MarshalIndent(out, "", " ")
		fmt.Println(string(b))
		return 0
	case "sites":
		m.DumpSites()
		return 0
	}
	return runChecks(m, o)
}

func (m *Model) DumpSites() {
	for _, s := range m.Sites {
		var cls []string
		for c := range s.Classes {
			cls = append(cls, c.String())
		}
		sort.Strings(cls)
		fmt.Printf("%s %s.%s handle=%s variants=%d holes=%d dynargs=%v\n", m.instrPos(s.Call), m.declName(s.Fn), s.Method, strings.Join(cls, "|"), len(s.Variants), s.Holes, s.DynamicArgs)
		if s.Undecided != "" {
			fmt.Printf("    UNDECIDED: %s\n", s.Undecided)
		}
		for _, v := range s.Variants {
			if v.Err != nil {
				fmt.Printf("    PARSE ERROR %v\n      %q\n", v.Err, v.SQL)
				continue
			}
			for _, st := range v.Stmts {
				if s.IsSchema {
					continue
				}
				fmt.Printf("    %s  [tables %v]\n", st.Shape(), st.Tables())
			}
		}
		for i, a := range s.Positional {
			if a != nil {
				fmt.Printf("      ?%d = %s\n", i+1, m.describe(Binding{a, topFrame(s.Fn)}))
			}
		}
		for _, n := range sortedKeys(s.Named) {
			fmt.Printf("      %s = %s\n", n, m.describe(s.Named[n]))
		}
	}
}
