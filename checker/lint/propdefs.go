package lint

func registerProps() {
	propTable["C05"] = PropDef{
		Title: "Tombstone coherence",
		Rules: []string{"R-TOMB", "R-ROWCOMPLETE", "R-XATTR-CARRY", "R-PURGE"},
		Explanation: "wip",
		NotDecided:  "wip",
	}
	propTable["C11"] = PropDef{
		Title: "Collection isolation",
		Rules: []string{"R-COLL", "R-KEYSPACE", "R-DROP"},
		Explanation: "wip",
		NotDecided:  "wip",
	}
	propTable["C06"] = PropDef{
		Title: "Insert-only writes",
		Rules: []string{"R-INSERT-GUARD", "R-TOMB"},
		Explanation: "wip", NotDecided: "wip",
	}
	propTable["C01"] = PropDef{
		Title: "KV read-after-write",
		Rules: []string{"R-TXN", "R-ROWCOMPLETE"},
		Explanation: "wip", NotDecided: "wip",
	}
}
