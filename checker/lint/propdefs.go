package lint

import "strings"

// registerProps maps every claimed property to the rules that decide its structural
// clauses (DESIGN.md section 5). A rule appears here only once it is implemented.
func registerProps() {
	propTable["C01"] = PropDef{
		Title:       "Key-value read-after-write: every read returns the last successful write",
		Rules:       []string{"R-TXN", "R-COMMIT", "R-ROWCOMPLETE", "R-READ-NULL", "R-READ-ONCE", "R-LIVE", "R-COLL", "R-ERRPROP", "R-EVT-ROW", "R-RMW", "R-ERR-OVERWRITE", "R-EXP", "R-FRESH-DECODE", "R-WRITE-PATH", "R-KEEP-NEEDS-ROW", "R-ERR-DROPPED", "R-INSERT-GUARD", "R-DROP"},
		Scope:       map[string][]string{"R-RMW": {"WriteSubDoc", "SubdocInsert", "Update"}},
		Explanation: "Decides necessary structural clauses, not the behaviour: (a) an operation that fails leaves the document as it was <= every row write runs on the handle of the one transaction (R-TXN) that the runner rolls back on every failing path and whose commit error is reported (R-COMMIT), and no statement error inside a transaction closure is dropped (R-ERRPROP) nor is a stored error replaced by a later step's before it was examined (R-ERR-OVERWRITE); (b) the last successful write is what is stored <= every body/tombstone/xattr statement assigns the complete row (R-ROWCOMPLETE) and the values bound into it are the operation's own (R-EVT-ROW); a read-modify-write of a body starts every attempt from a fresh read, so that what it stores is the document it last read plus its own change (R-RMW, sub-document writers); (c) missing if deleted <= the read helper maps a NULL body to the missing error (R-READ-NULL), read-side liveness tests use the body column (R-LIVE), reads are scoped to the receiver's collection (R-COLL). A read outside a transaction is one statement (R-READ-ONCE); the expiry a write stores does not depend on the supplied value being non-zero (R-EXP/e); maps decoded into inside a loop are fresh per iteration (R-FRESH-DECODE). An exported mutating entry point reports success only on paths that went through the document writer, except where the caller's own callback cancels (R-WRITE-PATH). A failed write-back of Update is never reported as success (R-RMW, scope extended to Update).",
		NotDecided:  "equality of returned bytes/CAS/expiry with a model over arbitrary histories; JSON encode/decode; nil bodies passed to Set/Add; purge visibility; value-level control flow inside Update's callback handling.",
	}
	propTable["C02"] = PropDef{
		Title:       "Optimistic concurrency: a CAS-conditional write succeeds iff the CAS is current",
		Rules:       []string{"R-CAS", "R-RMW", "R-INSERT-GUARD", "R-TXN", "R-COMMIT", "R-FLAGS", "R-COLL", "R-MONO", "R-READ-CAS", "R-HLC", "R-TOMB", "R-EVT-ROW"},
		Explanation: "For each of the nine collection entry points with an expected-CAS parameter, every statement that writes body or xattrs is guarded inside the same transaction closure by a SQL conjunct cas = <expected> or by a Go comparison with documents.cas read through the transaction, decided by cut-reachability on the SSA control-flow graph (R-CAS); sub-document writers and Update loops write back with the CAS they read (R-RMW); a rejected write changes nothing because it shares the rolled-back transaction (R-TXN, R-COMMIT); insert semantics for CAS 0 / AddOnly are governed by the conflict guard (R-INSERT-GUARD) and the option flags are enforced (R-FLAGS). The CAS that is compared is read from the row of the receiver's own collection (R-COLL). A CAS value is never handed out twice, so equality with the expected CAS identifies one version (R-MONO). The body and the deletion flag a writer stores agree, since the guard's 'no live document' test reads the flag (R-TOMB); the guarded statement addresses the row by its key (R-EVT-ROW/key); a CAS-guarded statement that matched no row fails, with a CAS mismatch unless the insert-only bit is set (R-INSERT-GUARD).",
		NotDecided:  "behaviour of real interleavings (rests on SQLite isolation and the bucket mutex, trusted); which error value is returned; the pinned CAS-free resurrection of a tombstone by AddOnly.",
	}
	propTable["C03"] = PropDef{
		Title:       "Concurrent operations are linearizable, across goroutines and bucket handles",
		Rules:       []string{"R-TXN", "R-TXN-READS", "R-COMMIT", "R-SHARED-COPY", "R-RMW", "R-GUARDED", "R-ONE-TXN", "R-ROWCOMPLETE", "R-REV", "R-READ-ONCE", "R-REGISTRY", "R-CAS", "R-MONO", "R-HLC", "R-READ-CAS", "R-INSERT-GUARD", "R-RETRY-STATE"},
		Explanation: "Necessary atomic-section structure only: a read outside a transaction is a single statement (R-READ-ONCE); read-modify-write entry points read through the transaction handle and write in the same closure (R-TXN, R-TXN-READS, R-REV's same-transaction clause); the runner holds the shared mutex across Begin..Commit (R-COMMIT); all handle copies share that mutex and database (R-SHARED-COPY); optimistic loops carry the CAS they read, into fresh variables, and retry only on mismatch (R-RMW); shared in-memory maps and flags are accessed under their mutex (R-GUARDED); one transaction per operation (R-ONE-TXN); every mutation refreshes the row's CAS so that a stale reader's conditional write fails (R-ROWCOMPLETE). Every opener is handed a copy of the one registered bucket (R-REGISTRY); CAS comparisons happen inside the writing transaction (R-CAS). A CAS-guarded statement that matched no row makes the operation fail (R-INSERT-GUARD); a retry never writes what an abandoned attempt computed (R-RETRY-STATE); a function that reads a document through the pool does not then write it in an unconditional transaction of its own, and no written value derives from a pool read (R-RMW/h, R-TXN-READS).",
		NotDecided:  "linearizability of observed histories, real-time order, SQLite's isolation guarantees.",
	}
	propTable["C04"] = PropDef{
		Title:       "CAS values are unique and strictly increasing, whatever the clock does",
		Rules:       []string{"R-HLC", "R-MONO", "R-HLC-MARK-SQL", "R-LOCK-PAIR", "R-EVT-ROW"},
		Explanation: "Composition of checked facts: every regular CAS is a return value of the clock's Now, called only inside closures handed to the transaction runner (R-HLC/CALL); the clock is one package-level object assigned only during initialisation (R-HLC/GLOBAL); Now returns a value strictly above every earlier return because the only stores to its high-water field are old+1 and x under old<x, under the clock's mutex (R-MONO, R-LOCK-PAIR); the CAS stamped into the row is the one handed out (R-EVT-ROW/cas); the same CAS is persisted as bucket.lastCas and collections.lastCas in the same transaction on every success path (R-HLC/MARK, R-HLC-MARK-SQL); the open function raises the clock to the persisted bucket.lastCas before the bucket is registered (R-HLC/SEED).",
		NotDecided:  "64-bit overflow; CAS values supplied through the *WithMeta API (excluded by the property); SQLite's crash behaviour.",
	}
	propTable["C05"] = PropDef{
		Title:       "Tombstone coherence: deleted means no body, for every observer and every path",
		Rules:       []string{"R-TOMB", "R-ROWCOMPLETE", "R-XATTR-CARRY", "R-TOMB-XATTRS", "R-PURGE", "R-BACKFILL", "R-EVT-ROW", "R-LIVE", "R-FILTER-RESULT", "R-READ-CAS", "R-EVT-FEEDEVENT"},
		Explanation: "The two encodings of 'deleted' (value IS NULL, tombstone flag) are written together and coherently by every statement (R-TOMB); tombstoning clears expiry and rewrites xattrs, body-giving writes clear a tombstone's xattrs (R-ROWCOMPLETE, R-XATTR-CARRY); the xattrs a tombstoning statement binds have been filtered since they were read, or are known empty (R-TOMB-XATTRS); the deletion flag of an event is a nil-test of the body that statement stores (R-EVT-ROW); purge removes exactly the rows without a body (R-PURGE); the deletion flag of live and backfill events comes from the same row state (R-EVT-ROW, R-BACKFILL); readers use the body column (R-LIVE). The filter that drops user xattrs returns nothing, not its input, when everything was dropped (R-FILTER-RESULT). The keys-only copy of an event is a copy of the whole event, deletion flag included (R-EVT-FEEDEVENT); a partial update (touch, xattr edit) knows whether its row is live (R-LIVE).",
		NotDecided:  "which xattrs count as system xattrs (the underscore test is value level); nil bodies bound to a statement that writes tombstone=0; agreement of observers over concrete histories.",
	}
	propTable["C06"] = PropDef{
		Title:       "Insert-only writes never overwrite a live document, always create an absent one",
		Rules:       []string{"R-INSERT-GUARD", "R-FLAGS", "R-TOMB", "R-CAS", "R-LIVE", "R-COLL", "R-EVT-ROW"},
		Explanation: "Every INSERT..ON CONFLICT DO UPDATE on documents (except the upsert primitive) restricts its update, as a top-level AND-conjunct, to rows without a body and has its RowsAffected consulted; Add/AddRaw reach only such guarded inserts (R-INSERT-GUARD); callers of the unconditional upsert primitive decide existence in Go through option flags that guard error returns (R-FLAGS); the guard's flag means 'no body' because the flag and the body are written together (R-TOMB); WriteCas' CAS-less insert variant is reachable only for CAS 0 / AddOnly (R-CAS). Whether the row read is live is decided by NULL-ness of the body or the flag, never by the body's length (R-LIVE). The row that decides whether the key is absent is the row of the receiver's collection (R-COLL). The tombstone flag stored with a row (which every insert-only write tests) is derived from the body stored with it (R-EVT-ROW/isDeletion, R-TOMB). A body write that carries no expected CAS sets an option to the constant true (insert-only), never to a runtime value (R-FLAGS).",
		NotDecided:  "per-history truth of the 'iff'; nil bodies.",
	}
	propTable["C07"] = PropDef{
		Title:       "Body and xattrs are independent; a combined write is all-or-nothing",
		Rules:       []string{"R-TXN", "R-ERRPROP", "R-XATTR-CARRY", "R-MACRO-ORDER", "R-ONE-TXN", "R-EVT-ROW", "R-ROWCOMPLETE", "R-ERR-OVERWRITE", "R-OPTS-CARRY", "R-FILTER-RESULT", "R-XATTR-ROUNDTRIP", "R-XATTR-VALIDATE", "R-RETRY-STATE"},
		Explanation: "The options a caller gives (PreserveExpiry, macro expansions) reach the function that does the write unchanged or as a complete copy (R-OPTS-CARRY). A combined write is one transaction with one CAS in which no statement error is dropped, nor an error of one step (e.g. one xattr key of several) replaced by a later step's before it was examined (R-TXN, R-ONE-TXN, R-ERRPROP, R-ERR-OVERWRITE, R-EVT-ROW/cas); body-only writes carry the row's xattrs over and clear them only on tombstones (R-XATTR-CARRY); the event fields that macro expansion reads (cas, value) are final when it runs (R-MACRO-ORDER); xattr-only statements still refresh cas and revSeqNo (R-ROWCOMPLETE). The xattr filter helper returns the re-encoded map, never its input, after the edit ran (R-FILTER-RESULT); stored xattrs are decoded whenever they exist before the unconditional re-encode (R-XATTR-ROUNDTRIP). No argument of WriteUpdateWithXattrs' write-back is carried over from an abandoned attempt (R-RETRY-STATE); removing an xattr that is not there fails whatever else the write does (R-XATTR-VALIDATE).",
		NotDecided:  "byte-for-byte preservation through JSON re-marshalling; CRC correctness; which inputs count as nil (payload.isNil is value level); error classification.",
	}
	propTable["C08"] = PropDef{
		Title:       "Live feed: one faithful event per successful mutation, delivered in CAS order",
		Rules:       []string{"R-EVT-1", "R-EVT-FEEDEVENT", "R-EVT-ROW", "R-EVT-CONV", "R-QUEUE", "R-ATOMIC-ENQ", "R-POST-ORDER", "R-FEEDMAP", "R-FEEDMAP-WRITERS", "R-SHARED-COPY", "R-INSERT-GUARD", "R-HLC", "R-FEED-DELIVER", "R-POST-ALWAYS", "R-FEED-STOPPERS", "R-COLL"},
		Explanation: "The post function is never reachable from inside a transaction and each call of it is guarded by 'transaction error is nil' and 'event is non-nil' (R-EVT-1); mutation/deletion FeedEvents are built only by the one converter, whose fields are computed from exactly the corresponding event fields (R-EVT-FEEDEVENT, R-EVT-CONV); for every write unit each event field is the value bound into (or scanned back from) the row in the same transaction (R-EVT-ROW); queues are FIFO (R-QUEUE); commit and enqueue share a critical section and nothing that can block precedes the enqueue (R-ATOMIC-ENQ, R-POST-ORDER); registry entries are only ever extended by appending a new feed (R-FEEDMAP-WRITERS); events go to the writer's own collection's feeds, shared by all handles (R-FEEDMAP, R-SHARED-COPY); a refused insert leaves without an event (R-INSERT-GUARD). CAS order is commit order because the CAS is drawn inside the transaction closure, under the bucket mutex (R-HLC/CALL). The xattrs an event carries are read from the row of the receiver's collection (R-COLL).",
		NotDecided:  "delivery itself (goroutine scheduling), xattr framing bytes, exactly-once at run time.",
	}
	propTable["C09"] = PropDef{
		Title:       "Backfill is a faithful snapshot and joins the live stream without a gap",
		Rules:       []string{"R-BACKFILL", "R-BACKFILL-GAP", "R-EVT-CONV", "R-COLL", "R-BACKFILL-COND", "R-EVT-FEEDEVENT", "R-FEEDMAP-WRITERS", "R-CHECKPOINT", "R-EVT-1"},
		Explanation: "The snapshot is taken whenever the arguments ask for it (R-BACKFILL-COND) and the live fan-out hands every event to every registered feed without filtering on event or feed state (R-EVT-FEEDEVENT). The backfill statement ranges over exactly the receiver's rows with cas >= start (tombstones included), ordered by cas, and its Scan fills every event field from the column that mirrors it, through the same converter as live events (R-BACKFILL, R-EVT-CONV, R-COLL); snapshot and live registration must form one critical section (R-BACKFILL-GAP). The values scanned from a backfill row are copies, not views into the driver's row buffer (R-BACKFILL). Every committed mutation is posted, by the runner, to the feeds registered when it is posted (R-EVT-1).",
		NotDecided:  "that the snapshot equals the contents at a linearisation point; the interleaving of queued live events with backfill events at run time; begin/end marker placement beyond what R-BACKFILL-GAP's function shape implies.",
	}
	propTable["C10"] = PropDef{
		Title:       "Durability and crash atomicity of on-disk buckets",
		Rules:       []string{"R-TXN", "R-ONE-TXN", "R-COMMIT", "R-HLC", "R-HLC-MARK-SQL", "R-DSN", "R-EXP-SQL", "R-OPENMODE", "R-OPEN-ERR", "R-DROP", "R-UNIQUE-LOOKUP"},
		Explanation: "An open that fails after the bucket was registered would delete a store other handles share: no return carries an error after registration (R-OPEN-ERR). One transaction per operation containing row, marks and index rows (R-TXN, R-ONE-TXN, R-HLC/MARK, R-HLC-MARK-SQL); success is reported only after a successful Commit (R-COMMIT); durability options of the connection string (R-DSN); the reopen path keeps identity (schema initialised only when user_version is 0: R-OPENMODE), re-seeds the clock (R-HLC/SEED) and re-arms expiry from a query over all rows with exp > 0, overdue ones included (R-EXP-SQL, R-OPENMODE). A drop is keyed by scope and name in the database, not by per-handle cached state (R-DROP). No operation is composed of two calls that each commit on their own (R-ONE-TXN); a deferred cleanup may take 'version cell is 0' for 'new database' only if it cannot run before the version was read successfully (R-OPEN-ERR).",
		NotDecided:  "SQLite/WAL/OS crash behaviour (trusted base); that acknowledged data is physically on disk.",
	}
	propTable["C11"] = PropDef{
		Title:       "Collections (and buckets) are isolated from one another",
		Rules:       []string{"R-COLL", "R-KEYSPACE", "R-DROP", "R-FEEDMAP", "R-EXP-SQL", "R-DSN", "R-LASTID", "R-UNIQUE-LOOKUP", "R-VIEW", "R-EXP", "R-FEEDMAP-WRITERS", "R-OPENMODE", "R-CHECKPOINT"},
		Explanation: "Complete for SQL-mediated state: every statement variant of every collection method constrains every collection-owned table it ranges over (ownership from schema.sql foreign keys) to the receiver's id (R-COLL, R-KEYSPACE, R-EXP-SQL); dropping is keyed by scope and name, cascades through every ownership foreign key (enforced: _foreign_keys=1, R-DSN) and ids are never reused (R-DROP); feeds are registered and stopped under the collection's own name and the shared registry is never replaced (R-FEEDMAP). A collection's id is the id of the row its own INSERT created (R-LASTID). A feed's checkpoint document lives in the feed's own collection (R-CHECKPOINT).",
		NotDecided:  "caller-supplied SQL beyond the keyspace envelope; CreateIndex (bucket-wide by documentation).",
	}
	propTable["C12"] = PropDef{
		Title:       "A non-stale view query equals the map function applied to the current documents",
		Rules:       []string{"R-VIEW", "R-VIEW-MARK", "R-COLL", "R-DROP", "R-ONE-TXN", "R-TXN", "R-VIEW-PARAMS", "R-HLC", "R-FRESH-DECODE", "R-VIEW-STALE", "R-LASTID", "R-UNIQUE-LOOKUP", "R-FILTER-RESULT"},
		Explanation: "The incremental index update selects documents above the last indexed CAS, which is complete only if CAS order is commit order: the CAS is drawn inside the transaction closure under the bucket mutex (R-HLC/CALL). Every honoured query option is still read (R-VIEW-PARAMS). In the index-update closure the obsolete-row delete and the re-map select use the same comparator on documents.cas and the same bound mark, and the view's mark is set to the collection mark read through the same transaction (R-VIEW, R-TXN); every transaction that changes a document advances the collection mark (R-VIEW-MARK); the row query orders by (mapped.key, documents.key) in one direction with the range operators paired to min/max (R-VIEW); the compiled map function is reused from the cache only when its source is unchanged (R-VIEW); replacing a design document is one transaction whose delete precedes the inserts (R-VIEW, R-ONE-TXN); index rows are scoped and cascade (R-COLL, R-DROP). The map function's input is decoded into fresh variables for every document (R-FRESH-DECODE). The index is brought up to date before the rows are read unless one of the documented stale values was given (R-VIEW-STALE); the index window has no upper CAS bound (R-VIEW).",
		NotDecided:  "JavaScript map/reduce evaluation, the collation function, parameter post-processing in sg-bucket.",
	}
	propTable["C13"] = PropDef{
		Title:       "Bucket handle lifecycle: open modes, sharing, reference counting and deletion",
		Rules:       []string{"R-REGISTRY", "R-OPENMODE", "R-CLOSED", "R-SHARED-COPY", "R-LOCK-PAIR", "R-GUARDED", "R-OPEN-ERR", "R-MEMURL", "R-DSN"},
		Explanation: "No return of the open function carries an error once the bucket is registered, so its cleanup-on-error cannot delete a shared store (R-OPEN-ERR). Handles are handed out only after a counted increment under the registry lock, store shutdown and entry removal are one critical section, deleting always reaches the file removal, Close releases its reference once and sets the closed flag under the mutex (R-REGISTRY); open-mode guards of the lookup and open functions (R-OPENMODE); the raw DB handle is used only behind the closed test and never reassigned (R-CLOSED); copies share the store (R-SHARED-COPY); registry and flags under their locks (R-GUARDED, R-LOCK-PAIR). The pool never retires connections by age: an in-memory bucket is its one connection (R-DSN).",
		NotDecided:  "file-system effects; concurrent first opens of one name.",
	}
	propTable["C14"] = PropDef{
		Title:       "Expiry: documents live until their expiry time and are tombstoned soon after",
		Rules:       []string{"R-EXP-SQL", "R-EXP", "R-EVT-ROW", "R-ROWCOMPLETE", "R-OPENMODE", "R-TIMER", "R-OPTS-CARRY", "R-RMW", "R-KEEP-NEEDS-ROW", "R-RETRY-STATE"},
		Scope:       map[string][]string{"R-RMW": {"Update"}},
		Explanation: "PreserveExpiry and the other write options reach the writer unchanged (R-OPTS-CARRY). Every expiry bound into a statement is absolute (passed through the offset-to-absolute function), preserved from the row, or 0 (R-EXP/a); every write unit that stores a possibly non-zero expiry leaves its closure with an event carrying that same value, or arms the timer itself with it (R-EXP/b, R-EVT-ROW/exp); the arm function re-arms iff cur == 0 or exp < cur, the callback clears the deadline and re-arms from the min-expiry query, the open function re-arms when the schema existed (R-EXP/c-e, R-OPENMODE); the expiry scan and min query predicates (R-EXP-SQL); tombstoning clears expiry (R-ROWCOMPLETE); the offset rule 0 < exp <= 30 days (R-EXP/h). The shared timer is created only when none is pending and stopped only by the store's shutdown routine (R-TIMER). The expiry written by a retry of Update is this attempt's, not an abandoned one's (R-RETRY-STATE); the timer is armed under an unconditional lock acquisition (R-EXP/c').",
		NotDecided:  "all timing ('before T', 'within a few seconds'); timer goroutine scheduling.",
	}
	propTable["C15"] = PropDef{
		Title:       "Checkpointed feeds resume without skipping a mutation",
		Rules:       []string{"R-CHECKPOINT", "R-ATOMIC-ENQ", "R-BACKFILL", "R-BACKFILL-GAP", "R-QUEUE", "R-BACKFILL-COND", "R-FEEDMAP-WRITERS", "R-EVT-FEEDEVENT", "R-HLC", "R-ROWCOMPLETE", "R-POST-ORDER", "R-FEED-DELIVER", "R-EVT-ROW"},
		Explanation: "Resume starts at checkpoint+1 with an inclusive lower bound (R-CHECKPOINT, R-BACKFILL); the feed loop advances its delivered-CAS only from the event just passed to the callback and only upwards, and persists exactly that field (R-CHECKPOINT); its premise, CAS-ordered delivery, needs FIFO queues, enqueue inside the commit's critical section and a backfill that is not interleaved with live events (R-QUEUE, R-ATOMIC-ENQ, R-BACKFILL-GAP). The snapshot is unconditional given the arguments (R-BACKFILL-COND); registry entries are only appended to and the fan-out withholds no event from a registered feed (R-FEEDMAP-WRITERS, R-EVT-FEEDEVENT); CAS order is commit order because the CAS is drawn inside the transaction closure (R-HLC). Every mutation refreshes the row's CAS, so a resume from (mark + 1) selects it (R-ROWCOMPLETE). Every transaction that gives a row a new CAS hands out an event (R-EVT-ROW 'no event').",
		NotDecided:  "the union-of-runs behaviour itself.",
	}
	propTable["C16"] = PropDef{
		Title:       "Feeds terminate cleanly and independently",
		Rules:       []string{"R-DONE", "R-FEED-START", "R-LOOPVAR", "R-QUEUE", "R-SHUTDOWN", "R-FEEDMAP", "R-FEEDMAP-WRITERS", "R-GUARDED", "R-WAIT-LOCK", "R-REGISTRY", "R-POST-ALWAYS", "R-FEED-STOPPERS", "R-FEED-DELIVER"},
		Explanation: "The feed loop closes its done channel by a deferred close guarded only by 'channel is non-nil', starts its terminator goroutine whenever a terminator is given, and calls the callback only for non-nil events; per-collection done channels are fresh, passed to their feed, and coalesced by one goroutine that does not capture a loop variable (R-DONE, R-LOOPVAR); every started feed is registered or has its end marker (R-FEED-START); close wakes the puller (R-QUEUE); shutdown walks the shared registry before closing the database (R-SHUTDOWN); stopping a collection's feeds touches only its own registry entry (R-FEEDMAP); the registry is accessed under the bucket mutex (R-GUARDED). Registry entries are only appended to, never edited in place (R-FEEDMAP-WRITERS); no lock needed by the feed goroutine is held while waiting for it (R-WAIT-LOCK); a closed queue yields nothing (R-QUEUE). Deleting the bucket shuts the shared store (feeds, timer) down first, whatever the state of the calling handle (R-REGISTRY).",
		NotDecided:  "actual goroutine exit, starvation under load.",
	}
	propTable["C17"] = PropDef{
		Title:       "Revision sequence number counts the mutations of a key",
		Rules:       []string{"R-REV", "R-ROWCOMPLETE", "R-EVT-ROW", "R-BACKFILL", "R-EVT-CONV", "R-COLL", "R-EVT-FEEDEVENT", "R-INSERT-GUARD"},
		Explanation: "In every write unit the value bound to revSeqNo is (the row's revSeqNo read through the same transaction, or 0 when there is no row) + 1, on every path (R-REV); every kind of write unit assigns the column (R-ROWCOMPLETE); the event carries the same term (R-EVT-ROW/revSeqNo) and the converter and backfill map it to RevNo (R-EVT-CONV, R-BACKFILL); the virtual xattrs format the revSeqNo of their own SELECT (R-REV). The revision number that is incremented is read from the row of the receiver's collection (R-COLL); the keys-only copy of a feed event is a copy of the whole event, RevNo included (R-EVT-FEEDEVENT).",
		NotDecided:  "numbering across purge/re-create histories beyond 'absent row counts from 0'.",
	}
	propTable["C18"] = PropDef{
		Title:       "Sub-document writes change only the addressed property, CAS-safely",
		Rules:       []string{"R-RMW", "R-CAS", "R-FRESH-DECODE", "R-ERR-DROPPED", "R-INSERT-GUARD", "R-READ-CAS"},
		Scope:       map[string][]string{"R-RMW": {"WriteSubDoc", "SubdocInsert"}, "R-CAS": {"WriteCas"}},
		Explanation: "The sub-document writer reads into a variable that is fresh in every iteration, compares a caller-supplied CAS with the CAS it read before writing, writes back through the CAS-conditional entry point with the read CAS, and retries only on a CAS mismatch (R-RMW); that entry point's own guard is R-CAS. The document is decoded into a fresh map on every attempt (R-FRESH-DECODE). WriteCas fails with a CAS mismatch when its guarded statement matched no row (R-INSERT-GUARD); the read helper and its wrappers hand on a tombstone's CAS (R-READ-CAS).",
		NotDecided:  "JSON path semantics (including null parents), preservation of the other properties (value level), GetSubDocRaw's result.",
	}
	propTable["C19"] = PropDef{
		Title:       "SQL queries see exactly the live documents of their collection",
		Rules:       []string{"R-KEYSPACE", "R-LIVE", "R-COLL", "R-ROWBUF", "R-LASTID"},
		Explanation: "Every statement with caller-supplied text is wrapped in one CTE selecting key AS id, value AS body, xattrs from documents where collection = receiver id and value NOT NULL, with no further conjunct (R-KEYSPACE, R-COLL); liveness is decided from the body as the key-value reads do (R-LIVE); the row iterator hands out each row in storage private to that call, so the pre-recorded iterator of in-memory buckets keeps distinct rows (R-ROWBUF). The collection id a query is restricted to comes from a plain INSERT's LastInsertId or a SELECT (R-LASTID); every occurrence of the keyspace token is replaced (R-KEYSPACE).",
		NotDecided:  "row-by-row equality with a key-value read-back; iterator exhaustiveness; the caller's own SQL.",
	}
	propTable["C20"] = PropDef{
		Title:       "Shutdown is safe: no panic, deadlock or leaked goroutine at any timing",
		Rules:       []string{"R-LOCK-PAIR", "R-LOCK-ORDER", "R-GUARDED", "R-TXN-READS", "R-SHUTDOWN", "R-CLOSED", "R-FEEDMAP", "R-BG-PANIC", "R-TIMER", "R-DONE", "R-LOOPVAR", "R-WAIT-LOCK", "R-COMMIT", "R-REGISTRY", "R-FEED-START", "R-NIL-ROW", "R-ERR-DROPPED"},
		Explanation: "No lock is left held on any path (R-LOCK-PAIR); the lock-order graph computed from must-hold locksets and transitive may-acquire summaries is acyclic (R-LOCK-ORDER) and nothing inside a transaction re-enters the bucket mutex (R-TXN-READS); maps and the closed flag are accessed under their mutex (R-GUARDED: a concurrent map access is a fatal error); shutdown order (R-SHUTDOWN); the DB handle is never reset and is used only behind the closed test (R-CLOSED); the feed registry is never replaced (R-FEEDMAP); no explicit panic is reachable from a goroutine root or timer callback except the converter's assertions (R-BG-PANIC); the done channel of a feed is closed once (R-DONE, R-LOOPVAR: a second close panics in a library goroutine); only one expiry timer is ever pending, so stop() cancels it (R-TIMER). No lock needed by a goroutine is held while waiting for that goroutine to close a channel (R-WAIT-LOCK). The runner touches the transaction object only after a successful Begin (R-COMMIT). A pointer obtained together with an error is not handed out as a non-nil interface on the error branch (R-ERR-DROPPED); no TryLock (R-LOCK-PAIR).",
		NotDecided:  "absence of goroutine leaks and of run-time panics in general (nil dereferences, index errors); timing.",
	}
	// rules that are named above but not implemented yet are dropped from the lists, so that
	// nothing is claimed through an unbuilt rule
	for id, pd := range propTable {
		var have []string
		for _, rn := range pd.Rules {
			if _, ok := findRule(rn); ok {
				have = append(have, rn)
			} else {
				pd.Dropped = append(pd.Dropped, rn)
			}
		}
		pd.Rules = have
		if len(pd.Dropped) > 0 {
			pd.Explanation += " [Rules named here but not part of this build, hence NOT run and NOT claimed: " + strings.Join(pd.Dropped, ", ") + ".]"
		}
		propTable[id] = pd
	}
}
