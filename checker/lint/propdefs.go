package lint

func registerProps() {
	propTable["C05"] = PropDef{
		Title: "Tombstone coherence",
		Rules: []string{"R-TOMB", "R-ROWCOMPLETE", "R-XATTR-CARRY", "R-PURGE"},
		Explanation: "wip",
		NotDecided:  "wip",
	}
	propTable["C11"] = PropDef{
		Title: "Collection isolation",
		Rules: []string{"R-COLL", "R-KEYSPACE", "R-DROP"},
		Explanation: "wip",
		NotDecided:  "wip",
	}
	propTable["C06"] = PropDef{
		Title: "Insert-only writes",
		Rules: []string{"R-INSERT-GUARD", "R-TOMB"},
		Explanation: "wip", NotDecided: "wip",
	}
	propTable["C09"] = PropDef{Title: "Backfill", Rules: []string{"R-BACKFILL"}, Explanation: "wip", NotDecided: "wip"}
	propTable["C10"] = PropDef{Title: "Durability", Rules: []string{"R-TXN", "R-DSN", "R-HLC-MARK-SQL"}, Explanation: "wip", NotDecided: "wip"}
	propTable["C14"] = PropDef{Title: "Expiry", Rules: []string{"R-EXP-SQL"}, Explanation: "wip", NotDecided: "wip"}
	propTable["C19"] = PropDef{Title: "Queries", Rules: []string{"R-KEYSPACE", "R-LIVE"}, Explanation: "wip", NotDecided: "wip"}
	propTable["C01"] = PropDef{
		Title: "KV read-after-write",
		Rules: []string{"R-TXN", "R-ROWCOMPLETE"},
		Explanation: "wip", NotDecided: "wip",
	}
}
