package lint

// ruleTable is the catalogue of DESIGN.md section 4 (only rules that are implemented).
var ruleTable = []RuleDef{
	{"R-TXN", (*Model).ruleTXN, "every DML statement runs on the transaction handle handed to a transaction closure (exceptions by shape: embedded schema script; a single autocommit statement on the bucket/collections metadata tables by a bucket method; DDL)"},
	{"R-COLL", (*Model).ruleCOLL, "every statement of a collection method constrains each collection-owned table it ranges over (ownership read from schema.sql foreign keys) to the receiver's id, directly or through an equality join / an id obtained from a constrained statement; bucket methods may touch owned tables only in the purge statement and the min-expiry query"},
	{"R-KEYSPACE", (*Model).ruleKEYSPACE, "statements containing caller-supplied SQL are wrapped in one CTE selecting key AS id, value AS body, xattrs FROM documents WHERE collection = <receiver>.id AND <has body>, with no further conjunct"},
	{"R-DROP", (*Model).ruleDROP, "the drop statement is keyed by scope and name of the validated argument; schema.sql declares ON DELETE CASCADE on every ownership foreign key and AUTOINCREMENT on collections.id"},
	{"R-TOMB", (*Model).ruleTOMB, "every statement writing documents assigns value and tombstone together and coherently (NULL with 1, a bound body with 0, both bound only when the flag is selected by the same event's deletion field, or tombstone computed as <value written> IS NULL)"},
	{"R-ROWCOMPLETE", (*Model).ruleROWCOMPLETE, "a body-assigning write also assigns cas, exp, isJSON, revSeqNo; a tombstoning write also assigns xattrs and sets exp to 0 or a bound value; an xattr-only write assigns cas and revSeqNo; a touch assigns exp and revSeqNo"},
	{"R-INSERT-GUARD", (*Model).ruleINSERTGUARD, "every INSERT .. ON CONFLICT DO UPDATE on documents (except the upsert primitive) restricts the update, as a top-level conjunct, to rows without a body; conditional statements consult RowsAffected; Add/AddRaw reach only guarded inserts"},
	{"R-PURGE", (*Model).rulePURGE, "DELETE FROM documents has exactly a no-body test as its predicate"},
	{"R-XATTR-CARRY", (*Model).ruleXATTRCARRY, "a body-assigning update leaves xattrs only on live rows, or assigns xattrs itself / iif(<old row has no body>, NULL, xattrs) / NULL under a no-body guard / a bound value"},
	{"R-DSN", (*Model).ruleDSN, "the connection string sets _journal_mode=WAL, _txlock=immediate, _foreign_keys=1 and a non-zero _busy_timeout on every path to sql.Open, and does not weaken synchronous mode"},
	{"R-BACKFILL", (*Model).ruleBACKFILL, "the backfill statement selects from documents exactly the receiver's rows with cas >= start, ordered by cas, and its Scan fills every field of the event from the column that mirrors it (value/xattrs may be NULL in the keys-only variant); no event field is overridden in Go"},
	{"R-EXP-SQL", (*Model).ruleEXPSQL, "the expiry scan selects exactly the receiver's rows with 0 < exp <= now; the next-deadline query is min(exp) over exactly the rows with exp > 0"},
	{"R-LIVE", (*Model).ruleLIVE, "read-only statements decide liveness from the body column (as the key-value reads do), never from the tombstone flag"},
	{"R-HLC-MARK-SQL", (*Model).ruleHLCMARKSQL, "the mark helper sets bucket.lastCas and collections.lastCas (WHERE id = receiver id) to its CAS argument, through the transaction handle"},
	{"R-HLC", (*Model).ruleHLC, "the CAS clock is one package-level object assigned only during initialisation; its Now is called only inside closures handed to the transaction runner; the allocator persists, in the same closure and after the write, the very CAS it handed out, and every success return returns the mark helper's result; the open function raises the clock to the persisted bucket.lastCas before the bucket is registered"},
	{"R-MONO", (*Model).ruleMONO, "every store to the clock's high-water field is old+1, or a value stored only on the branch where it compares strictly above the old value (not below, for the seeding function), under the clock's mutex"},
	{"R-EVT-1", (*Model).ruleEVT1, "the post function is never reachable from code running inside a transaction; each call of it is reachable only through the edges where the transaction's error is nil and the event is non-nil, once"},
	{"R-EVT-FEEDEVENT", (*Model).ruleEVT45, "mutation/deletion FeedEvents are built only by the single converter; the fan-out never stores through the shared event pointer and gives keys-only feeds a private copy with Value cleared"},
	{"R-QUEUE", (*Model).ruleQUEUE, "the feed queue is FIFO (push and pull use opposite list ends), close broadcasts, push signals, pull re-tests in a loop around Wait, all under the queue lock"},
	{"R-ONE-TXN", (*Model).ruleONETXN, "a function that runs a transaction runs exactly one per call (not in a loop, not twice on a path) and calls nothing else that runs a transaction"},
	{"R-TXN-READS", (*Model).ruleTXNREADS, "nothing that executes inside a transaction closure obtains the connection pool, starts a transaction, locks the bucket mutex or touches the raw DB handle"},
	{"R-SHARED-COPY", (*Model).ruleSHAREDCOPY, "the handle-copy function shares mutex, DB handle, feed registry and expiry manager with its receiver, and gives the copy its own collections map and an open state"},
	{"R-CLOSED", (*Model).ruleCLOSED, "the raw DB handle is used only by pool accessors, the transaction runner, the shutdown routine and constructors, and in accessors/runner only behind the closed-flag test"},
	{"R-MACRO-ORDER", (*Model).ruleMACRO, "event fields read by macro expansion (cas, value) are not assigned again after the expansion call"},
	{"R-ROWBUF", (*Model).ruleROWBUF, "row iterators return each row in storage allocated by that call"},
	{"R-COMMIT", (*Model).ruleCOMMIT, "the transaction runner holds the bucket mutex from before Begin until after Commit/Rollback (deferred unlock), refuses closed handles, commits only when the callback returned nil, rolls back on every failing path before returning or retrying, and reports the commit error"},
	{"R-CAS", (*Model).ruleCAS, "for every entry point with an expected CAS, each statement that writes body or xattrs is guarded inside the same transaction closure: by a WHERE conjunct cas = <expected>, or by a comparison of the expected CAS with documents.cas read through the transaction such that removing the equal edge (and the no-CAS-supplied / insert-flag edges) makes the write unreachable"},
	{"R-RMW", (*Model).ruleRMW, "each read-modify-write loop writes back through a CAS-conditional entry point with the CAS its own read returned, reads into variables that are fresh in every iteration, retries only on a CAS mismatch, and compares a caller-supplied CAS with the read CAS before writing"},
	{"R-FLAGS", (*Model).ruleFLAGS, "every boolean write option that some caller sets is tested in a branch that guards an error return of the function receiving it"},
	{"R-READ-NULL", (*Model).ruleREADNULL, "the key-value read helper reports a row whose body is NULL as missing"},
	{"R-LOCK-PAIR", (*Model).ruleLOCKPAIR, "every Lock is followed by a deferred Unlock, or is a manual pair with no return reachable while held and no calls in the region other than container/list, sync and builtins"},
	{"R-LOCK-ORDER", (*Model).ruleLOCKORDER, "the graph 'lock B may be acquired while lock A is held' (must-hold locksets x transitive may-acquire summaries over the call graph) has no cycle and no self-edge, except a self-edge whose re-acquisition is provably dead"},
	{"R-GUARDED", (*Model).ruleGUARDED, "every map operation on (and every assignment to) the feed registry, the collections map, the view cache and the registry maps, and every access to the closed flag, happens while the owning mutex is must-held"},
	{"R-FEEDMAP", (*Model).ruleFEEDMAP, "the feed-registry field is assigned only on freshly constructed buckets, and collection methods address it with their own data-store name"},
	{"R-ATOMIC-ENQ", (*Model).ruleATOMICENQ, "the event of a committed mutation is enqueued inside the bucket-mutex critical section of its commit"},
	{"R-BACKFILL-GAP", (*Model).ruleBACKFILLGAP, "the backfill snapshot and the registration for live events form one critical section of the bucket mutex"},
	{"R-REGISTRY", (*Model).ruleREGISTRY, "handles are handed out only after a counted increment under the registry lock; store shutdown and registry-entry removal are one critical section; deleting a bucket always reaches the removal of its files; Close releases the registry reference only on the first close and sets the closed flag under the bucket mutex"},
	{"R-SHUTDOWN", (*Model).ruleSHUTDOWN, "the shutdown routine stops the expiry timer and closes every feed of the shared registry before closing the database; the feed's own closer reaches the queue's close on every path"},
	{"R-DONE", (*Model).ruleDONE, "the feed loop registers, on every path before the loop, a deferred close of its done channel guarded only by 'non-nil'; starts its terminator watcher whenever a terminator is given; calls the callback only for non-nil events; multi-collection starts use fresh per-collection done channels and one coalesced close"},
	{"R-OPENMODE", (*Model).ruleOPENMODE, "the registry lookup hands out a cached handle only if mode != CreateNew and the URL matches; the open function fails ReOpenExisting for an absent in-memory bucket and CreateNew for an existing directory, runs the schema script only when user_version is 0, and always re-arms expiry for an existing bucket"},
	{"R-VIEW", (*Model).ruleVIEW, "index update: obsolete-row delete and re-map select use the same comparator and mark, delete precedes insert, the view mark is the collection mark read in the same transaction; row query ordered by (mapped.key, documents.key) with range operators paired to min/max; JSON collation declared and registered; cached map function reused only when its source is unchanged; design-document replacement deletes before inserting"},
	{"R-VIEW-MARK", (*Model).ruleVIEWMARK, "every transaction closure that writes documents advances the collection's high-water mark"},
	{"R-BG-PANIC", (*Model).ruleBGPANIC, "no explicit panic outside the converter's assertions (whose conditions other rules exclude), in particular none reachable from background goroutines or timer callbacks"},
	{"R-EVT-CONV", (*Model).ruleEVTCONV, "in the converter each FeedEvent field is computed from exactly the event field that mirrors the same column, and the opcode / datatype selectors have the right polarity"},
	{"R-ERRPROP", (*Model).ruleERRPROP, "no error returned by a storage-layer call made inside a transaction is dropped"},
	{"R-EVT-ROW", (*Model).ruleEVTROW, "for every transaction closure and every column/field pair (key, value, cas, exp, isJSON, xattrs, revSeqNo, tombstone/isDeletion): the term the closure's event carries equals the term bound into the statement; a literal is reported as that constant; a column computed in SQL or left untouched is reported from a read of that column through the same transaction (after the write when it is computed in SQL)"},
	{"R-REV", (*Model).ruleREV, "the value bound to revSeqNo is (the row's revSeqNo scanned through the same transaction closure, or zero when there is no row) + 1, exactly one increment on every path; the virtual revision-id xattrs format the revSeqNo their own SELECT read"},
	{"R-EXP", (*Model).ruleEXP, "(a) every expiry bound into a statement has passed through the offset-to-absolute function, is the row's preserved expiry, or is zero; (b) an operation that stores an expiry without posting an event arms the timer with that same value, and every other arm call gets an absolute expiry; (c) the arm function re-arms exactly when nothing is scheduled or the new expiry is earlier; (d) the timer callback clears the fired deadline and always re-arms from the min-expiry query; (h) the offset conversion applies exactly for 0 < exp <= 30 days"},
	{"R-CHECKPOINT", (*Model).ruleCHECKPOINT, "the feed loop advances its delivered-CAS mark only from the event just handed to the callback, after the callback, and only upwards; the checkpoint document stores that mark; a resumed feed backfills from mark+1; the checkpoint is written when the loop ends; no other field of the feed object flows into the start position"},
	{"R-READ-ONCE", (*Model).ruleREADONCE, "a function that returns a document read outside a transaction obtains it from a single statement on documents"},
	{"R-POST-ORDER", (*Model).rulePOSTORDER, "in the post function nothing that may acquire a lock is called before the fan-out that enqueues the event"},
	{"R-FEEDMAP-WRITERS", (*Model).ruleFEEDWRITERS, "a feed-registry entry is only ever updated by appending one new feed to the existing entry"},
	{"R-PKG-STATE", (*Model).rulePKGSTATE, "package-level slices, arrays and maps are read-only after the package initialiser: no operation stores to one or hands it to a call that may write it (nothing guards them)"},
	{"R-LOOPVAR", (*Model).ruleLOOPVAR, "with pre-1.22 loop-variable semantics (go.mod), no goroutine started inside a loop captures the loop variable, and the address of a loop variable is not kept past its iteration"},
	{"R-FEED-START", (*Model).ruleFEEDSTART, "on every path a started feed is registered for live events or has its end marker queued"},
	{"R-TOMB-XATTRS", (*Model).ruleTOMBXATTRS, "a tombstoning statement binds xattrs that were filtered after being read (or are known empty), never the row's xattrs as read"},
	{"R-ERR-OVERWRITE", (*Model).ruleERROVERWRITE, "an error stored in a variable is examined or used before the variable is assigned again (no failure of one step or loop iteration is replaced by the outcome of a later one)"},
	{"R-OPTS-CARRY", (*Model).ruleOPTSCARRY, "a function that receives an options struct hands the caller's options on to the function doing the work (same pointer or complete copy), never nil or a partial fresh struct"},
	{"R-BACKFILL-COND", (*Model).ruleBACKFILLCOND, "whether the backfill snapshot is taken depends only on the feed arguments and on errors, never on stored state"},
	{"R-VIEW-PARAMS", (*Model).ruleVIEWPARAMS, "every view query option honoured today (key range and its inclusive flags, descending, limit, include_docs) is read by the view query path"},
	{"R-OPEN-ERR", (*Model).ruleOPENERR, "once the open function has registered the bucket no return carries an error (its cleanup-on-error deletes the store)"},
	{"R-FRESH-DECODE", (*Model).ruleFRESHDECODE, "a map that json.Unmarshal decodes into inside a loop is a fresh variable (or reset) in every iteration"},
	{"R-WAIT-LOCK", (*Model).ruleWAITLOCK, "no lock needed by the goroutine that closes a channel is held while waiting for that channel"},
	{"R-WRITE-PATH", (*Model).ruleWRITEPATH, "an exported mutating entry point reports success only on paths that went through the document writer"},
	{"R-FILTER-RESULT", (*Model).ruleFILTERRESULT, "a parse-edit-reencode helper never returns its unmodified input on a path that ran the editing callback"},
	{"R-XATTR-ROUNDTRIP", (*Model).ruleXATTRROUNDTRIP, "stored xattrs that are always re-encoded are decoded whenever they exist (no extra condition on the decode)"},
	{"R-LASTID", (*Model).ruleLASTID, "LastInsertId is taken only from a plain INSERT (no ON CONFLICT / OR IGNORE), so it is the id of the row just inserted"},
	{"R-VIEW-STALE", (*Model).ruleVIEWSTALE, "the synchronous index update before a view query is skipped only for the documented stale values (deny-list, not allow-list)"},
	{"R-UNIQUE-LOOKUP", (*Model).ruleUNIQUELOOKUP, "a single-row read constrains a whole key (UNIQUE constraint or primary key) of every table it selects from"},
	{"R-READ-CAS", (*Model).ruleREADCAS, "a read helper that returns documents.cas returns it on every path on which a row was read (a tombstone is reported with its CAS)"},
	{"R-FEED-DELIVER", (*Model).ruleFEEDDELIVER, "the feed's delivery loop hands every event it pulls to the callback"},
	{"R-POST-ALWAYS", (*Model).rulePOSTALWAYS, "the post function reaches the fan-out on every path, and the fan-out loop visits every registered feed"},
	{"R-FEED-STOPPERS", (*Model).ruleFEEDSTOPPERS, "feeds found in the store-wide registry are closed only through the shutdown routine or the collection drop"},
	{"R-MEMURL", (*Model).ruleMEMURL, "file-system operations on a bucket URL happen only after the parsed URL's mode parameter was found different from \"memory\""},
	{"R-KEEP-NEEDS-ROW", (*Model).ruleKEEPNEEDSROW, "an option that keeps the row's value is honoured only on paths on which the row was read"},
	{"R-XATTR-VALIDATE", (*Model).ruleXATTRVALIDATE, "the combined writer decodes every supplied xattr value before the transaction, whatever the options"},
	{"R-ERR-DROPPED", (*Model).ruleERRDROPPED, "an error that is only ever compared with nil leads, on its non-nil branch, only to returns that report a failure"},
	{"R-RETRY-STATE", (*Model).ruleRETRYSTATE, "no argument of a read-modify-write loop's write-back is carried round the loop from an earlier iteration (a reset to a constant is not state): what an abandoned attempt computed is never written by the retry"},
	{"R-NIL-ROW", (*Model).ruleNILROW, "a row that may come from the closed-bucket stub is scanned through the nil-safe helper, never with (*sql.Row).Scan directly"},
	{"R-TIMER", (*Model).ruleTIMER, "a new expiry timer is created only when the manager holds none"},
}

type PropDef struct {
	Title       string
	Rules       []string
	Explanation string
	NotDecided  string
	Dropped     []string
	// Scope restricts a rule's obligations, for this property, to the functions reachable
	// from the named exported entry points of the collection type.
	Scope map[string][]string
}

// propTable maps each claimed property to the rules that decide its structural clauses.
var propTable = map[string]PropDef{}

func init() {
	// filled as rules are implemented; see registerProps in propdefs.go
	registerProps()
}
