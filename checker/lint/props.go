package lint

// ruleTable is the catalogue of DESIGN.md section 4 (only rules that are implemented).
var ruleTable = []RuleDef{
	{"R-TXN", (*Model).ruleTXN, "every DML statement runs on the transaction handle handed to a transaction closure (exceptions by shape: embedded schema script; a single autocommit statement on the bucket/collections metadata tables by a bucket method; DDL)"},
	{"R-COLL", (*Model).ruleCOLL, "every statement of a collection method constrains each collection-owned table it ranges over (ownership read from schema.sql foreign keys) to the receiver's id, directly or through an equality join / an id obtained from a constrained statement; bucket methods may touch owned tables only in the purge statement and the min-expiry query"},
	{"R-KEYSPACE", (*Model).ruleKEYSPACE, "statements containing caller-supplied SQL are wrapped in one CTE selecting key AS id, value AS body, xattrs FROM documents WHERE collection = <receiver>.id AND <has body>, with no further conjunct"},
	{"R-DROP", (*Model).ruleDROP, "the drop statement is keyed by scope and name of the validated argument; schema.sql declares ON DELETE CASCADE on every ownership foreign key and AUTOINCREMENT on collections.id"},
	{"R-TOMB", (*Model).ruleTOMB, "every statement writing documents assigns value and tombstone together and coherently (NULL with 1, a bound body with 0, both bound only when the flag is selected by the same event's deletion field, or tombstone computed as <value written> IS NULL)"},
	{"R-ROWCOMPLETE", (*Model).ruleROWCOMPLETE, "a body-assigning write also assigns cas, exp, isJSON, revSeqNo; a tombstoning write also assigns xattrs and sets exp to 0 or a bound value; an xattr-only write assigns cas and revSeqNo; a touch assigns exp and revSeqNo"},
	{"R-INSERT-GUARD", (*Model).ruleINSERTGUARD, "every INSERT .. ON CONFLICT DO UPDATE on documents (except the upsert primitive) restricts the update, as a top-level conjunct, to rows without a body; conditional statements consult RowsAffected; Add/AddRaw reach only guarded inserts"},
	{"R-PURGE", (*Model).rulePURGE, "DELETE FROM documents has exactly a no-body test as its predicate"},
	{"R-XATTR-CARRY", (*Model).ruleXATTRCARRY, "a body-assigning update leaves xattrs only on live rows, or assigns xattrs itself / iif(<old row has no body>, NULL, xattrs) / NULL under a no-body guard / a bound value"},
}

type PropDef struct {
	Title       string
	Rules       []string
	Explanation string
	NotDecided  string
}

// propTable maps each claimed property to the rules that decide its structural clauses.
var propTable = map[string]PropDef{}

func init() {
	// filled as rules are implemented; see registerProps in propdefs.go
	registerProps()
}
