package lint

import (
	"encoding/json"
	"fmt"
	"os"
	"sort"
	"strings"
)

type Status int

const (
	OK Status = iota
	Violation
	Undecided
	Info
)

func (s Status) String() string { return [...]string{"ok", "VIOLATION", "UNDECIDED", "info"}[s] }

// Obligation is one instance of a rule on one construct.
type Obligation struct {
	Rule   string `json:"rule"`
	Key    string `json:"key"` // rule / function / construct (never a line number)
	Pos    string `json:"pos"` // file:line, for humans
	Status Status `json:"-"`
	St     string `json:"status"`
	Msg    string `json:"msg,omitempty"`
}

// Results accumulates obligations while rules run.
type Results struct {
	Obls  []*Obligation
	seen  map[string]int
	Count map[string]int // per rule, number of obligations
}

func NewResults() *Results { return &Results{seen: map[string]int{}, Count: map[string]int{}} }

func (r *Results) add(rule, construct, pos string, st Status, format string, args ...any) *Obligation {
	key := rule + " / " + construct
	// the same construct reached through several statement variants with the same verdict is one obligation
	msg0 := fmt.Sprintf(format, args...)
	for _, o := range r.Obls {
		if o.Status == st && o.Msg == msg0 && (o.Key == key || strings.HasPrefix(o.Key, key+" #")) {
			return o
		}
	}
	// keys must be unique; disambiguate repeated identical constructs by ordinal
	r.seen[key]++
	if n := r.seen[key]; n > 1 {
		key = fmt.Sprintf("%s #%d", key, n)
	}
	o := &Obligation{Rule: rule, Key: key, Pos: pos, Status: st, St: st.String(), Msg: fmt.Sprintf(format, args...)}
	r.Obls = append(r.Obls, o)
	if st != Info {
		r.Count[rule]++
	}
	return o
}

func (r *Results) ok(rule, construct, pos, format string, args ...any) {
	r.add(rule, construct, pos, OK, format, args...)
}
func (r *Results) bad(rule, construct, pos, format string, args ...any) {
	r.add(rule, construct, pos, Violation, format, args...)
}
func (r *Results) undecided(rule, construct, pos, format string, args ...any) {
	r.add(rule, construct, pos, Undecided, format, args...)
}
func (r *Results) info(rule, construct, pos, format string, args ...any) {
	r.add(rule, construct, pos, Info, format, args...)
}

// check adds ok or violation depending on cond.
func (r *Results) check(cond bool, rule, construct, pos, okMsg, badMsg string) {
	if cond {
		r.ok(rule, construct, pos, "%s", okMsg)
	} else {
		r.bad(rule, construct, pos, "%s", badMsg)
	}
}

// floor reports UNDECIDED when a rule matched fewer instances than were confirmed by hand:
// a rule that matches nothing must not pass vacuously.
func (r *Results) floor(rule string, min int) {
	if r.Count[rule] < min {
		r.undecided(rule, "instance-floor", "-", "rule matched %d instance(s); at least %d were confirmed by hand on the reference tree — the rule no longer recognises the code it is about", r.Count[rule], min)
	}
}

// ---- known findings ----

type KnownFinding struct {
	Property string `json:"property"`
	Key      string `json:"key"`
	What     string `json:"what"`
	Repro    string `json:"repro,omitempty"`
}

type FixedFinding struct {
	Property string `json:"property"`
	Commit   string `json:"commit"`
	What     string `json:"what"`
}

type KnownFile struct {
	Comment string         `json:"_comment,omitempty"`
	Known   []KnownFinding `json:"known"`
	Fixed   []FixedFinding `json:"fixed"`
}

func LoadKnown(path string) (*KnownFile, error) {
	kf := &KnownFile{}
	b, err := os.ReadFile(path)
	if err != nil {
		if os.IsNotExist(err) {
			return kf, nil
		}
		return nil, err
	}
	if err := json.Unmarshal(b, kf); err != nil {
		return nil, fmt.Errorf("%s: %w", path, err)
	}
	return kf, nil
}

func (kf *KnownFile) match(property, key string) *KnownFinding {
	for i := range kf.Known {
		k := &kf.Known[i]
		if k.Property == property && k.Key == key {
			return k
		}
	}
	return nil
}

// ---- evidence ----

type Evidence struct {
	PropertyID  string         `json:"property_id"`
	Tier        string         `json:"tier"`
	Seed        int            `json:"seed"`
	Level       string         `json:"level"`
	Coverage    map[string]any `json:"coverage"`
	Assumptions []string       `json:"assumptions"`
	WallS       float64        `json:"wall_s"`
	Violations  int            `json:"violations"`
}

func sortedKeys[V any](m map[string]V) []string {
	var ks []string
	for k := range m {
		ks = append(ks, k)
	}
	sort.Strings(ks)
	return ks
}

func indent(s, pre string) string {
	return pre + strings.ReplaceAll(s, "\n", "\n"+pre)
}
