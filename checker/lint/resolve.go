package lint

import (
	"go/token"
	"go/types"

	"golang.org/x/tools/go/ssa"
)

// resolve chases a value back through conversions, parameters of inlined frames,
// single-assignment captured cells and closure bindings, and returns the value it
// originates from together with the frame that value lives in.
func (m *Model) resolve(v ssa.Value, fr *frame) (ssa.Value, *frame) {
	for i := 0; i < 32; i++ {
		v = stripConv(v)
		switch x := v.(type) {
		case *ssa.Parameter:
			if fr != nil {
				if av, afr, ok := fr.actual(x); ok {
					v, fr = av, afr
					continue
				}
			}
			return v, fr
		case *ssa.UnOp:
			if x.Op != token.MUL {
				return v, fr
			}
			switch cell := x.X.(type) {
			case *ssa.Alloc:
				if st := singleStore(cell); st != nil {
					v = st.Val
					continue
				}
				return v, fr
			case *ssa.FreeVar:
				bind, pfr := m.freeVarBinding(cell, fr)
				if bind == nil {
					return v, fr
				}
				if al, ok := bind.(*ssa.Alloc); ok {
					if st := singleStore(al); st != nil {
						v, fr = st.Val, pfr
						continue
					}
					return v, fr
				}
				// bound directly to a value (rare: go/ssa captures by reference)
				v, fr = bind, pfr
				continue
			default:
				// load through a pointer value: *p where p resolves to a local cell (e.g. ifCas = &cas)
				px, pfr := m.resolve(x.X, fr)
				if al, ok := px.(*ssa.Alloc); ok && px != x.X {
					if st := singleStore(al); st != nil {
						v, fr = st.Val, pfr
						continue
					}
				}
			}
			return v, fr
		case *ssa.FreeVar:
			bind, pfr := m.freeVarBinding(x, fr)
			if bind == nil {
				return v, fr
			}
			v, fr = bind, pfr
			continue
		}
		return v, fr
	}
	return v, fr
}

// isReceiver reports whether v (in frame fr) is the receiver of the outermost enclosing
// method, and that receiver is a pointer to the named type.
func (m *Model) isReceiver(v ssa.Value, fr *frame, named *types.Named) bool {
	rv, rfr := m.resolve(v, fr)
	p, ok := rv.(*ssa.Parameter)
	if !ok {
		return false
	}
	fn := p.Parent()
	if rfr != nil && rfr.caller != nil {
		return false // still a parameter of an inlined callee whose actual is unknown
	}
	if fn.Signature.Recv() == nil || len(fn.Params) == 0 || fn.Params[0] != p {
		return false
	}
	pt, ok := p.Type().(*types.Pointer)
	return ok && pt.Elem() == named
}

// fieldLoad matches a load of base.field and returns base.
func fieldLoad(v ssa.Value) (base ssa.Value, field *types.Var, ok bool) {
	v = stripConv(v)
	switch x := v.(type) {
	case *ssa.UnOp:
		if x.Op != token.MUL {
			return nil, nil, false
		}
		fa, ok := x.X.(*ssa.FieldAddr)
		if !ok {
			return nil, nil, false
		}
		return fa.X, fieldOf(fa), true
	case *ssa.Field:
		return x.X, fieldOfField(x), true
	}
	return nil, nil, false
}

// isRecvCollID: the value is <receiver *Collection>.id
func (m *Model) isRecvCollID(b Binding) bool {
	if b.V == nil || m.A.CollectionType == nil || m.A.CollIDField == nil {
		return false
	}
	rv, rfr := m.resolve(b.V, b.Fr)
	base, f, ok := fieldLoad(rv)
	if !ok || f != m.A.CollIDField {
		return false
	}
	return m.isReceiver(base, rfr, m.A.CollectionType)
}

// describe renders a binding for messages.
func (m *Model) describe(b Binding) string {
	if b.V == nil {
		return "<unbound>"
	}
	rv, _ := m.resolve(b.V, b.Fr)
	if base, f, ok := fieldLoad(rv); ok {
		bv, _ := m.resolve(base, b.Fr)
		return bv.Name() + "." + f.Name()
	}
	if c, ok := rv.(*ssa.Const); ok {
		return c.String()
	}
	return rv.Name() + ":" + rv.Type().String()
}
