package lint

import (
	"go/token"
	"go/types"

	"golang.org/x/tools/go/ssa"
)

// resolve chases a value back through conversions, parameters of inlined frames,
// single-assignment captured cells and closure bindings, and returns the value it
// originates from together with the frame that value lives in.
func (m *Model) resolve(v ssa.Value, fr *frame) (ssa.Value, *frame) {
	for i := 0; i < 32; i++ {
		v = stripConv(v)
		switch x := v.(type) {
		case *ssa.Parameter:
			if fr != nil {
				if av, afr, ok := fr.actual(x); ok {
					v, fr = av, afr
					continue
				}
			}
			return v, fr
		case *ssa.UnOp:
			if x.Op != token.MUL {
				return v, fr
			}
			switch cell := x.X.(type) {
			case *ssa.Alloc:
				if st := singleStore(cell); st != nil {
					v = st.Val
					continue
				}
				return v, fr
			case *ssa.FreeVar:
				bind, pfr := m.freeVarBinding(cell, fr)
				if bind == nil {
					return v, fr
				}
				if al, ok := bind.(*ssa.Alloc); ok {
					if st := singleStore(al); st != nil {
						v, fr = st.Val, pfr
						continue
					}
					return v, fr
				}
				// bound directly to a value (rare: go/ssa captures by reference)
				v, fr = bind, pfr
				continue
			case *ssa.FieldAddr:
				// a field of a struct literal built by a caller (a command object such as
				// removal{c: c, key: key}): what was stored into that field there
				px, pfr := m.resolve(cell.X, fr)
				if al, ok := px.(*ssa.Alloc); ok {
					if sv := m.literalField(al, fieldOf(cell)); sv != nil {
						v, fr = sv, pfr
						continue
					}
					// a local that holds the struct an accessor returned (`dk := c.docKey(key)`)
					if st := singleStore(al); st != nil {
						sv, sfr := m.resolve(st.Val, pfr)
						if ld, ok := sv.(*ssa.UnOp); ok && ld.Op == token.MUL {
							if src, ok := ld.X.(*ssa.Alloc); ok {
								if fv := m.literalField(src, fieldOf(cell)); fv != nil {
									v, fr = fv, sfr
									continue
								}
							}
						}
					}
				}
				return v, fr
			default:
				// load through a pointer value: *p where p resolves to a local cell (e.g. ifCas = &cas)
				px, pfr := m.resolve(x.X, fr)
				if al, ok := px.(*ssa.Alloc); ok && px != x.X {
					if st := singleStore(al); st != nil {
						v, fr = st.Val, pfr
						continue
					}
				}
			}
			return v, fr
		case *ssa.FreeVar:
			bind, pfr := m.freeVarBinding(x, fr)
			if bind == nil {
				return v, fr
			}
			v, fr = bind, pfr
			continue
		case *ssa.Call:
			// a straight-line accessor of the package (`func (c *Collection) collectionID() CollectionID
			// { return c.id }`): what it returns, in its own frame
			if rv, rfr := m.accessorResult(x, 0, fr); rv != nil {
				v, fr = rv, rfr
				continue
			}
			return v, fr
		case *ssa.Extract:
			if call, ok := x.Tuple.(*ssa.Call); ok {
				if rv, rfr := m.accessorResult(call, x.Index, fr); rv != nil {
					v, fr = rv, rfr
					continue
				}
			}
			return v, fr
		case *ssa.Field:
			// a field of a struct VALUE that an accessor built (`c.docKey(key).collection`)
			sv, sfr := m.resolve(x.X, fr)
			if ld, ok := sv.(*ssa.UnOp); ok && ld.Op == token.MUL {
				if al, ok := ld.X.(*ssa.Alloc); ok {
					if fv := m.literalField(al, fieldOfField(x)); fv != nil {
						v, fr = fv, sfr
						continue
					}
				}
			}
			return v, fr
		}
		return v, fr
	}
	return v, fr
}

// accessorResult: result idx of a call to a package function that consists of a single basic
// block ending in a return (no branches, hence no choice about what is returned).
func (m *Model) accessorResult(call *ssa.Call, idx int, fr *frame) (ssa.Value, *frame) {
	return m.accessorResultX(call, idx, fr, false)
}

// accessorResultX: with allowCalls, calls whose results merely become elements of the returned
// literal are tolerated (an argument-packing helper such as scopeAndName(name)).
func (m *Model) accessorResultX(call *ssa.Call, idx int, fr *frame, allowCalls bool) (ssa.Value, *frame) {
	callee := call.Common().StaticCallee()
	if callee == nil || !m.inPkg(callee) || len(callee.Blocks) != 1 || fr == nil || fr.depth > 6 {
		return nil, nil
	}
	if call.Parent() != fr.fn {
		return nil, nil
	}
	blk := callee.Blocks[0]
	ret, ok := blk.Instrs[len(blk.Instrs)-1].(*ssa.Return)
	if !ok || idx >= len(ret.Results) {
		return nil, nil
	}
	for _, ins := range blk.Instrs {
		switch x := ins.(type) {
		case *ssa.Store:
			// anything with an effect (other than building the returned literal) disqualifies it
			var base ssa.Value
			switch a := x.Addr.(type) {
			case *ssa.FieldAddr:
				base = a.X
			case *ssa.IndexAddr:
				base = a.X
			}
			if al, isAl := base.(*ssa.Alloc); isAl && (al.Comment == "complit" || al.Comment == "slicelit" || al.Comment == "varargs") {
				continue
			}
			return nil, nil
		case ssa.CallInstruction:
			if f := x.Common().StaticCallee(); f != nil && f.Pkg != nil && f.Pkg.Pkg.Path() == "database/sql" && f.Name() == "Named" {
				continue // packs a name and a value; no effect
			}
			if _, isCall := x.(*ssa.Call); isCall && allowCalls {
				continue
			}
			return nil, nil
		}
	}
	return ret.Results[idx], fr.inline(call, callee)
}

// isReceiver reports whether v (in frame fr) is the receiver of the outermost enclosing
// method, and that receiver is a pointer to the named type.
func (m *Model) isReceiver(v ssa.Value, fr *frame, named *types.Named) bool {
	rv, rfr := m.resolve(v, fr)
	p, ok := rv.(*ssa.Parameter)
	if !ok {
		return false
	}
	fn := p.Parent()
	if rfr != nil && rfr.caller != nil {
		return false // still a parameter of an inlined callee whose actual is unknown
	}
	if fn.Signature.Recv() == nil || len(fn.Params) == 0 || fn.Params[0] != p {
		return false
	}
	pt, ok := p.Type().(*types.Pointer)
	return ok && pt.Elem() == named
}

// fieldLoad matches a load of base.field and returns base.
func fieldLoad(v ssa.Value) (base ssa.Value, field *types.Var, ok bool) {
	v = stripConv(v)
	switch x := v.(type) {
	case *ssa.UnOp:
		if x.Op != token.MUL {
			return nil, nil, false
		}
		fa, ok := x.X.(*ssa.FieldAddr)
		if !ok {
			return nil, nil, false
		}
		return fieldRoot(fa), fieldOf(fa), true
	case *ssa.Field:
		return x.X, fieldOfField(x), true
	}
	return nil, nil, false
}

// isRecvCollID: the value is <receiver *Collection>.id
func (m *Model) isRecvCollID(b Binding) bool {
	if b.V == nil || m.A.CollectionType == nil || m.A.CollIDField == nil {
		return false
	}
	rv, rfr := m.resolve(b.V, b.Fr)
	base, f, ok := fieldLoad(rv)
	if !ok || f != m.A.CollIDField {
		return false
	}
	return m.isReceiver(base, rfr, m.A.CollectionType)
}

// describe renders a binding for messages.
func (m *Model) describe(b Binding) string {
	if b.V == nil {
		return "<unbound>"
	}
	rv, _ := m.resolve(b.V, b.Fr)
	if base, f, ok := fieldLoad(rv); ok {
		bv, _ := m.resolve(base, b.Fr)
		return bv.Name() + "." + f.Name()
	}
	if c, ok := rv.(*ssa.Const); ok {
		return c.String()
	}
	return rv.Name() + ":" + rv.Type().String()
}

// literalField: al is a struct literal; the value its construction stores into field f, provided
// that is the only store to that field (of any object of the type) in the whole package.
func (m *Model) literalField(al *ssa.Alloc, f *types.Var) ssa.Value {
	if al.Referrers() == nil || f == nil {
		return nil
	}
	var val ssa.Value
	for _, ref := range *al.Referrers() {
		fa, ok := ref.(*ssa.FieldAddr)
		if !ok || fieldOf(fa) != f || fa.Referrers() == nil {
			continue
		}
		for _, r2 := range *fa.Referrers() {
			if st, ok := r2.(*ssa.Store); ok && st.Addr == ssa.Value(fa) {
				if val != nil {
					return nil
				}
				val = st.Val
			}
		}
	}
	if val == nil {
		// `x := T{...}`: the literal is built in a temporary and copied into x as a whole
		for _, ref := range *al.Referrers() {
			if st, ok := ref.(*ssa.Store); ok && st.Addr == ssa.Value(al) {
				if ld, ok := st.Val.(*ssa.UnOp); ok && ld.Op == token.MUL {
					if src, ok := ld.X.(*ssa.Alloc); ok && src != al {
						return m.literalField(src, f)
					}
				}
			}
		}
		return nil
	}
	n := 0
	for _, g := range m.Funcs {
		for _, b := range g.Blocks {
			for _, ins := range b.Instrs {
				if st, ok := ins.(*ssa.Store); ok {
					if fa, ok := st.Addr.(*ssa.FieldAddr); ok && fieldOf(fa) == f {
						n++
					}
				}
			}
		}
	}
	if n != 1 {
		return nil
	}
	return val
}

// fieldRoot: the object a field address belongs to; for a leaf of a struct-valued (embedded or
// named) field it is the object that holds the outer field.
func fieldRoot(fa *ssa.FieldAddr) ssa.Value {
	if inner, ok := stripConv(fa.X).(*ssa.FieldAddr); ok {
		if f := fieldOf(inner); f != nil && sameNamedPkg(f) {
			if _, isStruct := f.Type().Underlying().(*types.Struct); isStruct {
				return inner.X
			}
		}
	}
	return fa.X
}
