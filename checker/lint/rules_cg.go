package lint

import (
	"fmt"
	"go/constant"
	"go/token"
	"go/types"
	"sort"
	"strings"

	"golang.org/x/tools/go/ssa"

	"rosmarlint/sqlp"
)

// txnClosures returns the functions passed (as closures or function values) to the
// transaction runner, plus, for the allocator wrapper, the functions passed to it.
// kind: "runner" (closure handed straight to the txn runner) or "alloc" (callback of the allocator).
type txnClosure struct {
	Fn     *ssa.Function
	Kind   string
	Caller *ssa.Function
	Call   ssa.CallInstruction
}

func (m *Model) txnClosures() []txnClosure {
	var out []txnClosure
	fw := m.runnerForwarders()
	for _, fn := range m.Funcs {
		m.eachCall(fn, func(c ssa.CallInstruction) {
			callee := c.Common().StaticCallee()
			if callee == nil {
				return
			}
			kind := ""
			switch {
			case callee == m.A.TxnRunner:
				kind = "runner"
			case callee == m.A.Allocator:
				kind = "alloc"
			default:
				kind = fw[callee].kind
			}
			if kind == "" {
				return
			}
			for i, arg := range c.Common().Args {
				if f, isFw := fw[callee]; isFw && i != f.param {
					continue
				}
				for _, t := range m.funcTargets(arg) {
					if m.inPkg(t) {
						out = append(out, txnClosure{t, kind, fn, c})
					}
				}
			}
		})
	}
	return out
}

type runnerForwarder struct {
	kind  string
	param int // index (in the call's argument list) of the function that is passed on
}

// runnerForwarders: thin wrappers that hand their function-typed parameter, unchanged, to the
// transaction runner or the CAS allocator (`func (c *Collection) inTransaction(fn) error { return
// c.bucket.inTransaction(fn) }`): a closure passed to one of them is a transaction closure.
func (m *Model) runnerForwarders() map[*ssa.Function]runnerForwarder {
	if m.fwCache != nil {
		return m.fwCache
	}
	out := map[*ssa.Function]runnerForwarder{}
	for round := 0; round < 2; round++ {
		for _, fn := range m.Funcs {
			if fn.Parent() != nil || fn == m.A.TxnRunner || fn == m.A.Allocator {
				continue
			}
			m.eachCall(fn, func(c ssa.CallInstruction) {
				callee := c.Common().StaticCallee()
				if callee == nil {
					return
				}
				kind := ""
				switch {
				case callee == m.A.TxnRunner:
					kind = "runner"
				case callee == m.A.Allocator:
					kind = "alloc"
				default:
					kind = out[callee].kind
				}
				if kind == "" {
					return
				}
				for _, arg := range c.Common().Args {
					p, ok := arg.(*ssa.Parameter)
					if !ok || p.Parent() != fn {
						continue
					}
					if _, isFn := p.Type().Underlying().(*types.Signature); !isFn {
						continue
					}
					for i, q := range fn.Params {
						if q == p {
							out[fn] = runnerForwarder{kind, i}
						}
					}
				}
			})
		}
	}
	m.fwCache = out
	return out
}

// inTxnExtent: functions that execute inside a transaction: the closures and everything
// they reach through static calls in the package.
func (m *Model) inTxnExtent() map[*ssa.Function]*ssa.Function {
	out := map[*ssa.Function]*ssa.Function{}
	for _, tc := range m.txnClosures() {
		for f := range m.reachableLocal(tc.Fn) {
			if _, ok := out[f]; !ok {
				out[f] = tc.Fn
			}
		}
	}
	return out
}

func inCycle(b *ssa.BasicBlock) bool {
	for _, s := range b.Succs {
		if reachableFrom(s, nil)[b.Index] {
			return true
		}
	}
	return false
}

// ---------------------------------------------------------------- R-HLC-*

func (m *Model) ruleHLC(r *Results) {
	const rule = "R-HLC"
	a := &m.A
	if a.ClockNow == nil || a.AllocClos == nil {
		r.undecided(rule, "anchors", "-", "clock / allocator unresolved: %v", a.Problems)
		return
	}
	// CALL: every call of the clock's Now is inside a closure handed to the txn runner
	closures := map[*ssa.Function]bool{}
	for _, tc := range m.txnClosures() {
		if tc.Kind == "runner" {
			closures[tc.Fn] = true
		}
	}
	n := 0
	for _, fn := range m.Funcs {
		m.eachCall(fn, func(c ssa.CallInstruction) {
			if c.Common().StaticCallee() != a.ClockNow {
				return
			}
			n++
			key := "CALL / " + m.declName(fn)
			if closures[fn] || m.onlyCalledFrom(fn, closures, 0) {
				r.ok(rule, key, m.instrPos(c), "CAS drawn inside the transaction closure (under the bucket mutex, inside BEGIN..COMMIT)")
			} else {
				r.bad(rule, key, m.instrPos(c), "CAS is drawn from the clock outside a transaction closure: two writers can then commit in the opposite order of their CAS values, and a document's CAS can go backwards")
			}
			// GLOBAL: receiver is a load of the package-level clock
			if len(c.Common().Args) > 0 {
				ld, ok := c.Common().Args[0].(*ssa.UnOp)
				_, isG := ssa.Value(nil), false
				if ok {
					_, isG = ld.X.(*ssa.Global)
				}
				r.check(isG, rule, "GLOBAL / "+m.declName(fn)+" / clock receiver", m.instrPos(c), "the clock is the process-wide one", "the clock used for CAS is not the process-wide package variable")
			}
		})
	}
	if n == 0 {
		r.undecided(rule, "CALL", "-", "no call to the clock found")
	}
	if a.ClockGlobal != nil {
		for _, fn := range m.Funcs {
			for _, b := range fn.Blocks {
				for _, in := range b.Instrs {
					if st, ok := in.(*ssa.Store); ok && st.Addr == ssa.Value(a.ClockGlobal) {
						isInit := strings.HasPrefix(fn.Name(), "init")
						r.check(isInit, rule, "GLOBAL / store in "+m.declName(fn), m.instrPos(st), "process-wide clock assigned during package initialisation only", "the process-wide clock is replaced at run time: CAS values handed out before and after are not ordered")
					}
				}
			}
		}
	} else {
		r.undecided(rule, "GLOBAL", "-", "the clock is not loaded from a package-level variable")
	}
	// STAMP: a closure that is handed a fresh CAS by the allocator and assigns the row's cas column
	// assigns exactly that CAS, on every path (re-storing the CAS that was read, or the zero a
	// re-initialised event carries, leaves the row under a CAS that was handed out before)
	{
		te := m.newTermEval()
		allocK := map[*ssa.Function]bool{}
		for _, tc := range m.txnClosures() {
			if tc.Kind == "alloc" {
				allocK[tc.Fn] = true
			}
		}
		ns := 0
		for _, wu := range m.writeUnits(te) {
			if !allocK[wu.K] {
				continue
			}
			src := wu.Cols["cas"]
			if src.Kind == "unassigned" {
				continue
			}
			var casParam *ssa.Parameter
			for _, p := range wu.K.Params {
				if b, ok := p.Type().Underlying().(*types.Basic); ok && b.Kind() == types.Uint64 {
					casParam = p
				}
			}
			key := fmt.Sprintf("STAMP / %s / %s", m.declName(wu.K), wu.Stmt.Shape())
			ns++
			if casParam == nil || src.Kind != "bound" || src.Term == nil {
				r.bad(rule, key, m.instrPos(wu.Site.Call), "the statement assigns the row's cas, but not from the CAS the allocator handed to this closure (%s)", src.Kind)
				continue
			}
			want := m.declName(wu.K) + "." + casParam.Name()
			bad := ""
			for _, alt := range src.Term.alts() {
				if !(alt.Kind == "param" && alt.Name == want) {
					bad = alt.String()
				}
			}
			r.check(bad == "", rule, key, m.instrPos(wu.Site.Call), "cas := the freshly allocated CAS", "the row's cas can be written as "+bad+" instead of the CAS the allocator handed to this closure: the mutation does not move the document to a new, larger CAS (CAS-guarded writers holding the old one still succeed, feeds resume past it)")
		}
		if ns < 8 {
			r.undecided(rule, "STAMP / instance-floor", "-", "only %d allocator closures assign the cas column", ns)
		}
	}
	// STAMP+MARK: after the write callback, every path of the allocator closure that does not return the
	// callback's error passes the statements that persist the high-water marks (in the closure or a helper)
	clos := a.AllocClos
	var cbCall ssa.CallInstruction
	m.eachCall(clos, func(c ssa.CallInstruction) {
		if c.Common().StaticCallee() == nil && !c.Common().IsInvoke() {
			if _, isB := c.Common().Value.(*ssa.Builtin); !isB {
				cbCall = c
			}
		}
	})
	marks := m.markInstrs(clos)
	if cbCall == nil || len(marks) == 0 {
		r.bad(rule, "MARK / "+m.declName(clos), m.pos(clos.Pos()), "allocator closure does not both call the write callback and persist the high-water mark (no UPDATE .. SET lastCas in its extent)")
	} else {
		c := newCut()
		for _, mi := range marks {
			c.cutBlock(mi.Block())
		}
		// the callback-error edge
		cbErr := ssa.Value(nil)
		if v := cbCall.Value(); v != nil && v.Referrers() != nil {
			for _, ref := range *v.Referrers() {
				if ex, ok := ref.(*ssa.Extract); ok && types.Identical(ex.Type(), types.Universe.Lookup("error").Type()) {
					cbErr = ex
				}
			}
		}
		for _, iff := range allIfs(clos) {
			cd := condOf(iff)
			eq, ok := cd.equalEdge()
			if !ok || !(isNilConst(cd.X) || isNilConst(cd.Y)) {
				continue
			}
			other := cd.X
			if isNilConst(cd.X) {
				other = cd.Y
			}
			if cbErr != nil && flowsThroughPhi(cbErr, other) {
				for _, sx := range iff.Block().Succs {
					if sx != eq {
						c.cutEdge(iff.Block(), sx)
					}
				}
			}
		}
		leak := false
		var where ssa.Instruction
		reach := reachableFromSuccs(cbCall.Block(), c)
		if !c.blocks[cbCall.Block().Index] {
			// marks in the same block as the callback are after it by the order check below
			for _, ret := range returnsOf(clos) {
				if reach[ret.Block().Index] || ret.Block() == cbCall.Block() {
					leak, where = true, ret
				}
			}
		}
		if leak {
			r.bad(rule, "MARK / every success path", m.instrPos(where), "the allocator closure can report success without having advanced the high-water mark in the same transaction")
		} else {
			r.ok(rule, "MARK / every success path", m.instrPos(marks[0]), "every path after a successful write callback persists the high-water mark before returning")
		}
		after := true
		for _, mi := range marks {
			if !instrReachable(cbCall, mi, nil) || instrReachable(mi, cbCall, nil) {
				after = false
			}
		}
		r.check(after, rule, "MARK / order", m.instrPos(marks[0]), "the mark is written after the document, in the same closure", "the high-water mark is not written after the write callback")
	}
	// SEED: open function seeds the clock from the persisted bucket mark before registration
	m.ruleHLCSeed(r, rule)
	r.floor(rule, 6)
}

func (m *Model) ruleHLCSeed(r *Results, rule string) {
	a := &m.A
	fn := a.OpenFn
	if fn == nil || a.ClockGlobal == nil {
		r.undecided(rule, "SEED", "-", "open function / clock unresolved")
		return
	}
	var seed, anchor, open ssa.CallInstruction
	var seedFr *frame
	var regs []ssa.CallInstruction
	isSeed := func(f *ssa.Function) bool {
		return f != a.ClockNow && f.Signature.Recv() != nil && a.ClockType != nil && isNamed(f.Signature.Recv().Type(), m.SSA.Pkg.Path(), a.ClockType.Obj().Name())
	}
	m.eachCall(fn, func(c ssa.CallInstruction) {
		f := c.Common().StaticCallee()
		if f == nil {
			return
		}
		if f.Pkg != nil && f.Pkg.Pkg.Path() == "database/sql" && f.Name() == "Open" {
			open = c
		}
		if isSeed(f) {
			seed, anchor, seedFr = c, c, topFrame(fn)
		}
		if m.inPkg(f) && a.CloneFn != nil && m.reachableLocal(f)[a.CloneFn] {
			regs = append(regs, c)
		}
	})
	if seed == nil {
		// the seeding may sit in a helper of the open function that performs it on every path
		var find func(g *ssa.Function, fr *frame, depth int) (ssa.CallInstruction, *frame)
		find = func(g *ssa.Function, fr *frame, depth int) (ssa.CallInstruction, *frame) {
			var out ssa.CallInstruction
			var outFr *frame
			m.eachCall(g, func(c ssa.CallInstruction) {
				if _, isCall := c.(*ssa.Call); !isCall || out != nil {
					return
				}
				f := c.Common().StaticCallee()
				if f == nil {
					return
				}
				var s ssa.CallInstruction
				var sfr *frame
				if isSeed(f) {
					s, sfr = c, fr
				} else if m.inPkg(f) && len(f.Blocks) > 0 && depth < 2 && f != fn {
					s, sfr = find(f, fr.inline(c, f), depth+1)
				}
				if s == nil {
					return
				}
				if ok, _ := mustPassThrough(g, []*ssa.BasicBlock{c.Block()}, nil); ok {
					out, outFr = s, sfr
				} else {
					// the helper also registers the bucket (a "finish opening" phase with early error
					// returns): there the seeding has to come before the registration
					dom := false
					m.eachCall(g, func(rg ssa.CallInstruction) {
						h := rg.Common().StaticCallee()
						if h == nil || !m.inPkg(h) || a.CloneFn == nil || !m.reachableLocal(h)[a.CloneFn] || rg == c {
							return
						}
						if c.Block() == rg.Block() && indexIn(c.Block(), c) < indexIn(rg.Block(), rg) || c.Block() != rg.Block() && c.Block().Dominates(rg.Block()) {
							dom = true
						} else {
							dom = false
						}
					})
					if dom {
						out, outFr = s, sfr
					}
				}
			})
			return out, outFr
		}
		m.eachCall(fn, func(c ssa.CallInstruction) {
			if _, isCall := c.(*ssa.Call); !isCall || seed != nil {
				return
			}
			if f := c.Common().StaticCallee(); f != nil && m.inPkg(f) && len(f.Blocks) > 0 && f != fn {
				if s, sfr := find(f, topFrame(fn).inline(c, f), 1); s != nil {
					seed, anchor, seedFr = s, c, sfr
				}
			}
		})
	}
	if seed == nil {
		r.bad(rule, "SEED / "+m.declName(fn), m.pos(fn.Pos()), "the open function never raises the clock to the bucket's persisted high-water mark: after a reopen with a clock that stands still or went back, CAS values can repeat")
		return
	}
	key := "SEED / " + m.declName(fn)
	// dominates every registration that happens after the DB was opened
	okDom := true
	for _, rg := range regs {
		if rg == anchor {
			continue // seeded and registered inside the same helper, in that order (checked there)
		}
		if open != nil && (open.Block() == rg.Block() || open.Block().Dominates(rg.Block())) {
			if !(anchor.Block() == rg.Block() && indexIn(anchor.Block(), anchor) < indexIn(rg.Block(), rg) || anchor.Block() != rg.Block() && anchor.Block().Dominates(rg.Block())) {
				okDom = false
			}
		}
	}
	r.check(okDom, rule, key+" / before registration", m.instrPos(seed), "clock is seeded on every path before the bucket is registered", "the bucket can be registered (and used) before the clock has been raised to its persisted mark")
	// the seeding method raises the clock to the value it is given, not to something smaller
	// (stores may sit in a clock helper that is handed the value unchanged)
	if sf := seed.Common().StaticCallee(); sf != nil && len(sf.Blocks) > 0 {
		nStores, identity := 0, true
		var visit func(f *ssa.Function, tracked *ssa.Parameter, depth int)
		visit = func(f *ssa.Function, tracked *ssa.Parameter, depth int) {
			for _, b := range f.Blocks {
				for _, in := range b.Instrs {
					switch x := in.(type) {
					case *ssa.Store:
						fa, ok := x.Addr.(*ssa.FieldAddr)
						if !ok || !ownerIs(fa, a.ClockType) {
							continue
						}
						if bt, ok := fieldOf(fa).Type().Underlying().(*types.Basic); !ok || bt.Kind() != types.Uint64 {
							continue
						}
						nStores++
						if stripConv(x.Val) != ssa.Value(tracked) {
							// (or the larger of the given value and the mark: `max(old, given)`)
							viaMax := false
							if call, ok := stripConv(x.Val).(*ssa.Call); ok && m.isMaxHelper(call.Common().StaticCallee()) {
								for _, a := range call.Common().Args {
									if stripConv(a) == ssa.Value(tracked) {
										viaMax = true
									}
								}
							}
							if !viaMax {
								identity = false
							}
						}
					case ssa.CallInstruction:
						callee := x.Common().StaticCallee()
						if callee == nil || !m.inPkg(callee) || len(callee.Blocks) == 0 || depth >= 2 {
							continue
						}
						for i, arg := range x.Common().Args {
							if i < len(callee.Params) && stripConv(arg) == ssa.Value(tracked) {
								visit(callee, callee.Params[i], depth+1)
							}
						}
					}
				}
			}
		}
		for _, p := range sf.Params {
			if bt, ok := p.Type().Underlying().(*types.Basic); ok && bt.Kind() == types.Uint64 {
				visit(sf, p, 0)
			}
		}
		r.check(nStores > 0 && identity, rule, key+" / raises to the persisted mark", m.pos(sf.Pos()), "the seeding method stores exactly the value it is given into the clock's high-water field", "the seeding method stores something other than the persisted mark it is given (e.g. a truncated value): the clock can restart below a CAS that was already handed out")
	}
	// argument provenance: result of a function whose only statement is SELECT lastCas FROM bucket
	args := seed.Common().Args
	var src ssa.Value
	if len(args) >= 2 {
		src, _ = m.resolve(args[1], seedFr)
	}
	call, _ := src.(*ssa.Call)
	var f *ssa.Function
	if call != nil {
		f = call.Common().StaticCallee()
	}
	if f == nil {
		r.bad(rule, key+" / source", m.instrPos(seed), "the seeding value is not read through a helper the checker can follow")
		return
	}
	good := false
	var what string
	for _, s := range m.Sites {
		if s.Fn != f {
			continue
		}
		for _, v := range s.Variants {
			st := v.Stmt()
			if st == nil || st.Kind != sqlp.SSelect || st.Select == nil {
				continue
			}
			sel := st.Select
			what = st.Shape()
			if len(sel.Cols) == 1 && isCol(sel.Cols[0].Expr, "lastCas") && len(sel.From) == 1 && lower(sel.From[0].Name) == "bucket" && sel.Where == nil {
				// the scan destination must flow to the return
				for _, sc := range m.scansOfSite(s) {
					if len(sc.Dests) == 1 {
						good = true
					}
				}
			}
		}
	}
	r.check(good, rule, key+" / source", m.instrPos(seed), "seed = persisted bucket.lastCas (advanced in every write transaction by the mark helper)", fmt.Sprintf("the clock is seeded from %q, not from the bucket's persisted high-water mark: rows can disappear (purge, dropped collections) while the mark never goes back", what))
}

// ---------------------------------------------------------------- R-MONO

func (m *Model) ruleMONO(r *Results) {
	const rule = "R-MONO"
	a := &m.A
	if a.ClockNow == nil || a.ClockType == nil {
		r.undecided(rule, "anchors", "-", "clock unresolved")
		return
	}
	// the high-water field: the uint64 field of the clock stored to in Now
	var hw *types.Var
	for g := range m.reachableLocal(a.ClockNow) {
		for _, b := range g.Blocks {
			for _, in := range b.Instrs {
				if st, ok := in.(*ssa.Store); ok {
					if fa, ok := st.Addr.(*ssa.FieldAddr); ok && ownerIs(fa, a.ClockType) {
						if bt, ok := fieldOf(fa).Type().Underlying().(*types.Basic); ok && bt.Kind() == types.Uint64 {
							hw = fieldOf(fa)
						}
					}
				}
			}
		}
	}
	if hw == nil {
		r.undecided(rule, "high-water field", m.pos(a.ClockNow.Pos()), "Now stores to no field of the clock")
		return
	}
	for _, fn := range m.Funcs {
		if fn.Parent() != nil {
			continue
		}
		var stores []*ssa.Store
		for _, b := range fn.Blocks {
			for _, in := range b.Instrs {
				if st, ok := in.(*ssa.Store); ok {
					if fa, ok := st.Addr.(*ssa.FieldAddr); ok && fieldOf(fa) == hw && ownerIs(fa, a.ClockType) {
						stores = append(stores, st)
					}
				}
			}
		}
		if len(stores) == 0 {
			continue
		}
		if isConstructor(fn, a.ClockType) {
			r.ok(rule, m.declName(fn)+" / constructor", m.pos(fn.Pos()), "initialises a fresh clock")
			continue
		}
		returnsStamp := fn.Signature.Results().Len() > 0
		for _, st := range stores {
			key := m.declName(fn) + " / store " + hw.Name()
			pos := m.instrPos(st)
			val := stripConv(st.Val)
			if bo, ok := val.(*ssa.BinOp); ok && bo.Op == token.ADD {
				if _, f, ok := fieldLoad(bo.X); ok && f == hw {
					if c, ok := bo.Y.(*ssa.Const); ok && c.Value != nil && c.Uint64() == 1 {
						r.ok(rule, key+" = old+1", pos, "strictly above the previous value")
						continue
					}
				}
			}
			// a value that is above the old mark by construction: old+1, the larger of two values one
			// of which is, a phi of such values (an edge value may also be guarded by `x > y`)
			switch m.aboveOld(val, st.Block(), hw, 0) {
			case 2:
				r.ok(rule, key+" = value above old by construction", pos, "old+1, max(...) or a guarded selection of such values")
				continue
			case 1:
				if !returnsStamp {
					r.ok(rule, key+" = value not below old by construction", pos, "seeding never lowers the mark")
					continue
				}
			}
			// stored value x: find the controlling comparison between old and x
			strict, nonstrict := false, false
			for _, ct := range controllingConds(fn, st.Block()) {
				cd := condOf(ct.If)
				if cd.Op == token.ILLEGAL {
					continue
				}
				x, y := stripConv(cd.X), stripConv(cd.Y)
				_, fx, okx := fieldLoad(x)
				_, fy, oky := fieldLoad(y)
				oldLeft := okx && fx == hw && sameValue(y, val)
				oldRight := oky && fy == hw && sameValue(x, val)
				if !oldLeft && !oldRight {
					continue
				}
				taken := ct.Branch
				if cd.Neg {
					taken = !taken
				}
				op := cd.Op
				if oldRight { // normalise to old OP x
					op = map[token.Token]token.Token{token.LSS: token.GTR, token.GTR: token.LSS, token.LEQ: token.GEQ, token.GEQ: token.LEQ, token.EQL: token.EQL, token.NEQ: token.NEQ}[op]
				}
				// condition "old op x" is `taken` on the way to the store
				switch {
				case op == token.GEQ && !taken, op == token.LSS && taken:
					strict = true // old < x
				case op == token.GTR && !taken, op == token.LEQ && taken:
					nonstrict = true // old <= x
				}
			}
			// a seeding function raises the mark whenever the given value is above it: its store
			// depends on nothing but that comparison (not on the wall clock's reading, say)
			if !returnsStamp {
				foreign := ""
				for _, ct := range controllingConds(fn, st.Block()) {
					cd := condOf(ct.If)
					if cd.Op == token.ILLEGAL || cd.Y == nil {
						foreign = m.instrPos(ct.If)
						continue
					}
					x, y := stripConv(cd.X), stripConv(cd.Y)
					_, fx, okx := fieldLoad(x)
					_, fy, oky := fieldLoad(y)
					if !(okx && fx == hw && sameValue(y, val) || oky && fy == hw && sameValue(x, val)) {
						foreign = m.instrPos(ct.If)
					}
				}
				r.check(foreign == "", rule, key+" / seeding depends only on the comparison with the mark", pos, "the store is controlled by nothing but the comparison of the given value with the old mark", "whether the seeding function raises the mark also depends on another condition (at "+foreign+"): a persisted CAS that is above the mark can then be ignored, and the clock hands out that CAS (or a smaller one) again when the wall clock stands still or steps back")
			}
			// ... on EVERY path: with the edges that establish old < x (old <= x for seeding) removed,
			// the store is unreachable (a second way into the branch - `a && b` false through b -
			// would store x although old >= x)
			if strict || nonstrict {
				cg := newCut()
				for _, iff := range allIfs(fn) {
					cd := condOf(iff)
					if cd.Op == token.ILLEGAL || cd.Y == nil {
						continue
					}
					x, y := stripConv(cd.X), stripConv(cd.Y)
					_, fx, okx := fieldLoad(x)
					_, fy, oky := fieldLoad(y)
					oldLeft := okx && fx == hw && sameValue(y, val)
					oldRight := oky && fy == hw && sameValue(x, val)
					if !oldLeft && !oldRight {
						continue
					}
					op := cd.Op
					if oldRight {
						op = map[token.Token]token.Token{token.LSS: token.GTR, token.GTR: token.LSS, token.LEQ: token.GEQ, token.GEQ: token.LEQ, token.EQL: token.EQL, token.NEQ: token.NEQ}[op]
					}
					// the edge on which old < x (strictly) holds
					switch op {
					case token.GEQ:
						cg.cutEdge(iff.Block(), cd.succWhen(false))
					case token.LSS:
						cg.cutEdge(iff.Block(), cd.succWhen(true))
					case token.GTR:
						if !returnsStamp {
							cg.cutEdge(iff.Block(), cd.succWhen(false))
						}
					case token.LEQ:
						if !returnsStamp {
							cg.cutEdge(iff.Block(), cd.succWhen(true))
						}
					}
				}
				if entryReach(fn, cg)[st.Block().Index] {
					r.bad(rule, key+" guarded on every path", pos, "the store of a value other than old+1 into the clock's high-water mark is reachable on a path on which the comparison with the old mark did not find the new value above it (a second condition lets the branch be entered with old >= x): the mark - and with it the CAS sequence of every bucket in the process - can go backwards")
					continue
				}
			}
			switch {
			case strict:
				r.ok(rule, key+" = x under old<x", pos, "stored only when strictly above the previous value")
			case nonstrict && !returnsStamp:
				r.ok(rule, key+" = x under old<=x", pos, "seeding never lowers the mark")
			case nonstrict:
				r.bad(rule, key+" = x under old<=x", pos, "a timestamp-returning function stores a value that may EQUAL the previous high-water mark: two callers can receive the same CAS when the clock reading equals the last CAS")
			default:
				r.bad(rule, key+" unguarded", pos, "store to the clock's high-water mark that is neither old+1 nor guarded by a comparison with the old value: the mark can go backwards")
			}
		}
		// the stamp handed out is the value left in the high-water field: the field means "last
		// value issued", which is what the seeding functions store into it (a function that hands
		// out the old value and leaves old+1 behind turns it into "next value to issue", and a
		// clock seeded with the last persisted CAS then issues that CAS again)
		if returnsStamp && fn == a.ClockNow {
			for _, ret := range returnsOf(fn) {
				if len(ret.Results) == 0 {
					continue
				}
				res := stripConv(ret.Results[0])
				// (a result spilled into a cell because of the deferred unlock: what this return stored there)
				if ld, ok := res.(*ssa.UnOp); ok && ld.Op == token.MUL {
					if al, ok := ld.X.(*ssa.Alloc); ok {
						instrs := ret.Block().Instrs
						for i := len(instrs) - 1; i >= 0; i-- {
							if st, ok := instrs[i].(*ssa.Store); ok && st.Addr == ssa.Value(al) {
								res = stripConv(st.Val)
								break
							}
						}
					}
				}
				good := false
				if _, f, ok := fieldLoad(res); ok && f == hw {
					good = true
					ld := res.(ssa.Instruction)
					for _, st := range stores {
						if forwardReachable(ld, st) {
							good = false
						}
					}
				} else {
					for _, st := range stores {
						// or the very value the last store wrote
						if sameValue(stripConv(st.Val), res) && st.Block() == ret.Block() {
							good = true
						}
					}
				}
				r.check(good, rule, m.declName(fn)+" / the stamp returned is the mark left behind", m.instrPos(ret), "the value returned is read from the high-water field after its last update", "the value returned is not the value left in the high-water field (the field is updated again after the returned value was taken): the field no longer holds the last stamp issued, so a clock seeded from the last persisted CAS hands that CAS out a second time")
			}
		}
		// lock discipline: Lock + deferred Unlock on the clock's own mutex before the first store
		locked := true
		for _, st := range stores {
			has := false
			for l := range m.heldAt(st) {
				if l.Role == "clock-mutex" {
					has = true
				}
			}
			if !has {
				locked = false
			}
		}
		r.check(locked, rule, m.declName(fn)+" / mutex", m.pos(fn.Pos()), "runs under the clock's mutex (deferred unlock)", "updates the high-water mark without holding the clock's mutex for the whole function")
	}
	r.floor(rule, 4)
}

func isConstructor(fn *ssa.Function, named *types.Named) bool {
	if fn.Signature.Recv() != nil {
		return false
	}
	res := fn.Signature.Results()
	return res.Len() == 1 && isPtrToNamed(res.At(0).Type(), named.Obj().Pkg().Path(), named.Obj().Name())
}

// ---------------------------------------------------------------- R-EVT-1, R-EVT-4, R-EVT-5

func (m *Model) ruleEVT1(r *Results) {
	const rule = "R-EVT-1"
	a := &m.A
	if a.PostFn == nil || a.TxnRunner == nil {
		r.undecided(rule, "anchors", "-", "post function / txn runner unresolved: %v", a.Problems)
		return
	}
	inTxn := m.inTxnExtent()
	n := 0
	for _, fn := range m.Funcs {
		m.eachCall(fn, func(c ssa.CallInstruction) {
			if c.Common().StaticCallee() != a.PostFn {
				return
			}
			n++
			key := m.declName(fn) + " / post"
			pos := m.instrPos(c)
			if clos, bad := inTxn[fn]; bad {
				r.bad(rule, key, pos, "event posted from inside the transaction (%s): a rollback or failed commit would still have delivered it", m.declName(clos))
				return
			}
			// find the txn runner / allocator call in this function whose error gates the post
			var txnCall ssa.CallInstruction
			m.eachCall(fn, func(c2 ssa.CallInstruction) {
				if f := c2.Common().StaticCallee(); f != nil && (f == a.TxnRunner || f == a.Allocator || m.runnerForwarders()[f].kind != "") {
					txnCall = c2
				}
			})
			if txnCall == nil {
				r.bad(rule, key, pos, "event posted by a function that runs no transaction itself")
				return
			}
			errV := txnCall.Value()
			// cut the err == nil edge: the post must become unreachable
			cutNil := newCut()
			cutEvt := newCut()
			foundErr, foundEvt := false, false
			for _, iff := range allIfs(fn) {
				cd := condOf(iff)
				eq, ok := cd.equalEdge()
				if !ok {
					continue
				}
				other := cd.Y
				nilSide := isNilConst(cd.Y)
				if isNilConst(cd.X) {
					other, nilSide = cd.X, true
					other = cd.Y
				} else {
					other = cd.X
				}
				if !nilSide {
					continue
				}
				if errV != nil && stripConv(other) == ssa.Value(errV) {
					cutNil.cutEdge(iff.Block(), eq)
					foundErr = true
				}
				if pt, ok := other.Type().(*types.Pointer); ok && pt.Elem() == a.EventType {
					// event == nil edge is `eq`; the post must be unreachable when the non-nil edge is cut
					for _, s := range iff.Block().Succs {
						if s != eq {
							cutEvt.cutEdge(iff.Block(), s)
							foundEvt = true
						}
					}
				}
			}
			r.check(foundErr && !entryReach(fn, cutNil)[c.Block().Index], rule, key+" / only after successful commit", pos, "post is reachable only through the edge where the transaction's error is nil", "the event can be posted although the transaction (or its commit) failed")
			r.check(foundEvt && !entryReach(fn, cutEvt)[c.Block().Index], rule, key+" / only with an event", pos, "post is reachable only with a non-nil event", "post call is not guarded by event != nil")
			r.check(!inCycle(c.Block()) && instrReachable(txnCall, c, nil), rule, key+" / once", pos, "posted once, after the transaction", "post call is in a loop or precedes the transaction")
		})
	}
	if n == 0 {
		r.undecided(rule, "post call sites", "-", "the post function is never called")
	}
	// An event stands for a write: a transaction closure that has produced one (returned it, or
	// assigned it to the variable its caller posts from) does not report success on a path that
	// executed no document write.
	writes := map[*ssa.Function]bool{}
	m.eachStmt(false, func(s *SQLSite, v *Variant, st *sqlp.Stmt) {
		if st.Kind == sqlp.SSelect {
			return
		}
		for _, t := range st.Tables() {
			if t == "documents" {
				writes[s.Fn] = true
				if s.Helper != nil {
					writes[s.Helper] = true
				}
			}
		}
	})
	seenK := map[*ssa.Function]bool{}
	nk := 0
	for _, tc := range m.txnClosures() {
		K := tc.Fn
		if seenK[K] || len(K.Blocks) == 0 || K == a.AllocClos || (a.Allocator != nil && rootOf(K) == a.Allocator) {
			continue // (the allocator's own closure gets its event from the write callback)
		}
		seenK[K] = true
		isEvtPtr := func(t types.Type) bool {
			pt, ok := t.(*types.Pointer)
			return ok && a.EventType != nil && pt.Elem() == types.Type(a.EventType)
		}
		// where the closure commits itself to an event
		var made []ssa.Instruction
		for _, b := range K.Blocks {
			for _, ins := range b.Instrs {
				switch x := ins.(type) {
				case *ssa.Store:
					if _, ok := x.Addr.(*ssa.FreeVar); ok && isEvtPtr(x.Val.Type()) && !isNilConst(x.Val) {
						made = append(made, x)
					}
				case *ssa.Return:
					if tc.Kind == "alloc" && len(x.Results) == 2 && isEvtPtr(x.Results[0].Type()) && !isNilConst(x.Results[0]) {
						made = append(made, x)
					}
				}
			}
		}
		if len(made) == 0 {
			continue
		}
		nk++
		c := newCut()
		m.eachCall(K, func(call ssa.CallInstruction) {
			if _, isDefer := call.(*ssa.Defer); isDefer {
				return
			}
			hit := false
			for _, s := range m.Sites {
				if s.Call == call && writes[s.Fn] {
					for _, v := range s.Variants {
						for _, st := range v.Stmts {
							if st.Kind != sqlp.SSelect {
								hit = true
							}
						}
					}
				}
			}
			if f := call.Common().StaticCallee(); f != nil && m.inPkg(f) {
				for g := range m.reachableLocal(f) {
					if writes[g] {
						hit = true
					}
				}
			}
			if hit {
				c.cutBlock(call.Block())
			}
		})
		// edges on which an error is known to be non-nil
		for _, iff := range allIfs(K) {
			cd := condOf(iff)
			eq, ok := cd.equalEdge()
			if !ok || !(isNilConst(cd.X) || isNilConst(cd.Y)) {
				continue
			}
			other := cd.X
			if isNilConst(cd.X) {
				other = cd.Y
			}
			if !isErrorType(other.Type()) {
				continue
			}
			for _, s := range iff.Block().Succs {
				if s != eq {
					c.cutEdge(iff.Block(), s)
				}
			}
		}
		reach := entryReach(K, c)
		bad := ""
		for _, mk := range made {
			if !reach[mk.Block().Index] {
				continue
			}
			from := reachableFrom(mk.Block(), c)
			for _, ret := range returnsOf(K) {
				if ret.Block() != mk.Block() && !from[ret.Block().Index] {
					continue
				}
				if m.mustBeFailureReturn(ret) {
					continue
				}
				bad = m.instrPos(ret)
			}
		}
		r.check(bad == "", rule, m.declName(K)+" / an event is produced only by a path that wrote", m.pos(K.Pos()), "every return that may report success with an event lies behind a document write", "the transaction closure can report success at "+bad+" with an event produced but no document write executed on the path: the feeds are told of a mutation (with a CAS) that no row carries")
	}
	if nk == 0 {
		r.undecided(rule, "event-producing closures", "-", "no transaction closure produces an event")
	}
	r.floor(rule, 4)
}

func (m *Model) ruleEVT45(r *Results) {
	const rule = "R-EVT-FEEDEVENT"
	a := &m.A
	if a.Converter == nil || a.FanoutFn == nil {
		r.undecided(rule, "anchors", "-", "converter / fan-out unresolved: %v", a.Problems)
		return
	}
	// EVT-4: mutation/deletion feed events are built only by the converter
	for _, fn := range m.Funcs {
		for _, b := range fn.Blocks {
			for _, in := range b.Instrs {
				st, ok := in.(*ssa.Store)
				if !ok {
					continue
				}
				fa, ok := st.Addr.(*ssa.FieldAddr)
				if !ok {
					continue
				}
				f := fieldOf(fa)
				if f == nil || f.Name() != "Opcode" || !isNamed(f.Type(), sgbucketPath, "FeedOpcode") {
					continue
				}
				key := m.declName(fn) + " / FeedEvent.Opcode"
				if fn == a.Converter {
					r.ok(rule, key, m.instrPos(st), "the converter chooses the opcode")
					continue
				}
				c, isConst := st.Val.(*ssa.Const)
				marker := false
				if isConst && c.Value != nil {
					// sgbucket: FeedOpBeginBackfill=0, FeedOpEndBackfill=1, FeedOpMutation=2, FeedOpDeletion=3
					v := c.Int64()
					marker = v == 0 || v == 1
				}
				r.check(marker, rule, key, m.instrPos(st), "only backfill markers are built outside the converter", "a mutation/deletion feed event is constructed outside the single converter: it need not agree with the stored row")
			}
		}
	}
	// EVT-5: fan-out never writes through the shared event pointer; keys-only pushes a private copy.
	// The fan-out's extent includes package helpers it hands the shared event to.
	nPush := 0
	clean := true
	filtered := false
	visited := map[*ssa.Function]bool{}
	// unitStoresOnly: no store through the shared event in a helper that only chooses what to push
	unitStoresOnly := func(h *ssa.Function, hp *ssa.Parameter) {
		for _, b := range h.Blocks {
			for _, in := range b.Instrs {
				if st, ok := in.(*ssa.Store); ok {
					if fa, ok := st.Addr.(*ssa.FieldAddr); ok && stripConv(fa.X) == ssa.Value(hp) {
						clean = false
						r.bad(rule, m.declName(a.FanoutFn)+" / store through shared event", m.instrPos(st), "the fan-out writes field %s of the event object that is shared by every feed of the collection: the other feeds receive the altered event", fieldOf(fa).Name())
					}
				}
			}
		}
	}
	var unit func(fn *ssa.Function, evParam *ssa.Parameter, ctxKeysOnly bool)
	unit = func(fn *ssa.Function, evParam *ssa.Parameter, ctxKeysOnly bool) {
		if visited[fn] {
			return
		}
		visited[fn] = true
		shared := func(v ssa.Value) bool {
			seen := map[ssa.Value]bool{}
			var rec func(v ssa.Value) bool
			rec = func(v ssa.Value) bool {
				if seen[v] {
					return false
				}
				seen[v] = true
				v = stripConv(v)
				if v == ssa.Value(evParam) {
					return true
				}
				if phi, ok := v.(*ssa.Phi); ok {
					for _, e := range phi.Edges {
						if rec(e) {
							return true
						}
					}
				}
				if ld, ok := v.(*ssa.UnOp); ok && ld.Op == token.MUL {
					if al, ok := ld.X.(*ssa.Alloc); ok {
						for _, ref := range *al.Referrers() {
							if st, ok := ref.(*ssa.Store); ok && st.Addr == al && rec(st.Val) {
								return true
							}
						}
					}
				}
				return false
			}
			return rec(v)
		}
		onKeysOnly := func(b *ssa.BasicBlock) bool {
			if ctxKeysOnly {
				return true
			}
			for _, ct := range controllingConds(fn, b) {
				if _, f, ok := fieldLoad(ct.If.Cond); ok && f.Name() == "KeysOnly" && ct.Branch {
					return true
				}
			}
			return false
		}
		for _, b := range fn.Blocks {
			for _, in := range b.Instrs {
				if st, ok := in.(*ssa.Store); ok {
					if fa, ok := st.Addr.(*ssa.FieldAddr); ok && shared(fa.X) {
						clean = false
						r.bad(rule, m.declName(a.FanoutFn)+" / store through shared event", m.instrPos(st), "the fan-out writes field %s of the event object that is shared by every feed of the collection: the other feeds receive the altered event", fieldOf(fa).Name())
					}
				}
			}
		}
		// every push pushes either the shared event or a local copy whose Value was cleared
		m.eachCall(fn, func(c ssa.CallInstruction) {
			callee := c.Common().StaticCallee()
			if callee == nil {
				return
			}
			if !m.isQueueMethod(callee, "push") {
				// a helper that is handed the shared event continues the fan-out
				if m.inPkg(callee) && len(callee.Blocks) > 0 {
					args := c.Common().Args
					for i, p := range callee.Params {
						if i < len(args) && isPtrToNamed(p.Type(), sgbucketPath, "FeedEvent") && shared(args[i]) {
							unit(callee, p, onKeysOnly(c.Block()))
						}
					}
				}
				return
			}
			nPush++
			arg := c.Common().Args[len(c.Common().Args)-1]
			key := m.declName(a.FanoutFn) + " / push"
			// the push may depend on whether the feed wants bodies and on the feed being there, not on
			// fields of the event or other state of the feed: a registered feed is handed every event
			for _, ct := range controllingConds(fn, c.Block()) {
				cd := condOf(ct.If)
				for _, o := range []ssa.Value{cd.X, cd.Y} {
					if o == nil {
						continue
					}
					if fname, ok := m.fieldInCond(o, 0); ok && fname != "KeysOnly" {
						filtered = true
						r.bad(rule, m.declName(a.FanoutFn)+" / every registered feed gets the event", m.instrPos(ct.If), "the fan-out delivers an event to a registered feed only under a condition on field %s: events can be withheld from a running feed", fname)
					}
				}
			}
			if shared(arg) {
				// must not be on the keys-only branch
				r.check(!onKeysOnly(c.Block()), rule, key+" shared", m.instrPos(c), "full event pushed to a feed that wants values", "a keys-only feed is given the full event (with its body)")
				return
			}
			isPrivateCopyOf := func(v ssa.Value, isShared func(ssa.Value) bool) bool {
				al, ok := stripConv(v).(*ssa.Alloc)
				if !ok {
					return false
				}
				// the copy starts as the whole shared event (`copy := *event`), so that no field is lost
				whole := false
				for _, ref := range *al.Referrers() {
					if st, ok := ref.(*ssa.Store); ok && st.Addr == ssa.Value(al) {
						if ld, ok := stripConv(st.Val).(*ssa.UnOp); ok && ld.Op == token.MUL && isShared(ld.X) {
							whole = true
						}
					}
				}
				if !whole {
					return false
				}
				for _, ref := range *al.Referrers() {
					if fa, ok := ref.(*ssa.FieldAddr); ok && fieldOf(fa).Name() == "Value" {
						for _, r2 := range *fa.Referrers() {
							if st, ok := r2.(*ssa.Store); ok && isNilConst(st.Val) {
								return true
							}
						}
					}
				}
				return false
			}
			isPrivateCopy := func(v ssa.Value) bool { return isPrivateCopyOf(v, shared) }
			// the event to push may be chosen by a helper that is handed the shared event
			if hc, ok := stripConv(arg).(*ssa.Call); ok {
				if h := hc.Common().StaticCallee(); h != nil && m.inPkg(h) && len(h.Blocks) > 0 {
					var hp *ssa.Parameter
					for i, p := range h.Params {
						if i < len(hc.Common().Args) && isPtrToNamed(p.Type(), sgbucketPath, "FeedEvent") && shared(hc.Common().Args[i]) {
							hp = p
						}
					}
					if hp != nil {
						ctxKO := onKeysOnly(c.Block())
						for _, ret := range returnsOf(h) {
							if len(ret.Results) != 1 {
								continue
							}
							rv := stripConv(ret.Results[0])
							switch {
							case rv == ssa.Value(hp):
								ko := ctxKO
								for _, ct := range controllingConds(h, ret.Block()) {
									if _, f, ok := fieldLoad(ct.If.Cond); ok && f.Name() == "KeysOnly" && ct.Branch {
										ko = true
									}
								}
								r.check(!ko, rule, key+" shared", m.instrPos(ret), "full event pushed to a feed that wants values", "a keys-only feed is given the full event (with its body)")
							case isPrivateCopyOf(rv, func(x ssa.Value) bool { return stripConv(x) == ssa.Value(hp) }):
								nPush++
								r.ok(rule, key+" private copy", m.instrPos(ret), "keys-only feeds get a private copy with Value cleared")
							default:
								r.bad(rule, key+" private copy", m.instrPos(ret), "pushed event is neither the shared event nor a private copy with Value cleared")
							}
						}
						// stores through the shared event inside the chooser
						unitStoresOnly(h, hp)
						return
					}
				}
			}
			r.check(isPrivateCopy(arg), rule, key+" private copy", m.instrPos(c), "keys-only feeds get a private copy with Value cleared", "pushed event is neither the shared event nor a private copy of the WHOLE shared event with only Value cleared (a copy assembled field by field can lose a field, e.g. the revision number)")
		})
	}
	fn := a.FanoutFn
	var evParam *ssa.Parameter
	for _, p := range fn.Params {
		if isPtrToNamed(p.Type(), sgbucketPath, "FeedEvent") {
			evParam = p
		}
	}
	unit(fn, evParam, false)
	if clean {
		r.ok(rule, m.declName(fn)+" / shared event is read-only", m.pos(fn.Pos()), "no store through the shared *FeedEvent")
	}
	if !filtered {
		r.ok(rule, m.declName(fn)+" / every registered feed gets the event", m.pos(fn.Pos()), "pushes are controlled only by the feed being present and its keys-only flag")
	}
	if nPush < 2 {
		r.undecided(rule, m.declName(fn)+" / pushes", m.pos(fn.Pos()), "expected a push for keys-only feeds and one for ordinary feeds, found %d", nPush)
	}
}

// isQueueMethod recognises the queue type's methods by what they do.
func (m *Model) isQueueMethod(fn *ssa.Function, role string) bool {
	if fn.Signature.Recv() == nil {
		return false
	}
	calls := map[string]bool{}
	var gather func(g *ssa.Function)
	gather = func(g *ssa.Function) {
		m.eachCall(g, func(c ssa.CallInstruction) {
			if f := c.Common().StaticCallee(); f != nil && f.Pkg != nil {
				calls[f.Pkg.Pkg.Path()+"."+f.Name()] = true
			}
		})
		// (the body may sit in a closure handed to a lock helper)
		for _, an := range g.AnonFuncs {
			gather(an)
		}
	}
	gather(fn)
	switch role {
	case "push":
		return calls["container/list.PushFront"] || calls["container/list.PushBack"]
	case "pull":
		return calls["sync.Wait"]
	case "close":
		return calls["sync.Broadcast"] && !calls["sync.Wait"] && !calls["container/list.PushFront"] && !calls["container/list.PushBack"]
	}
	return false
}

// ---------------------------------------------------------------- R-QUEUE

func (m *Model) ruleQUEUE(r *Results) {
	const rule = "R-QUEUE"
	var push, pull, cls []*ssa.Function
	seenOrigin := map[*ssa.Function]bool{}
	for _, fn := range m.Funcs {
		if fn.Parent() != nil {
			continue
		}
		// consider generic origins and instantiations alike; dedupe by origin
		if len(fn.Blocks) == 0 {
			continue
		}
		if o := fn.Origin(); o != nil {
			if seenOrigin[o] {
				continue
			}
			seenOrigin[o] = true
		} else if seenOrigin[fn] {
			continue
		} else {
			seenOrigin[fn] = true
		}
		switch {
		case m.isQueueMethod(fn, "push"):
			push = append(push, fn)
		case m.isQueueMethod(fn, "pull"):
			pull = append(pull, fn)
		case m.isQueueMethod(fn, "close"):
			cls = append(cls, fn)
		}
	}
	if len(push) != 1 || len(pull) != 1 || len(cls) != 1 {
		r.undecided(rule, "queue methods", "-", "expected one push, one pull and one close method on the queue type; found %d/%d/%d", len(push), len(pull), len(cls))
		return
	}
	// a method whose body is a closure run by a lock helper (`q.withLock(func() {...})`) is
	// judged by that closure, which starts with the lock held
	wrapped := map[*ssa.Function]bool{}
	for _, lst := range []*[]*ssa.Function{&push, &pull, &cls} {
		fn := (*lst)[0]
		var body *ssa.Function
		nPkgCalls := 0
		m.eachCall(fn, func(c ssa.CallInstruction) {
			g := c.Common().StaticCallee()
			if g == nil || !m.inPkg(g) {
				return
			}
			nPkgCalls++
			acq, rel := false, false
			m.eachCall(g, func(c2 ssa.CallInstruction) {
				if op, ok := m.lockOpOf(c2); ok {
					if op.Acquire {
						acq = true
					} else {
						rel = true
					}
				}
			})
			for i, a := range c.Common().Args {
				if mc, ok := a.(*ssa.MakeClosure); ok && acq && rel && i < len(g.Params) && m.invokesParam(g, i, 0) {
					if cf, ok := mc.Fn.(*ssa.Function); ok && cf.Parent() == fn {
						body = cf
					}
				}
			}
		})
		if body != nil && nPkgCalls == 1 {
			(*lst)[0] = body
			wrapped[body] = true
		}
	}
	listCalls := func(fn *ssa.Function) map[string]bool {
		out := map[string]bool{}
		if wrapped[fn] {
			out["Lock"], out["Unlock"] = true, true
		}
		var gather func(g *ssa.Function, depth int)
		gather = func(g *ssa.Function, depth int) {
			m.eachCall(g, func(c ssa.CallInstruction) {
				f := c.Common().StaticCallee()
				if f != nil && f.Pkg != nil && (f.Pkg.Pkg.Path() == "container/list" || f.Pkg.Pkg.Path() == "sync") {
					out[f.Name()] = true
				}
				if c.Common().IsInvoke() && isNamed(c.Common().Value.Type(), "sync", "Locker") {
					out[c.Common().Method.Name()] = true
				}
				// (small helpers of the queue that are called with the lock held: `q.removeOldest()`)
				if f != nil && m.inPkg(f) && depth < 1 && len(f.Blocks) > 0 && len(f.Blocks) <= 3 {
					gather(f, depth+1)
				}
			})
		}
		gather(fn, 0)
		return out
	}
	pc, lc, cc := listCalls(push[0]), listCalls(pull[0]), listCalls(cls[0])
	fifo := pc["PushFront"] && lc["Back"] && !lc["Front"] && !pc["PushBack"] || pc["PushBack"] && lc["Front"] && !lc["Back"] && !pc["PushFront"]
	r.check(fifo && lc["Remove"], rule, "FIFO", m.pos(push[0].Pos()), "push inserts at one end, pull removes from the other", "push and pull do not use opposite ends of the list: events would be delivered out of order (or newest-first)")
	r.check(cc["Broadcast"], rule, "close wakes all", m.pos(cls[0].Pos()), "close broadcasts to waiting pullers", "close does not Broadcast: a blocked puller never learns that the queue was closed")
	r.check(pc["Signal"] || pc["Broadcast"], rule, "push wakes", m.pos(push[0].Pos()), "push signals a waiting puller", "push never signals: a blocked puller sleeps forever")
	// Wait is in a loop
	waitInLoop := false
	m.eachCall(pull[0], func(c ssa.CallInstruction) {
		if f := c.Common().StaticCallee(); f != nil && f.Name() == "Wait" && inCycle(c.Block()) {
			waitInLoop = true
		}
	})
	r.check(waitInLoop, rule, "pull re-tests", m.pos(pull[0].Pos()), "pull re-tests its condition in a loop around Wait", "pull does not re-test closed/empty after Wait returns")
	// a closed queue hands out nothing: the field close() stores to ("closed" state) is tested on
	// the way to the dequeue in pull, after the wait loop
	{
		var closedField *types.Var
		for _, b := range cls[0].Blocks {
			for _, in := range b.Instrs {
				if st, ok := in.(*ssa.Store); ok {
					if fa, ok := st.Addr.(*ssa.FieldAddr); ok {
						closedField = fieldOf(fa)
					}
				}
			}
		}
		if closedField == nil {
			r.undecided(rule, "closed state", m.pos(cls[0].Pos()), "close stores to no field of the queue")
		} else {
			var deq ssa.CallInstruction
			m.eachCall(pull[0], func(c ssa.CallInstruction) {
				f := c.Common().StaticCallee()
				if f != nil && f.Pkg != nil && f.Pkg.Pkg.Path() == "container/list" && f.Name() == "Remove" {
					deq = c
				}
				// (or the call of a small helper that removes the element)
				if f != nil && m.inPkg(f) && len(f.Blocks) > 0 && len(f.Blocks) <= 3 && deq == nil {
					m.eachCall(f, func(c2 ssa.CallInstruction) {
						if g := c2.Common().StaticCallee(); g != nil && g.Pkg != nil && g.Pkg.Pkg.Path() == "container/list" && g.Name() == "Remove" {
							deq = c
						}
					})
				}
			})
			tested := false
			if deq != nil {
				// the value close() stores into the state field, and the edges on which a test of
				// that field (direct, or through a predicate helper) finds the queue NOT closed
				var closedVal *ssa.Const
				for _, b := range cls[0].Blocks {
					for _, in := range b.Instrs {
						if st, ok := in.(*ssa.Store); ok {
							if fa, ok := st.Addr.(*ssa.FieldAddr); ok && fieldOf(fa) == closedField {
								closedVal, _ = st.Val.(*ssa.Const)
							}
						}
					}
				}
				// closedWhen: v is a boolean that is true (result=true) / false exactly when the field holds the closed value
				var closedWhen func(v ssa.Value, depth int) (bool, bool)
				closedWhen = func(v ssa.Value, depth int) (bool, bool) {
					v = stripConv(v)
					if depth > 2 || closedVal == nil {
						return false, false
					}
					switch x := v.(type) {
					case *ssa.UnOp:
						if x.Op == token.NOT {
							w, ok := closedWhen(x.X, depth)
							return !w, ok
						}
						if _, g, ok := fieldLoad(x); ok && g == closedField && closedVal.Value != nil && closedVal.Value.Kind() == constant.Bool {
							return constant.BoolVal(closedVal.Value), true
						}
					case *ssa.BinOp:
						if x.Op != token.EQL && x.Op != token.NEQ {
							return false, false
						}
						var other ssa.Value
						if _, g, ok := fieldLoad(stripConv(x.X)); ok && g == closedField {
							other = x.Y
						} else if _, g, ok := fieldLoad(stripConv(x.Y)); ok && g == closedField {
							other = x.X
						}
						oc, isC := other.(*ssa.Const)
						if other == nil || !isC {
							return false, false
						}
						same := oc.Value == nil && closedVal.Value == nil || oc.Value != nil && closedVal.Value != nil && constant.Compare(oc.Value, token.EQL, closedVal.Value)
						return same == (x.Op == token.EQL), true
					case *ssa.Call:
						callee := x.Common().StaticCallee()
						if callee == nil || !m.inPkg(callee) {
							return false, false
						}
						rets := returnsOf(callee)
						if len(rets) != 1 || len(rets[0].Results) != 1 {
							return false, false
						}
						return closedWhen(rets[0].Results[0], depth+1)
					}
					return false, false
				}
				c := newCut()
				nTests := 0
				for _, iff := range allIfs(pull[0]) {
					w, ok := closedWhen(iff.Cond, 0)
					if !ok {
						continue
					}
					nTests++
					// cut the edge taken when the queue is not closed
					if w {
						c.cutEdge(iff.Block(), iff.Block().Succs[1])
					} else {
						c.cutEdge(iff.Block(), iff.Block().Succs[0])
					}
				}
				// without passing a "not closed" edge, the dequeue is reachable neither from the entry
				// nor from the point where a Wait returns (the state may have changed while waiting)
				tested = nTests > 0 && !entryReach(pull[0], c)[deq.Block().Index]
				m.eachCall(pull[0], func(cw ssa.CallInstruction) {
					if f := cw.Common().StaticCallee(); f != nil && f.Name() == "Wait" {
						if cw.Block() == deq.Block() && indexIn(cw.Block(), cw) < indexIn(deq.Block(), deq) || reachableFromSuccs(cw.Block(), c)[deq.Block().Index] {
							tested = false
						}
					}
				})
			}
			r.check(deq != nil && tested, rule, "closed queue yields nothing", m.pos(pull[0].Pos()), "pull dequeues only after testing the state that close() sets", "after its wait loop, pull removes an element without testing the state that close() sets: a queue that was closed with events still queued keeps handing them out, and the feed callback keeps being invoked after the feed was ended")
		}
	}
	// every method locks the queue's lock with a paired unlock on all paths
	for _, fn := range []*ssa.Function{push[0], pull[0], cls[0]} {
		lc := listCalls(fn)
		// (also through an acquire helper that hands back the release: `defer q.lock()()`)
		m.eachCall(fn, func(c ssa.CallInstruction) {
			if op, ok := m.lockOpOf(c); ok {
				if op.Acquire {
					lc["Lock"] = true
				} else {
					lc["Unlock"] = true
				}
			}
		})
		r.check(lc["Lock"] && lc["Unlock"], rule, m.declName(fn)+" / locked", m.pos(fn.Pos()), "operates under the queue lock", "queue method does not take the queue lock")
		// ... and every use of the list and every wake-up happens while the lock is held: a
		// signal sent (or a length read) after the unlock can fall between the puller's test and
		// its Wait, and is lost
		// (the state close() sets - the list pointer - is read and written under the lock as well)
		stateFields := map[*types.Var]bool{}
		for _, b := range cls[0].Blocks {
			for _, in := range b.Instrs {
				if st, ok := in.(*ssa.Store); ok {
					if fa, ok := st.Addr.(*ssa.FieldAddr); ok && fieldOf(fa) != nil {
						stateFields[fieldOf(fa)] = true
					}
				}
			}
		}
		unheldIn := map[int]bool{0: !wrapped[fn]}
		seen := map[int]bool{}
		bad := ""
		work := []*ssa.BasicBlock{fn.Blocks[0]}
		for len(work) > 0 {
			b := work[len(work)-1]
			work = work[:len(work)-1]
			key := b.Index*2 + map[bool]int{false: 0, true: 1}[unheldIn[b.Index]]
			if seen[key] {
				continue
			}
			seen[key] = true
			un := unheldIn[b.Index]
			for _, ins := range b.Instrs {
				if un {
					var addr ssa.Value
					switch x := ins.(type) {
					case *ssa.UnOp:
						if x.Op == token.MUL {
							addr = x.X
						}
					case *ssa.Store:
						addr = x.Addr
					}
					if fa, ok := addr.(*ssa.FieldAddr); ok && stateFields[fieldOf(fa)] {
						bad = "an access to the queue's " + fieldOf(fa).Name() + " field at " + m.instrPos(ins)
					}
				}
				c, ok := ins.(ssa.CallInstruction)
				if !ok {
					continue
				}
				if op, ok := m.lockOpOf(c); ok {
					if !op.Deferred {
						un = !op.Acquire
					}
					continue
				}
				if _, isDefer := c.(*ssa.Defer); isDefer {
					continue
				}
				if f := c.Common().StaticCallee(); f != nil && f.Pkg != nil && (f.Pkg.Pkg.Path() == "container/list" || f.Pkg.Pkg.Path() == "sync" && (f.Name() == "Signal" || f.Name() == "Broadcast" || f.Name() == "Wait")) && un {
					bad = "a call of " + f.Name() + " at " + m.instrPos(c)
				}
			}
			for _, s := range b.Succs {
				if un && !unheldIn[s.Index] {
					unheldIn[s.Index] = true
				}
				work = append(work, s)
			}
		}
		r.check(bad == "", rule, m.declName(fn)+" / list and wake-ups under the lock", m.pos(fn.Pos()), "every list operation and every Signal/Broadcast/Wait happens with the queue lock held", "the queue method makes "+bad+" where the queue lock may not be held: a wake-up sent outside the critical section that changed the list can be lost (the puller then sleeps with an event queued), and the list is read while another goroutine changes it")
	}
}

// ---------------------------------------------------------------- R-ONE-TXN and R-TXN-READS

func (m *Model) reachesRunner(fn *ssa.Function, memo map[*ssa.Function]int) bool {
	if fn == nil || !m.inPkg(fn) {
		return false
	}
	if fn == m.A.TxnRunner {
		return true
	}
	switch memo[fn] {
	case 1:
		return false
	case 2:
		return true
	case 3:
		return false
	}
	memo[fn] = 1
	res := false
	m.eachCall(fn, func(c ssa.CallInstruction) {
		if res {
			return
		}
		if _, isGo := c.(*ssa.Go); isGo {
			return
		}
		if f := c.Common().StaticCallee(); f != nil && m.reachesRunner(f, memo) {
			res = true
		}
	})
	if res {
		memo[fn] = 2
	} else {
		memo[fn] = 3
	}
	return res
}

func (m *Model) ruleONETXN(r *Results) {
	const rule = "R-ONE-TXN"
	a := &m.A
	if a.TxnRunner == nil {
		r.undecided(rule, "anchors", "-", "txn runner unresolved")
		return
	}
	memo := map[*ssa.Function]int{}
	fw := m.runnerForwarders()
	for _, fn := range m.Funcs {
		if fn.Parent() != nil || fn == a.TxnRunner || m.onTxnChain(fn) || fw[fn].kind != "" {
			continue
		}
		var direct []ssa.CallInstruction
		m.eachCall(fn, func(c ssa.CallInstruction) {
			if f := c.Common().StaticCallee(); f != nil && (f == a.TxnRunner || (f == a.Allocator && fn != a.Allocator) || fw[f].kind != "") {
				direct = append(direct, c)
			}
		})
		if len(direct) == 0 {
			continue
		}
		key := m.declName(fn)
		pos := m.pos(fn.Pos())
		problems := []string{}
		if len(direct) > 1 {
			for i := range direct {
				for j := range direct {
					if i != j && instrReachable(direct[i], direct[j], nil) {
						problems = append(problems, "runs two transactions on one path")
					}
				}
			}
		}
		for _, d := range direct {
			if inCycle(d.Block()) {
				problems = append(problems, "runs its transaction in a loop")
			}
		}
		// any other call (in fn or its closures) that reaches the runner
		var visit func(f *ssa.Function)
		visit = func(f *ssa.Function) {
			m.eachCall(f, func(c ssa.CallInstruction) {
				callee := c.Common().StaticCallee()
				if callee == nil || callee == a.TxnRunner || callee == a.Allocator || fw[callee].kind != "" {
					return
				}
				if _, isGo := c.(*ssa.Go); isGo {
					return
				}
				if m.reachesRunner(callee, memo) {
					problems = append(problems, fmt.Sprintf("also calls %s (%s), which runs a transaction of its own: the operation is split across two commits and a crash between them leaves half of it", m.declName(callee), m.instrPos(c)))
				}
			})
			for _, an := range f.AnonFuncs {
				visit(an)
			}
		}
		visit(fn)
		sort.Strings(problems)
		problems = uniq(problems)
		r.check(len(problems) == 0, rule, key, pos, "one transaction per call", strings.Join(problems, "; "))
	}
	// an operation composed of two operations that each commit on their own: a function that runs
	// no transaction itself but, on one pass through its body (loop back edges not followed: a
	// retry repeats the operation, it does not extend it), calls two functions that do
	for _, fn := range m.Funcs {
		if fn.Parent() != nil || !m.inPkg(fn) || fn == a.TxnRunner || m.onTxnChain(fn) || fw[fn].kind != "" {
			continue
		}
		direct := false
		var sites []ssa.CallInstruction
		m.eachCall(fn, func(c ssa.CallInstruction) {
			f := c.Common().StaticCallee()
			if f == nil {
				return
			}
			if f == a.TxnRunner || f == a.Allocator || fw[f].kind != "" {
				direct = true
				return
			}
			if _, isGo := c.(*ssa.Go); isGo {
				return
			}
			if _, isDefer := c.(*ssa.Defer); isDefer {
				return
			}
			if m.inPkg(f) && m.reachesRunner(f, memo) {
				sites = append(sites, c)
			}
		})
		if direct || len(sites) < 2 {
			continue
		}
		var problems []string
		for i := range sites {
			for j := range sites {
				if i != j && forwardReachable(sites[i], sites[j]) {
					problems = append(problems, fmt.Sprintf("%s (%s) and then %s (%s)", m.declName(sites[i].Common().StaticCallee()), m.instrPos(sites[i]), m.declName(sites[j].Common().StaticCallee()), m.instrPos(sites[j])))
				}
			}
		}
		sort.Strings(problems)
		problems = uniq(problems)
		r.check(len(problems) == 0, rule, m.declName(fn)+" / composed of operations that commit separately", m.pos(fn.Pos()), "at most one committing call on any pass through the body", "one call runs "+strings.Join(problems, "; ")+": each commits on its own, so a crash (or a concurrent reader) between them sees half of the operation")
	}
	r.floor(rule, 14)
}

// forwardReachable: instruction b can execute after a on a path that follows no loop back edge.
func forwardReachable(a, b ssa.Instruction) bool {
	if a.Block() == b.Block() {
		ia, ib := indexIn(a.Block(), a), indexIn(b.Block(), b)
		return ia < ib
	}
	seen := map[*ssa.BasicBlock]bool{}
	var visit func(x *ssa.BasicBlock) bool
	visit = func(x *ssa.BasicBlock) bool {
		if x == b.Block() {
			return true
		}
		if seen[x] {
			return false
		}
		seen[x] = true
		for _, s := range x.Succs {
			if s.Dominates(x) {
				continue // back edge
			}
			if visit(s) {
				return true
			}
		}
		return false
	}
	for _, s := range a.Block().Succs {
		if s.Dominates(a.Block()) {
			continue
		}
		if visit(s) {
			return true
		}
	}
	return false
}

func (m *Model) ruleTXNREADS(r *Results) {
	const rule = "R-TXN-READS"
	a := &m.A
	pool := map[*ssa.Function]bool{}
	for _, f := range a.PoolFns {
		pool[f] = true
	}
	inTxn := m.inTxnExtent()
	n := 0
	for fn, clos := range inTxn {
		n++
		m.eachCall(fn, func(c ssa.CallInstruction) {
			callee := c.Common().StaticCallee()
			key := m.declName(clos) + " -> " + m.declName(fn)
			if callee != nil && pool[callee] {
				r.bad(rule, key+" / pool accessor", m.instrPos(c), "code running inside a transaction obtains the connection pool (%s): it reads outside the transaction's snapshot and, the bucket mutex being held and not re-entrant, can deadlock", m.declName(callee))
			}
			if callee == a.TxnRunner {
				r.bad(rule, key+" / nested transaction", m.instrPos(c), "code running inside a transaction starts another transaction (the bucket mutex is not re-entrant)")
			}
			if isMethodCall(c.Common(), "sync", "Mutex", "Lock") {
				if fa, ok := mutexField(c.Common().Args[0]); ok && fa == a.BucketMutex {
					r.bad(rule, key+" / bucket mutex", m.instrPos(c), "code running inside a transaction locks the bucket mutex that the transaction runner already holds")
				}
			}
		})
		// direct loads of the DB field
		for _, b := range fn.Blocks {
			for _, in := range b.Instrs {
				if fa, ok := in.(*ssa.FieldAddr); ok && fieldOf(fa) == a.DBField && fn != a.TxnRunner {
					r.bad(rule, m.declName(clos)+" -> "+m.declName(fn)+" / DB field", m.instrPos(fa), "code running inside a transaction touches the raw DB handle")
				}
			}
		}
	}
	// what a transaction writes is computed from what THAT transaction read: no value bound into a
	// documents write derives from a row read through the pool (before the transaction, outside its
	// snapshot and its lock) - a counter read outside and written inside loses concurrent increments
	te := m.newTermEval()
	for _, wu := range m.writeUnits(te) {
		for _, col := range []string{"value", "xattrs", "revseqno", "exp", "isjson"} {
			src := wu.Cols[col]
			if src.Kind != "bound" || src.Term == nil {
				continue
			}
			bad := ""
			var walk func(t *Term, d int)
			walk = func(t *Term, d int) {
				if t == nil || d > 8 {
					return
				}
				if t.Kind == "scan" && t.Site != nil && strings.Contains(t.Handle, "pool") && !strings.Contains(t.Handle, "txn") {
					for _, v := range t.Site.Variants {
						if st := v.Stmt(); st != nil {
							for _, tb := range st.Tables() {
								if tb == "documents" {
									bad = t.String()
								}
							}
						}
					}
				}
				for _, a := range t.Args {
					walk(a, d+1)
				}
			}
			walk(src.Term, 0)
			if bad != "" {
				r.bad(rule, fmt.Sprintf("%s / %s / %s computed from this transaction's own reads", m.declName(wu.K), wu.Stmt.Shape(), col), m.instrPos(wu.Site.Call), "the value written to %s derives from %s, a row read through the connection pool outside the transaction: a concurrent write between that read and this transaction is overwritten (lost update)", col, bad)
			}
		}
	}
	r.ok(rule, "extent", "-", "%d functions execute inside transactions; none reaches the pool, the runner or the bucket mutex", n)
	if n < 10 {
		r.undecided(rule, "instance-floor", "-", "only %d functions found inside transaction closures", n)
	}
}

// mutexField returns the struct field a Lock/Unlock receiver denotes.
func mutexField(v ssa.Value) (*types.Var, bool) {
	v = stripConv(v)
	switch x := v.(type) {
	case *ssa.FieldAddr: // sync.Mutex value field: receiver is &x.mu
		return fieldOf(x), true
	case *ssa.UnOp: // *sync.Mutex pointer field: receiver is load of &x.mu
		if fa, ok := x.X.(*ssa.FieldAddr); ok {
			return fieldOf(fa), true
		}
	}
	return nil, false
}

// ---------------------------------------------------------------- R-SHARED-COPY

func (m *Model) ruleSHAREDCOPY(r *Results) {
	const rule = "R-SHARED-COPY"
	a := &m.A
	fn := a.CloneFn
	if fn == nil {
		r.undecided(rule, "clone function", "-", "anchor unresolved: %s", a.Problems["CloneFn"])
		return
	}
	stores := map[*types.Var]ssa.Value{}
	for _, b := range fn.Blocks {
		for _, in := range b.Instrs {
			if st, ok := in.(*ssa.Store); ok {
				if fa, ok := st.Addr.(*ssa.FieldAddr); ok && ownerIs(fa, a.BucketType) {
					if _, isAlloc := fa.X.(*ssa.Alloc); isAlloc {
						stores[fieldOf(fa)] = st.Val
					}
				}
			}
		}
	}
	recv := fn.Params[0]
	shared := map[string]*types.Var{"mutex": a.BucketMutex, "database handle": a.DBField, "feed registry": a.FeedsField, "expiry manager": a.ExpMgrField}
	for _, what := range sortedKeys(shared) {
		f := shared[what]
		if f == nil {
			r.undecided(rule, "field "+what, m.pos(fn.Pos()), "bucket field for the %s unresolved", what)
			continue
		}
		v, ok := stores[f]
		good := false
		if ok {
			if base, ff, isLoad := fieldLoad(v); isLoad && ff == f && stripConv(base) == ssa.Value(recv) {
				good = true
			}
		}
		r.check(good, rule, m.declName(fn)+" / shares "+what, m.pos(fn.Pos()), "handle copy shares the "+what+" with the original", "a copied bucket handle does not share the "+what+" ("+f.Name()+") with the canonical bucket: handles would no longer exclude each other / see each other's feeds")
	}
	if a.CollsField != nil {
		v, ok := stores[a.CollsField]
		_, isMake := v.(*ssa.MakeMap)
		r.check(ok && isMake, rule, m.declName(fn)+" / own collections map", m.pos(fn.Pos()), "each handle has its own collections map", "a copied handle shares (or lacks) the collections map")
	}
	if a.ClosedField != nil {
		v, ok := stores[a.ClosedField]
		fresh := !ok
		if c, isC := v.(*ssa.Const); ok && isC && c.Value != nil && c.Value.String() == "false" {
			fresh = true
		}
		r.check(fresh, rule, m.declName(fn)+" / starts open", m.pos(fn.Pos()), "a new handle starts open", "a copied handle inherits the closed flag")
	}
}

// ---------------------------------------------------------------- R-CLOSED

func (m *Model) ruleCLOSED(r *Results) {
	const rule = "R-CLOSED"
	a := &m.A
	if a.DBField == nil || a.ClosedField == nil {
		r.undecided(rule, "anchors", "-", "DB / closed field unresolved: %v", a.Problems)
		return
	}
	allowed := map[*ssa.Function]string{}
	for _, f := range a.PoolFns {
		allowed[f] = "pool accessor"
	}
	for _, cf := range a.TxnChain {
		allowed[cf] = "transaction runner"
	}
	allowed[a.TxnRunner] = "transaction runner"
	allowed[a.ShutdownFn] = "shutdown routine"
	for _, st := range a.ShutdownSteps {
		allowed[st] = "shutdown routine"
	}
	allowed[a.CloneFn] = "handle copy"
	allowed[a.OpenFn] = "constructor"
	// phases of the open function: unexported functions that only the open function calls
	for _, f := range m.Funcs {
		if f.Parent() != nil || !m.inPkg(f) || (f.Object() != nil && f.Object().Exported()) {
			continue
		}
		callers := m.staticCallersOf(f)
		only := len(callers) > 0
		for _, c := range callers {
			if rootOf(c.Parent()) != a.OpenFn {
				only = false
			}
		}
		if only {
			if _, have := allowed[f]; !have {
				allowed[f] = "constructor"
			}
		}
	}
	for _, fn := range m.Funcs {
		for _, b := range fn.Blocks {
			for _, in := range b.Instrs {
				fa, ok := in.(*ssa.FieldAddr)
				if !ok || fieldOf(fa) != a.DBField || !ownerIs(fa, a.BucketType) {
					continue
				}
				root := rootOf(fn)
				why, ok := allowed[root]
				key := m.declName(fn) + " / DB handle"
				if !ok {
					// a constructor helper: the field of a freshly allocated bucket object is only assigned
					if _, fresh := fa.X.(*ssa.Alloc); fresh && fa.Referrers() != nil {
						storeOnly := len(*fa.Referrers()) > 0
						for _, ref := range *fa.Referrers() {
							if st, isSt := ref.(*ssa.Store); !isSt || st.Addr != ssa.Value(fa) {
								storeOnly = false
							}
						}
						if storeOnly {
							r.ok(rule, key, m.instrPos(fa), "constructor helper: assigns the handle of a bucket object it has just allocated")
							continue
						}
					}
					r.bad(rule, key, m.instrPos(fa), "the raw database handle is used outside the pool accessors / transaction runner / shutdown routine: a closed handle's calls would reach the database instead of failing with the bucket-closed error")
					continue
				}
				// accessors and runner: the use must be behind the closed test
				if why == "pool accessor" || why == "transaction runner" {
					isStoreOnly := true
					for _, ref := range *fa.Referrers() {
						if _, isSt := ref.(*ssa.Store); !isSt {
							isStoreOnly = false
						}
					}
					if isStoreOnly {
						continue
					}
					r.check(m.closedGuarded(fn, fa, 0), rule, key+" behind closed test", m.instrPos(fa), why+" uses the DB only when the handle is not closed", why+" can use the database although the handle is closed (no dominating test of the closed flag)")
				} else {
					r.ok(rule, key, m.instrPos(fa), "%s", why)
				}
			}
		}
	}
	// the DB handle field is assigned only when a handle is constructed (never reset to nil)
	for _, fn := range m.Funcs {
		for _, b := range fn.Blocks {
			for _, in := range b.Instrs {
				st, ok := in.(*ssa.Store)
				if !ok {
					continue
				}
				fa, ok := st.Addr.(*ssa.FieldAddr)
				if !ok || fieldOf(fa) != a.DBField || !ownerIs(fa, a.BucketType) {
					continue
				}
				_, fresh := fa.X.(*ssa.Alloc)
				r.check(fresh, rule, m.declName(fn)+" / assigns DB handle", m.instrPos(st), "DB handle set on a freshly constructed bucket", "the DB handle of an existing bucket object is reassigned: operations racing with it dereference a nil (or different) *sql.DB and panic instead of returning the closed-database error")
			}
		}
	}
	r.floor(rule, 5)
}

// ---------------------------------------------------------------- R-MACRO-ORDER

// fieldsReadVia returns the fields of the receiver that method fn reads, directly or
// through methods it calls on the same receiver.
func (m *Model) fieldsReadVia(fn *ssa.Function, seen map[*ssa.Function]bool) map[*types.Var]bool {
	if fn == nil || len(fn.Params) == 0 {
		return map[*types.Var]bool{}
	}
	return m.fieldsReadThrough(fn, fn.Params[0], seen)
}

// fieldsReadThrough: the fields of the object parameter `recv` points to that fn reads, directly
// or through package functions it hands the object to (static calls, and dynamic calls resolved
// by the call graph, e.g. functions kept in a table).
func (m *Model) fieldsReadThrough(fn *ssa.Function, recv *ssa.Parameter, seen map[*ssa.Function]bool) map[*types.Var]bool {
	out := map[*types.Var]bool{}
	if fn == nil || seen[fn] {
		return out
	}
	seen[fn] = true
	node := m.CG.Nodes[fn]
	for _, b := range fn.Blocks {
		for _, in := range b.Instrs {
			switch x := in.(type) {
			case *ssa.FieldAddr:
				if stripConv(fieldRoot(x)) == ssa.Value(recv) {
					for _, ref := range *x.Referrers() {
						if ld, ok := ref.(*ssa.UnOp); ok && ld.Op == token.MUL {
							out[fieldOf(x)] = true
						}
					}
				}
			case ssa.CallInstruction:
				var targets []*ssa.Function
				if callee := x.Common().StaticCallee(); callee != nil {
					targets = append(targets, callee)
				} else if node != nil && !x.Common().IsInvoke() {
					for _, e := range node.Out {
						if e.Site == x {
							targets = append(targets, e.Callee.Func)
						}
					}
				}
				for _, callee := range targets {
					if !m.inPkg(callee) {
						continue
					}
					for ai, a := range x.Common().Args {
						if stripConv(a) == ssa.Value(recv) && ai < len(callee.Params) {
							for f := range m.fieldsReadThrough(callee, callee.Params[ai], seen) {
								out[f] = true
							}
						}
					}
				}
			}
		}
	}
	return out
}

func (m *Model) ruleMACRO(r *Results) {
	const rule = "R-MACRO-ORDER"
	a := &m.A
	if a.EventType == nil {
		r.undecided(rule, "anchors", "-", "event type unresolved")
		return
	}
	n := 0
	for _, fn := range m.Funcs {
		m.eachCall(fn, func(c ssa.CallInstruction) {
			callee := c.Common().StaticCallee()
			if callee == nil || callee == a.Converter || callee.Signature.Recv() == nil || !m.inPkg(callee) {
				return
			}
			rp, ok := callee.Signature.Recv().Type().(*types.Pointer)
			if !ok || rp.Elem() != a.EventType {
				return
			}
			reads := m.fieldsReadVia(callee, map[*ssa.Function]bool{})
			if len(reads) == 0 {
				return
			}
			// only methods that take macro options are of interest (they expand CAS / CRC macros)
			n++
			ev := stripConv(c.Common().Args[0])
			var late []string
			for _, b := range fn.Blocks {
				for _, in := range b.Instrs {
					st, ok := in.(*ssa.Store)
					if !ok {
						continue
					}
					fa, ok := st.Addr.(*ssa.FieldAddr)
					if !ok || stripConv(fa.X) != ev {
						continue
					}
					if reads[fieldOf(fa)] && instrReachable(c, st, nil) {
						late = append(late, fmt.Sprintf("%s (stored at %s)", fieldOf(fa).Name(), m.instrPos(st)))
					}
				}
			}
			var rd []string
			for f := range reads {
				rd = append(rd, f.Name())
			}
			sort.Strings(rd)
			key := m.declName(fn) + " / " + callee.Name() + " reads " + strings.Join(rd, ",")
			sort.Strings(late)
			r.check(len(late) == 0, rule, key, m.instrPos(c), "the event fields the expansion reads are final when it runs", "macro expansion reads event fields that are assigned again afterwards: "+strings.Join(late, ", ")+" — the expanded CAS / checksum would not be that of the document as stored")
		})
	}
	if n == 0 {
		r.undecided(rule, "expansion call", "-", "no call of an event method that reads event fields found")
	}
}

// ---------------------------------------------------------------- R-ROWBUF

// Iterator methods returning []byte must return storage that is private to the call.
func (m *Model) ruleROWBUF(r *Results) {
	const rule = "R-ROWBUF"
	n := 0
	for _, fn := range m.Funcs {
		if fn.Parent() != nil || fn.Signature.Recv() == nil || fn.Signature.Results().Len() != 1 {
			continue
		}
		if sl, ok := fn.Signature.Results().At(0).Type().(*types.Slice); !ok || !types.Identical(sl.Elem(), types.Typ[types.Byte]) {
			continue
		}
		// only iterator-like receivers: a struct with a *sql.Rows field
		rp, ok := fn.Signature.Recv().Type().(*types.Pointer)
		if !ok {
			continue
		}
		st, ok := rp.Elem().Underlying().(*types.Struct)
		if !ok {
			continue
		}
		hasRows := false
		for i := 0; i < st.NumFields(); i++ {
			if isPtrToNamed(st.Field(i).Type(), "database/sql", "Rows") {
				hasRows = true
			}
		}
		if !hasRows {
			continue
		}
		for _, ret := range returnsOf(fn) {
			v := stripConv(ret.Results[0])
			if isNilConst(v) {
				continue
			}
			n++
			key := m.declName(fn) + " / returned row"
			local, seen := m.freshBytes(v, 0)
			if !seen {
				r.undecided(rule, key, m.instrPos(ret), "cannot see where the returned row bytes come from")
				continue
			}
			r.check(local, rule, key, m.instrPos(ret), "each row is returned in a buffer allocated by that call", "the returned row aliases a buffer that lives in the iterator and is overwritten by the next row: callers that keep rows (the pre-recorded iterator of in-memory buckets) see every row replaced by the last")
		}
		// the loops that assemble a row visit every column: they are left through their header
		// only (a `break` on some column - a NULL one, say - drops the columns after it)
		for _, b := range fn.Blocks {
			if !inCycle(b) {
				continue
			}
			// headers: blocks of a cycle with a predecessor outside it
			isHeader := false
			for _, p := range b.Preds {
				if !sameCycle(p, b) {
					isHeader = true
				}
			}
			if !isHeader {
				continue
			}
			bad := ""
			for _, x := range fn.Blocks {
				if x == b || !sameCycle(x, b) {
					continue
				}
				for _, sx := range x.Succs {
					if !sameCycle(sx, b) {
						// leaving from the middle of the loop: fine only if it leaves the function
						if _, isRet := sx.Instrs[len(sx.Instrs)-1].(*ssa.Return); isRet && len(sx.Instrs) <= 2 {
							continue
						}
						if _, isPanic := sx.Instrs[len(sx.Instrs)-1].(*ssa.Panic); isPanic {
							continue
						}
						bad = m.pos(x.Instrs[len(x.Instrs)-1].Pos())
					}
				}
			}
			r.check(bad == "", rule, m.declName(fn)+" / the row loop visits every column", m.pos(fn.Pos()), "the loop over the columns is left through its header only", "the loop that assembles a result row can be left from its middle (near "+bad+") and the function carries on: the columns after that point are missing from the row although the statement produced them")
		}
	}
	if n == 0 {
		r.undecided(rule, "row iterator", "-", "no row-producing iterator method found")
	}
}

// markSites: statements that persist a high-water mark (UPDATE bucket|collections SET lastCas = ...).
func (m *Model) markSites() []*SQLSite {
	var out []*SQLSite
	for _, s := range m.Sites {
		for _, v := range s.Variants {
			st := v.Stmt()
			if st == nil || st.Kind != sqlp.SUpdate {
				continue
			}
			w := writeInfo(st)
			if _, ok := w.Update["lastcas"]; ok && (w.Table == "bucket" || w.Table == "collections") {
				out = append(out, s)
				break
			}
		}
	}
	return out
}

// markInstrs: the instructions of fn that execute a mark statement, directly or through a helper.
func (m *Model) markInstrs(fn *ssa.Function) []ssa.Instruction {
	var out []ssa.Instruction
	sites := m.markSites()
	for _, s := range sites {
		if s.Fn == fn {
			out = append(out, s.Call)
		}
	}
	m.eachCall(fn, func(c ssa.CallInstruction) {
		callee := c.Common().StaticCallee()
		if callee == nil || !m.inPkg(callee) {
			return
		}
		reach := m.reachableLocal(callee)
		for _, s := range sites {
			if reach[s.Fn] {
				out = append(out, c)
				return
			}
		}
	})
	return out
}

func (m *Model) onTxnChain(fn *ssa.Function) bool {
	for _, f := range m.A.TxnChain {
		if f == fn {
			return true
		}
	}
	return false
}

// closedGuarded: instruction `at` of f executes only when the handle is not closed: guarded by
// a test of the closed flag in f itself, or (for functions on the transaction-runner chain) at
// every call site further out.
func (m *Model) closedGuarded(f *ssa.Function, at ssa.Instruction, depth int) bool {
	a := &m.A
	c := newCut()
	found := false
	for _, iff := range allIfs(f) {
		cd := condOf(iff)
		if _, fl, ok := fieldLoad(cd.X); ok && fl == a.ClosedField && cd.Op == token.ILLEGAL {
			c.cutEdge(iff.Block(), cd.succWhen(false))
			found = true
		}
	}
	if found && !entryReach(f, c)[at.Block().Index] {
		return true
	}
	if depth > 4 || !m.onTxnChain(f) || f == a.TxnRunner {
		return false
	}
	callers := m.staticCallersOf(f)
	if len(callers) == 0 {
		return false
	}
	for _, cs := range callers {
		if !m.closedGuarded(cs.Parent(), cs, depth+1) {
			return false
		}
	}
	return true
}

// freshBytes: v is the Bytes() of a buffer allocated by the current call, directly or as the
// result of a package helper all of whose non-nil results are. seen=false when the origin of the
// bytes is not visible.
func (m *Model) freshBytes(v ssa.Value, depth int) (fresh, seen bool) {
	v = stripConv(v)
	if phi, ok := v.(*ssa.Phi); ok {
		fresh, seen = true, true
		for _, e := range phi.Edges {
			if isNilConst(stripConv(e)) {
				continue
			}
			f, s := m.freshBytes(e, depth)
			fresh, seen = fresh && f, seen && s
		}
		return
	}
	call, ok := v.(*ssa.Call)
	if !ok || call.Common().StaticCallee() == nil {
		return false, false
	}
	callee := call.Common().StaticCallee()
	if callee.Name() == "Bytes" && callee.Pkg != nil && callee.Pkg.Pkg.Path() == "bytes" {
		_, local := stripConv(call.Common().Args[0]).(*ssa.Alloc)
		return local, true
	}
	if m.inPkg(callee) && depth < 3 && len(callee.Blocks) > 0 {
		fresh, seen = true, true
		any := false
		for _, ret := range returnsOf(callee) {
			if len(ret.Results) != 1 || isNilConst(stripConv(ret.Results[0])) {
				continue
			}
			any = true
			f, s := m.freshBytes(ret.Results[0], depth+1)
			fresh, seen = fresh && f, seen && s
		}
		return fresh && any, seen && any
	}
	return false, false
}

// fieldInCond: the value is computed from a struct field (other than through a call); returns the field's name.
func (m *Model) fieldInCond(v ssa.Value, depth int) (string, bool) {
	v = stripConv(v)
	if depth > 6 {
		return "", false
	}
	switch x := v.(type) {
	case *ssa.UnOp:
		if x.Op == token.MUL {
			if fa, ok := x.X.(*ssa.FieldAddr); ok {
				return fieldOf(fa).Name(), true
			}
			return "", false
		}
		return m.fieldInCond(x.X, depth+1)
	case *ssa.Field:
		return fieldOfField(x).Name(), true
	case *ssa.BinOp:
		if n, ok := m.fieldInCond(x.X, depth+1); ok {
			return n, true
		}
		return m.fieldInCond(x.Y, depth+1)
	case *ssa.Phi:
		for _, e := range x.Edges {
			if n, ok := m.fieldInCond(e, depth+1); ok {
				return n, true
			}
		}
	case *ssa.Call:
		// a predicate helper: the fields its arguments are, and the fields it reads of the objects
		// it is handed (`feed.isCheckpointKey(event.Key)`)
		callee := x.Common().StaticCallee()
		name := ""
		for i, a := range x.Common().Args {
			if n, ok := m.fieldInCond(a, depth+1); ok && n != "KeysOnly" {
				return n, true
			} else if ok {
				name = n
			}
			if callee != nil && m.inPkg(callee) && i < len(callee.Params) {
				// only objects the fan-out decides about: the event, or an element of the registry's
				// slice (the feed) - not the collection or the bucket the list is fetched from
				isFeedOrEvent := isPtrToNamed(a.Type(), sgbucketPath, "FeedEvent")
				if m.A.FeedsField != nil {
					if mp, ok := m.A.FeedsField.Type().Underlying().(*types.Map); ok {
						if sl, ok := mp.Elem().Underlying().(*types.Slice); ok && types.Identical(sl.Elem(), a.Type()) {
							isFeedOrEvent = true
						}
					}
				}
				if _, isPtr := callee.Params[i].Type().Underlying().(*types.Pointer); isPtr && isFeedOrEvent {
					for f := range m.fieldsReadThrough(callee, callee.Params[i], map[*ssa.Function]bool{}) {
						if f.Name() != "KeysOnly" {
							return f.Name(), true
						}
						name = f.Name()
					}
				}
			}
		}
		if name != "" {
			return name, true
		}
	}
	return "", false
}

// onlyCalledFrom: every static call of fn (at least one) comes from a function of the set, or from
// a function for which the same holds (bounded depth); fn is never used as a value.
func (m *Model) onlyCalledFrom(fn *ssa.Function, set map[*ssa.Function]bool, depth int) bool {
	if depth > 3 || fn.Parent() != nil {
		return false
	}
	if obj := fn.Object(); obj != nil && obj.Exported() {
		return false
	}
	if refs := fn.Referrers(); refs != nil {
		// (Referrers is nil for package-level functions; closures are excluded above)
		_ = refs
	}
	callers := m.staticCallersOf(fn)
	if len(callers) == 0 {
		return false
	}
	for _, c := range callers {
		if _, isGo := c.(*ssa.Go); isGo {
			return false
		}
		p := c.Parent()
		if !set[p] && !m.onlyCalledFrom(p, set, depth+1) {
			return false
		}
	}
	// used as a function value anywhere?
	for _, g := range m.Funcs {
		for _, b := range g.Blocks {
			for _, in := range b.Instrs {
				for _, op := range in.Operands(nil) {
					if *op == ssa.Value(fn) {
						if c, ok := in.(ssa.CallInstruction); ok && c.Common().Value == ssa.Value(fn) {
							continue
						}
						return false
					}
				}
			}
		}
	}
	return true
}

// readsFieldValue: the value is computed from field f (a load of it, a comparison of it, or the
// result of a package function/method whose body reads it).
func (m *Model) readsFieldValue(v ssa.Value, f *types.Var, depth int) bool {
	v = stripConv(v)
	if depth > 4 {
		return false
	}
	switch x := v.(type) {
	case *ssa.UnOp:
		if _, g, ok := fieldLoad(x); ok && g == f {
			return true
		}
		return m.readsFieldValue(x.X, f, depth+1)
	case *ssa.BinOp:
		return m.readsFieldValue(x.X, f, depth+1) || m.readsFieldValue(x.Y, f, depth+1)
	case *ssa.Phi:
		for _, e := range x.Edges {
			if m.readsFieldValue(e, f, depth+1) {
				return true
			}
		}
	case *ssa.Call:
		callee := x.Common().StaticCallee()
		if callee == nil || !m.inPkg(callee) {
			return false
		}
		for _, b := range callee.Blocks {
			for _, ins := range b.Instrs {
				if fa, ok := ins.(*ssa.FieldAddr); ok && fieldOf(fa) == f {
					return true
				}
			}
		}
	}
	return false
}

// isMaxHelper: a package function of two parameters of one type that returns the larger one:
// one comparison of the two parameters, and each return hands back the parameter that the
// comparison found larger (or not smaller).
func (m *Model) isMaxHelper(f *ssa.Function) bool {
	if f == nil || !m.inPkg(f) || len(f.Blocks) == 0 || len(f.Params) != 2 || f.Signature.Results().Len() != 1 {
		return false
	}
	a, b := f.Params[0], f.Params[1]
	ifs := allIfs(f)
	if len(ifs) != 1 {
		return false
	}
	cd := condOf(ifs[0])
	x, y := stripConv(cd.X), stripConv(cd.Y)
	if !(x == ssa.Value(a) && y == ssa.Value(b) || x == ssa.Value(b) && y == ssa.Value(a)) {
		return false
	}
	var bigOnTrue ssa.Value
	switch cd.Op {
	case token.GTR, token.GEQ:
		bigOnTrue = x
	case token.LSS, token.LEQ:
		bigOnTrue = y
	default:
		return false
	}
	other := ssa.Value(a)
	if bigOnTrue == ssa.Value(a) {
		other = b
	}
	tEdge, fEdge := cd.succWhen(true), cd.succWhen(false)
	for _, ret := range returnsOf(f) {
		res := stripConv(ret.Results[0])
		if phi, ok := res.(*ssa.Phi); ok {
			for i, e := range phi.Edges {
				p := phi.Block().Preds[i]
				want := other
				if p == tEdge || tEdge.Dominates(p) && tEdge != fEdge && len(tEdge.Preds) == 1 {
					want = bigOnTrue
				} else if p == ifs[0].Block() && phi.Block() == tEdge {
					want = bigOnTrue
				}
				if stripConv(e) != want {
					return false
				}
			}
			continue
		}
		want := other
		if (ret.Block() == tEdge || tEdge.Dominates(ret.Block())) && len(tEdge.Preds) == 1 {
			want = bigOnTrue
		}
		if res != want {
			return false
		}
	}
	return true
}

// aboveOld: 2 = v is strictly above the current value of the clock field hw, 1 = not below it,
// 0 = unknown. `at` is the block at whose end v is used.
func (m *Model) aboveOld(v ssa.Value, at *ssa.BasicBlock, hw *types.Var, depth int) int {
	v = stripConv(v)
	if depth > 5 {
		return 0
	}
	if _, f, ok := fieldLoad(v); ok && f == hw {
		return 1
	}
	switch x := v.(type) {
	case *ssa.BinOp:
		if x.Op == token.ADD {
			for _, pair := range [][2]ssa.Value{{x.X, x.Y}, {x.Y, x.X}} {
				if k, ok := pair[1].(*ssa.Const); ok && k.Value != nil && k.Uint64() >= 1 && m.aboveOld(pair[0], at, hw, depth+1) >= 1 {
					return 2
				}
			}
		}
	case *ssa.Call:
		if m.isMaxHelper(x.Common().StaticCallee()) {
			best := 0
			for _, a := range x.Common().Args {
				if r := m.aboveOld(a, at, hw, depth+1); r > best {
					best = r
				}
			}
			return best
		}
	case *ssa.Phi:
		worst := 2
		for i, e := range x.Edges {
			p := x.Block().Preds[i]
			r := m.aboveOld(e, p, hw, depth+1)
			// an edge value guarded by `e > y` (or >=) with y above old
			for _, ct := range controllingConds(x.Parent(), p) {
				cd := condOf(ct.If)
				if cd.Op == token.ILLEGAL || cd.Y == nil {
					continue
				}
				taken := ct.Branch
				if cd.Neg {
					taken = !taken
				}
				cx, cy := stripConv(cd.X), stripConv(cd.Y)
				op := cd.Op
				var y ssa.Value
				if cx == stripConv(e) {
					y = cy
				} else if cy == stripConv(e) {
					y = cx
					op = map[token.Token]token.Token{token.LSS: token.GTR, token.GTR: token.LSS, token.LEQ: token.GEQ, token.GEQ: token.LEQ}[op]
				} else {
					continue
				}
				ry := m.aboveOld(y, ct.If.Block(), hw, depth+1)
				switch {
				case (op == token.GTR && taken || op == token.LEQ && !taken) && ry >= 1:
					if r < 2 {
						r = 2
					}
				case (op == token.GEQ && taken || op == token.LSS && !taken) && ry > r:
					r = ry
				}
			}
			if r < worst {
				worst = r
			}
		}
		return worst
	}
	return 0
}
