package lint

import (
	"fmt"
	"go/constant"
	"go/token"
	"go/types"
	"sort"
	"strings"

	"golang.org/x/tools/go/ssa"

	"rosmarlint/sqlp"
)

// termsEqual compares terms structurally.
func termsEqual(a, b *Term) bool { return a.String() == b.String() }

// altsSubset: every alternative of a is an alternative of b.
func altsSubset(a, b *Term) bool {
	bs := map[string]bool{}
	for _, t := range b.alts() {
		bs[t.String()] = true
	}
	for _, t := range a.alts() {
		if !bs[t.String()] {
			return false
		}
	}
	return true
}

func isScanOf(t *Term, col string, needPost bool) bool {
	if t.Kind != "scan" {
		return false
	}
	ok := false
	for _, c := range strings.Split(t.Col, "|") {
		if c == col {
			ok = true
		}
	}
	if !ok {
		return false
	}
	if needPost && !strings.HasSuffix(t.Name, ":post") {
		return false
	}
	return true
}

func isZeroTerm(t *Term) bool { return t.Kind == "zero" }

// ---------------------------------------------------------------- R-EVT-ROW

// Per transaction closure: the event it hands out describes the row it wrote.
func (m *Model) ruleEVTROW(r *Results) {
	const rule = "R-EVT-ROW"
	m.sitesHealthy(r, rule)
	ftab, why := m.eventFieldTable()
	if ftab == nil {
		r.undecided(rule, "field table", "-", "%s", why)
		return
	}
	e := m.newTermEval()
	// group write units by closure; evaluate scans relative to the closure's write points
	byK := map[*ssa.Function][]*writeUnit{}
	var order []*ssa.Function
	// first pass to learn the write points
	pre := m.newTermEval()
	for _, wu := range m.writeUnits(pre) {
		if _, ok := byK[wu.K]; !ok {
			order = append(order, wu.K)
		}
		byK[wu.K] = append(byK[wu.K], wu)
	}
	nUnits := 0
	for _, K := range order {
		var points []ssa.Instruction
		for _, wu := range byK[K] {
			points = append(points, wu.Point)
		}
		e = m.newTermEval()
		e.writePoints = points
		units := []*writeUnit{}
		for _, wu := range m.writeUnits(e) {
			if wu.K == K {
				units = append(units, wu)
			}
		}
		name := m.declName(K)
		ev, ok, whyNot := m.eventAtReturns(e, K)
		if !ok {
			// a closure that writes documents but hands out no event: allowed only for a bare touch
			touchOnly := true
			for _, wu := range units {
				for _, c := range []string{"value", "xattrs", "cas"} {
					if wu.Cols[c].Kind != "unassigned" {
						touchOnly = false
					}
				}
			}
			if touchOnly {
				r.ok(rule, name+" / no event (touch)", m.pos(K.Pos()), "a bare touch (exp, revSeqNo only) posts no event by specification")
			} else {
				r.bad(rule, name+" / no event", m.pos(K.Pos()), "the transaction closure writes body/xattrs/cas of a document but %s: the mutation is never delivered to feeds", whyNot)
			}
			continue
		}
		cols := []string{"key", "value", "cas", "exp", "isjson", "xattrs", "revseqno", "tombstone"}
		for _, col := range cols {
			f := ftab[col]
			if f == nil {
				continue
			}
			V := ev[f]
			if V == nil {
				V = &Term{Kind: "zero"}
			}
			nUnits++
			key := fmt.Sprintf("%s / event.%s vs column %s", name, f.Name(), col)
			pos := m.pos(K.Pos())
			// every alternative of V must be justified by some unit; every unit must be matched by some alternative
			var problems []string
			unitMatched := make([]bool, len(units))
			for _, alt := range V.alts() {
				justified := false
				for ui, wu := range units {
					if m.altMatches(alt, V, wu, col, ev, ftab) {
						justified = true
						unitMatched[ui] = true
					}
				}
				if !justified {
					problems = append(problems, fmt.Sprintf("event carries %s", alt))
				}
			}
			for ui, wu := range units {
				if !unitMatched[ui] {
					problems = append(problems, fmt.Sprintf("statement %q writes %s = %s, which the event never reports", wu.Stmt.Shape(), col, wu.Cols[col]))
					continue
				}
				// a bound value with several alternatives (e.g. the supplied or the preserved expiry): the
				// event must be able to report each of them, not only one
				if src := wu.Cols[col]; src.Kind == "bound" && col != "tombstone" && col != "key" {
					for _, s := range src.Term.alts() {
						found := false
						for _, alt := range V.alts() {
							if termsEqual(alt, s) {
								found = true
							}
						}
						if !found && !(isZeroTerm(s) && s.Name == "norow") {
							problems = append(problems, fmt.Sprintf("statement %q can write %s = %s, which the event never reports", wu.Stmt.Shape(), col, s))
						}
					}
				}
			}
			if len(problems) == 0 {
				r.ok(rule, key, pos, "event field = value written (%s)", V)
			} else {
				var wrote []string
				for _, wu := range units {
					wrote = append(wrote, wu.Cols[col].String())
				}
				r.bad(rule, key, pos, "the event's %s does not describe the stored row: %s; the row gets %s", f.Name(), strings.Join(uniq(problems), "; "), strings.Join(uniq(wrote), " / "))
			}
		}
	}
	if nUnits < 60 {
		r.undecided(rule, "instance-floor", "-", "only %d (closure, field) pairs checked; at least 60 were confirmed by hand", nUnits)
	}
}

// altMatches: is alternative `alt` of the event's field term a faithful report of what
// write unit wu stores in column col?
func (m *Model) altMatches(alt, whole *Term, wu *writeUnit, col string, ev map[*types.Var]*Term, ftab map[string]*types.Var) bool {
	src := wu.Cols[col]
	if col == "tombstone" {
		return m.deletionMatches(alt, wu, ev, ftab)
	}
	if col == "key" && src.Kind == "unassigned" {
		// the row is addressed by key = ? in the WHERE clause
		for _, cj := range sqlp.Conjuncts(wu.Stmt.Where) {
			if p := colEqParam(cj, "key"); p != nil {
				if b, ok := wu.Site.bindingFor(p); ok && b.V != nil {
					e2 := m.newTermEval()
					kfr := wu.Frame
					if b.Fr != nil && b.Fr.caller != nil {
						kfr = rerootFrame(b.Fr, wu.Frame)
					}
					kt := e2.term(b.V, wu.Site.Call, kfr)
					for _, s := range kt.alts() {
						if termsEqual(alt, s) {
							return true
						}
					}
				}
			}
		}
		return false
	}
	switch src.Kind {
	case "bound":
		for _, s := range src.Term.alts() {
			if termsEqual(alt, s) {
				return true
			}
		}
		return false
	case "literal":
		if isNullLit(src.Expr) {
			return isZeroTerm(alt) || isScanOf(alt, col, true)
		}
		if n, ok := litInt(src.Expr); ok {
			if n == 0 {
				return isZeroTerm(alt)
			}
			return alt.Kind == "const" && (alt.Name == fmt.Sprint(n) || n == 1 && alt.Name == "true")
		}
		return false
	case "sqlexpr":
		if isScanOf(alt, col, true) {
			return true
		}
		// the "no row" value of the read-back variable travels with the scan alternative (on that
		// path the read-back fails and no event is produced)
		if isZeroTerm(alt) && alt.Name == "norow" {
			for _, o := range whole.alts() {
				if isScanOf(o, col, true) {
					return true
				}
			}
		}
		return false
	case "unassigned":
		// column untouched: the event must report the row's value (read before or after), or
		// zero when the statement can only create a row (plain INSERT: column default)
		if isScanOf(alt, col, false) {
			return true
		}
		if wu.Stmt.Kind == sqlp.SInsert && isZeroTerm(alt) {
			return true
		}
		// the zero alternative of a weak Scan definition (no row read) travels with the scan alternative;
		// on that path the closure returns an error and no event
		if isZeroTerm(alt) {
			for _, o := range whole.alts() {
				if isScanOf(o, col, false) {
					return true
				}
			}
		}
		// value untouched by an xattr-only / touch statement and event value zero is NOT fine
		return false
	}
	return false
}

// isNullTestOf: ex is `<p> IS NULL` for the same statement parameter p.
func isNullTestOf(ex, p *sqlp.Expr) bool {
	if ex == nil || p == nil || ex.Kind != sqlp.EIsNull || ex.Not || len(ex.Args) != 1 {
		return false
	}
	a := ex.Args[0]
	return a.Kind == sqlp.EParam && p.Kind == sqlp.EParam && a.Name == p.Name
}

// termNonNil: the (byte slice) value the term denotes is never nil: a conversion of a string,
// the result of a formatter or of a successful encoder.
func termNonNil(t *Term) bool {
	switch t.Kind {
	case "const", "literal":
		return true
	case "call":
		switch t.Name {
		case "strconv.FormatUint", "strconv.FormatInt", "strconv.Itoa", "strconv.AppendUint", "strconv.AppendInt", "fmt.Sprintf", "fmt.Sprint", "fmt.Appendf":
			return true
		}
	}
	return false
}

// deletionMatches: the event's deletion flag agrees with what the unit stores.
func (m *Model) deletionMatches(alt *Term, wu *writeUnit, ev map[*types.Var]*Term, ftab map[string]*types.Var) bool {
	vsrc := wu.Cols["value"]
	tsrc := wu.Cols["tombstone"]
	valueTerm := ev[ftab["value"]]
	// (i) derived from the event's own body: binop ==(V(value), zero)
	if alt.Kind == "binop" && alt.Name == "==" && len(alt.Args) == 2 && valueTerm != nil {
		if isZeroTerm(alt.Args[1]) && (termsEqual(alt.Args[0], valueTerm) || altsSubset(alt.Args[0], valueTerm)) {
			// the body that is tested must include what THIS statement stores: the bound value, or
			// a read of the column after the write when the body is computed in SQL
			covers := false
			for _, x := range alt.Args[0].alts() {
				switch vsrc.Kind {
				case "bound":
					for _, s := range vsrc.Term.alts() {
						if termsEqual(x, s) {
							covers = true
						}
					}
				case "sqlexpr":
					if isScanOf(x, "value", true) {
						covers = true
					}
				case "literal":
					covers = covers || isZeroTerm(x) && isNullLit(vsrc.Expr)
				case "unassigned":
					covers = covers || isScanOf(x, "value", false)
				}
			}
			if covers {
				return true
			}
		}
	}
	switch {
	case vsrc.Kind == "literal" && isNullLit(vsrc.Expr):
		return alt.Kind == "const" && alt.Name == "true"
	case vsrc.Kind == "bound" && tsrc.Kind == "sqlexpr" && isNullTestOf(tsrc.Expr, vsrc.Expr):
		// tombstone = (<the bound body> IS NULL): the flag follows the body. An event flag that is
		// not itself a test of the body (case (i)) is right only if the bound body's nil-ness is
		// known: never nil -> false, always nil -> true
		never, always := true, true
		for _, s := range vsrc.Term.alts() {
			if !termNonNil(s) {
				never = false
			}
			if !isZeroTerm(s) {
				always = false
			}
		}
		if never {
			return isZeroTerm(alt)
		}
		if always {
			return alt.Kind == "const" && alt.Name == "true"
		}
		return false
	case vsrc.Kind == "bound" && tsrc.Kind == "literal":
		n, _ := litInt(tsrc.Expr)
		if n == 0 {
			return isZeroTerm(alt)
		}
		return alt.Kind == "const" && alt.Name == "true"
	case vsrc.Kind == "bound" && tsrc.Kind == "unassigned":
		return isZeroTerm(alt) // plain INSERT of a body: default 0
	case vsrc.Kind == "bound" && tsrc.Kind == "bound":
		// upsert primitive: the flag is selected by the event's own field (R-TOMB checks that); any event
		// value is then what is stored - but a flag that is a constant on some paths and a test of the
		// body on others (`flag || body == nil`) can say "deleted" while a body is stored
		if whole := ev[ftab["tombstone"]]; whole != nil && len(whole.alts()) > 1 && (alt.Kind == "const" || isZeroTerm(alt) || alt.Kind == "scan") {
			for _, o := range whole.alts() {
				if o.Kind == "binop" && o.Name == "==" {
					return false
				}
			}
		}
		return true
	case vsrc.Kind == "unassigned":
		// body untouched: the flag must be read from the row, or be derived from the (scanned) body
		if isZeroTerm(alt) {
			if whole := ev[ftab["tombstone"]]; whole != nil {
				for _, o := range whole.alts() {
					if isScanOf(o, "tombstone", false) {
						return true // the no-row alternative of a weak Scan definition
					}
				}
			}
		}
		return isScanOf(alt, "tombstone", false)
	case vsrc.Kind == "sqlexpr":
		return false // must be case (i)
	}
	return false
}

// ---------------------------------------------------------------- R-REV

func (m *Model) ruleREV(r *Results) {
	const rule = "R-REV"
	m.sitesHealthy(r, rule)
	e := m.newTermEval()
	n := 0
	for _, wu := range m.writeUnits(e) {
		src := wu.Cols["revseqno"]
		key := fmt.Sprintf("%s / %s / revSeqNo", m.declName(wu.K), wu.Stmt.Shape())
		pos := m.instrPos(wu.Site.Call)
		n++
		switch src.Kind {
		case "unassigned":
			// R-ROWCOMPLETE reports the missing assignment; here only note it
			r.bad(rule, key, pos, "the statement does not assign revSeqNo: the mutation is not counted")
		case "literal":
			v, _ := litInt(src.Expr)
			r.check(v == 1 && wu.Stmt.Kind == sqlp.SInsert && !wu.Upsert, rule, key, pos, "a statement that can only create a row starts the count at 1", fmt.Sprintf("revSeqNo is set to the constant %s by a statement that can update an existing row", src.Expr))
		case "sqlexpr":
			ex := src.Expr
			good := ex.Kind == sqlp.EBinary && ex.Op == "+" && isCol(ex.Args[0], "revSeqNo") && isLitN(ex.Args[1], 1)
			r.check(good, rule, key, pos, "revSeqNo = revSeqNo + 1 in SQL", fmt.Sprintf("revSeqNo computed as %s", ex))
		case "bound":
			ok, why := m.revTermOK(src.Term, wu.K)
			if ok {
				ok, why = m.revHelperOK(src.Term, wu)
			}
			r.check(ok, rule, key, pos, "revSeqNo = (row's revSeqNo read in this transaction, or 0 if absent) + 1: "+src.Term.String(), "revSeqNo written is "+src.Term.String()+": "+why)
		}
	}
	if n < 9 {
		r.undecided(rule, "instance-floor", "-", "only %d write units found", n)
	}
	// virtual xattrs: both formats take the revSeqNo scanned by the function's own SELECT
	nv := 0
	for _, fn := range m.Funcs {
		if fn.Parent() != nil {
			continue
		}
		var sprintfs []*ssa.Call
		m.eachCall(fn, func(c ssa.CallInstruction) {
			call, ok := c.(*ssa.Call)
			if !ok {
				return
			}
			if f := c.Common().StaticCallee(); f != nil && f.Pkg != nil && f.Pkg.Pkg.Path() == "fmt" && f.Name() == "Sprintf" {
				if s, ok := constString(c.Common().Args[0]); ok && strings.Contains(s, "%d") && strings.Contains(s, `"`) {
					sprintfs = append(sprintfs, call)
				}
			}
		})
		if len(sprintfs) == 0 {
			continue
		}
		// evaluated in the function that reads documents.revSeqNo: this one, or the caller that
		// hands the value to this formatting helper
		var readsRev func(g *ssa.Function) bool
		readsRevIn := func(g *ssa.Function) bool {
			for _, s := range m.Sites {
				if s.Fn == g {
					for _, v := range s.Variants {
						if st := v.Stmt(); st != nil && st.Select != nil {
							for _, c := range st.Select.Cols {
								if isCol(c.Expr, "revSeqNo") {
									return true
								}
							}
						}
					}
				}
			}
			return false
		}
		// ... itself, or through a row-reading helper it calls
		readsRev = func(g *ssa.Function) bool {
			if readsRevIn(g) {
				return true
			}
			hit := false
			m.eachCall(g, func(c ssa.CallInstruction) {
				if h := c.Common().StaticCallee(); h != nil && m.inPkg(h) && h != g && readsRevIn(h) {
					hit = true
				}
			})
			return hit
		}
		type ctx struct {
			fr   *frame
			name string
		}
		var ctxs []ctx
		// the function that reads documents.revSeqNo: this one, or a caller (through up to three
		// helper levels) that hands the value down
		var contextsFor func(f *ssa.Function, depth int) []ctx
		contextsFor = func(f *ssa.Function, depth int) []ctx {
			if readsRev(f) {
				return []ctx{{topFrame(f), m.declName(f)}}
			}
			if depth >= 3 {
				return nil
			}
			var out []ctx
			for _, c := range m.staticCallersOf(f) {
				for _, up := range contextsFor(c.Parent(), depth+1) {
					out = append(out, ctx{up.fr.inline(c, f), up.name})
				}
			}
			return out
		}
		ctxs = contextsFor(fn, 0)
		for _, cx := range ctxs {
			for _, sp := range sprintfs {
				vals, dyn := varargValues(sp.Common().Args[1])
				if dyn || len(vals) == 0 {
					continue
				}
				last := vals[len(vals)-1]
				t := e.term(last, sp, cx.fr)
				okT := true
				for _, alt := range t.alts() {
					if !(isScanOf(alt, "revseqno", false) || isZeroTerm(alt)) {
						okT = false
					}
				}
				nv++
				r.check(okT, rule, cx.name+" / virtual xattr revid", m.instrPos(sp), "the virtual revision id is the revSeqNo column of the row just read", "the virtual revision id is formatted from "+t.String()+", not from the row's revSeqNo")
			}
		}
	}
	// ... and a virtual name is never answered from what is stored under it: within one iteration,
	// the lookup of the requested key in the stored xattrs is unreachable once the key has been
	// found equal to a virtual name (with-meta writes store xattr blobs verbatim, so a stored
	// "$document" would otherwise freeze the revision id)
	for _, fn := range m.Funcs {
		if fn.Parent() != nil || !m.inPkg(fn) {
			continue
		}
		hasFmt := false
		m.eachCall(fn, func(c ssa.CallInstruction) {
			if f := c.Common().StaticCallee(); f != nil && f.Pkg != nil && f.Pkg.Pkg.Path() == "fmt" && f.Name() == "Sprintf" && len(c.Common().Args) > 0 {
				if s, ok := constString(c.Common().Args[0]); ok && strings.Contains(s, "%d") && strings.Contains(s, `"`) {
					hasFmt = true
				}
			}
		})
		if !hasFmt {
			continue
		}
		type vtest struct {
			iff *ssa.If
			k   ssa.Value
		}
		var tests []vtest
		for _, iff := range allIfs(fn) {
			cd := condOf(iff)
			if _, ok := cd.equalEdge(); !ok || cd.Y == nil {
				continue
			}
			k, cst := cd.X, cd.Y
			if _, isC := stripConv(k).(*ssa.Const); isC {
				k, cst = cst, k
			}
			if c, ok := stripConv(cst).(*ssa.Const); ok && c.Value != nil && c.Value.Kind() == constant.String {
				if b, ok := k.Type().Underlying().(*types.Basic); ok && b.Kind() == types.String {
					tests = append(tests, vtest{iff, stripConv(k)})
				}
			}
		}
		for _, b := range fn.Blocks {
			for _, ins := range b.Instrs {
				lk, ok := ins.(*ssa.Lookup)
				if !ok {
					continue
				}
				if _, isMap := lk.X.Type().Underlying().(*types.Map); !isMap {
					continue
				}
				for _, t := range tests {
					if stripConv(lk.Index) != t.k {
						continue
					}
					kin, ok := t.k.(ssa.Instruction)
					if !ok {
						continue
					}
					cd := condOf(t.iff)
					eq, _ := cd.equalEdge()
					// one iteration, under "the key equals this virtual name"
					seen := map[*ssa.BasicBlock]bool{}
					var reach func(x *ssa.BasicBlock) bool
					reach = func(x *ssa.BasicBlock) bool {
						if x == lk.Block() {
							return true
						}
						if seen[x] {
							return false
						}
						seen[x] = true
						for _, sx := range x.Succs {
							if sx.Dominates(x) {
								continue // back edge: the next iteration has another key
							}
							if x == t.iff.Block() && sx != eq {
								continue
							}
							if reach(sx) {
								return true
							}
						}
						return false
					}
					bad := kin.Block() != lk.Block() && reach(kin.Block()) || kin.Block() == lk.Block()
					r.check(!bad, rule, m.declName(fn)+" / a virtual xattr is never answered from the stored xattrs", m.instrPos(lk), "the stored-xattr lookup of the requested key is unreachable where the key equals a virtual name", "the requested key is looked up among the stored xattrs although (or before) it may equal a virtual name (test at "+m.instrPos(t.iff)+"): a stored xattr of that name - with-meta writes store their blob verbatim - shadows the computed revision id, which then no longer follows the document's mutations")
				}
			}
		}
	}
	if nv < 2 {
		r.undecided(rule, "virtual xattrs", "-", "expected two formats of the virtual revision id, found %d", nv)
	}
}

// revTermOK: add1(phi{scan documents.revseqno on the txn in this closure, zero}).
func (m *Model) revTermOK(t *Term, K *ssa.Function) (bool, string) {
	inExtent := m.reachableLocal(K)
	for _, alt := range t.alts() {
		if alt.Kind != "add1" || len(alt.Args) != 1 {
			return false, "it is not an increment by one of the value read (" + alt.String() + ")"
		}
		for _, leaf := range alt.Args[0].alts() {
			switch {
			case isZeroTerm(leaf):
				if leaf.Name == "reset" {
					return false, "the count restarts from zero on a path that overwrites the whole object the row was read into: the row's revSeqNo is forgotten"
				}
			case leaf.Kind == "scan":
				if !isScanOf(leaf, "revseqno", false) {
					return false, "the incremented value is read from column " + leaf.Col
				}
				if leaf.Site == nil || leaf.Handle != "txn" {
					return false, "the current revision number is read outside the transaction (handle " + leaf.Handle + "): a concurrent mutation between that read and this write is not counted"
				}
				if !inExtent[leaf.Site.Fn] {
					return false, "the current revision number is read outside this transaction closure"
				}
			case leaf.Kind == "add1":
				return false, "the value is incremented twice on some path"
			default:
				return false, "the incremented value is " + leaf.String() + ", not the row's revSeqNo"
			}
		}
	}
	return true, ""
}

// ---------------------------------------------------------------- R-EXP

func (m *Model) expTermOK(t *Term) (bool, string) {
	for _, alt := range t.alts() {
		switch {
		case isZeroTerm(alt):
		case alt.Kind == "call" && m.A.AbsExpiry != nil && alt.Name == m.A.AbsExpiry.Name():
		case isScanOf(alt, "exp", false):
		default:
			return false, alt.String()
		}
	}
	return true, ""
}

// armFn: the expiry manager's entry point that takes an expiry and (transitively) arms a timer.
func (m *Model) armFns() []*ssa.Function {
	var out []*ssa.Function
	for _, fn := range m.Funcs {
		if fn.Parent() != nil || fn.Signature.Recv() == nil || fn.Signature.Params().Len() != 1 {
			continue
		}
		if !types.Identical(fn.Signature.Params().At(0).Type(), types.Typ[types.Uint32]) {
			continue
		}
		timer := false
		for f := range m.reachableLocal(fn) {
			m.eachCall(f, func(c ssa.CallInstruction) {
				if t := c.Common().StaticCallee(); t != nil && t.Pkg != nil && t.Pkg.Pkg.Path() == "time" && (t.Name() == "AfterFunc" || t.Name() == "Reset") {
					timer = true
				}
			})
		}
		if timer {
			out = append(out, fn)
		}
	}
	return out
}

func (m *Model) ruleEXP(r *Results) {
	const rule = "R-EXP"
	m.sitesHealthy(r, rule)
	a := &m.A
	if a.AbsExpiry == nil || a.PostFn == nil {
		r.undecided(rule, "anchors", "-", "offset-to-absolute function / post function unresolved: %v", a.Problems)
		return
	}
	e := m.newTermEval()
	units := m.writeUnits(e)
	// (a) every bound expiry is absolute, preserved from the row, or zero
	na := 0
	for _, wu := range units {
		src := wu.Cols["exp"]
		if src.Kind != "bound" {
			continue
		}
		na++
		ok, bad := m.expTermOK(src.Term)
		r.check(ok, rule, fmt.Sprintf("a / %s / %s / exp", m.declName(wu.K), wu.Stmt.Shape()), m.instrPos(wu.Site.Call), "stored expiry is absolute / preserved / zero: "+src.Term.String(), "the expiry stored by this statement can be "+bad+", which has not passed through the offset-to-absolute conversion: an offset such as 100 would be stored as the year-1970 timestamp 100 (and the event converter panics)")
	}
	if na < 6 {
		r.undecided(rule, "a / instance-floor", "-", "only %d statements bind an expiry", na)
	}
	// (e) whether a supplied expiry is applied does not depend on its value: 0 is a value ("never
	// expires") like any other, only "not supplied" (nil pointer, preserve option) keeps the old one
	ne := 0
	for _, fn := range m.Funcs {
		if !m.inPkg(fn) || fn == a.AbsExpiry {
			continue
		}
		m.eachCall(fn, func(c ssa.CallInstruction) {
			if c.Common().StaticCallee() != a.AbsExpiry || len(c.Common().Args) != 1 {
				return
			}
			ne++
			x := stripConv(c.Common().Args[0])
			var sameSrc func(p, q ssa.Value, d int) bool
			sameSrc = func(p, q ssa.Value, d int) bool {
				p, q = stripConv(p), stripConv(q)
				if p == q {
					return true
				}
				l1, ok1 := p.(*ssa.UnOp)
				l2, ok2 := q.(*ssa.UnOp)
				return d < 3 && ok1 && ok2 && l1.Op == token.MUL && l2.Op == token.MUL && sameSrc(l1.X, l2.X, d+1)
			}
			same := func(v ssa.Value) bool { return sameSrc(x, v, 0) }
			key := fmt.Sprintf("e / %s / supplied expiry applied whatever its value", m.declName(fn))
			bad := ""
			for _, ct := range controllingConds(fn, c.Block()) {
				cd := condOf(ct.If)
				if cd.Y == nil {
					continue
				}
				if same(cd.X) && !isNilConst(cd.Y) || same(cd.Y) && !isNilConst(cd.X) {
					bad = m.instrPos(ct.If)
				}
			}
			r.check(bad == "", rule, key, m.instrPos(c), "the conversion of the supplied expiry is not conditional on the expiry's value", "the supplied expiry is converted and stored only when it passes a value test (at "+bad+"): for the other values (e.g. an explicit 0 = never expire) the write silently keeps the document's previous expiry")
		})
	}
	if ne < 6 {
		r.undecided(rule, "e / instance-floor", "-", "only %d calls of the offset-to-absolute function", ne)
	}
	// (c') arming is not optional: the functions through which a writer arms the timer take the
	// manager's lock unconditionally (a TryLock that fails skips the arming of a deadline that no
	// pass has seen)
	for _, af := range m.armFns() {
		for g := range m.reachableLocal(af) {
			m.eachCall(g, func(c ssa.CallInstruction) {
				callee := c.Common().StaticCallee()
				if callee != nil && callee.Pkg != nil && callee.Pkg.Pkg.Path() == "sync" && (callee.Name() == "TryLock" || callee.Name() == "TryRLock") {
					r.bad(rule, "c / "+m.declName(g)+" / arming never skipped", m.instrPos(c), "the timer is armed under a conditional lock acquisition (%s): when an expiry pass happens to hold the lock the writer's deadline is dropped, and the pass re-arms from a minimum it read before this write committed", callee.Name())
				}
			})
		}
	}
	// (b) closures that store an expiry but hand out no event must have their caller arm the timer with that value
	arms := m.armFns()
	isArm := map[*ssa.Function]bool{}
	for _, f := range arms {
		isArm[f] = true
	}
	if len(arms) == 0 {
		r.undecided(rule, "b / arm function", "-", "no method takes an expiry and arms a timer")
	}
	byK := map[*ssa.Function][]*writeUnit{}
	for _, wu := range units {
		byK[wu.K] = append(byK[wu.K], wu)
	}
	for K, us := range byK {
		_, hasEvent, _ := m.eventAtReturns(e, K)
		if hasEvent {
			continue // R-EVT-ROW/exp covers it: the post function arms the timer from the event
		}
		stores := false
		var stored *Term
		for _, wu := range us {
			if wu.Cols["exp"].Kind == "bound" {
				stores, stored = true, wu.Cols["exp"].Term
			}
		}
		if !stores {
			continue
		}
		parent := K.Parent()
		key := "b / " + m.declName(parent) + " / arms the timer itself"
		var armCall ssa.CallInstruction
		m.eachCall(parent, func(c ssa.CallInstruction) {
			if callee := c.Common().StaticCallee(); callee != nil && isArm[callee] {
				armCall = c
			}
		})
		if armCall == nil {
			r.bad(rule, key, m.pos(parent.Pos()), "the operation stores an expiry but neither posts an event nor arms the expiry timer: the document never expires unless another write happens to schedule an earlier deadline")
			continue
		}
		arg := armCall.Common().Args[len(armCall.Common().Args)-1]
		at := e.term(arg, armCall, topFrame(parent))
		r.check(termsEqual(at, stored) || altsSubset(at, stored) && altsSubset(stored, at), rule, key, m.instrPos(armCall), "the timer is armed with the expiry that was stored ("+stored.String()+")", "the timer is armed with "+at.String()+" but the row stores "+stored.String()+": a relative offset recorded as the next deadline masks every real (absolute) deadline")
	}
	// every other caller of an arm function outside the expiry manager passes an absolute expiry
	for _, fn := range m.Funcs {
		m.eachCall(fn, func(c ssa.CallInstruction) {
			callee := c.Common().StaticCallee()
			if callee == nil || !isArm[callee] || m.methodOwner(fn) == m.methodOwner(callee) {
				return
			}
			arg := c.Common().Args[len(c.Common().Args)-1]
			fr := topFrame(fn)
			t := e.term(arg, c, fr)
			key := "b / " + m.declName(fn) + " / arm argument"
			if fn == a.PostFn {
				// the event's exp field: R-EVT-ROW ties it to the row, (a) makes the row's value absolute
				_, f, ok := fieldLoad(arg)
				r.check(ok && f == m.eventExpField(), rule, key, m.instrPos(c), "the post function arms the timer with the event's expiry", "the post function arms the timer with something other than the event's expiry")
				return
			}
			ok, bad := m.expTermOK(t)
			if !ok {
				// a value read back from the min-expiry query is absolute by (a)
				ok = true
				for _, alt := range t.alts() {
					if isZeroTerm(alt) {
						continue
					}
					fromMin := false
					if alt.Kind == "call" {
						for _, g := range m.Funcs {
							if g.Name() != alt.Name || g.Parent() != nil {
								continue
							}
							for _, st := range m.Sites {
								if st.Fn == g {
									for _, v := range st.Variants {
										if q := v.Stmt(); q != nil && q.Select != nil && len(q.Select.Cols) == 1 && isAgg(q.Select.Cols[0].Expr, "min", "exp") {
											fromMin = true
										}
									}
								}
							}
						}
					}
					if !fromMin {
						ok = false
					}
				}
			}
			r.check(ok, rule, key, m.instrPos(c), "the timer is armed with an absolute expiry", "the timer is armed with "+bad+", which is not known to be an absolute expiry")
		})
	}
	// (c) the arm function re-arms iff nothing is scheduled or the new deadline is earlier
	m.ruleExpArm(r, rule, arms)
	// (d) the timer callback clears the deadline and always re-arms from the database on exit
	m.ruleExpCallback(r, rule)
	// (h) the offset rule
	m.ruleExpOffset(r, rule)
	// (j) every event goes out through the post function, which is what arms the expiry timer for
	// the expiry the event carries: nobody else calls the fan-out
	if a := &m.A; a.FanoutFn != nil && a.PostFn != nil {
		other := ""
		for _, cl := range m.staticCallersOf(a.FanoutFn) {
			if rootOf(cl.Parent()) != a.PostFn {
				other = m.declName(rootOf(cl.Parent())) + " at " + m.instrPos(cl)
			}
		}
		r.check(other == "", rule, "j / <fan-out> / reached only through the post function", m.pos(a.FanoutFn.Pos()), "the fan-out's only caller is the post function (which arms the timer with the event's expiry)", "the fan-out is called directly by "+other+", bypassing the post function: the feeds get the event, but the expiry timer is not armed for the expiry it carries, so the document outlives its expiry until some other write arms the timer")
	}
	// (i) an entry point that takes no expiry hands none to the writer: it does not pass a constant
	// to a wrapper whose expiry parameter ends up as the optional (pointer) expiry of the xattr
	// writer - a literal 0 there means "store 0", i.e. it removes the document's expiry
	{
		isExpT := func(t types.Type) bool {
			b, ok := t.Underlying().(*types.Basic)
			return ok && b.Kind() == types.Uint32
		}
		// wrappers: functions with a uint32 parameter whose address flows into a *uint32 argument of a package function
		wrappers := map[*ssa.Function]int{}
		for _, fn := range m.Funcs {
			if fn.Parent() != nil || len(fn.Blocks) == 0 {
				continue
			}
			for pi, p := range fn.Params {
				if !isExpT(p.Type()) || p.Referrers() == nil {
					continue
				}
				// the parameter's spill cell
				for _, ref := range *p.Referrers() {
					st, ok := ref.(*ssa.Store)
					if !ok || st.Val != ssa.Value(p) {
						continue
					}
					cell, ok := st.Addr.(*ssa.Alloc)
					if !ok || cell.Referrers() == nil {
						continue
					}
					flows := false
					var follow func(v ssa.Value, d int)
					follow = func(v ssa.Value, d int) {
						if d > 4 || v.Referrers() == nil {
							return
						}
						for _, u := range *v.Referrers() {
							switch x := u.(type) {
							case *ssa.Phi:
								follow(x, d+1)
							case ssa.CallInstruction:
								if g := x.Common().StaticCallee(); g != nil && m.inPkg(g) {
									for _, arg := range x.Common().Args {
										if arg == v {
											if pt, ok := arg.Type().Underlying().(*types.Pointer); ok && isExpT(pt.Elem()) {
												flows = true
											}
										}
									}
								}
								if cv, ok := u.(ssa.Value); ok {
									// ifelse(cond, nil, &exp): a generic selector returning one of its arguments
									for _, arg := range x.Common().Args {
										if arg == v && types.Identical(cv.Type(), arg.Type()) {
											follow(cv, d+1)
										}
									}
								}
							}
						}
					}
					follow(cell, 0)
					if flows {
						wrappers[fn] = pi
					}
				}
			}
		}
		ni := 0
		for _, fn := range m.Funcs {
			if fn.Parent() != nil || len(fn.Blocks) == 0 {
				continue
			}
			hasExp := false
			for _, p := range fn.Params {
				if isExpT(p.Type()) {
					hasExp = true
				}
				if pt, ok := p.Type().Underlying().(*types.Pointer); ok && isExpT(pt.Elem()) {
					hasExp = true
				}
			}
			if hasExp {
				continue
			}
			m.eachCall(fn, func(c ssa.CallInstruction) {
				g := c.Common().StaticCallee()
				pi, isW := wrappers[g]
				if !isW || pi >= len(c.Common().Args) {
					return
				}
				ni++
				_, isConst := stripConv(c.Common().Args[pi]).(*ssa.Const)
				r.check(!isConst, rule, "i / "+m.declName(fn)+" / no expiry of its own handed to "+m.declName(g), m.instrPos(c), "", "an operation that takes no expiry passes a constant expiry to "+g.Name()+", which stores it: the document's expiry is replaced (a literal 0 removes it) by a call that was not given one")
			})
		}
		// (k) a tombstoning write always hands its expiry on: a call of the optional-expiry writer
		// whose body argument is an empty payload (a deletion) passes a non-nil expiry pointer on
		// every path - a deletion clears (or sets) the expiry, it never preserves the dead
		// document's deadline
		for _, fn := range m.Funcs {
			m.eachCall(fn, func(c ssa.CallInstruction) {
				g := c.Common().StaticCallee()
				if g == nil || !m.inPkg(g) {
					return
				}
				expIdx := -1
				for i, p := range g.Params {
					if pt, ok := p.Type().Underlying().(*types.Pointer); ok && isExpT(pt.Elem()) && p.Name() != "" {
						if _, isNamed := pt.Elem().(*types.Named); !isNamed || true {
							expIdx = i
						}
					}
				}
				if expIdx < 0 || expIdx >= len(c.Common().Args) {
					return
				}
				// an empty payload among the arguments: a fresh struct nothing was stored into
				empty := false
				for _, a := range c.Common().Args {
					al, ok := stripConv(a).(*ssa.Alloc)
					if !ok || al.Referrers() == nil {
						continue
					}
					if _, isStruct := al.Type().Underlying().(*types.Pointer).Elem().Underlying().(*types.Struct); !isStruct {
						continue
					}
					stored := false
					for _, u := range *al.Referrers() {
						switch x := u.(type) {
						case *ssa.Store:
							if x.Addr == ssa.Value(al) {
								stored = true
							}
						case *ssa.FieldAddr:
							stored = true
						}
					}
					if !stored {
						empty = true
					}
				}
				if !empty {
					return
				}
				ea := stripConv(c.Common().Args[expIdx])
				_, isCell := ea.(*ssa.Alloc)
				// (or a helper every return of which is the address of a variable: `setExpiry(exp)`)
				if hc, ok := ea.(*ssa.Call); ok && !isCell {
					if h := hc.Common().StaticCallee(); h != nil && m.inPkg(h) && len(h.Blocks) > 0 {
						all := true
						for _, ret := range returnsOf(h) {
							if len(ret.Results) != 1 {
								all = false
								continue
							}
							if _, isAl := stripConv(ret.Results[0]).(*ssa.Alloc); !isAl {
								all = false
							}
						}
						isCell = all
					}
				}
				r.check(isCell, rule, "k / "+m.declName(fn)+" / a tombstoning write hands its expiry on", m.instrPos(c), "the expiry handed to the writer is the address of the caller's expiry on every path", "a write that removes the body (empty payload) hands the xattr writer an expiry that may be nil - 'leave the stored expiry alone': the tombstone keeps the dead document's deadline, a later re-creation that preserves the expiry inherits it, and the expiry pass reports the deletion a second time")
			})
		}
		r.ok(rule, "i / inventory", "-", "%d expiry-taking wrapper(s) of the optional-expiry writer; %d call(s) from functions without an expiry parameter", len(wrappers), ni)
	}
}

func (m *Model) eventExpField() *types.Var {
	ftab, _ := m.eventFieldTable()
	if ftab == nil {
		return nil
	}
	return ftab["exp"]
}

// armCase is one of the four situations that decide whether the timer must be re-armed: is the
// current deadline unset (0), and how does the new (non-zero) expiry relate to it.
type armCase struct {
	curZero bool
	rel     int // new expiry REL current deadline: -1 <, 0 ==, +1 >
	want    bool
}

// armCondOutcome evaluates a comparison under a case. isP recognises the new expiry.
func armCondOutcome(cd cond, k armCase, isP func(ssa.Value) bool) (outcome, known bool) {
	isConstV := func(v ssa.Value) bool { _, ok := stripConv(v).(*ssa.Const); return ok }
	switch {
	case cd.Op == token.ILLEGAL:
	case isZeroConst(cd.Y) && isP(cd.X) || isZeroConst(cd.X) && isP(cd.Y):
		// exp compared with 0: exp is non-zero in all cases considered
		switch cd.Op {
		case token.EQL:
			outcome, known = false, true
		case token.NEQ, token.GTR:
			outcome, known = true, true
		}
		if isZeroConst(cd.X) && cd.Op == token.LSS { // 0 < exp
			outcome, known = true, true
		}
	case isZeroConst(cd.Y) && !isP(cd.X) || isZeroConst(cd.X) && !isP(cd.Y):
		// current deadline compared with 0
		switch cd.Op {
		case token.EQL:
			outcome, known = k.curZero, true
		case token.NEQ:
			outcome, known = !k.curZero, true
		case token.GTR:
			if isZeroConst(cd.Y) {
				outcome, known = !k.curZero, true
			}
		}
	case isP(cd.X) && !isConstV(cd.Y), isP(cd.Y) && !isConstV(cd.X):
		rel := k.rel // exp REL cur
		if isP(cd.Y) {
			rel = -rel // cur REL exp as written
		}
		switch cd.Op {
		case token.LSS:
			outcome, known = rel < 0, true
		case token.LEQ:
			outcome, known = rel <= 0, true
		case token.GTR:
			outcome, known = rel > 0, true
		case token.GEQ:
			outcome, known = rel >= 0, true
		case token.EQL:
			outcome, known = rel == 0, true
		case token.NEQ:
			outcome, known = rel != 0, true
		}
	}
	if known && cd.Neg {
		// succWhen accounts for the negation; outcome here is that of the un-negated comparison
	}
	return
}

// armCut removes, from fn's CFG, the branch edges that cannot be taken under case k. A branch on
// the result of a bool predicate helper that is handed the new expiry is decided by evaluating
// the helper under the same case.
func (m *Model) armCut(fn *ssa.Function, k armCase, isP func(ssa.Value) bool, depth int) *cut {
	c := newCut()
	for _, iff := range allIfs(fn) {
		cd := condOf(iff)
		outcome, known := armCondOutcome(cd, k, isP)
		if !known && cd.Op == token.ILLEGAL && cd.X != nil && depth < 2 {
			if call, ok := stripConv(cd.X).(*ssa.Call); ok {
				if vals := m.armPredicate(call, k, isP, depth); len(vals) == 1 {
					for v := range vals {
						outcome, known = v, true
					}
				}
			}
		}
		if known {
			c.cutEdge(iff.Block(), cd.succWhen(!outcome))
		}
	}
	return c
}

// armPredicate: the possible results of a package bool function called with the new expiry, under case k.
func (m *Model) armPredicate(call *ssa.Call, k armCase, isP func(ssa.Value) bool, depth int) map[bool]bool {
	h := call.Common().StaticCallee()
	both := map[bool]bool{true: true, false: true}
	if h == nil || !m.inPkg(h) || len(h.Blocks) == 0 || h.Signature.Results().Len() != 1 {
		return both
	}
	var hp *ssa.Parameter
	for i, a := range call.Common().Args {
		if isP(a) && i < len(h.Params) {
			hp = h.Params[i]
		}
	}
	if hp == nil {
		return both
	}
	isHP := func(v ssa.Value) bool { return stripConv(v) == ssa.Value(hp) }
	c := m.armCut(h, k, isHP, depth+1)
	reach := entryReach(h, c)
	out := map[bool]bool{}
	var eval func(v ssa.Value, d int) map[bool]bool
	eval = func(v ssa.Value, d int) map[bool]bool {
		v = stripConv(v)
		if d > 6 {
			return both
		}
		switch x := v.(type) {
		case *ssa.Const:
			if x.Value != nil && x.Value.Kind() == constant.Bool {
				return map[bool]bool{constant.BoolVal(x.Value): true}
			}
		case *ssa.UnOp:
			if x.Op == token.NOT {
				r := map[bool]bool{}
				for b := range eval(x.X, d+1) {
					r[!b] = true
				}
				return r
			}
		case *ssa.BinOp:
			cd := cond{Op: x.Op, X: x.X, Y: x.Y}
			if o, known := armCondOutcome(cd, k, isHP); known {
				return map[bool]bool{o: true}
			}
		case *ssa.Phi:
			r := map[bool]bool{}
			for i, e := range x.Edges {
				pred := x.Block().Preds[i]
				if !reach[pred.Index] || c.edges[edge{pred.Index, x.Block().Index}] {
					continue
				}
				for b := range eval(e, d+1) {
					r[b] = true
				}
			}
			if len(r) > 0 {
				return r
			}
		}
		return both
	}
	for _, ret := range returnsOf(h) {
		if !reach[ret.Block().Index] {
			continue
		}
		for b := range eval(ret.Results[0], 0) {
			out[b] = true
		}
	}
	if len(out) == 0 {
		return both
	}
	return out
}

func (m *Model) ruleExpArm(r *Results, rule string, arms []*ssa.Function) {
	// among the arm functions' extents: the function that compares its (uint32) parameter with the
	// current deadline (itself or through a bool predicate it is handed to). The two quantities are
	// only compared with each other and with 0, so the behaviour is decided by four cases; the
	// setter must be reached exactly in the right ones.
	n := 0
	seen := map[*ssa.Function]bool{}
	for _, af := range arms {
		for fn := range m.reachableLocal(af) {
			if seen[fn] || fn.Signature.Params().Len() != 1 {
				continue
			}
			P := fn.Params[len(fn.Params)-1]
			if !types.Identical(P.Type(), types.Typ[types.Uint32]) {
				continue
			}
			isP := func(v ssa.Value) bool { return stripConv(v) == ssa.Value(P) }
			isConstV := func(v ssa.Value) bool { _, ok := stripConv(v).(*ssa.Const); return ok }
			var setCall ssa.CallInstruction
			m.eachCall(fn, func(c ssa.CallInstruction) {
				if callee := c.Common().StaticCallee(); callee != nil && m.inPkg(callee) {
					for f := range m.reachableLocal(callee) {
						m.eachCall(f, func(c2 ssa.CallInstruction) {
							if t := c2.Common().StaticCallee(); t != nil && t.Pkg != nil && t.Pkg.Pkg.Path() == "time" && (t.Name() == "AfterFunc" || t.Name() == "Reset") {
								setCall = c
							}
						})
					}
				}
			})
			compares := false
			for _, iff := range allIfs(fn) {
				cd := condOf(iff)
				if cd.Op != token.ILLEGAL && (isP(cd.X) && !isConstV(cd.Y) || isP(cd.Y) && !isConstV(cd.X)) {
					compares = true
				}
				// a predicate helper that is handed the new expiry and guards the setter
				if cd.Op == token.ILLEGAL && cd.X != nil && setCall != nil {
					if call, ok := stripConv(cd.X).(*ssa.Call); ok {
						if h := call.Common().StaticCallee(); h != nil && m.inPkg(h) && h.Signature.Results().Len() == 1 && types.Identical(h.Signature.Results().At(0).Type(), types.Typ[types.Bool]) {
							for _, a := range call.Common().Args {
								if isP(a) {
									compares = true
								}
							}
						}
					}
				}
			}
			if !compares {
				continue
			}
			seen[fn] = true
			n++
			key := "c / " + m.declName(fn) + " / re-arm condition"
			if setCall == nil {
				r.bad(rule, key, m.pos(fn.Pos()), "the arm function never (re)schedules the timer")
				continue
			}
			cases := []armCase{{true, +1, true}, {false, -1, true}, {false, 0, false}, {false, +1, false}}
			okAll := true
			detail := ""
			for _, k := range cases {
				c := m.armCut(fn, k, isP, 0)
				got := entryReach(fn, c)[setCall.Block().Index]
				if got != k.want {
					okAll = false
					detail = fmt.Sprintf("with current deadline %s and new expiry %s it, the timer is %s", map[bool]string{true: "unset (0)", false: "set"}[k.curZero], map[int]string{-1: "before", 0: "equal to", 1: "after"}[k.rel], map[bool]string{true: "re-armed", false: "not re-armed"}[got])
				}
			}
			// ... and the setter is reached only through this comparison: a caller that goes to the
			// setter directly replaces an earlier deadline (another collection's) by a later one
			if setter := setCall.Common().StaticCallee(); setter != nil && setter != fn {
				bad := m.escapesViaSet(setter, map[*ssa.Function]bool{fn: true}, true, map[*ssa.Function]bool{})
				who := ""
				if bad != nil {
					who = m.declName(bad)
				}
				r.check(bad == nil, rule, "c / "+m.declName(setter)+" / deadline set only through the earlier-only comparison", m.instrPos(setCall), "every live call chain to the function that sets the deadline passes through the comparison with the current deadline", "the deadline is set on a call chain from "+who+" that does not pass through the comparison with the current deadline: a later expiry replaces an earlier pending one (the timer is shared by all collections), and the earlier documents outlive their expiry until something else re-arms the timer")
			}
			r.check(okAll, rule, key, m.instrPos(setCall), "re-armed exactly when nothing is scheduled or the new expiry is earlier", "the timer is not re-armed exactly when (current deadline == 0) or (new expiry < current deadline): "+detail)
		}
	}
	if n == 0 {
		r.undecided(rule, "c / arm comparison", "-", "no function compares a new expiry with the current deadline")
	}
}

func (m *Model) ruleExpCallback(r *Results, rule string) {
	// the timer callback: target of time.AfterFunc
	var roots []*ssa.Function
	for _, fn := range m.Funcs {
		m.eachCall(fn, func(c ssa.CallInstruction) {
			if t := c.Common().StaticCallee(); t != nil && t.Pkg != nil && t.Pkg.Pkg.Path() == "time" && t.Name() == "AfterFunc" {
				roots = append(roots, m.funcTargets(c.Common().Args[1])...)
			}
		})
	}
	if len(roots) == 0 {
		r.undecided(rule, "d / timer callback", "-", "no time.AfterFunc callback found")
		return
	}
	// the function that does the work: reaches the expiry scan and the min-expiry query
	done := false
	for _, root := range roots {
		for fn := range m.reachHybrid(root, false) {
			if fn.Parent() != nil || fn.Synthetic != "" {
				continue
			}
			var scanCall, rearm ssa.CallInstruction
			m.eachCall(fn, func(c ssa.CallInstruction) {
				callee := c.Common().StaticCallee()
				if callee == nil || !m.inPkg(callee) {
					return
				}
				reach := m.reachableLocal(callee)
				for f := range reach {
					for _, s := range m.Sites {
						if s.Fn != f {
							continue
						}
						for _, v := range s.Variants {
							st := v.Stmt()
							if st == nil || st.Select == nil {
								continue
							}
							if len(st.Select.Cols) == 1 && isAgg(st.Select.Cols[0].Expr, "min", "exp") {
								rearm = c
							}
						}
					}
				}
				if m.reachHybrid(callee, false)[m.lookupMethod(m.A.CollectionType.Obj().Name(), "Delete")] {
					scanCall = c
				}
			})
			if scanCall == nil || rearm == nil {
				continue
			}
			done = true
			name := m.declName(fn)
			ok, ret := mustPassThrough(fn, []*ssa.BasicBlock{rearm.Block()}, nil)
			pos := m.instrPos(rearm)
			if !ok {
				pos = m.instrPos(ret)
			}
			r.check(ok && instrReachable(scanCall, rearm, nil), rule, "d / "+name+" / re-arm on exit", pos, "after expiring what is due, the callback always re-arms the timer from the database's next deadline", "the expiry callback can return without re-arming the timer from the remaining deadlines: documents due later never expire")
			// the deadline is cleared first (so that the re-arm is not suppressed by the stale one)
			cleared := false
			m.eachCall(fn, func(c ssa.CallInstruction) {
				callee := c.Common().StaticCallee()
				if callee != nil && m.inPkg(callee) && callee.Signature.Params().Len() == 0 && instrReachable(c, rearm, nil) && c != rearm && c != scanCall {
					for _, b := range callee.Blocks {
						for _, ins := range b.Instrs {
							if _, isStore := ins.(*ssa.Store); isStore {
								cleared = true
							}
						}
					}
				}
			})
			r.check(cleared, rule, "d / "+name+" / clears the fired deadline", m.pos(fn.Pos()), "the fired deadline is cleared before re-arming", "the callback does not clear the fired deadline before re-arming: the stale (past) deadline suppresses every later one")
		}
	}
	if !done {
		r.undecided(rule, "d / timer callback", "-", "cannot find the function that expires documents and re-arms")
	}
	// the re-arm from the database's minimum deadline depends only on "there is a deadline" (min > 0)
	// and on the query having succeeded - not on how the deadline compares with the current time:
	// a deadline that passed while the bucket was closed must still arm the timer
	nq := 0
	errT := types.Universe.Lookup("error").Type()
	for _, fn := range m.Funcs {
		if !m.inPkg(fn) {
			continue
		}
		m.eachCall(fn, func(qc ssa.CallInstruction) {
			callee := qc.Common().StaticCallee()
			if callee == nil || !m.inPkg(callee) {
				return
			}
			isMin := false
			for _, s := range m.Sites {
				if s.Fn != callee {
					continue
				}
				for _, v := range s.Variants {
					if st := v.Stmt(); st != nil && st.Select != nil && len(st.Select.Cols) == 1 && isAgg(st.Select.Cols[0].Expr, "min", "exp") {
						isMin = true
					}
				}
			}
			if !isMin || qc.Value() == nil {
				return
			}
			fromMin := func(v ssa.Value) bool {
				v = stripConv(v)
				if ex, ok := v.(*ssa.Extract); ok && ex.Tuple == ssa.Value(qc.Value()) {
					return true
				}
				if phi, ok := v.(*ssa.Phi); ok {
					for _, e := range phi.Edges {
						if ex, ok := stripConv(e).(*ssa.Extract); ok && ex.Tuple == ssa.Value(qc.Value()) {
							return true
						}
					}
				}
				return v == ssa.Value(qc.Value())
			}
			m.eachCall(fn, func(ac ssa.CallInstruction) {
				if ac == qc {
					return
				}
				uses := false
				for _, a := range ac.Common().Args {
					if fromMin(a) && !types.Identical(a.Type(), errT) {
						uses = true
					}
				}
				if !uses {
					return
				}
				nq++
				bad := ""
				for _, ct := range controllingConds(fn, ac.Block()) {
					cd := condOf(ct.If)
					if cd.Y == nil {
						continue
					}
					if types.Identical(cd.X.Type(), errT) || types.Identical(cd.Y.Type(), errT) {
						continue
					}
					if fromMin(cd.X) && !isZeroConst(cd.Y) || fromMin(cd.Y) && !isZeroConst(cd.X) {
						bad = m.instrPos(ct.If)
					}
				}
				r.check(bad == "", rule, "d / "+m.declName(fn)+" / re-arm from the minimum deadline", m.instrPos(ac), "the timer is armed whenever the database holds a deadline (min > 0)", "the timer is armed from the database's minimum deadline only if that deadline passes a further comparison (at "+bad+"): a deadline that is already due (e.g. it passed while the bucket was closed) never arms the timer, and the documents stay readable")
			})
		})
	}
	if nq == 0 {
		r.undecided(rule, "d / re-arm from the minimum deadline", "-", "no function arms the timer with the result of the minimum-expiry query")
	}
}

func (m *Model) ruleExpOffset(r *Results, rule string) {
	fn := m.A.AbsExpiry
	P := fn.Params[0]
	var add *ssa.BinOp
	for _, b := range fn.Blocks {
		for _, ins := range b.Instrs {
			if bo, ok := ins.(*ssa.BinOp); ok && bo.Op == token.ADD {
				add = bo
			}
		}
	}
	key := "h / " + m.declName(fn) + " / offset rule"
	if add == nil {
		r.bad(rule, key, m.pos(fn.Pos()), "the offset-to-absolute function no longer adds the current time")
		return
	}
	// The parameter is only compared with constants (directly or inside a bool predicate it is
	// handed to): the set of inputs for which control reaches the addition is a finite union of
	// intervals, computed path by path.
	const maxU = uint64(1<<32 - 1)
	got := ivSet{}
	m.ivWalk(fn, P, maxU, 0, func(b, from *ssa.BasicBlock, cur ivSet) bool {
		if b == add.Block() {
			got = got.union(cur)
			return true
		}
		return false
	})
	want := ivSet{{1, 60 * 60 * 24 * 30}}
	r.check(got.equal(want), rule, key, m.instrPos(add), "now is added exactly when 0 < exp <= 30 days (inputs reaching the addition: "+got.String()+")", "the offset-to-absolute conversion is applied for inputs "+got.String()+", not exactly for 0 < exp <= 2592000 (30 days): offsets at the boundary are stored raw, or absolute times are shifted")
}

// ivSet is a sorted set of disjoint closed integer intervals.
type ivSet [][2]uint64

func ivFor(op token.Token, c, maxU uint64) ivSet {
	switch op {
	case token.EQL:
		return ivSet{{c, c}}
	case token.NEQ:
		return ivSet{{c, c}}.complement(maxU)
	case token.LSS:
		if c == 0 {
			return ivSet{}
		}
		return ivSet{{0, c - 1}}
	case token.LEQ:
		return ivSet{{0, c}}
	case token.GTR:
		if c >= maxU {
			return ivSet{}
		}
		return ivSet{{c + 1, maxU}}
	case token.GEQ:
		return ivSet{{c, maxU}}
	}
	return ivSet{{0, maxU}}
}

func (a ivSet) complement(maxU uint64) ivSet {
	var out ivSet
	next := uint64(0)
	done := false
	for _, iv := range a {
		if iv[0] > next {
			out = append(out, [2]uint64{next, iv[0] - 1})
		}
		if iv[1] >= maxU {
			done = true
			break
		}
		next = iv[1] + 1
	}
	if !done {
		out = append(out, [2]uint64{next, maxU})
	}
	return out
}

func (a ivSet) intersect(b ivSet) ivSet {
	var out ivSet
	for _, x := range a {
		for _, y := range b {
			lo, hi := x[0], x[1]
			if y[0] > lo {
				lo = y[0]
			}
			if y[1] < hi {
				hi = y[1]
			}
			if lo <= hi {
				out = append(out, [2]uint64{lo, hi})
			}
		}
	}
	return out.norm()
}

func (a ivSet) union(b ivSet) ivSet { return append(append(ivSet{}, a...), b...).norm() }

func (a ivSet) norm() ivSet {
	if len(a) == 0 {
		return a
	}
	s := append(ivSet{}, a...)
	sort.Slice(s, func(i, j int) bool { return s[i][0] < s[j][0] })
	out := ivSet{s[0]}
	for _, iv := range s[1:] {
		last := &out[len(out)-1]
		if iv[0] <= last[1]+1 && last[1] != ^uint64(0) {
			if iv[1] > last[1] {
				last[1] = iv[1]
			}
		} else {
			out = append(out, iv)
		}
	}
	return out
}

func (a ivSet) equal(b ivSet) bool {
	a, b = a.norm(), b.norm()
	if len(a) != len(b) {
		return false
	}
	for i := range a {
		if a[i] != b[i] {
			return false
		}
	}
	return true
}

func (a ivSet) String() string {
	if len(a) == 0 {
		return "none"
	}
	var parts []string
	for _, iv := range a {
		parts = append(parts, fmt.Sprintf("[%d..%d]", iv[0], iv[1]))
	}
	return strings.Join(parts, " u ")
}

// ---------------------------------------------------------------- R-CHECKPOINT

func (m *Model) ruleCHECKPOINT(r *Results) {
	const rule = "R-CHECKPOINT"
	fn, _, cb := m.feedLoopFn()
	bs := m.backfillSites()
	if fn == nil || len(bs) != 1 {
		r.undecided(rule, "anchors", "-", "feed loop / backfill unresolved")
		return
	}
	name := m.declName(fn)
	// the delivery loop takes the CAS of EVERY event it delivers as progress, so only events that
	// describe a document may carry one: a feed event built outside the event converter (the
	// backfill markers) has no CAS field set
	{
		nLit := 0
		for _, g := range m.Funcs {
			if g == m.A.Converter || !m.inPkg(g) {
				continue
			}
			for _, b := range g.Blocks {
				for _, ins := range b.Instrs {
					al, ok := ins.(*ssa.Alloc)
					if !ok || al.Comment != "complit" {
						continue
					}
					pt, ok := al.Type().Underlying().(*types.Pointer)
					if !ok || !isNamed(pt.Elem(), sgbucketPath, "FeedEvent") {
						continue
					}
					nLit++
					var casStore *ssa.Store
					for _, ref := range *al.Referrers() {
						fa, ok := ref.(*ssa.FieldAddr)
						if !ok || fieldOf(fa).Name() != "Cas" {
							continue
						}
						for _, r2 := range *fa.Referrers() {
							if st, ok := r2.(*ssa.Store); ok && st.Addr == ssa.Value(fa) {
								if c, isC := st.Val.(*ssa.Const); isC && isZeroValueConst(c) {
									continue
								}
								casStore = st
							}
						}
					}
					pos := m.instrPos(al)
					if casStore != nil {
						pos = m.instrPos(casStore)
					}
					r.check(casStore == nil, rule, m.declName(g)+" / marker events carry no CAS", pos, "a feed event built outside the event converter has no CAS", "a feed event that does not describe a document (a backfill marker) is given a CAS: the delivery loop counts it as progress, so the checkpoint moves past mutations that were never delivered (anything that committed during the backfill, or a CAS that was drawn but not used)")
				}
			}
		}
		if nLit == 0 {
			r.undecided(rule, "marker events", "-", "no feed event literal outside the converter (the backfill markers were confirmed by hand)")
		}
	}
	// the delivered-CAS field: the uint64 field of the feed stored in the loop, directly or in a
	// helper the loop calls
	var store *ssa.Store
	var via ssa.CallInstruction // the loop's call of the helper holding the store (nil if direct)
	isMarkStore := func(ins ssa.Instruction) *ssa.Store {
		if st, ok := ins.(*ssa.Store); ok {
			if fa, ok := st.Addr.(*ssa.FieldAddr); ok {
				if bt, ok := fieldOf(fa).Type().Underlying().(*types.Basic); ok && bt.Kind() == types.Uint64 {
					return st
				}
			}
		}
		return nil
	}
	for _, b := range fn.Blocks {
		if !inCycle(b) {
			continue
		}
		for _, ins := range b.Instrs {
			if st := isMarkStore(ins); st != nil {
				store, via = st, nil
			}
			if c, ok := ins.(ssa.CallInstruction); ok && store == nil {
				if h := c.Common().StaticCallee(); h != nil && m.inPkg(h) {
					for _, hb := range h.Blocks {
						for _, hi := range hb.Instrs {
							if st := isMarkStore(hi); st != nil {
								store, via = st, c
							}
						}
					}
				}
			}
		}
	}
	if store == nil {
		r.bad(rule, name+" / delivered CAS", m.pos(fn.Pos()), "the feed loop no longer records the CAS it delivered")
		return
	}
	casField := fieldOf(store.Addr.(*ssa.FieldAddr))
	// isEvCas: the value is the Cas of the event just pulled (through the helper's parameter if any)
	var isEvCas func(v ssa.Value) bool
	isEvCas = func(v ssa.Value) bool {
		v = stripConv(v)
		if p, ok := v.(*ssa.Parameter); ok && via != nil && p.Parent() == via.Common().StaticCallee() {
			for i, q := range p.Parent().Params {
				if q == p && i < len(via.Common().Args) {
					return isEvCas(via.Common().Args[i])
				}
			}
			return false
		}
		base, vf, ok := fieldLoad(v)
		if ok && vf.Name() == "Cas" {
			if p, isP := stripConv(base).(*ssa.Parameter); isP && via != nil && p.Parent() == via.Common().StaticCallee() {
				// the helper is handed the event itself
				for i, q := range p.Parent().Params {
					if q == p && i < len(via.Common().Args) {
						return m.pulledValue(via.Common().Args[i])
					}
				}
			}
		}
		return ok && vf.Name() == "Cas" && m.pulledValue(base)
	}
	var anchor ssa.Instruction = store
	if via != nil {
		anchor = via
	}
	// value = Cas of the pulled event
	r.check(isEvCas(store.Val), rule, name+" / delivered CAS is the event's", m.instrPos(store), "the delivered-CAS mark is taken from the event just pulled", "the delivered-CAS mark is not the CAS of the event that was just delivered")
	// after the callback
	afterCb := instrReachable(cb, anchor, nil) && (cb.Block() == anchor.Block() || cb.Block().Dominates(anchor.Block()))
	if via != nil && via == cb {
		// callback and mark sit in the same delivery helper: order them there
		inner := m.innerCallback(via.Common().StaticCallee())
		afterCb = inner != nil && instrReachable(inner, store, nil) && (inner.Block() == store.Block() && indexIn(inner.Block(), inner) < indexIn(store.Block(), store) || inner.Block() != store.Block() && inner.Block().Dominates(store.Block()))
	}
	r.check(afterCb, rule, name+" / mark after delivery", m.instrPos(store), "the mark advances only after the callback has run for that event", "the mark can advance before the event has been handed to the callback: a stop in between persists a checkpoint beyond what was delivered")
	// only upwards
	up := false
	conds := controllingConds(store.Parent(), store.Block())
	if via != nil {
		conds = append(conds, controllingConds(fn, via.Block())...)
	}
	for _, ct := range conds {
		cd := condOf(ct.If)
		taken := ct.Branch
		if cd.Neg {
			taken = !taken
		}
		isMark := func(v ssa.Value) bool {
			_, f, ok := fieldLoad(v)
			return ok && f == casField
		}
		// normalise to: event.Cas OP mark
		op := cd.Op
		if isEvCas(cd.Y) && isMark(cd.X) {
			op = map[token.Token]token.Token{token.LSS: token.GTR, token.GTR: token.LSS, token.LEQ: token.GEQ, token.GEQ: token.LEQ}[op]
		} else if !(isEvCas(cd.X) && isMark(cd.Y)) {
			continue
		}
		if op == token.GTR && taken || op == token.LEQ && !taken {
			up = true
		}
	}
	r.check(up, rule, name+" / mark only moves up", m.instrPos(store), "the mark is replaced only by a larger CAS", "the mark can be replaced by a smaller or equal CAS")
	// every other writer of the mark: only the restore from the checkpoint document; the helper that
	// holds the loop's store is called from nowhere else
	for _, f := range m.Funcs {
		for _, b := range f.Blocks {
			for _, ins := range b.Instrs {
				st, ok := ins.(*ssa.Store)
				if !ok || st == store {
					continue
				}
				fa, ok := st.Addr.(*ssa.FieldAddr)
				if !ok || fieldOf(fa) != casField {
					continue
				}
				_, vf, isLoad := fieldLoad(st.Val)
				fromDoc := isLoad && vf.Name() == "LastSeq"
				r.check(fromDoc, rule, m.declName(f)+" / other writer of the delivered-CAS mark", m.instrPos(st), "the mark is otherwise only restored from the checkpoint document", "the delivered-CAS mark is also written here, with a value that is not the CAS of an event handed to the callback: the persisted checkpoint can exceed what was delivered")
			}
		}
	}
	if via != nil {
		h := via.Common().StaticCallee()
		for _, c := range m.staticCallersOf(h) {
			if c == via {
				continue
			}
			r.bad(rule, m.declName(c.Parent())+" / other caller of the mark helper", m.instrPos(c), "the helper that advances the delivered-CAS mark is also called here, outside the delivery loop: the persisted checkpoint can exceed what was delivered")
		}
	}
	// the checkpoint document lives in the feed's own collection: each per-collection feed of a
	// bucket-wide start has the same ID and prefix, so any shared store would make them overwrite
	// each other's position
	{
		nck := 0
		for _, f := range m.Funcs {
			if !m.inPkg(f) {
				continue
			}
			m.eachCall(f, func(c ssa.CallInstruction) {
				cc := c.Common()
				// a call that is handed the checkpoint document (the struct with a LastSeq field), by value or by address
				handsDoc := false
				for _, a := range cc.Args {
					v := a
					if mi, ok := v.(*ssa.MakeInterface); ok {
						v = mi.X
					}
					t := v.Type()
					if pt, ok := t.(*types.Pointer); ok {
						t = pt.Elem()
					}
					if st, ok := t.Underlying().(*types.Struct); ok && t != types.Type(nil) {
						if n, ok := t.(*types.Named); ok && n.Obj().Pkg() == m.SSA.Pkg {
							for i := 0; i < st.NumFields(); i++ {
								if st.Field(i).Name() == "LastSeq" {
									handsDoc = true
								}
							}
						}
					}
				}
				if !handsDoc {
					return
				}
				var recv ssa.Value
				if cc.IsInvoke() {
					recv = cc.Value
				} else if callee := cc.StaticCallee(); callee != nil && callee.Signature.Recv() != nil && len(cc.Args) > 0 {
					recv = cc.Args[0]
				} else {
					return
				}
				nck++
				okStore := m.onlyFeedCollection(recv, 0)
				r.check(okStore, rule, m.declName(f)+" / checkpoint kept in the feed's own collection", m.instrPos(c), "the checkpoint document is read/written through the feed's own collection", "the checkpoint document is read or written through a data store other than the feed's own collection: the per-collection feeds of one bucket-wide feed share ID and prefix, so they would overwrite each other's position and a feed can resume beyond what it delivered")
			})
		}
		if nck < 2 {
			r.undecided(rule, "checkpoint document access", "-", "expected a read and a write of the checkpoint document, found %d", nck)
		}
	}
	// the persisted value is that field; resume = field + 1
	var persisted, resumed bool
	for _, f := range m.Funcs {
		for _, b := range f.Blocks {
			for _, ins := range b.Instrs {
				if st, ok := ins.(*ssa.Store); ok {
					if fa, ok := st.Addr.(*ssa.FieldAddr); ok && fieldOf(fa).Name() == "LastSeq" {
						if _, vf, ok := fieldLoad(st.Val); ok && vf == casField {
							persisted = true
						}
					}
				}
				if c2, ok := ins.(ssa.CallInstruction); ok && c2.Common().StaticCallee() == bs[0].Fn {
					// (mark + 1) flows to the backfill call's start argument, possibly through a helper's result
					for _, arg := range c2.Common().Args {
						if m.isMarkPlusOne(arg, casField, 0) {
							resumed = true
							// nothing else the feed object holds flows into the start position: a start
							// above mark + 1 skips mutations no run has delivered
							if other := m.otherFeedFieldInto(arg, casField, 0, map[ssa.Value]bool{}); other != nil {
								r.bad(rule, m.declName(f)+" / start position only from the mark", m.instrPos(c2), "the start position of a resumed backfill is also taken from the feed's field %s, not only from (persisted mark + 1): mutations between the mark and that value are never delivered by any run", other.Name())
							} else {
								r.ok(rule, m.declName(f)+" / start position only from the mark", m.instrPos(c2), "no other field of the feed object flows into the start position")
							}
						}
					}
				}
			}
		}
	}
	// the saved position replaces the caller's start value only when the caller asked to resume:
	// wherever (mark + 1) is computed, that is reachable only over the edge "Backfill == FeedResume"
	// (a checkpoint prefix alone says where to SAVE the position, not where to start)
	if resumeC := m.sgConst("FeedResume"); resumeC != nil {
		for _, f := range m.Funcs {
			for _, b := range f.Blocks {
				for _, ins := range b.Instrs {
					bo, ok := ins.(*ssa.BinOp)
					if !ok || !m.isMarkPlusOne(bo, casField, 0) {
						continue
					}
					c := newCut()
					for _, d := range m.decisions(f, topFrame(f)) {
						cd := d.C
						if cd.Op != token.EQL && cd.Op != token.NEQ {
							continue
						}
						var other ssa.Value
						if k, isC := stripConv(cd.Y).(*ssa.Const); isC && k.Value != nil && constant.Compare(constant.ToInt(k.Value), token.EQL, constant.ToInt(resumeC)) {
							other = cd.X
						} else if k, isC := stripConv(cd.X).(*ssa.Const); isC && k.Value != nil && constant.Compare(constant.ToInt(k.Value), token.EQL, constant.ToInt(resumeC)) {
							other = cd.Y
						}
						if other == nil {
							continue
						}
						if _, vf, isF := fieldLoad(other); !isF || vf.Name() != "Backfill" {
							continue
						}
						d.cutEqual(c)
					}
					r.check(len(c.edges)+len(c.triples) > 0 && !entryReach(f, c)[bo.Block().Index], rule, m.declName(f)+" / saved position used only to resume", m.instrPos(bo), "(mark + 1) is computed only where Backfill == FeedResume", "the saved checkpoint position replaces the start value although the caller did not ask to resume (the test is on something else, e.g. the checkpoint prefix): a feed asked to backfill from an explicit CAS skips every document at or below the position an earlier run saved")
				}
			}
		}
	}
	r.check(persisted, rule, "checkpoint document stores the mark", "-", "the checkpoint document stores the delivered-CAS mark", "the checkpoint document does not store the delivered-CAS mark")
	r.check(resumed, rule, "resume from mark + 1", "-", "a resumed feed backfills from (persisted mark + 1), with an inclusive lower bound (R-BACKFILL)", "a resumed feed does not start its backfill at (persisted mark + 1)")
	// on loop exit the checkpoint writer is reached whenever the changed flag is set
	var writer ssa.CallInstruction
	root, _ := m.feedRoot()
	if root == nil {
		root = fn
	}
	name = m.declName(root)
	m.eachCall(root, func(c ssa.CallInstruction) {
		if callee := c.Common().StaticCallee(); callee != nil && m.inPkg(callee) && !inCycle(c.Block()) {
			for g := range m.reachableLocal(callee) {
				for _, b := range g.Blocks {
					for _, ins := range b.Instrs {
						if st, ok := ins.(*ssa.Store); ok {
							if fa, ok := st.Addr.(*ssa.FieldAddr); ok && fieldOf(fa).Name() == "LastSeq" {
								writer = c
							}
						}
					}
				}
			}
		}
	})
	if writer == nil {
		r.bad(rule, name+" / checkpoint written on exit", m.pos(root.Pos()), "the feed loop never writes its checkpoint when it stops")
	} else {
		conds := 0
		for _, ct := range controllingConds(root, writer.Block()) {
			if !inCycle(ct.If.Block()) {
				conds++
			}
		}
		r.check(conds <= 1, rule, name+" / checkpoint written on exit", m.instrPos(writer), "when the loop ends the checkpoint is written (if the mark changed)", "the checkpoint write after the loop depends on additional conditions")
	}
	_ = sort.Strings
}

// onlyFeedCollection: the value is (on every path) the collection field of a feed object.
func (m *Model) onlyFeedCollection(v ssa.Value, depth int) bool {
	if depth > 5 || m.A.CollectionType == nil {
		return false
	}
	v = stripConv(v)
	switch x := v.(type) {
	case *ssa.MakeInterface:
		return m.onlyFeedCollection(x.X, depth+1)
	case *ssa.Phi:
		for _, e := range x.Edges {
			if !m.onlyFeedCollection(e, depth+1) {
				return false
			}
		}
		return len(x.Edges) > 0
	case *ssa.Call:
		callee := x.Common().StaticCallee()
		if callee == nil || !m.inPkg(callee) || len(callee.Blocks) == 0 {
			return false
		}
		for _, ret := range returnsOf(callee) {
			if len(ret.Results) == 0 || !m.onlyFeedCollection(ret.Results[0], depth+1) {
				return false
			}
		}
		return true
	case *ssa.UnOp:
		if _, f, ok := fieldLoad(x); ok {
			if pt, ok := f.Type().(*types.Pointer); ok && pt.Elem() == types.Type(m.A.CollectionType) {
				return true
			}
		}
	}
	return false
}

// isMarkPlusOne: the value can be (delivered-CAS mark + 1), directly, through a phi, or as the
// result of a package helper that returns it.
func (m *Model) isMarkPlusOne(v ssa.Value, casField *types.Var, depth int) bool {
	if depth > 4 {
		return false
	}
	v = stripConv(v)
	switch x := v.(type) {
	case *ssa.BinOp:
		if x.Op == token.ADD {
			if _, vf, ok := fieldLoad(x.X); ok && vf == casField {
				if c, ok := x.Y.(*ssa.Const); ok && c.Value != nil && c.Uint64() == 1 {
					return true
				}
			}
		}
	case *ssa.Phi:
		for _, e := range x.Edges {
			if m.isMarkPlusOne(e, casField, depth+1) {
				return true
			}
		}
	case *ssa.Extract:
		if call, ok := x.Tuple.(*ssa.Call); ok {
			return m.resultIsMarkPlusOne(call, x.Index, casField, depth)
		}
	case *ssa.Call:
		return m.resultIsMarkPlusOne(x, 0, casField, depth)
	case *ssa.UnOp:
		if x.Op == token.MUL {
			if al, ok := x.X.(*ssa.Alloc); ok {
				for _, ref := range *al.Referrers() {
					if st, ok := ref.(*ssa.Store); ok && st.Addr == ssa.Value(al) && m.isMarkPlusOne(st.Val, casField, depth+1) {
						return true
					}
				}
			}
		}
	}
	return false
}

// otherFeedFieldInto: a field of the struct that owns the delivered-CAS mark, other than the mark,
// among the sources (through phis, cells, +/- constants and package helpers' results) of v.
func (m *Model) otherFeedFieldInto(v ssa.Value, casField *types.Var, depth int, seen map[ssa.Value]bool) *types.Var {
	if depth > 6 || v == nil {
		return nil
	}
	v = stripConv(v)
	if seen[v] {
		return nil
	}
	seen[v] = true
	owns := func(t types.Type) bool {
		if p, ok := t.Underlying().(*types.Pointer); ok {
			t = p.Elem()
		}
		st, ok := t.Underlying().(*types.Struct)
		if !ok {
			return false
		}
		for i := 0; i < st.NumFields(); i++ {
			if st.Field(i) == casField {
				return true
			}
		}
		return false
	}
	switch x := v.(type) {
	case *ssa.Phi:
		for _, e := range x.Edges {
			if f := m.otherFeedFieldInto(e, casField, depth+1, seen); f != nil {
				return f
			}
		}
	case *ssa.BinOp:
		if x.Op == token.ADD || x.Op == token.SUB {
			if _, isC := x.Y.(*ssa.Const); isC {
				return m.otherFeedFieldInto(x.X, casField, depth+1, seen)
			}
		}
	case *ssa.Field:
		if f := fieldOfField(x); f != casField && owns(x.X.Type()) {
			return f
		}
	case *ssa.UnOp:
		if x.Op != token.MUL {
			return nil
		}
		if fa, ok := x.X.(*ssa.FieldAddr); ok {
			if f := fieldOf(fa); f != casField && owns(fa.X.Type()) {
				return f
			}
			return nil
		}
		if al, ok := x.X.(*ssa.Alloc); ok {
			for _, ref := range *al.Referrers() {
				if st, ok := ref.(*ssa.Store); ok && st.Addr == ssa.Value(al) {
					if f := m.otherFeedFieldInto(st.Val, casField, depth+1, seen); f != nil {
						return f
					}
				}
			}
		}
	case *ssa.Extract:
		if call, ok := x.Tuple.(*ssa.Call); ok {
			if callee := call.Common().StaticCallee(); callee != nil && m.inPkg(callee) {
				for _, ret := range returnsOf(callee) {
					if x.Index < len(ret.Results) {
						if f := m.otherFeedFieldInto(ret.Results[x.Index], casField, depth+1, seen); f != nil {
							return f
						}
					}
				}
			}
		}
	case *ssa.Call:
		if callee := x.Common().StaticCallee(); callee != nil && m.inPkg(callee) {
			for _, ret := range returnsOf(callee) {
				if len(ret.Results) > 0 {
					if f := m.otherFeedFieldInto(ret.Results[0], casField, depth+1, seen); f != nil {
						return f
					}
				}
			}
		}
	}
	return nil
}

func (m *Model) resultIsMarkPlusOne(call *ssa.Call, idx int, casField *types.Var, depth int) bool {
	callee := call.Common().StaticCallee()
	if callee == nil || !m.inPkg(callee) {
		return false
	}
	for _, ret := range returnsOf(callee) {
		if idx < len(ret.Results) && m.isMarkPlusOne(ret.Results[idx], casField, depth+1) {
			return true
		}
	}
	return false
}

// ivWalk explores fn path by path, tracking the set of values of parameter P for which each
// block is entered (P is only ever compared with constants, or handed to a bool predicate for
// which the same holds). visit is called on entering a block and may stop the path there.
func (m *Model) ivWalk(fn *ssa.Function, P *ssa.Parameter, maxU uint64, depth int, visit func(b, from *ssa.BasicBlock, cur ivSet) bool) {
	var walk func(b, from *ssa.BasicBlock, cur ivSet, seen map[int]bool)
	walk = func(b, from *ssa.BasicBlock, cur ivSet, seen map[int]bool) {
		if len(cur) == 0 || seen[b.Index] {
			return
		}
		if visit(b, from, cur) {
			return
		}
		seen[b.Index] = true
		defer delete(seen, b.Index)
		if len(b.Instrs) == 0 {
			return
		}
		iff, ok := b.Instrs[len(b.Instrs)-1].(*ssa.If)
		if !ok {
			for _, s := range b.Succs {
				walk(s, b, cur, seen)
			}
			return
		}
		cd := condOf(iff)
		// a condition kept in a variable: the value depends on the predecessor we came from
		if phi, _ := phiIf(b); phi != nil && from != nil {
			for i, p := range b.Preds {
				if p != from {
					continue
				}
				if forced, ok := constBoolOutcome(b, i); ok {
					walk(forced, b, cur, seen)
					return
				}
				neg := false
				v := iff.Cond
				for {
					if u, ok := v.(*ssa.UnOp); ok && u.Op == token.NOT {
						neg = !neg
						v = u.X
						continue
					}
					break
				}
				cd = condOfValue(phi.Edges[i], iff)
				if neg {
					cd.Neg = !cd.Neg
				}
			}
		}
		holds, okCmp := m.ivHolds(cd, P, maxU, depth)
		if !okCmp {
			for _, s := range b.Succs {
				walk(s, b, cur, seen)
			}
			return
		}
		walk(cd.succWhen(true), b, cur.intersect(holds), seen)
		walk(cd.succWhen(false), b, cur.intersect(holds.complement(maxU)), seen)
	}
	walk(fn.Blocks[0], nil, ivSet{{0, maxU}}, map[int]bool{})
}

// ivHolds: the set of values of P for which the (un-negated) condition is true.
func (m *Model) ivHolds(cd cond, P *ssa.Parameter, maxU uint64, depth int) (ivSet, bool) {
	if cd.Op == token.ILLEGAL {
		// a bool predicate of the package that is handed P
		if cd.X == nil || depth >= 2 {
			return nil, false
		}
		call, ok := stripConv(cd.X).(*ssa.Call)
		if !ok {
			return nil, false
		}
		h := call.Common().StaticCallee()
		if h == nil || !m.inPkg(h) || len(h.Blocks) == 0 || h.Signature.Results().Len() != 1 {
			return nil, false
		}
		var hp *ssa.Parameter
		for i, a := range call.Common().Args {
			if stripConv(a) == ssa.Value(P) && i < len(h.Params) {
				hp = h.Params[i]
			}
		}
		if hp == nil {
			return nil, false
		}
		truth := ivSet{}
		decided := true
		m.ivWalk(h, hp, maxU, depth+1, func(b, from *ssa.BasicBlock, cur ivSet) bool {
			if len(b.Instrs) == 0 {
				return false
			}
			ret, ok := b.Instrs[len(b.Instrs)-1].(*ssa.Return)
			if !ok {
				return false
			}
			v := stripConv(ret.Results[0])
			if phi, ok := v.(*ssa.Phi); ok && phi.Block() == b && from != nil {
				for i, p := range b.Preds {
					if p == from {
						v = stripConv(phi.Edges[i])
					}
				}
			}
			switch x := v.(type) {
			case *ssa.Const:
				if x.Value != nil && constant.BoolVal(x.Value) {
					truth = truth.union(cur)
				}
			case *ssa.BinOp:
				if hs, ok := m.ivHolds(cond{Op: x.Op, X: x.X, Y: x.Y}, hp, maxU, depth+1); ok {
					truth = truth.union(cur.intersect(hs))
				} else {
					decided = false
				}
			default:
				decided = false
			}
			return true
		})
		return truth, decided
	}
	var cst uint64
	var op token.Token
	okCmp := false
	if c, ok := stripConv(cd.Y).(*ssa.Const); ok && c.Value != nil && cd.X != nil && stripConv(cd.X) == ssa.Value(P) {
		cst, op, okCmp = c.Uint64(), cd.Op, true
	} else if c, ok := stripConv(cd.X).(*ssa.Const); ok && c.Value != nil && cd.Y != nil && stripConv(cd.Y) == ssa.Value(P) {
		cst, okCmp = c.Uint64(), true
		op = map[token.Token]token.Token{token.LSS: token.GTR, token.GTR: token.LSS, token.LEQ: token.GEQ, token.GEQ: token.LEQ, token.EQL: token.EQL, token.NEQ: token.NEQ}[cd.Op]
	}
	if !okCmp || op == token.ILLEGAL {
		return nil, false
	}
	return ivFor(op, cst, maxU), true
}

// errorBeyondScan: the position at which a read helper makes an error of its own (not the scan's,
// nor a translation of it), "" if its error result is only ever nil or derived from the scan.
func (m *Model) errorBeyondScan(h *ssa.Function) string {
	res := h.Signature.Results()
	if res.Len() == 0 || !isErrorType(res.At(res.Len()-1).Type()) {
		return ""
	}
	idx := res.Len() - 1
	bad := ""
	seen := map[ssa.Value]bool{}
	var walk func(v ssa.Value, d int)
	walk = func(v ssa.Value, d int) {
		if v == nil || seen[v] || d > 6 {
			return
		}
		seen[v] = true
		switch x := v.(type) {
		case *ssa.Phi:
			for _, e := range x.Edges {
				walk(e, d+1)
			}
		case *ssa.UnOp:
			if al, ok := x.X.(*ssa.Alloc); ok && x.Op == token.MUL && al.Referrers() != nil {
				for _, ref := range *al.Referrers() {
					if st, ok := ref.(*ssa.Store); ok && st.Addr == ssa.Value(al) {
						walk(st.Val, d+1)
					}
				}
			}
		case *ssa.MakeInterface:
			if _, isConst := x.X.(*ssa.Const); !isConst {
				bad = m.instrPos(x)
			}
		case *ssa.Call:
			// a translation of an error keeps its origin
			for _, a := range x.Common().Args {
				if isErrorType(a.Type()) {
					walk(a, d+1)
				}
			}
		}
	}
	for _, ret := range returnsOf(h) {
		if idx < len(ret.Results) {
			walk(ret.Results[idx], 0)
		}
	}
	return bad
}

func isErrorType(t types.Type) bool {
	// (not types.Identical: go/ssa's internal opaque types - range iterators, the defer stack -
	// make it panic)
	n, ok := t.(*types.Named)
	return ok && n.Obj().Pkg() == nil && n.Obj().Name() == "error"
}

// revHelperOK: when the revision number is read through a helper that also fails for a row that
// exists (it makes an error of its own: a tombstone is reported as "missing"), the write must not
// be reachable on the helper's failure - there the count would restart from zero although the
// row has a revision number.
func (m *Model) revHelperOK(t *Term, wu *writeUnit) (bool, string) {
	wcall := wu.Point
	if wcall == nil || wcall.Parent() == nil {
		return true, ""
	}
	fn := wcall.Parent()
	helpers := map[*ssa.Function]string{}
	var leaves func(x *Term, d int)
	leaves = func(x *Term, d int) {
		if x == nil || d > 6 {
			return
		}
		if x.Kind == "scan" && x.Site != nil && x.Site.Fn != nil && x.Site.Fn.Parent() == nil && x.Site.Fn != fn {
			if pos := m.errorBeyondScan(x.Site.Fn); pos != "" {
				helpers[x.Site.Fn] = pos
			}
		}
		for _, a := range x.Args {
			leaves(a, d+1)
		}
	}
	leaves(t, 0)
	if len(helpers) == 0 {
		return true, ""
	}
	c := newCut()
	for _, iff := range allIfs(fn) {
		cd := condOf(iff)
		eq, ok := cd.equalEdge()
		if !ok || !(isNilConst(cd.X) || isNilConst(cd.Y)) {
			continue
		}
		other := cd.X
		if isNilConst(cd.X) {
			other = cd.Y
		}
		if isErrorType(other.Type()) {
			c.cutEdge(iff.Block(), eq)
		}
	}
	bad, why := false, ""
	m.eachCall(fn, func(cl ssa.CallInstruction) {
		h := cl.Common().StaticCallee()
		pos, isHelper := helpers[h]
		if !isHelper || bad || ssa.Instruction(cl) == wcall {
			return // (the write sits inside that function itself: not a read helper of this closure)
		}
		if cl.Block() == wcall.Block() || reachableFromSuccs(cl.Block(), c)[wcall.Block().Index] {
			bad = true
			why = "the statement is reached when the read helper " + m.declName(h) + " fails, and that helper also fails for a row that exists (error made at " + pos + "): the count then restarts from zero and the row's revision number is lost"
		}
	})
	return !bad, why
}
