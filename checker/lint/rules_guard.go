package lint

import (
	"fmt"
	"go/constant"
	"go/token"
	"go/types"
	"os"
	"sort"
	"strings"

	"golang.org/x/tools/go/ssa"

	"rosmarlint/sqlp"
)

// ---------------------------------------------------------------- R-COMMIT

func (m *Model) ruleCOMMIT(r *Results) {
	const rule = "R-COMMIT"
	a := &m.A
	fn := a.TxnCore
	if fn == nil {
		r.undecided(rule, "txn runner", "-", "anchor unresolved: %s", a.Problems["TxnRunner"])
		return
	}
	name := m.roleOf(a.TxnRunner)
	var begin, commit, rollback, cb, lock, deferUnlock ssa.CallInstruction
	explicitUnlock := false
	m.eachCall(fn, func(c ssa.CallInstruction) {
		cc := c.Common()
		switch {
		case isMethodCall(cc, "database/sql", "DB", "Begin") || isMethodCall(cc, "database/sql", "DB", "BeginTx"):
			begin = c
		case isMethodCall(cc, "database/sql", "Tx", "Commit"):
			commit = c
		case isMethodCall(cc, "database/sql", "Tx", "Rollback"):
			rollback = c
		case isMethodCall(cc, "sync", "Mutex", "Lock"):
			if f, ok := mutexField(cc.Args[0]); ok && f == a.BucketMutex {
				lock = c
			}
		case isMethodCall(cc, "sync", "Mutex", "Unlock"):
			if f, ok := mutexField(cc.Args[0]); ok && f == a.BucketMutex {
				if _, isDefer := c.(*ssa.Defer); isDefer {
					deferUnlock = c
				} else {
					explicitUnlock = true
				}
			}
		case cc.StaticCallee() == nil && !cc.IsInvoke():
			if p, ok := stripConv(cc.Value).(*ssa.Parameter); ok && p.Parent() == fn {
				cb = c
			}
		}
	})
	if begin == nil || commit == nil || rollback == nil || cb == nil {
		r.bad(rule, name+" / shape", m.pos(fn.Pos()), "the transaction runner must Begin, call its callback, Commit and Rollback; missing: begin=%v commit=%v rollback=%v callback=%v", begin != nil, commit != nil, rollback != nil, cb != nil)
		return
	}
	dom := func(x, y ssa.Instruction) bool {
		if x.Block() == y.Block() {
			return indexIn(x.Block(), x) < indexIn(y.Block(), y)
		}
		return x.Block().Dominates(y.Block())
	}
	// (1) mutex held across Begin..Commit/Rollback (decided by the lockset engine, so that lock helpers are understood)
	spans := true
	{
		holds := func(in ssa.Instruction) bool {
			for l := range m.heldAt(in) { // includes what the runner's callers on the chain hold
				if l.Field == a.BucketMutex {
					return true
				}
			}
			return false
		}
		for _, in := range []ssa.Instruction{begin, cb, commit, rollback} {
			if !holds(in) {
				spans = false
			}
		}
		for _, cf := range a.TxnChain {
			if fl := m.locks().fns[cf]; fl != nil {
				for _, op := range fl.ops {
					if !op.Acquire && !op.Deferred && op.Lock.Field == a.BucketMutex {
						spans = false // an early, non-deferred unlock
					}
				}
			}
		}
	}
	_, _, _ = lock, deferUnlock, explicitUnlock
	_ = dom
	r.check(spans, rule, name+" / mutex spans the transaction", m.instrPos(begin),
		"bucket mutex locked before Begin and released only by a deferred Unlock", "the bucket mutex is not held from before Begin until after Commit/Rollback (lock, deferred unlock, no early unlock): transactions of different handles could interleave")
	// (2) closed flag tested before Begin (in the function itself or further out on the runner chain)
	{
		var guarded func(f *ssa.Function, at ssa.Instruction, depth int) bool
		guarded = func(f *ssa.Function, at ssa.Instruction, depth int) bool {
			c := newCut()
			found := false
			for _, iff := range allIfs(f) {
				cd := condOf(iff)
				if _, fl, ok := fieldLoad(cd.X); ok && fl == a.ClosedField && cd.Op == token.ILLEGAL {
					c.cutEdge(iff.Block(), cd.succWhen(false))
					found = true
				}
			}
			if found && !entryReach(f, c)[at.Block().Index] {
				return true
			}
			if depth > 4 || !m.onTxnChain(f) || f == a.TxnRunner {
				return false
			}
			callers := m.staticCallersOf(f)
			if len(callers) == 0 {
				return false
			}
			for _, cs := range callers {
				if !guarded(cs.Parent(), cs, depth+1) {
					return false
				}
			}
			return true
		}
		found := true
		c := newCut()
		ok2 := guarded(fn, begin, 0)
		_ = c
		r.check(found && ok2, rule, name+" / closed handle refused", m.instrPos(begin), "Begin is reachable only when the handle is not closed", "a closed handle can still begin a transaction")
	}
	// (3) Commit only when the callback returned nil
	cbErr := cb.Value()
	{
		c := newCut()
		found := false
		for _, iff := range allIfs(fn) {
			cd := condOf(iff)
			eq, ok := cd.equalEdge()
			if !ok {
				continue
			}
			if (isNilConst(cd.Y) && stripConv(cd.X) == ssa.Value(cbErr)) || (isNilConst(cd.X) && stripConv(cd.Y) == ssa.Value(cbErr)) {
				c.cutEdge(iff.Block(), eq)
				found = true
			}
		}
		// only consider paths that start at the callback
		reach := reachableFrom(cb.Block(), c)
		r.check(found && !reach[commit.Block().Index], rule, name+" / commit only on success", m.instrPos(commit), "Commit is reachable from the callback only through the edge where its error is nil", "Commit can be reached although the callback reported an error: a failed operation's partial writes would be made durable")
	}
	// (4)+(6) after the callback, every path to a return or to the retry back-edge passes Commit-success or Rollback
	{
		c := newCut()
		c.cutBlock(rollback.Block())
		// success edge: the If testing phi(cbErr, commitErr) == nil
		found := false
		for _, iff := range allIfs(fn) {
			cd := condOf(iff)
			eq, ok := cd.equalEdge()
			if !ok || !(isNilConst(cd.Y) || isNilConst(cd.X)) {
				continue
			}
			other := cd.X
			if isNilConst(cd.X) {
				other = cd.Y
			}
			if phi, ok := stripConv(other).(*ssa.Phi); ok {
				for _, e := range phi.Edges {
					if stripConv(e) == ssa.Value(commit.Value()) {
						c.cutEdge(iff.Block(), eq)
						found = true
					}
				}
			}
		}
		// start after the callback: successors of the callback's block
		leak := false
		var where ssa.Instruction
		start := cb.Block()
		reach := reachableFrom(start, c)
		// remove trivially the path through commit success (handled by the cut) - check returns and back edges
		for _, ret := range returnsOf(fn) {
			if reach[ret.Block().Index] {
				leak, where = true, ret
			}
		}
		if reach[begin.Block().Index] && start != begin.Block() {
			leak, where = true, begin
		} else if start == begin.Block() {
			// callback and Begin share a block only if there is no error check between them
			for _, s := range start.Succs {
				_ = s
			}
		}
		if !found {
			r.bad(rule, name+" / rollback on failure", m.instrPos(rollback), "cannot find the test of the commit/callback error that separates success from rollback")
		} else if leak {
			r.bad(rule, name+" / rollback on failure", m.instrPos(where), "after the callback there is a path to a return (or to the retry) that neither commits successfully nor rolls back: a failed operation can leave the transaction open or retry on top of it")
		} else {
			r.ok(rule, name+" / rollback on failure", m.instrPos(rollback), "every failing path (callback error or commit error) passes Rollback before returning or retrying")
		}
	}
	// (5) the commit error, and the error of a failed Begin, reach the function result
	var beginErr ssa.Value
	if bv := begin.Value(); bv != nil && bv.Referrers() != nil {
		for _, ref := range *bv.Referrers() {
			if ex, ok := ref.(*ssa.Extract); ok && types.Identical(ex.Type(), types.Universe.Lookup("error").Type()) {
				beginErr = ex
			}
		}
	}
	for _, target := range []struct {
		v    ssa.Value
		what string
		at   ssa.Instruction
	}{{commit.Value(), "commit", commit}, {beginErr, "begin", begin}} {
		if target.v == nil {
			r.bad(rule, name+" / "+target.what+" error reported", m.instrPos(target.at), "the error result of %s is not even taken", target.what)
			continue
		}
		okFlow := false
		var visit func(v ssa.Value, depth int) bool
		seen := map[ssa.Value]bool{}
		visit = func(v ssa.Value, depth int) bool {
			if depth > 8 || seen[v] {
				return false
			}
			seen[v] = true
			v = stripConv(v)
			if v == target.v {
				return true
			}
			switch x := v.(type) {
			case *ssa.Phi:
				for _, e := range x.Edges {
					if visit(e, depth+1) {
						return true
					}
				}
			case *ssa.Call:
				if f := x.Common().StaticCallee(); f != nil && m.inPkg(f) {
					for _, arg := range x.Common().Args {
						if visit(arg, depth+1) {
							return true
						}
					}
				}
			case *ssa.UnOp:
				if al, ok := x.X.(*ssa.Alloc); ok {
					for _, ref := range *al.Referrers() {
						if st, ok := ref.(*ssa.Store); ok && st.Addr == al && visit(st.Val, depth+1) {
							return true
						}
					}
				}
			}
			return false
		}
		for _, ret := range returnsOf(fn) {
			for _, res := range ret.Results {
				if visit(res, 0) {
					okFlow = true
				}
			}
		}
		if target.what == "commit" {
			r.check(okFlow, rule, name+" / commit error reported", m.instrPos(commit), "the error of Commit flows to the runner's result", "the result of Commit is discarded: a write whose commit failed is acknowledged as successful")
		} else {
			r.check(okFlow, rule, name+" / begin error reported", m.instrPos(begin), "the error of a failed Begin flows to the runner's result", "the error of Begin never reaches the runner's result: when the transaction cannot be started (database locked past the busy timeout, I/O error) the write is not performed but acknowledged as successful")
		}
	}
}

// ---------------------------------------------------------------- R-CAS

// casEntryPoints: exported methods of the collection type that take an expected CAS.
// The expected CAS is the first uint64 parameter (positions are fixed by the sgbucket
// interfaces these methods implement).
var casEntryNames = []string{"WriteCas", "Remove", "WriteWithXattrs", "WriteTombstoneWithXattrs", "UpdateXattrs", "RemoveXattrs", "UpdateXattrDeleteBody", "SetWithMeta", "DeleteWithMeta"}

func firstUint64Param(fn *ssa.Function) *ssa.Parameter {
	for i, p := range fn.Params {
		if i == 0 && fn.Signature.Recv() != nil {
			continue
		}
		if b, ok := p.Type().Underlying().(*types.Basic); ok && b.Kind() == types.Uint64 {
			return p
		}
	}
	return nil
}

// frameChain describes how a closure is reached from an entry point: the entry point, the
// static calls down to the closure's lexical parent, then the closure.
func (m *Model) framesFor(entry *ssa.Function, target *ssa.Function) []*frame {
	// target is a closure (or function); find its lexical root and a static call path entry -> root
	root := rootOf(target)
	type node struct {
		fn *ssa.Function
		fr *frame
	}
	var out []*frame
	seen := map[*ssa.Function]bool{}
	var dfs func(fr *frame, depth int)
	dfs = func(fr *frame, depth int) {
		if depth > 5 || seen[fr.fn] {
			return
		}
		seen[fr.fn] = true
		defer func() { seen[fr.fn] = false }()
		if fr.fn == root {
			out = append(out, m.lexicalFrame(fr, target))
			return
		}
		// the target is a method that this function turns into a bound method value (x.m)
		if target.Parent() == nil {
			for _, b := range fr.fn.Blocks {
				for _, ins := range b.Instrs {
					if mc, ok := ins.(*ssa.MakeClosure); ok && len(mc.Bindings) == 1 {
						if w, ok := mc.Fn.(*ssa.Function); ok && strings.HasSuffix(w.Name(), "$bound") {
							for _, t := range m.funcTargets(mc) {
								if t == target {
									out = append(out, &frame{fn: target, caller: fr, recv: mc.Bindings[0], depth: fr.depth + 1})
								}
							}
						}
					}
				}
			}
		}
		var visit func(f *ssa.Function, base *frame)
		visit = func(f *ssa.Function, base *frame) {
			m.eachCall(f, func(c ssa.CallInstruction) {
				callee := c.Common().StaticCallee()
				if callee == nil || !m.inPkg(callee) || callee == m.A.TxnRunner {
					return
				}
				dfs(base.inline(c, callee), depth+1)
			})
		}
		visit(fr.fn, fr)
	}
	dfs(topFrame(entry), 0)
	return out
}

// lexicalFrame builds the frame of closure `target` nested (possibly several levels) in rootFr.fn.
func (m *Model) lexicalFrame(rootFr *frame, target *ssa.Function) *frame {
	if target == rootFr.fn {
		return rootFr
	}
	parentFr := m.lexicalFrame(rootFr, target.Parent())
	return &frame{fn: target, caller: parentFr, depth: parentFr.depth}
}

// isScanOfCas reports whether v (in closure fn) is a load of a cell that a Scan in the same
// function fills from the `cas` column of documents through the transaction handle.
func (m *Model) casScanCell(v ssa.Value, fn *ssa.Function) (bool, string) {
	v = stripConv(v)
	ld, ok := v.(*ssa.UnOp)
	if !ok || ld.Op != token.MUL {
		// value may be a pointer to the cell (passed to a helper)
		if al, ok := v.(*ssa.Alloc); ok {
			if ok2, why := m.cellIsCasScan(al, fn); ok2 {
				return true, ""
			} else if st := singleStore(al); st != nil {
				// a cell that holds what a read helper returned
				return m.casViaTerms(st.Val, fn, why)
			} else {
				return false, why
			}
		}
		// a pointer to a field of a row struct that a read helper returned (`&prev.cas`)
		if fa, ok := v.(*ssa.FieldAddr); ok {
			if ok2, why := m.fieldOfHelperRowIsCas(fa); ok2 {
				return true, ""
			} else if why != "" {
				return false, why
			}
		}
		return m.casViaTerms(v, fn, "not a load of a scanned cell")
	}
	if fa, ok := ld.X.(*ssa.FieldAddr); ok {
		if ok2, _ := m.fieldOfHelperRowIsCas(fa); ok2 {
			return true, ""
		}
	}
	if ok, why := m.cellIsCasScan(ld.X, fn); !ok {
		return m.casViaTerms(v, fn, why)
	}
	return true, ""
}

// casViaTerms: the compared value, evaluated as a term in the closure (read helpers inlined),
// is documents.cas read through the transaction (or zero when the row is absent).
func (m *Model) casViaTerms(v ssa.Value, fn *ssa.Function, why string) (bool, string) {
	in, ok := v.(ssa.Instruction)
	if !ok || in.Parent() != fn {
		return false, why
	}
	e := m.newTermEval()
	t := e.term(v, in, m.closureFrame(fn))
	if t == nil {
		return false, why
	}
	nScan := 0
	for _, alt := range t.alts() {
		switch {
		case alt.Kind == "zero":
		case alt.Kind == "scan" && alt.Col == "cas" && strings.HasPrefix(alt.Name, "documents."):
			if alt.Handle != "txn" {
				return false, "the current CAS is read outside the transaction (handle " + alt.Handle + ")"
			}
			nScan++
		default:
			return false, why
		}
	}
	return nScan > 0, why
}

func (m *Model) cellIsCasScan(cell ssa.Value, fn *ssa.Function) (bool, string) {
	for _, sc := range m.scanCalls() {
		if sc.Fn != fn || sc.Site == nil {
			continue
		}
		for i, d := range sc.Dests {
			if d != cell {
				continue
			}
			for _, v := range sc.Site.Variants {
				st := v.Stmt()
				if st == nil || st.Select == nil || i >= len(st.Select.Cols) {
					continue
				}
				if !isCol(st.Select.Cols[i].Expr, "cas") || len(st.Select.From) != 1 || lower(st.Select.From[0].Name) != "documents" {
					return false, "the compared cell is not filled from documents.cas"
				}
				if !onlyClasses(sc.Site, HTxn) {
					return false, "the current CAS is read outside the transaction (handle " + classList(sc.Site) + ")"
				}
				return true, ""
			}
		}
	}
	return false, "the compared value is not read from the row in this transaction closure"
}

// checkHelperSummary: does helper fn return a nil error only when its pointer parameter
// `exp` is nil or *existing == *expected? Returns the indices (existing, expected).
func (m *Model) casPredicateHelper(fn *ssa.Function) (existing, expected int, ok bool) {
	if fn == nil || fn.Signature.Results().Len() != 1 || len(fn.Blocks) == 0 {
		return 0, 0, false
	}
	// find a comparison *pA == *pB between two pointer params
	c := newCut()
	ea, eb := -1, -1
	var paramIdx func(v ssa.Value) int
	paramIdx = func(v ssa.Value) int {
		v = stripConv(v)
		// a field of a small struct parameter (`check.expected` of a value receiver): the parameter
		switch x := v.(type) {
		case *ssa.Field:
			return paramIdx(x.X)
		case *ssa.UnOp:
			if fa, ok := x.X.(*ssa.FieldAddr); ok && x.Op == token.MUL {
				if al, ok := fa.X.(*ssa.Alloc); ok {
					if st := singleStore(al); st != nil {
						return paramIdx(st.Val)
					}
				}
				if p, ok := fa.X.(*ssa.Parameter); ok {
					return paramIdx(p)
				}
			}
			if x.Op == token.MUL {
				// *(check.expected)
				if inner, ok := x.X.(*ssa.UnOp); ok && inner.Op == token.MUL {
					if _, isFA := inner.X.(*ssa.FieldAddr); isFA {
						return paramIdx(inner)
					}
				}
				if f, ok := x.X.(*ssa.Field); ok {
					return paramIdx(f)
				}
			}
		}
		if p, ok := v.(*ssa.Parameter); ok {
			// passed by value
			for i, q := range fn.Params {
				if q == p {
					return i
				}
			}
		}
		if ld, ok := v.(*ssa.UnOp); ok && ld.Op == token.MUL {
			if p, ok := ld.X.(*ssa.Parameter); ok {
				for i, q := range fn.Params {
					if q == p {
						return i
					}
				}
			}
		}
		return -1
	}
	for _, iff := range allIfs(fn) {
		cd := condOf(iff)
		eq, isEq := cd.equalEdge()
		if !isEq {
			continue
		}
		if isNilConst(cd.Y) || isNilConst(cd.X) {
			other := cd.X
			if isNilConst(cd.X) {
				other = cd.Y
			}
			if p, ok := stripConv(other).(*ssa.Parameter); ok {
				for i, q := range fn.Params {
					if q == p {
						eb = i
					}
				}
				c.cutEdge(iff.Block(), eq)
			} else if _, isPtr := other.Type().Underlying().(*types.Pointer); isPtr {
				if i := paramIdx(other); i >= 0 {
					eb = i
					c.cutEdge(iff.Block(), eq)
				}
			}
			continue
		}
		ia, ib := paramIdx(cd.X), paramIdx(cd.Y)
		if ia >= 0 && ib >= 0 {
			ea = ia
			if eb < 0 || eb == ia {
				ea, eb = ib, ia
				if eb == ib {
					ea = ia
				}
			}
			if ia != eb {
				ea = ia
			} else {
				ea = ib
			}
			c.cutEdge(iff.Block(), eq)
		}
	}
	if ea < 0 || eb < 0 {
		// a wrapper: after checks of its own it returns what an inner predicate helper says about
		// two of ITS parameters, and it cannot return nil in any other way
		var inner *ssa.Call
		m.eachCall(fn, func(cl ssa.CallInstruction) {
			if call, ok := cl.(*ssa.Call); ok {
				if g := call.Common().StaticCallee(); g != nil && g != fn && m.inPkg(g) {
					if _, _, ok := m.casPredicateHelper(g); ok {
						inner = call
					}
				}
			}
		})
		if inner == nil {
			return 0, 0, false
		}
		gi, gx, _ := m.casPredicateHelper(inner.Common().StaticCallee())
		args := inner.Common().Args
		pa, pb := paramIdx(args[gi]), paramIdx(args[gx])
		if p, ok := stripConv(args[gi]).(*ssa.Parameter); ok {
			for i, q := range fn.Params {
				if q == p {
					pa = i
				}
			}
		}
		if p, ok := stripConv(args[gx]).(*ssa.Parameter); ok {
			for i, q := range fn.Params {
				if q == p {
					pb = i
				}
			}
		}
		if pa < 0 || pb < 0 {
			return 0, 0, false
		}
		for _, ret := range returnsOf(fn) {
			v := ret.Results[0]
			if v == ssa.Value(inner) {
				continue
			}
			if cst, isC := v.(*ssa.Const); isC && cst.Value == nil {
				return 0, 0, false // a nil return that bypasses the inner predicate
			}
			if _, isMI := v.(*ssa.MakeInterface); isMI {
				continue
			}
			if call, isCall := v.(*ssa.Call); isCall {
				if f := call.Common().StaticCallee(); f != nil && f.Pkg != nil && (f.Pkg.Pkg.Path() == "fmt" || f.Pkg.Pkg.Path() == "errors") {
					continue
				}
			}
			if ld, isLd := v.(*ssa.UnOp); isLd {
				if _, isG := ld.X.(*ssa.Global); isG {
					continue
				}
			}
			return 0, 0, false
		}
		return pa, pb, true
	}
	reach := entryReach(fn, c)
	for _, ret := range returnsOf(fn) {
		if reach[ret.Block().Index] && isNilConst(ret.Results[0]) {
			return 0, 0, false // can return nil without the pass conditions
		}
	}
	return ea, eb, true
}

// casReadCompareHelper: h reads documents.cas of a row through a transaction handle it is given
// and compares it with one of its parameters (a CAS by value, or by pointer with nil = "none"):
// its error result (index errIdx) is nil only when the parameter was nil or equal to the CAS read.
// Returns the index of that parameter.
func (m *Model) casReadCompareHelper(h *ssa.Function, errIdx int) (int, bool) {
	xp, _, ok := m.casReadCompareCut(h, errIdx)
	return xp, ok
}

// casReadCompareCut: as casReadCompareHelper; also hands back h's CFG cut at the edges on which
// the comparison passed (nil when the comparison is delegated to a predicate helper).
func (m *Model) casReadCompareCut(h *ssa.Function, errIdx int) (int, *cut, bool) {
	if h == nil || !m.inPkg(h) || h.Blocks == nil || h.Parent() != nil {
		return 0, nil, false
	}
	res := h.Signature.Results()
	if errIdx != res.Len()-1 || !isErrorType(res.At(errIdx).Type()) {
		return 0, nil, false
	}
	// the cell the row's cas is scanned into, through a *sql.Tx parameter
	var casCell ssa.Value
	for _, sc := range m.scanCalls() {
		if sc.Fn != h || sc.Site == nil || sc.Site.Classes[HPool] || sc.Site.Classes[HClosed] {
			continue
		}
		for _, v := range sc.Site.Variants {
			st := v.Stmt()
			if st == nil || st.Select == nil || len(st.Select.From) != 1 || lower(st.Select.From[0].Name) != "documents" {
				continue
			}
			for i, c := range st.Select.Cols {
				if isCol(c.Expr, "cas") && i < len(sc.Dests) {
					casCell = sc.Dests[i]
				}
			}
		}
	}
	if casCell == nil {
		return 0, nil, false
	}
	isCasLoad := func(v ssa.Value) bool {
		ld, ok := stripConv(v).(*ssa.UnOp)
		return ok && ld.Op == token.MUL && ld.X == casCell
	}
	paramOf := func(v ssa.Value) int {
		v = stripConv(v)
		if ld, ok := v.(*ssa.UnOp); ok && ld.Op == token.MUL {
			v = stripConv(ld.X)
		}
		if p, ok := v.(*ssa.Parameter); ok {
			for i, q := range h.Params {
				if q == p {
					return i
				}
			}
		}
		return -1
	}
	c := newCut()
	xp := -1
	for _, iff := range allIfs(h) {
		cd := condOf(iff)
		eq, ok := cd.equalEdge()
		if !ok {
			continue
		}
		switch {
		case isCasLoad(cd.X) && paramOf(cd.Y) >= 0:
			xp = paramOf(cd.Y)
			c.cutEdge(iff.Block(), eq)
		case isCasLoad(cd.Y) && paramOf(cd.X) >= 0:
			xp = paramOf(cd.X)
			c.cutEdge(iff.Block(), eq)
		}
	}
	// ... or the comparison is left to a predicate helper that is handed the cell and the parameter,
	// and whose verdict is what h returns
	var verdict ssa.Value
	if xp < 0 {
		m.eachCall(h, func(cl ssa.CallInstruction) {
			call, ok := cl.(*ssa.Call)
			if !ok {
				return
			}
			ei, xi, ok := m.casPredicateHelper(call.Common().StaticCallee())
			if !ok || ei >= len(call.Common().Args) || xi >= len(call.Common().Args) {
				return
			}
			ex := stripConv(call.Common().Args[ei])
			if ex != casCell && !isCasLoad(ex) {
				return
			}
			if pi := paramOf(call.Common().Args[xi]); pi >= 0 {
				xp, verdict = pi, call
			}
		})
	}
	if xp < 0 {
		return 0, nil, false
	}
	if verdict != nil {
		for _, ret := range returnsOf(h) {
			rv := ret.Results[errIdx]
			if rv == verdict || m.errNonNil(rv, ret.Block(), 0) {
				continue
			}
			return 0, nil, false // can succeed without the predicate's verdict
		}
		return xp, nil, true
	}
	// "no CAS supplied" (nil pointer) passes too
	for _, iff := range allIfs(h) {
		cd := condOf(iff)
		eq, ok := cd.equalEdge()
		if !ok || !(isNilConst(cd.X) || isNilConst(cd.Y)) {
			continue
		}
		other := cd.X
		if isNilConst(cd.X) {
			other = cd.Y
		}
		if p, ok := stripConv(other).(*ssa.Parameter); ok && p == h.Params[xp] {
			c.cutEdge(iff.Block(), eq)
		}
	}
	reach := entryReach(h, c)
	for _, ret := range returnsOf(h) {
		if reach[ret.Block().Index] && !m.errNonNil(ret.Results[errIdx], ret.Block(), 0) {
			return 0, nil, false // can succeed without the comparison having passed
		}
	}
	return xp, c, true
}

// structArgField: for an argument that is a small struct literal holding one value (a wrapper
// such as casCheck{expected: p}), the value stored in it; otherwise the argument itself.
func structArgField(arg ssa.Value) ssa.Value {
	v := stripConv(arg)
	ld, ok := v.(*ssa.UnOp)
	if !ok || ld.Op != token.MUL {
		return arg
	}
	al, ok := ld.X.(*ssa.Alloc)
	if !ok {
		return arg
	}
	pt, ok := al.Type().Underlying().(*types.Pointer)
	if !ok {
		return arg
	}
	st, ok := pt.Elem().Underlying().(*types.Struct)
	if !ok || st.NumFields() != 1 || al.Referrers() == nil {
		return arg
	}
	for _, ref := range *al.Referrers() {
		if fa, ok := ref.(*ssa.FieldAddr); ok && fa.Referrers() != nil {
			for _, r2 := range *fa.Referrers() {
				if s2, ok := r2.(*ssa.Store); ok && s2.Addr == ssa.Value(fa) {
					return s2.Val
				}
			}
		}
	}
	return arg
}

func (m *Model) ruleCAS(r *Results) {
	const rule = "R-CAS"
	m.sitesHealthy(r, rule)
	a := &m.A
	if a.CollectionType == nil || a.TxnRunner == nil {
		r.undecided(rule, "anchors", "-", "unresolved: %v", a.Problems)
		return
	}
	addOnly := m.sgConst("AddOnly")
	closures := m.txnClosures()
	for _, name := range casEntryNames {
		ep := m.lookupMethod(a.CollectionType.Obj().Name(), name)
		if ep == nil {
			r.undecided(rule, name, "-", "entry point %s not found on the collection type", name)
			continue
		}
		P := firstUint64Param(ep)
		if P == nil {
			r.undecided(rule, name, m.pos(ep.Pos()), "no uint64 (expected CAS) parameter")
			continue
		}
		reach := m.reachableLocal(ep)
		nWrites := 0
		for _, tc := range closures {
			if !reach[tc.Fn] {
				continue
			}
			K := tc.Fn
			frames := m.framesFor(ep, K)
			if len(frames) == 0 {
				r.undecided(rule, name+" / "+m.declName(K), m.pos(K.Pos()), "cannot build the call chain from the entry point to this transaction closure")
				continue
			}
			fr := frames[0]
			isP := func(v ssa.Value) bool {
				rv, _ := m.resolve(v, fr)
				return stripConv(rv) == ssa.Value(P)
			}
			// write points in K: SQL sites in K writing body/xattrs of documents, or calls to helpers containing them
			type writePoint struct {
				instr ssa.Instruction
				site  *SQLSite
			}
			var wps []writePoint
			for _, dw := range m.docWrites() {
				w := dw.W
				touches := false
				for _, set := range []map[string]*sqlp.Expr{w.Insert, w.Update} {
					if set == nil {
						continue
					}
					if _, ok := set["value"]; ok {
						touches = true
					}
					if _, ok := set["xattrs"]; ok {
						touches = true
					}
				}
				if !touches {
					continue
				}
				if dw.Site.Fn == K {
					for _, ps := range dw.Parts {
						wps = append(wps, writePoint{ps.Call, ps})
					}
				} else if m.reachableLocal(K)[dw.Site.Fn] {
					// the call in K that leads to the helper
					m.eachCall(K, func(c ssa.CallInstruction) {
						if f := c.Common().StaticCallee(); f != nil && m.reachableLocal(f)[dw.Site.Fn] {
							wps = append(wps, writePoint{c, dw.Site})
						}
					})
				}
			}
			// dedupe by instruction
			seenI := map[ssa.Instruction]bool{}
			for _, wp := range wps {
				if seenI[wp.instr] {
					continue
				}
				seenI[wp.instr] = true
				nWrites++
				key := name + " / " + m.declName(K) + " / write at " + shapeOf(wp.site)
				pos := m.instrPos(wp.instr)

				// build the cut: pass edges and exempt edges
				c := newCut()
				c0 := newCut() // the same decisions under the assumption "expected CAS == 0 was supplied"
				cA := newCut() // ... under the assumption "the insert-only flag is set (and no other option bit)"
				nA := 0
				var sinks, problems []string
				for _, d := range m.decisions(K, fr) {
					cd := d.C
					// a flag that this entry point fixes to a constant ("check the CAS": true): the other
					// edge cannot be taken on behalf of this entry point
					if cd.Op == token.ILLEGAL && cd.X != nil {
						if rv, _ := m.resolve(cd.X, fr); rv != nil {
							if cst, ok := stripConv(rv).(*ssa.Const); ok && cst.Value != nil && cst.Value.Kind() == constant.Bool {
								d.cutSucc(c, cd.succWhen(!constant.BoolVal(cst.Value)))
								d.cutSucc(c0, cd.succWhen(!constant.BoolVal(cst.Value)))
								continue
							}
						}
					}
					if _, isEq := cd.equalEdge(); !isEq {
						continue
					}
					x, y := cd.X, cd.Y
					// exempt: pointer == nil  (no CAS supplied)
					if isNilConst(y) || isNilConst(x) {
						other := x
						if isNilConst(x) {
							other = y
						}
						if _, isPtr := other.Type().Underlying().(*types.Pointer); isPtr {
							d.cutEqual(c)
							d.cutEqual(c0)
						}
						// the error of a helper that reads the row and compares its CAS itself
						if ex, ok := stripConv(other).(*ssa.Extract); ok {
							if call, ok := ex.Tuple.(*ssa.Call); ok {
								if xi, ok := m.casReadCompareHelper(call.Common().StaticCallee(), ex.Index); ok && xi < len(call.Common().Args) {
									rv, rfr := m.resolve(structArgField(call.Common().Args[xi]), fr)
									expIsP := stripConv(rv) == ssa.Value(P)
									if al, ok := rv.(*ssa.Alloc); ok {
										if st := singleStore(al); st != nil {
											sv, _ := m.resolve(st.Val, rfr)
											expIsP = stripConv(sv) == ssa.Value(P)
										}
									}
									if expIsP {
										d.cutEqual(c)
										d.cutEqual(c0)
										sinks = append(sinks, "read-and-compare helper "+call.Common().StaticCallee().Name())
									}
								}
							}
						}
						if call, ok := stripConv(other).(*ssa.Call); ok {
							if xi, ok := m.casReadCompareHelper(call.Common().StaticCallee(), 0); ok && xi < len(call.Common().Args) {
								rv, rfr := m.resolve(structArgField(call.Common().Args[xi]), fr)
								expIsP := stripConv(rv) == ssa.Value(P)
								if al, ok := rv.(*ssa.Alloc); ok {
									if st := singleStore(al); st != nil {
										sv, _ := m.resolve(st.Val, rfr)
										expIsP = stripConv(sv) == ssa.Value(P)
									}
								}
								if expIsP {
									d.cutEqual(c)
									d.cutEqual(c0)
									sinks = append(sinks, "read-and-compare helper "+call.Common().StaticCallee().Name())
								}
							}
						}
						// helper predicate result == nil
						if call, ok := stripConv(other).(*ssa.Call); ok {
							if ei, xi, ok := m.casPredicateHelper(call.Common().StaticCallee()); ok {
								args := call.Common().Args
								exOK, why := m.casScanCell(args[ei], K)
								expIsP := false
								rv, rfr := m.resolve(structArgField(args[xi]), fr)
								if al, ok := rv.(*ssa.Alloc); ok {
									if st := singleStore(al); st != nil {
										sv, _ := m.resolve(st.Val, rfr)
										if stripConv(sv) == ssa.Value(P) {
											expIsP = true
										}
									}
								}
								if exOK && expIsP {
									d.cutEqual(c)
									d.cutEqual(c0)
									sinks = append(sinks, "predicate helper "+call.Common().StaticCallee().Name())
								} else if expIsP {
									problems = append(problems, why)
								}
							}
						}
						continue
					}
					// exempt: P == 0 (insert semantics) and flag tests
					if isZeroConst(y) || isZeroConst(x) {
						other := x
						if isZeroConst(x) {
							other = y
						}
						if isP(other) {
							d.cutEqual(c)
							d.cutNotEqual(c0)
							continue
						}
						ro, _ := m.resolve(other, fr)
						if bo, ok := stripConv(ro).(*ssa.BinOp); ok && bo.Op == token.AND && addOnly != nil {
							if cst, ok := bo.Y.(*ssa.Const); ok && cst.Value != nil && constant.Compare(cst.Value, token.EQL, addOnly) {
								// the edge where the AddOnly bit is SET is the non-equal edge
								d.cutNotEqual(c)
								d.cutEqual(cA)
								nA++
							} else if ok && cst.Value != nil {
								d.cutNotEqual(cA) // some other option bit: assumed clear
							}
						}
						continue
					}
					// pass: P == ScanCol(cas)
					var otherSide ssa.Value
					if isP(x) {
						otherSide = y
					} else if isP(y) {
						otherSide = x
					}
					if otherSide != nil {
						if ok, why := m.casScanCell(otherSide, K); ok {
							d.cutEqual(c)
							d.cutEqual(c0)
							sinks = append(sinks, "comparison with the row's cas")
						} else {
							problems = append(problems, why)
						}
					}
				}
				// conditions that were computed ahead of their branch (`isInsert := addOnly || cas == 0`
				// ... `case isInsert:`) are evaluated under the assumption each cut stands for
				for _, iff := range allIfs(K) {
					for _, ca := range []struct {
						c   *cut
						asm casAssume
					}{{c, casAssume{pZero: 2, addOnly: 2}}, {c0, casAssume{pZero: 1}}, {cA, casAssume{addOnly: 1, otherBits: 2}}} {
						if _, isBin := stripConv(iff.Cond).(*ssa.BinOp); isBin {
							continue // compared in place: classified above
						}
						if b, k := m.boolUnder(iff.Cond, fr, isP, ca.asm, 0); k {
							dead := iff.Block().Succs[0]
							if b {
								dead = iff.Block().Succs[1]
							}
							ca.c.cutEdge(iff.Block(), dead)
						}
					}
				}
				// sink 1: SQL conjunct cas = ?p bound to P, evaluated on the cut CFG
				guardedBySQL := false
				if wp.site.Fn == K {
					guardedBySQL, problems = m.sqlCasGuard(wp.site, K, c, isP, problems)
					if guardedBySQL {
						sinks = append(sinks, "WHERE cas = <expected>")
					}
				}
				// an expected CAS of 0 means "no such (live) document": a statement that can run when 0 was
				// supplied must not be able to overwrite a live row
				if wp.site.Fn == K {
					if shapes := m.sqlZeroCasUnguarded(wp.site, K, c0, isP); len(shapes) > 0 {
						r.bad(rule, key+" / expected CAS 0", pos, "when the caller supplies the expected CAS 0 (\"the document must not exist\") the statement %s can run: it has neither a conjunct cas = <expected> nor a guard admitting only rows without a body, so it modifies a live document instead of failing with a CAS mismatch", strings.Join(shapes, " | "))
					}
				}
				// with the insert-only flag set, no statement that replaces the body of a row WITH a body can run
				if wp.site.Fn == K && nA > 0 {
					for _, st := range m.sqlLiveStmts(wp.site, K, cA, isP, casAssume{addOnly: 1, otherBits: 2}) {
						w := writeInfo(st)
						if st.Kind != sqlp.SUpdate || w == nil || w.Update == nil {
							continue
						}
						if _, setsBody := w.Update["value"]; !setsBody {
							continue
						}
						guarded := false
						for _, cj := range w.Where {
							if noBodyTest(cj) {
								guarded = true
							}
						}
						if !guarded {
							r.bad(rule, key+" / insert-only flag", pos, "with the insert-only option set the statement %s can run: it is a plain UPDATE without a guard admitting only rows without a body, so an insert-only write replaces a live document (when its CAS happens to match) instead of being refused", st.Shape())
						}
					}
				}
				reachWrite := entryReach(K, c)[wp.instr.Block().Index]
				switch {
				case guardedBySQL:
					r.ok(rule, key, pos, "guarded by %s", strings.Join(uniq(sinks), " + "))
				case !reachWrite && len(sinks) > 0:
					r.ok(rule, key, pos, "unreachable once the pass edges are removed; guarded by %s", strings.Join(uniq(sinks), " + "))
				case !reachWrite:
					r.ok(rule, key, pos, "reachable only when no CAS is supplied (nil pointer / zero CAS / insert flag)")
				case m.guardedInsideHelper(wp.instr, wp.site, fr, P):
					r.ok(rule, key, pos, "guarded inside the helper the closure hands the write to: it reads the row's CAS, compares it with the expected CAS and reaches the write only past that comparison")
				default:
					msg := "the write is reachable on a path that never compares the expected CAS with the row's current CAS inside this transaction"
					if len(problems) > 0 {
						msg += ": " + strings.Join(uniq(problems), "; ")
					}
					r.bad(rule, key, pos, "%s", msg)
				}
			}
		}
		if nWrites == 0 {
			r.undecided(rule, name+" / no write found", m.pos(ep.Pos()), "the entry point reaches no transaction closure that writes documents")
		}
		// the expected CAS must actually be handed on (not replaced by nil/0): it must be used somewhere
		if P.Referrers() == nil || len(*P.Referrers()) == 0 {
			r.bad(rule, name+" / expected CAS ignored", m.pos(ep.Pos()), "the expected-CAS parameter is never used")
		}
	}
	r.floor(rule, 9)
}

func shapeOf(s *SQLSite) string {
	var shapes []string
	for _, v := range s.Variants {
		if st := v.Stmt(); st != nil {
			shapes = append(shapes, st.Shape())
		}
	}
	shapes = uniq(shapes)
	if len(shapes) > 2 {
		return shapes[0] + " (+" + fmt.Sprint(len(shapes)-1) + " variants)"
	}
	return strings.Join(shapes, " | ")
}

// sgConst looks up an exported constant of the sg-bucket package.
func (m *Model) sgConst(name string) constant.Value {
	for _, imp := range m.Pkg.Types.Imports() {
		if imp.Path() == sgbucketPath {
			if c, ok := imp.Scope().Lookup(name).(*types.Const); ok {
				return c.Val()
			}
		}
	}
	return nil
}

// sqlCasGuard: with the exempt edges removed from K's CFG, does every statement text that
// can still reach the Exec carry a conjunct cas = ?p with p bound to the expected CAS?
func (m *Model) sqlCasGuard(s *SQLSite, K *ssa.Function, c *cut, isP func(ssa.Value) bool, problems []string) (bool, []string) {
	q := s.textArg()
	ev := newStrEval(m)
	reach := entryReach(K, c)
	// cut CFGs: K's own, and one per inlined statement-building helper (keyed by its call site),
	// in which only the exemptions "expected CAS == 0" and "insert-only flag set" are removed
	type cutCFG struct {
		c     *cut
		reach map[int]bool
	}
	helperCuts := map[ssa.CallInstruction]*cutCFG{}
	cutFor := func(fr *frame) *cutCFG {
		if fr.caller == nil {
			if fr.fn == K {
				return &cutCFG{c, reach}
			}
			return nil
		}
		if cc, ok := helperCuts[fr.call]; ok {
			return cc
		}
		hc := newCut()
		addOnly := m.sgConst("AddOnly")
		for _, d := range m.decisions(fr.fn, fr) {
			cd := d.C
			if _, isEq := cd.equalEdge(); !isEq {
				continue
			}
			x, y := cd.X, cd.Y
			if !isZeroConst(y) && !isZeroConst(x) {
				continue
			}
			other := x
			if isZeroConst(x) {
				other = y
			}
			ro, _ := m.resolve(other, fr)
			if isP(ro) {
				d.cutEqual(hc)
				continue
			}
			if bo, ok := stripConv(ro).(*ssa.BinOp); ok && bo.Op == token.AND && addOnly != nil {
				if cst, ok := bo.Y.(*ssa.Const); ok && cst.Value != nil && constant.Compare(cst.Value, token.EQL, addOnly) {
					d.cutNotEqual(hc)
				}
			}
		}
		m.helperCutUnder(fr, isP, casAssume{pZero: 2, addOnly: 2}, hc)
		cc := &cutCFG{hc, entryReach(fr.fn, hc)}
		helperCuts[fr.call] = cc
		return cc
	}
	ev.liveEdge = func(pred, blk *ssa.BasicBlock, fr *frame) bool {
		cc := cutFor(fr)
		if cc == nil {
			return true
		}
		c, reach := cc.c, cc.reach
		if !reach[pred.Index] || c.edges[edge{pred.Index, blk.Index}] {
			return false
		}
		// pred may be a threaded decision block: the transfer pred->blk is live only if some
		// way of entering pred still allows it
		if phi, _ := phiIf(pred); phi != nil {
			live := false
			for i, pp := range pred.Preds {
				if !reach[pp.Index] || c.edges[edge{pp.Index, pred.Index}] {
					continue
				}
				if c.triples[[3]int{pp.Index, pred.Index, blk.Index}] {
					continue
				}
				if forced, ok := constBoolOutcome(pred, i); ok && forced != blk {
					continue
				}
				live = true
			}
			return live
		}
		return true
	}
	ev.liveRet = func(ret *ssa.Return, fr *frame) bool {
		cc := cutFor(fr)
		return cc == nil || cc.reach[ret.Block().Index]
	}
	if !reach[s.Call.Block().Index] {
		return false, problems
	}
	texts, ok := ev.eval(q, s.textFrame(K))
	if os.Getenv("RL_DEBUG") != "" {
		fmt.Fprintf(os.Stderr, "DEBUG sqlCasGuard %s: cut edges=%v triples=%v reach=%v texts=%q\n", m.declName(K), c.edges, c.triples, reach, texts)
	}
	if !ok || len(texts) == 0 {
		return false, append(problems, "cannot enumerate the statement variants")
	}
	for _, t := range texts {
		st, err := sqlp.Parse(t)
		if err != nil {
			return false, append(problems, "unparsable variant")
		}
		w := writeInfo(st)
		if w == nil {
			return false, problems
		}
		has := false
		for _, cj := range w.Where {
			if p := colEqParam(cj, "cas"); p != nil {
				if b, ok := s.bindingFor(p); ok && isP(b.V) {
					has = true
				}
			}
		}
		if !has {
			return false, append(problems, fmt.Sprintf("statement variant %q has no conjunct cas = <expected CAS>", st.Shape()))
		}
	}
	return true, problems
}

// ---------------------------------------------------------------- R-RMW (optimistic loops)

type rmwLoop struct {
	Fn     *ssa.Function
	Reads  []ssa.CallInstruction
	Writes []ssa.CallInstruction
	// Via: for a write that sits in a helper the loop calls, the loop's call of that helper
	Via map[ssa.CallInstruction]ssa.CallInstruction
	// Outer: when the loop's body was extracted into Fn (`for { x, retry, err = c.once(...) }`), the
	// function that contains the loop; Fn then returns a bool that says whether to go round again
	Outer *ssa.Function
	Retry int // index of that bool result (body functions only)
}

// loopName: the name obligations of this loop are keyed by (the function with the `for`).
func (lp *rmwLoop) nameFn() *ssa.Function {
	if lp.Outer != nil {
		return lp.Outer
	}
	return lp.Fn
}

// actualOf maps a parameter of a write helper to the value the loop passes for it.
func (lp *rmwLoop) actualOf(p *ssa.Parameter) (ssa.Value, bool) {
	for _, via := range lp.Via {
		h := via.Common().StaticCallee()
		if h == nil || p.Parent() != h {
			continue
		}
		for i, q := range h.Params {
			if q == p && i < len(via.Common().Args) {
				return via.Common().Args[i], true
			}
		}
	}
	return nil, false
}

func (m *Model) condEntryPoints() map[*ssa.Function]int {
	out := map[*ssa.Function]int{}
	for _, n := range casEntryNames {
		if f := m.lookupMethod(m.A.CollectionType.Obj().Name(), n); f != nil {
			idx := -1
			p := firstUint64Param(f)
			for i, q := range f.Params {
				if q == p {
					idx = i
				}
			}
			out[f] = idx
		}
	}
	return out
}

// isReadFn: a package function that reads one document through a pool accessor and
// returns its CAS (uint64 result or a BucketDocument).
func (m *Model) isReadFn(f *ssa.Function) bool {
	if f == nil || !m.inPkg(f) {
		return false
	}
	hasCas := false
	res := f.Signature.Results()
	for i := 0; i < res.Len(); i++ {
		if b, ok := res.At(i).Type().Underlying().(*types.Basic); ok && b.Kind() == types.Uint64 {
			hasCas = true
		}
		if isNamed(res.At(i).Type(), sgbucketPath, "BucketDocument") {
			hasCas = true
		}
	}
	if !hasCas {
		return false
	}
	for g := range m.reachableLocal(f) {
		for _, s := range m.Sites {
			if s.Fn == g && s.Method == "QueryRow" {
				for _, v := range s.Variants {
					if st := v.Stmt(); st != nil && st.Kind == sqlp.SSelect {
						for _, t := range st.Tables() {
							if t == "documents" {
								return true
							}
						}
					}
				}
			}
		}
	}
	return false
}

func (m *Model) rmwLoops() []*rmwLoop {
	conds := m.condEntryPoints()
	// resurrection entry point: insert-only write without CAS parameter
	var out []*rmwLoop
	for _, fn := range m.Funcs {
		if fn.Parent() != nil || fn.Pkg != m.SSA {
			continue
		}
		lp := &rmwLoop{Fn: fn, Via: map[ssa.CallInstruction]ssa.CallInstruction{}}
		// a loop body extracted into its own function: fn returns a bool ("go round again") and its
		// only caller calls it inside a cycle and tests that result
		isBody := false
		if callers := m.staticCallersOf(fn); len(callers) == 1 && inCycle(callers[0].Block()) && callers[0].Parent().Pkg == m.SSA {
			res := fn.Signature.Results()
			for i := 0; i < res.Len(); i++ {
				if types.Identical(res.At(i).Type(), types.Typ[types.Bool]) {
					isBody = true
					lp.Outer, lp.Retry = callers[0].Parent(), i
				}
			}
		}
		m.eachCall(fn, func(c ssa.CallInstruction) {
			if !inCycle(c.Block()) && !isBody {
				return
			}
			callee := c.Common().StaticCallee()
			if callee == nil {
				return
			}
			if _, ok := conds[callee]; ok {
				lp.Writes = append(lp.Writes, c)
			} else if callee.Name() == "WriteResurrectionWithXattrs" {
				lp.Writes = append(lp.Writes, c)
			} else if m.isReadFn(callee) && !m.reachesRunner(callee, map[*ssa.Function]int{}) {
				lp.Reads = append(lp.Reads, c)
			} else if m.inPkg(callee) && callee.Parent() == nil && len(callee.Blocks) > 0 {
				// a helper that only dispatches to the conditional writers
				dispatched := false
				m.eachCall(callee, func(c2 ssa.CallInstruction) {
					f2 := c2.Common().StaticCallee()
					if f2 == nil {
						return
					}
					if _, ok := conds[f2]; ok || f2.Name() == "WriteResurrectionWithXattrs" {
						lp.Writes = append(lp.Writes, c2)
						lp.Via[c2] = c
						dispatched = true
					}
				})
				if !dispatched && m.isDocWriter(callee) {
					// any other function that performs a document write (an unexported writer such as
					// remove): it must be handed the CAS that was read, too
					lp.Writes = append(lp.Writes, c)
				}
			}
		})
		if len(lp.Reads) > 0 && len(lp.Writes) > 0 {
			out = append(out, lp)
		}
		if !(len(lp.Reads) > 0 && len(lp.Writes) > 0) || !isBody {
			lp.Outer = nil
		}
	}
	return out
}

// readStateGuard describes for which state of the document the loop read a write-back call is
// reached: " / only when the document read has <flag>" if the call is unreachable once the edges
// on which a bool field of the read document is true are cut, otherwise " / whatever the state of
// the document read". It is part of the obligation's key, so that widening the condition under
// which a CAS-less write-back is used is a different finding.
func (m *Model) readStateGuard(fn *ssa.Function, lp *rmwLoop, w ssa.CallInstruction) string {
	// decided in the function that holds the write-back call (the loop itself, or the dispatch
	// helper the loop hands the document to)
	site := w
	fn = w.Parent()
	var docT types.Type
	for _, rd := range lp.Reads {
		v := rd.Value()
		if v == nil {
			continue
		}
		t := v.Type()
		if tup, ok := t.(*types.Tuple); ok && tup.Len() > 0 {
			t = tup.At(0).Type()
		}
		if pt, ok := t.Underlying().(*types.Pointer); ok {
			t = pt.Elem()
		}
		if _, ok := t.Underlying().(*types.Struct); ok {
			docT = t
		}
	}
	if docT == nil {
		return ""
	}
	cuts := map[string]*cut{}
	for _, iff := range allIfs(fn) {
		cd := condOf(iff)
		if cd.Op != token.ILLEGAL || cd.X == nil {
			continue
		}
		ld, ok := cd.X.(*ssa.UnOp)
		if !ok || ld.Op != token.MUL {
			continue
		}
		fa, ok := ld.X.(*ssa.FieldAddr)
		if !ok {
			continue
		}
		pt, ok := fa.X.Type().Underlying().(*types.Pointer)
		if !ok || !types.Identical(pt.Elem(), docT) {
			continue
		}
		f := fieldOf(fa)
		if b, ok := f.Type().Underlying().(*types.Basic); !ok || b.Kind() != types.Bool {
			continue
		}
		if cuts[f.Name()] == nil {
			cuts[f.Name()] = newCut()
		}
		cuts[f.Name()].cutEdge(iff.Block(), cd.succWhen(true))
	}
	// ... or decided by a pure classifier: `switch classify(.., doc.flag, ..) { case K:` where
	// the helper returns the constant K only on paths on which that parameter is true
	for _, iff := range allIfs(fn) {
		cd := condOf(iff)
		eq, ok := cd.equalEdge()
		if !ok {
			continue
		}
		call, k := cd.X, cd.Y
		if _, isC := stripConv(call).(*ssa.Const); isC {
			call, k = cd.Y, cd.X
		}
		cl, ok1 := stripConv(call).(*ssa.Call)
		kc, ok2 := stripConv(k).(*ssa.Const)
		if !ok1 || !ok2 || kc.Value == nil {
			continue
		}
		h := cl.Common().StaticCallee()
		if h == nil || !m.inPkg(h) || h.Blocks == nil {
			continue
		}
		for j, arg := range cl.Common().Args {
			ld, ok := stripConv(arg).(*ssa.UnOp)
			if !ok || ld.Op != token.MUL || j >= len(h.Params) {
				continue
			}
			fa, ok := ld.X.(*ssa.FieldAddr)
			if !ok {
				continue
			}
			pt, ok := fa.X.Type().Underlying().(*types.Pointer)
			if !ok || !types.Identical(pt.Elem(), docT) {
				continue
			}
			f := fieldOf(fa)
			if b, ok := f.Type().Underlying().(*types.Basic); !ok || b.Kind() != types.Bool {
				continue
			}
			if m.constOnlyWhereTrue(h, kc, h.Params[j]) {
				if cuts[f.Name()] == nil {
					cuts[f.Name()] = newCut()
				}
				cuts[f.Name()].cutEdge(iff.Block(), eq)
			}
		}
	}
	var names []string
	for n := range cuts {
		names = append(names, n)
	}
	sort.Strings(names)
	for _, n := range names {
		if !entryReach(fn, cuts[n])[site.Block().Index] {
			return " / only when the document read has " + n
		}
	}
	return " / whatever the state of the document read"
}

// constOnlyWhereTrue: the pure classifier h (every return hands back a constant) returns the
// constant k only on paths on which its bool parameter p was tested and found true.
func (m *Model) constOnlyWhereTrue(h *ssa.Function, k *ssa.Const, p *ssa.Parameter) bool {
	if h.Signature.Results().Len() != 1 {
		return false
	}
	c := newCut()
	for _, iff := range allIfs(h) {
		cd := condOf(iff)
		if cd.Op == token.ILLEGAL && cd.X != nil && stripConv(cd.X) == ssa.Value(p) {
			c.cutEdge(iff.Block(), cd.succWhen(true))
		}
	}
	if len(c.edges) == 0 {
		return false
	}
	reach := entryReach(h, c)
	for _, ret := range returnsOf(h) {
		rc, ok := stripConv(ret.Results[0]).(*ssa.Const)
		if !ok || rc.Value == nil {
			return false // not a pure classifier
		}
		if reach[ret.Block().Index] && constant.Compare(rc.Value, token.EQL, k.Value) {
			return false
		}
	}
	return true
}

// mustBeFailureReturn: the error result of ret is non-nil on EVERY path: it is a freshly made
// error value or a sentinel, or the return is unreachable once the edges on which the returned
// error value was found non-nil are cut.
func (m *Model) mustBeFailureReturn(ret *ssa.Return) bool {
	if len(ret.Results) == 0 {
		return false
	}
	errV := ret.Results[len(ret.Results)-1]
	if !types.Identical(errV.Type(), types.Universe.Lookup("error").Type()) {
		return false
	}
	// a named result spilled into a cell (deferred closure): what this return stored there
	if ld, ok := errV.(*ssa.UnOp); ok && ld.Op == token.MUL {
		if al, ok := ld.X.(*ssa.Alloc); ok {
			instrs := ret.Block().Instrs
			for i := len(instrs) - 1; i >= 0; i-- {
				if st, ok := instrs[i].(*ssa.Store); ok && st.Addr == ssa.Value(al) {
					errV = st.Val
					break
				}
			}
		}
	}
	if c, ok := errV.(*ssa.Const); ok {
		return c.Value != nil
	}
	if _, ok := errV.(*ssa.MakeInterface); ok {
		return true
	}
	if ld, ok := errV.(*ssa.UnOp); ok {
		if _, isG := ld.X.(*ssa.Global); isG {
			return true
		}
	}
	if call, ok := errV.(*ssa.Call); ok {
		if f := call.Common().StaticCallee(); f != nil && f.Pkg != nil && (f.Pkg.Pkg.Path() == "fmt" || f.Pkg.Pkg.Path() == "errors") {
			return true
		}
	}
	fn := ret.Parent()
	c := newCut()
	for _, iff := range allIfs(fn) {
		cd := condOf(iff)
		eq, ok := cd.equalEdge()
		if !ok || !(isNilConst(cd.X) || isNilConst(cd.Y)) {
			continue
		}
		other := cd.X
		if isNilConst(cd.X) {
			other = cd.Y
		}
		if stripConv(other) != stripConv(errV) {
			continue
		}
		for _, s := range iff.Block().Succs {
			if s != eq {
				c.cutEdge(iff.Block(), s)
			}
		}
	}
	return len(c.edges) > 0 && !entryReach(fn, c)[ret.Block().Index]
}

// trueOnlyWhereNil: the bool result `idx` of callee can be true only on paths on which its
// pointer parameter p was compared with nil and found nil.
func (m *Model) trueOnlyWhereNil(callee *ssa.Function, idx int, p *ssa.Parameter) bool {
	c := newCut()
	for _, iff := range allIfs(callee) {
		cd := condOf(iff)
		eq, ok := cd.equalEdge()
		if !ok {
			continue
		}
		if isNilConst(cd.Y) && stripConv(cd.X) == ssa.Value(p) || isNilConst(cd.X) && stripConv(cd.Y) == ssa.Value(p) {
			c.cutEdge(iff.Block(), eq)
		}
	}
	if len(c.edges) == 0 {
		return false
	}
	reach := entryReach(callee, c)
	for _, ret := range returnsOf(callee) {
		if !reach[ret.Block().Index] || idx >= len(ret.Results) {
			continue
		}
		cst, ok := ret.Results[idx].(*ssa.Const)
		if !ok || cst.Value == nil || constant.BoolVal(cst.Value) {
			return false
		}
	}
	return true
}

func (m *Model) ruleRMW(r *Results) {
	const rule = "R-RMW"
	a := &m.A
	if a.CollectionType == nil {
		r.undecided(rule, "anchors", "-", "collection type unresolved")
		return
	}
	conds := m.condEntryPoints()
	loops := m.rmwLoops()
	for _, lp := range loops {
		fn := lp.Fn
		name := m.declName(lp.nameFn())
		// (a) write-back CAS derives from the read of the same iteration (or a caller-supplied previous doc)
		for _, w := range lp.Writes {
			callee := w.Common().StaticCallee()
			idx, isCond := conds[callee]
			key := name + " / write-back via " + callee.Name()
			if !isCond && m.isDocWriter(callee) {
				// an internal writer: its expected-CAS parameter (uint64 or *uint64), if any
				for i, p := range callee.Params {
					t := p.Type()
					if pt, ok := t.(*types.Pointer); ok {
						t = pt.Elem()
					}
					if b, ok := t.Underlying().(*types.Basic); ok && b.Kind() == types.Uint64 && i < len(w.Common().Args) {
						idx, isCond = i, true
						break
					}
				}
			}
			if !isCond || idx < 0 {
				r.bad(rule, key+" / no CAS"+m.readStateGuard(fn, lp, w), m.instrPos(w), "the read-modify-write loop writes back through %s, which takes no expected CAS: a write that lands between the loop's read and this write is silently overwritten (the callback is not re-run on the newer version)", callee.Name())
				continue
			}
			arg := w.Common().Args[idx]
			if _, isPtr := arg.Type().Underlying().(*types.Pointer); isPtr {
				// CAS passed by pointer: nil means "unconditional"
				if isNilConst(stripConv(arg)) {
					r.bad(rule, key+" / CAS", m.instrPos(w), "the write-back passes no expected CAS (nil) to %s: a write that lands between the loop's read and this write is silently overwritten", callee.Name())
					continue
				}
				if al, ok := stripConv(arg).(*ssa.Alloc); ok {
					if st := singleStore(al); st != nil {
						arg = st.Val
					}
				}
			}
			src := m.casSource(arg, fn, lp, 0, map[ssa.Value]bool{})
			switch src {
			case "read":
				r.ok(rule, key+" / CAS", m.instrPos(w), "expected CAS of the write-back is the CAS returned by the read of the same loop")
			default:
				r.bad(rule, key+" / CAS", m.instrPos(w), "the expected CAS of the write-back is %s, not the CAS returned by the loop's read: the callback's result can be stored on top of a version it was never shown", src)
			}
		}
		// (b) out-parameters of the read are fresh in every iteration
		for _, rd := range lp.Reads {
			for _, arg := range rd.Common().Args {
				v := stripConv(arg)
				if al, ok := v.(*ssa.Alloc); ok {
					if _, isPtrToMapOrSlice := al.Type().Underlying().(*types.Pointer); isPtrToMapOrSlice {
						key := name + " / read destination " + al.Comment
						r.check(inCycle(al.Block()) || lp.Outer != nil, rule, key, m.instrPos(rd), "the read's destination is a fresh variable in each iteration", "the variable the document is read into is declared outside the retry loop: on a retry the new version is decoded on top of the previous iteration's copy (properties a concurrent writer removed come back)")
					}
				}
			}
		}
		// (c) the loop repeats only on a CAS mismatch / key-exists error: every back edge from after the write is control dependent on a type test of the write's error
		for _, w0 := range lp.Writes {
			w := w0
			if via, ok := lp.Via[w0]; ok {
				w = via // the helper hands the write's result on; the loop tests the helper's error
			}
			errV := writeErrValue(w)
			if errV == nil {
				continue
			}
			okOnly := m.loopsOnlyOnCasError(fn, w, errV)
			if lp.Outer != nil {
				okOnly = m.bodyRetriesOnlyOnCasError(lp, w, errV)
			}
			r.check(okOnly, rule, name+" / retry condition after "+w0.Common().StaticCallee().Name(), m.instrPos(w), "the loop retries only when the write reported a CAS mismatch (or key-exists)", "after the conditional write the loop can repeat on an error that is not a CAS mismatch, or give up on one")
		}
	}
	if len(loops) < 3 {
		r.undecided(rule, "instance-floor", "-", "found %d read-modify-write loops, 3 were confirmed by hand (Update, sub-document writer, WriteUpdateWithXattrs)", len(loops))
	}
	// (f) "the property already exists" (sg-bucket's ErrPathExists) is decided inside the retry loop,
	// on the document the loop has just read and whose CAS guards the write - not by a separate
	// look-up before the loop (check-then-act)
	{
		loopFns := map[*ssa.Function]*rmwLoop{}
		for _, lp := range loops {
			loopFns[lp.Fn] = lp
		}
		inTxn := m.inTxnExtent()
		nExists := 0
		for _, f := range m.Funcs {
			if !m.inPkg(f) {
				continue
			}
			for _, b := range f.Blocks {
				for _, ins := range b.Instrs {
					ld, ok := ins.(*ssa.UnOp)
					if !ok || ld.Op != token.MUL {
						continue
					}
					g, ok := ld.X.(*ssa.Global)
					if !ok || g.Name() != "ErrPathExists" || g.Pkg == nil || g.Pkg.Pkg.Path() != sgbucketPath {
						continue
					}
					// only where the error is produced (returned / stored into the result), not where it is compared
					produced := false
					for _, ref := range *ld.Referrers() {
						switch ref.(type) {
						case *ssa.Return, *ssa.Store:
							produced = true
						}
					}
					if !produced {
						continue
					}
					nExists++
					// decided inside the transaction that writes, or after (dominated by) a read of the retry loop
					_, inLoop := inTxn[f]
					if lp := loopFns[f]; lp != nil {
						for _, rd := range lp.Reads {
							if rd.Block() == b || rd.Block().Dominates(b) {
								inLoop = true
							}
						}
					}
					if !inLoop && f.Parent() == nil {
						// a helper of the loop body: every call of it is made after a read of a retry loop
						callers := m.staticCallersOf(f)
						all := len(callers) > 0
						for _, cl := range callers {
							lp := loopFns[cl.Parent()]
							okc := false
							if lp != nil {
								for _, rd := range lp.Reads {
									if rd.Block() == cl.Block() || rd.Block().Dominates(cl.Block()) {
										okc = true
									}
								}
							}
							if !okc {
								all = false
							}
						}
						inLoop = all
					}
					r.check(inLoop, rule, m.declName(f)+" / path-exists refusal decided on the loop's own read", m.instrPos(ld), "the insert is refused inside the retry loop, on the version that was just read", "ErrPathExists is returned outside the read-modify-write loop, i.e. from a look-up that is not the read whose CAS guards the write: two concurrent inserts of the same property can both pass the check and one overwrites the other")
				}
			}
		}
		if nExists == 0 {
			r.undecided(rule, "path-exists refusal", "-", "no function returns sgbucket.ErrPathExists")
		}
		// (f') an insert-only loop (the bool parameter under which ErrPathExists is produced) never
		// writes when its read failed: with that parameter true, no write-back is reachable from the
		// edge on which the read's error was found non-nil (a missing - e.g. deleted - document is
		// refused, not created)
		for _, lp := range loops {
			fn := lp.Fn
			if lp.Outer != nil {
				continue
			}
			var ins *ssa.Parameter
			for _, b := range fn.Blocks {
				for _, in2 := range b.Instrs {
					ld, ok := in2.(*ssa.UnOp)
					if !ok || ld.Op != token.MUL {
						continue
					}
					g, ok := ld.X.(*ssa.Global)
					if !ok || g.Name() != "ErrPathExists" || g.Pkg == nil || g.Pkg.Pkg.Path() != sgbucketPath {
						continue
					}
					for _, ct := range controllingConds(fn, b) {
						cd := condOf(ct.If)
						if cd.Op != token.ILLEGAL || cd.X == nil {
							continue
						}
						if pp, ok := stripConv(cd.X).(*ssa.Parameter); ok && pp.Parent() == fn && ct.Branch != cd.Neg {
							if bt, ok := pp.Type().Underlying().(*types.Basic); ok && bt.Kind() == types.Bool {
								ins = pp
							}
						}
					}
				}
			}
			if ins == nil {
				continue
			}
			// (f'') ... and never writes without having found the property vacant: with that
			// parameter true and the "vacant" edges of the existence tests (the other way out of the
			// blocks that lead to the refusal) removed, no write-back is reachable at all
			{
				c2 := newCut()
				for _, iff := range allIfs(fn) {
					cd := condOf(iff)
					if cd.Op == token.ILLEGAL && cd.X != nil && stripConv(cd.X) == ssa.Value(ins) {
						c2.cutEdge(iff.Block(), cd.succWhen(false))
					}
				}
				nTests := 0
				for _, b := range fn.Blocks {
					isRefusal := false
					for _, in2 := range b.Instrs {
						if ld, ok := in2.(*ssa.UnOp); ok && ld.Op == token.MUL {
							if g, ok := ld.X.(*ssa.Global); ok && g.Name() == "ErrPathExists" && g.Pkg != nil && g.Pkg.Pkg.Path() == sgbucketPath {
								isRefusal = true
							}
						}
					}
					if !isRefusal || len(b.Preds) != 1 {
						continue
					}
					d := b.Preds[0]
					if _, isIf := d.Instrs[len(d.Instrs)-1].(*ssa.If); !isIf {
						continue
					}
					if cd := condOf(d.Instrs[len(d.Instrs)-1].(*ssa.If)); cd.Op == token.ILLEGAL && cd.X != nil && stripConv(cd.X) == ssa.Value(ins) {
						continue // (the flag test itself)
					}
					for _, sx := range d.Succs {
						if sx != b {
							c2.cutEdge(d, sx)
							nTests++
						}
					}
				}
				if nTests > 0 {
					reach := entryReach(fn, c2)
					bad := ""
					for _, w := range lp.Writes {
						site := w
						if v, ok := lp.Via[w]; ok {
							site = v
						}
						if site.Parent() == fn && reach[site.Block().Index] {
							bad = m.instrPos(site)
						}
					}
					r.check(bad == "", rule, m.declName(fn)+" / an insert-only write found the property vacant on every path", m.pos(fn.Pos()), "with the insert flag set, the write-back lies behind the 'not there yet' edge of an existence test on every path", "with the insert flag set, the write-back at "+bad+" can be reached on a path that never tested whether the property exists (the test is made on some paths only): an insert then silently overwrites an existing property")
				}
			}
			c := newCut()
			for _, iff := range allIfs(fn) {
				cd := condOf(iff)
				if cd.Op == token.ILLEGAL && cd.X != nil && stripConv(cd.X) == ssa.Value(ins) {
					c.cutEdge(iff.Block(), cd.succWhen(false))
				}
			}
			for _, rd := range lp.Reads {
				c.cutBlock(rd.Block())
			}
			for _, rd := range lp.Reads {
				errV := writeErrValue(rd)
				if errV == nil {
					continue
				}
				bad := ""
				for _, iff := range allIfs(fn) {
					cd := condOf(iff)
					eq, ok := cd.equalEdge()
					if !ok || !(isNilConst(cd.X) || isNilConst(cd.Y)) {
						continue
					}
					other := cd.X
					if isNilConst(cd.X) {
						other = cd.Y
					}
					if stripConv(other) != errV && !flowsThroughPhi(errV, other) {
						continue
					}
					for _, sx := range iff.Block().Succs {
						if sx == eq || c.edges[edge{iff.Block().Index, sx.Index}] {
							continue
						}
						reach := reachableFrom(sx, c)
						for _, w := range lp.Writes {
							site := w
							if v, ok := lp.Via[w]; ok {
								site = v
							}
							if site.Parent() == fn && reach[site.Block().Index] {
								bad = m.instrPos(site)
							}
						}
					}
				}
				// (an error that errors.As / errors.Is recognised is an error: the true edge of such a
				// test on the read's error counts as a failure edge as well)
				for _, iff := range allIfs(fn) {
					cd := condOf(iff)
					if cd.Op != token.ILLEGAL || cd.X == nil {
						continue
					}
					call, ok := stripConv(cd.X).(*ssa.Call)
					if !ok || len(call.Common().Args) == 0 {
						continue
					}
					g := call.Common().StaticCallee()
					if g == nil || g.Pkg == nil || g.Pkg.Pkg.Path() != "errors" || (g.Name() != "As" && g.Name() != "Is") {
						continue
					}
					if a0 := call.Common().Args[0]; stripConv(a0) != errV && !flowsThroughPhi(errV, a0) {
						continue
					}
					sx := cd.succWhen(true)
					if c.edges[edge{iff.Block().Index, sx.Index}] {
						continue
					}
					if iff.Block() != rd.Block() && !reachableFromSuccs(rd.Block(), c)[iff.Block().Index] {
						continue // not reached with the insert flag set
					}
					{
						reach := reachableFrom(sx, c)
						reach[sx.Index] = true
						for _, w := range lp.Writes {
							site := w
							if v, ok := lp.Via[w]; ok {
								site = v
							}
							if site.Parent() == fn && reach[site.Block().Index] {
								bad = m.instrPos(site)
							}
						}
					}
				}
				callee := "?"
				if f := rd.Common().StaticCallee(); f != nil {
					callee = f.Name()
				}
				r.check(bad == "", rule, m.declName(fn)+" / insert-only never writes when the read via "+callee+" failed", m.instrPos(rd), "with the insert-only parameter set, no write-back is reachable from the read's error edge", "with the insert-only parameter set the write-back at "+bad+" is reachable although the read reported an error (the document is missing, e.g. deleted): the insert creates or resurrects the document instead of being refused")
			}
		}
	}
	// (g) in a loop that sets or removes one entry of a container it read ("value == nil removes"),
	// the set and the remove address the same container and key
	for _, lp := range loops {
		fn := lp.Fn
		var sets []*ssa.MapUpdate
		var dels []*ssa.Call
		for g := range m.reachableLocal(fn) {
			if g != fn && len(m.staticCallersOf(g)) != 1 {
				continue
			}
			if g != fn && m.reachesRunner(g, map[*ssa.Function]int{}) {
				continue
			}
			var gs []*ssa.MapUpdate
			var gd []*ssa.Call
			for _, b := range g.Blocks {
				for _, ins := range b.Instrs {
					switch x := ins.(type) {
					case *ssa.MapUpdate:
						gs = append(gs, x)
					case *ssa.Call:
						if bi, ok := x.Common().Value.(*ssa.Builtin); ok && bi.Name() == "delete" {
							gd = append(gd, x)
						}
					}
				}
			}
			if len(gs) == 1 && len(gd) == 1 && gs[0].Parent() == gd[0].Parent() {
				// only when they are the two arms of one decision ("value given: set, else: remove")
				arms := false
				for _, c1 := range controllingConds(g, gs[0].Block()) {
					for _, c2 := range controllingConds(g, gd[0].Block()) {
						if c1.If == c2.If && c1.Branch != c2.Branch {
							arms = true
						}
					}
				}
				if arms {
					sets, dels = append(sets, gs[0]), append(dels, gd[0])
				}
			}
		}
		for i := range sets {
			st, dl := sets[i], dels[i]
			same := sameVariable(st.Map, dl.Common().Args[0]) && sameVariable(st.Key, dl.Common().Args[1])
			r.check(same, rule, m.declName(fn)+" / set and remove address the same entry", m.instrPos(dl), "the entry that is removed (empty value) is the entry that would be set", "the remove branch deletes from a different container or key than the set branch writes to: removing a nested property leaves it in place (and may delete an unrelated top-level property)")
		}
	}
	// (e) the retry tests recognise a CAS mismatch by a type assertion, which a wrapped error fails:
	// the mismatch error is never handed to fmt.Errorf
	usesAssert := false
	for _, f := range m.Funcs {
		for _, b := range f.Blocks {
			for _, ins := range b.Instrs {
				if ta, ok := ins.(*ssa.TypeAssert); ok && isNamed(ta.AssertedType, sgbucketPath, "CasMismatchErr") {
					usesAssert = true
				}
			}
		}
	}
	if usesAssert {
		wrapped := ""
		for _, f := range m.Funcs {
			m.eachCall(f, func(c ssa.CallInstruction) {
				g := c.Common().StaticCallee()
				if g == nil || g.Pkg == nil || g.Pkg.Pkg.Path() != "fmt" || g.Name() != "Errorf" || len(c.Common().Args) < 2 {
					return
				}
				vals, dyn := varargValues(c.Common().Args[1])
				if dyn {
					return
				}
				for _, v := range vals {
					if mi, ok := v.(*ssa.MakeInterface); ok && isNamed(mi.X.Type(), sgbucketPath, "CasMismatchErr") {
						wrapped = m.instrPos(c)
					}
				}
			})
		}
		r.check(wrapped == "", rule, "CAS-mismatch error is returned unwrapped", "-", "no CasMismatchErr is wrapped by fmt.Errorf (the retry loops recognise it by type assertion)", "a CasMismatchErr is wrapped with fmt.Errorf at "+wrapped+" while the retry loops test `err.(CasMismatchErr)`: a lost race is then reported to the caller as a failure instead of being retried")
	}
	// (d) UpdateFunc contract (sg-bucket): "updated == nil and !delete" means "leave the body alone", so the
	// (h) read-then-write without a loop: a function that reads a document through the pool and
	// afterwards runs a transaction of its own that writes documents (not a CAS-conditional entry
	// point, which would be a write-back and is checked above) decides what to write from a version
	// that may be gone by the time it writes: the update of whoever wrote in between is lost
	{
		te := m.newTermEval()
		docK := map[*ssa.Function]bool{}
		for _, wu := range m.writeUnits(te) {
			docK[wu.K] = true
		}
		for _, tc := range m.txnClosures() {
			if !docK[tc.Fn] || tc.Caller == nil || tc.Caller.Parent() != nil || tc.Call == nil {
				continue
			}
			F := tc.Caller
			if _, isCond := conds[F]; isCond {
				continue
			}
			m.eachCall(F, func(c ssa.CallInstruction) {
				callee := c.Common().StaticCallee()
				if callee == nil || !m.isReadFn(callee) || m.reachesRunner(callee, map[*ssa.Function]int{}) {
					return
				}
				if forwardReachable(c, tc.Call) {
					r.bad(rule, m.declName(F)+" / a transaction's write does not depend on a read made before it", m.instrPos(c), "%s reads the document through %s before its transaction begins and then writes documents in that transaction: nothing ties the write to the version that was read, so a write that lands in between is overwritten (for a counter: an increment is lost)", m.declName(F), callee.Name())
				}
			})
		}
	}
	// a failed write-back is never reported as success: from the edge on which the write-back's
	// error is non-nil, every return reached before the next read either returns that error or is
	// a must-fail return (turning "the document vanished meanwhile" into `return 0, nil` tells the
	// caller its update was stored)
	for _, lp := range loops {
		fn := lp.Fn
		if lp.Outer != nil {
			continue
		}
		for _, w := range lp.Writes {
			site := w
			if v, ok := lp.Via[w]; ok {
				site = v
			}
			if site.Parent() != fn {
				continue
			}
			errV := writeErrValue(site)
			if errV == nil {
				continue
			}
			// values the error is copied to (a named result, a phi at a join)
			var isErrD func(v ssa.Value, d int) bool
			isErrD = func(v ssa.Value, d int) bool {
				v = stripConv(v)
				if v == errV {
					return true
				}
				if phi, ok := v.(*ssa.Phi); ok && d < 4 {
					for _, e := range phi.Edges {
						if isErrD(e, d+1) {
							return true
						}
					}
				}
				return false
			}
			isErr := func(v ssa.Value) bool { return isErrD(v, 0) }
			c := newCut()
			for _, rd := range lp.Reads {
				c.cutBlock(rd.Block())
			}
			bad := ""
			// the edges on which the write-back's error was tested and found nil lead to success
			for _, iff := range allIfs(fn) {
				cd := condOf(iff)
				eq, ok := cd.equalEdge()
				if !ok || !(isNilConst(cd.X) || isNilConst(cd.Y)) {
					continue
				}
				other := cd.X
				if isNilConst(cd.X) {
					other = cd.Y
				}
				if isErr(other) {
					c.cutEdge(iff.Block(), eq)
				}
			}
			// everything else the write-back can lead to (whether or not the error is tested at all)
			reach := reachableFromSuccs(site.Block(), c)
			if _, isRet := site.Block().Instrs[len(site.Block().Instrs)-1].(*ssa.Return); isRet {
				reach[site.Block().Index] = true
			}
			for _, ret := range returnsOf(fn) {
				if !reach[ret.Block().Index] || len(ret.Results) == 0 {
					continue
				}
				ev := ret.Results[len(ret.Results)-1]
				if !isErrorType(ev.Type()) {
					continue
				}
				// a named result captured by a deferred closure is returned through its cell:
				// what the return statement stored there
				if ld, ok := ev.(*ssa.UnOp); ok && ld.Op == token.MUL {
					if al, ok := ld.X.(*ssa.Alloc); ok {
						instrs := ret.Block().Instrs
						for i := len(instrs) - 1; i >= 0; i-- {
							if st, ok := instrs[i].(*ssa.Store); ok && st.Addr == ssa.Value(al) {
								ev = st.Val
								break
							}
						}
					}
				}
				if isErr(ev) || m.mustBeFailureReturn(ret) {
					continue
				}
				if mi, ok := ev.(*ssa.MakeInterface); ok && mi != nil {
					continue // a freshly made error value
				}
				bad = m.instrPos(ret)
			}
			callee := site.Common().StaticCallee()
			cname := "?"
			if callee != nil {
				cname = callee.Name()
			}
			pos := m.instrPos(site)
			if bad != "" {
				pos = bad
			}
			r.check(bad == "", rule, m.declName(lp.nameFn())+" / a failed write-back via "+cname+" is not reported as success", pos, "from the write-back's error edge only failing returns (or the next attempt) are reachable", "from the edge on which the write-back failed a return is reachable that does not report that error (e.g. `return 0, nil` for 'the document vanished meanwhile'): the caller is told the update was stored although it is in no version of the document")
		}
	}
	// a retry loop that gives up (a bounded number of attempts) reports an error: the return
	// reached through the loop counter's exit edge is a failure return. A bare `return 0, err`
	// there returns whatever the named result last held - nil after a successful read - so the
	// caller is told the write happened
	for _, lp := range loops {
		fn := lp.Fn
		if len(lp.Reads) == 0 {
			continue
		}
		hdr, loop := naturalLoop(lp.Reads[0].Block())
		if hdr == nil {
			continue
		}
		iff, ok := hdr.Instrs[len(hdr.Instrs)-1].(*ssa.If)
		if !ok {
			continue
		}
		// the exit condition tests an integer counter carried round the loop
		counter := false
		if bo, isBo := iff.Cond.(*ssa.BinOp); isBo {
			for _, v := range []ssa.Value{bo.X, bo.Y} {
				v = stripConv(v)
				if inner, isIn := v.(*ssa.BinOp); isIn {
					v = stripConv(inner.X)
				}
				if phi, isPhi := v.(*ssa.Phi); isPhi && phi.Block() == hdr {
					if b, isB := phi.Type().Underlying().(*types.Basic); isB && b.Info()&types.IsInteger != 0 {
						counter = true
					}
				}
			}
		}
		if !counter {
			continue
		}
		for _, s := range hdr.Succs {
			if loop[s] {
				continue
			}
			c := newCut()
			c.cutBlock(hdr)
			reach := reachableFrom(s, c)
			for _, ret := range returnsOf(fn) {
				if !reach[ret.Block().Index] {
					continue
				}
				r.check(m.mustBeFailureReturn(ret), rule, m.declName(lp.nameFn())+" / giving up reports an error", m.instrPos(ret), "the return reached when the attempts are used up returns an error", "when the bounded retry loop runs out of attempts the function returns a value that is not known to be an error (e.g. the named result, which a later successful read reset to nil): the caller is told the write succeeded although nothing was written")
			}
		}
	}
	// a return that leaves a (callback-free) read-modify-write loop without having written
	// reports a failure: "nothing written" is never reported as success
	for _, lp := range loops {
		fn := lp.Fn
		hasCb := false
		m.eachCall(fn, func(c ssa.CallInstruction) {
			if c.Common().StaticCallee() == nil && !c.Common().IsInvoke() {
				if _, isBuiltin := c.Common().Value.(*ssa.Builtin); !isBuiltin {
					hasCb = true
				}
			}
		})
		if hasCb {
			continue
		}
		c := newCut()
		nw := 0
		for _, w := range lp.Writes {
			site := w
			if v, ok := lp.Via[w]; ok {
				site = v
			}
			if site.Parent() == fn {
				c.cutBlock(site.Block())
				nw++
			}
		}
		if nw == 0 {
			continue
		}
		reach := entryReach(fn, c)
		bad := ""
		for _, ret := range returnsOf(fn) {
			if !reach[ret.Block().Index] {
				continue
			}
			if lp.Outer != nil && lp.Retry < len(ret.Results) {
				if cst, ok := ret.Results[lp.Retry].(*ssa.Const); ok && cst.Value != nil && constant.BoolVal(cst.Value) {
					continue
				}
			}
			if m.returnFails(ret, 0) {
				continue
			}
			bad = m.instrPos(ret)
		}
		r.check(bad == "", rule, m.declName(lp.nameFn())+" / leaving without the write-back reports a failure", m.pos(fn.Pos()), "every return that does not pass the write-back carries an error", "the read-modify-write loop can return at "+bad+" without having written, with an error that may be nil: the caller is told the change was made (CAS 0, no error) although the document is as it was")
	}
	// body written back must be either the callback's body or the body that was read
	for _, lp := range loops {
		fn := lp.Fn
		var cbCall *ssa.Call
		m.eachCall(fn, func(c ssa.CallInstruction) {
			if call, ok := c.(*ssa.Call); ok && c.Common().StaticCallee() == nil && !c.Common().IsInvoke() {
				if isNamed(c.Common().Value.Type(), sgbucketPath, "UpdateFunc") {
					cbCall = call
				}
			}
		})
		if cbCall == nil {
			continue
		}
		// an expiry the callback supplies is never thrown away: once the callback has returned, a
		// success return that skips the write-back is reachable only where the callback's expiry
		// pointer was found nil ("cancelled" = no body, no expiry, no delete)
		{
			var expPtr ssa.Value
			if cbCall.Referrers() != nil {
				for _, ref := range *cbCall.Referrers() {
					if ex, ok := ref.(*ssa.Extract); ok {
						if pt, ok := ex.Type().Underlying().(*types.Pointer); ok {
							if b, ok := pt.Elem().Underlying().(*types.Basic); ok && b.Kind() == types.Uint32 {
								expPtr = ex
							}
						}
					}
				}
			}
			if expPtr != nil {
				c := newCut()
				for _, w := range lp.Writes {
					site := w
					if v, ok := lp.Via[w]; ok {
						site = v
					}
					if site.Parent() == fn {
						c.cutBlock(site.Block())
					}
				}
				for _, iff := range allIfs(fn) {
					cd := condOf(iff)
					eq, ok := cd.equalEdge()
					if !ok {
						continue
					}
					if isNilConst(cd.Y) && stripConv(cd.X) == expPtr || isNilConst(cd.X) && stripConv(cd.Y) == expPtr {
						c.cutEdge(iff.Block(), eq)
					}
				}
				// a "cancelled" flag computed by a helper that is handed the expiry pointer and
				// can say true only where that pointer is nil
				for _, iff := range allIfs(fn) {
					cd := condOf(iff)
					if cd.Op != token.ILLEGAL || cd.X == nil {
						continue
					}
					v := stripConv(cd.X)
					idx := 0
					if ex, ok := v.(*ssa.Extract); ok {
						v, idx = ex.Tuple, ex.Index
					}
					call, ok := v.(*ssa.Call)
					if !ok {
						continue
					}
					callee := call.Common().StaticCallee()
					if callee == nil || !m.inPkg(callee) || len(callee.Blocks) == 0 {
						continue
					}
					for pi, a := range call.Common().Args {
						if stripConv(a) == expPtr && pi < len(callee.Params) && m.trueOnlyWhereNil(callee, idx, callee.Params[pi]) {
							c.cutEdge(iff.Block(), cd.succWhen(true))
						}
					}
				}
				reach := reachableFromSuccs(cbCall.Block(), c)
				bad := ""
				for _, ret := range returnsOf(fn) {
					if lp.Outer != nil && lp.Retry < len(ret.Results) {
						if cst, ok := ret.Results[lp.Retry].(*ssa.Const); ok && cst.Value != nil && constant.BoolVal(cst.Value) {
							continue // "go round again" is not a result
						}
					}
					if reach[ret.Block().Index] && !m.isFailureReturn(ret) {
						bad = m.instrPos(ret)
					}
				}
				pos := m.instrPos(cbCall)
				if bad != "" {
					pos = bad
				}
				r.check(bad == "", rule, m.declName(fn)+" / callback's expiry is never discarded", pos, "after the callback, a success return without a write-back is reachable only where the callback's expiry pointer is nil", "the loop can return success without writing although the callback supplied an expiry (the 'cancelled' test ignores the expiry result): an Update that only sets or lengthens the expiry is silently dropped, the stored expiry and the timer keep their old values")
			}
		}
		for _, w := range lp.Writes {
			// the []byte / any body argument of the write-back
			for _, arg := range w.Common().Args {
				v := stripConv(arg)
				if _, isSlice := v.Type().Underlying().(*types.Slice); !isSlice {
					continue
				}
				fromRead, fromCb := false, false
				var walk func(x ssa.Value, d int)
				seen := map[ssa.Value]bool{}
				walk = func(x ssa.Value, d int) {
					x = stripConv(x)
					if d > 6 || seen[x] {
						return
					}
					seen[x] = true
					switch y := x.(type) {
					case *ssa.Phi:
						for _, e := range y.Edges {
							walk(e, d+1)
						}
					case *ssa.Extract:
						if y.Tuple == ssa.Value(cbCall) {
							fromCb = true
						}
						for _, rd := range lp.Reads {
							if rd.Value() != nil && y.Tuple == ssa.Value(rd.Value()) {
								fromRead = true
							}
						}
					}
				}
				walk(v, 0)
				if !fromCb {
					continue
				}
				r.check(fromRead, rule, m.declName(fn)+" / callback may leave the body alone", m.instrPos(w), "the body written back is the callback's, or the body that was read when the callback returns none", "the body written back is always the callback's result: a callback that only changes the expiry (updated == nil, delete == false, which the UpdateFunc contract defines as 'leave the value alone') makes the write store a nil body, i.e. tombstones the document")
			}
		}
	}
	// sub-document writer: a caller-supplied CAS is compared with the read CAS before the write
	for _, lp := range loops {
		fn := lp.Fn
		var P *ssa.Parameter
		for _, p := range fn.Params[1:] {
			if b, ok := p.Type().Underlying().(*types.Basic); ok && b.Kind() == types.Uint64 {
				P = p
			}
		}
		if P == nil {
			continue
		}
		name := m.declName(fn)
		c := newCut()
		found := false
		for _, iff := range allIfs(fn) {
			cd := condOf(iff)
			eq, ok := cd.equalEdge()
			if !ok {
				continue
			}
			if isZeroConst(cd.Y) && stripConv(cd.X) == ssa.Value(P) || isZeroConst(cd.X) && stripConv(cd.Y) == ssa.Value(P) {
				c.cutEdge(iff.Block(), eq)
				continue
			}
			var other ssa.Value
			if stripConv(cd.X) == ssa.Value(P) {
				other = cd.Y
			} else if stripConv(cd.Y) == ssa.Value(P) {
				other = cd.X
			}
			if other != nil && m.casSource(other, fn, lp, 0, map[ssa.Value]bool{}) == "read" {
				c.cutEdge(iff.Block(), eq)
				found = true
			}
		}
		// ... or by a read helper that is handed the supplied CAS and succeeds only where it is zero
		// or equals the CAS the helper read: the write then lies behind the helper's success
		m.eachCall(fn, func(hc ssa.CallInstruction) {
			call, ok := hc.(*ssa.Call)
			h := hc.Common().StaticCallee()
			if !ok || h == nil || !m.inPkg(h) || len(h.Blocks) == 0 || h == fn {
				return
			}
			for pi, a := range call.Common().Args {
				if stripConv(a) != ssa.Value(P) || pi >= len(h.Params) || !m.succeedsOnlyWhereCasMatches(h, h.Params[pi]) {
					continue
				}
				herr := writeErrValue(call)
				if herr == nil {
					continue
				}
				for _, iff := range allIfs(fn) {
					cd := condOf(iff)
					eq, ok := cd.equalEdge()
					if !ok {
						continue
					}
					if isNilConst(cd.Y) && stripConv(cd.X) == herr || isNilConst(cd.X) && stripConv(cd.Y) == herr {
						c.cutEdge(iff.Block(), eq)
						found = true
					}
				}
			}
		})
		for _, w := range lp.Writes {
			r.check(found && !entryReach(fn, c)[w.Block().Index], rule, name+" / supplied CAS honoured", m.instrPos(w), "a non-zero caller-supplied CAS must equal the CAS just read before the write-back is attempted", "the caller-supplied CAS is not compared with the CAS that was read before writing back")
		}
	}
}

func writeErrValue(w ssa.CallInstruction) ssa.Value {
	v := w.Value()
	if v == nil || v.Referrers() == nil {
		return nil
	}
	for _, ref := range *v.Referrers() {
		if ex, ok := ref.(*ssa.Extract); ok {
			if types.Identical(ex.Type(), types.Universe.Lookup("error").Type()) {
				return ex
			}
		}
	}
	return nil
}

// casSource classifies where a CAS argument comes from: "read" (a result of one of the
// loop's reads), "caller-supplied previous document", or a description of something else.
func (m *Model) casSource(v ssa.Value, fn *ssa.Function, lp *rmwLoop, depth int, seen map[ssa.Value]bool) string {
	if depth > 10 || seen[v] {
		return "a loop-carried value"
	}
	seen[v] = true
	v = stripConv(v)
	isRead := func(x ssa.Value) bool {
		for _, rd := range lp.Reads {
			if rd.Value() != nil && ssa.Value(rd.Value()) == x {
				return true
			}
		}
		return false
	}
	switch x := v.(type) {
	case *ssa.Extract:
		if isRead(x.Tuple) {
			return "read"
		}
		return "a result of " + x.Tuple.Name()
	case *ssa.Call:
		if isRead(x) {
			return "read"
		}
	case *ssa.Phi:
		kinds := map[string]bool{}
		for _, e := range x.Edges {
			kinds[m.casSource(e, fn, lp, depth+1, seen)] = true
		}
		delete(kinds, "a loop-carried value")
		if len(kinds) == 1 {
			for k := range kinds {
				return k
			}
		}
		if kinds["read"] && len(kinds) == 2 && kinds["read-or-supplied"] {
			return "read"
		}
		var ks []string
		for k := range kinds {
			ks = append(ks, k)
		}
		sort.Strings(ks)
		return strings.Join(ks, " or ")
	case *ssa.UnOp:
		if x.Op == token.MUL {
			switch cell := x.X.(type) {
			case *ssa.Alloc:
				// cell written from the read's results
				kinds := map[string]bool{}
				for _, ref := range *cell.Referrers() {
					if st, ok := ref.(*ssa.Store); ok && st.Addr == cell {
						kinds[m.casSource(st.Val, fn, lp, depth+1, seen)] = true
					}
				}
				if len(kinds) == 1 {
					for k := range kinds {
						return k
					}
				}
			case *ssa.FieldAddr:
				// previous.Cas: the struct is either the read's result or the caller-supplied previous document
				return m.docSource(cell.X, fn, lp, depth+1, seen)
			}
		}
	case *ssa.Field:
		return m.casSource(x.X, fn, lp, depth+1, seen)
	case *ssa.Parameter:
		if av, ok := lp.actualOf(x); ok {
			return m.casSource(av, fn, lp, depth+1, seen)
		}
		return "the caller's own argument " + x.Name()
	case *ssa.Const:
		return "the constant " + x.String()
	}
	return "an unrelated value (" + v.Name() + ")"
}

// docSource: a pointer to a document struct: &local filled from the read, or a parameter
// (first iteration of WriteUpdateWithXattrs: documented as caller-supplied).
func (m *Model) docSource(p ssa.Value, fn *ssa.Function, lp *rmwLoop, depth int, seen map[ssa.Value]bool) string {
	if depth > 10 || seen[p] {
		return "a loop-carried value"
	}
	seen[p] = true
	p = stripConv(p)
	switch x := p.(type) {
	case *ssa.Alloc:
		for _, ref := range *x.Referrers() {
			if st, ok := ref.(*ssa.Store); ok && st.Addr == x {
				return m.casSource(st.Val, fn, lp, depth+1, seen)
			}
		}
	case *ssa.Phi:
		kinds := map[string]bool{}
		for _, e := range x.Edges {
			kinds[m.docSource(e, fn, lp, depth+1, seen)] = true
		}
		delete(kinds, "a loop-carried value")
		delete(kinds, "nil")
		if len(kinds) == 1 {
			for k := range kinds {
				return k
			}
		}
		if kinds["read"] && kinds["read"] == true && len(kinds) == 2 {
			for k := range kinds {
				if strings.HasPrefix(k, "caller-supplied previous") {
					return "read" // read, or the documented caller-supplied previous document on the first iteration
				}
			}
		}
		var ks []string
		for k := range kinds {
			ks = append(ks, k)
		}
		sort.Strings(ks)
		return strings.Join(ks, " or ")
	case *ssa.Parameter:
		if av, ok := lp.actualOf(x); ok {
			return m.docSource(av, fn, lp, depth+1, seen)
		}
		if isPtrToNamed(x.Type(), sgbucketPath, "BucketDocument") {
			return "caller-supplied previous document"
		}
		return "the caller's own argument " + x.Name()
	case *ssa.Const:
		return "nil"
	case *ssa.Extract:
		// the pointer a read helper of the loop returns
		for _, rd := range lp.Reads {
			if rd.Value() != nil && ssa.Value(rd.Value()) == x.Tuple {
				return "read"
			}
		}
	case *ssa.Call:
		for _, rd := range lp.Reads {
			if rd.Value() != nil && rd.Value() == x {
				return "read"
			}
		}
	case *ssa.UnOp:
		if x.Op == token.MUL {
			if al, ok := x.X.(*ssa.Alloc); ok {
				kinds := map[string]bool{}
				for _, ref := range *al.Referrers() {
					if st, ok := ref.(*ssa.Store); ok && st.Addr == al {
						kinds[m.docSource(st.Val, fn, lp, depth+1, seen)] = true
					}
				}
				delete(kinds, "nil")
				delete(kinds, "a loop-carried value")
				if len(kinds) == 1 {
					for k := range kinds {
						return k
					}
				}
				if kinds["read"] && len(kinds) == 2 {
					return "read"
				}
			}
		}
	}
	return "an unrelated value (" + p.Name() + ")"
}

// loopsOnlyOnCasError: after write w, the loop's back edge is taken only when a type
// assertion / errors.Is / errors.As on w's error succeeded.
func (m *Model) loopsOnlyOnCasError(fn *ssa.Function, w ssa.CallInstruction, errV ssa.Value) bool {
	// find tests on errV: TypeAssert(errV, CasMismatchErr) commaok, errors.Is(errV, ErrKeyExists)
	c := newCut()
	found := false
	for _, iff := range allIfs(fn) {
		cond := iff.Cond
		neg := false
		for {
			if u, ok := cond.(*ssa.UnOp); ok && u.Op == token.NOT {
				neg = !neg
				cond = u.X
				continue
			}
			break
		}
		isCasTest := false
		if ex, ok := cond.(*ssa.Extract); ok {
			if ta, ok := ex.Tuple.(*ssa.TypeAssert); ok && flowsThroughPhi(errV, ta.X) && isNamed(ta.AssertedType, sgbucketPath, "CasMismatchErr") {
				isCasTest = true
			}
		}
		if call, ok := cond.(*ssa.Call); ok {
			if f := call.Common().StaticCallee(); f != nil && f.Pkg != nil && f.Pkg.Pkg.Path() == "errors" && (f.Name() == "Is" || f.Name() == "As") && flowsThroughPhi(errV, call.Common().Args[0]) {
				isCasTest = true
			}
			if f := call.Common().StaticCallee(); f != nil && m.isCasErrorPredicate(f) && flowsThroughPhi(errV, call.Common().Args[0]) {
				isCasTest = true
			}
		}
		// `x && <cas test>`: the condition block is a phi of false and the test
		if phi, ok := cond.(*ssa.Phi); ok && !neg {
			all, any := true, false
			for _, e := range phi.Edges {
				e = stripConv(e)
				if k, ok := e.(*ssa.Const); ok && k.Value != nil && k.Value.Kind() == constant.Bool && !constant.BoolVal(k.Value) {
					continue
				}
				isT := false
				if ex, ok := e.(*ssa.Extract); ok {
					if ta, ok := ex.Tuple.(*ssa.TypeAssert); ok && ex.Index == 1 && flowsThroughPhi(errV, ta.X) && isNamed(ta.AssertedType, sgbucketPath, "CasMismatchErr") {
						isT = true
					}
				}
				if call, ok := e.(*ssa.Call); ok && len(call.Common().Args) > 0 {
					f := call.Common().StaticCallee()
					if f != nil && f.Pkg != nil && f.Pkg.Pkg.Path() == "errors" && (f.Name() == "Is" || f.Name() == "As") && flowsThroughPhi(errV, call.Common().Args[0]) {
						isT = true
					}
					if f != nil && m.isCasErrorPredicate(f) && flowsThroughPhi(errV, call.Common().Args[0]) {
						isT = true
					}
				}
				if isT {
					any = true
				} else {
					all = false
				}
			}
			if all && any {
				isCasTest = true
			}
		}
		if !isCasTest {
			continue
		}
		found = true
		// cut the edge taken when the test is TRUE (that is the legitimate retry edge)
		t := iff.Block().Succs[0]
		if neg {
			t = iff.Block().Succs[1]
		}
		c.cutEdge(iff.Block(), t)
	}
	if !found {
		return false
	}
	// with the legitimate retry edges cut, no path from the write may lead back to it
	// (except through an err == nil success edge that leaves the loop)
	return !instrReachable(w, w, c)
}

// ---------------------------------------------------------------- R-FLAGS

func (m *Model) ruleFLAGS(r *Results) {
	const rule = "R-FLAGS"
	// option structs: package-local struct types whose fields are all bool, passed by value
	for _, nm := range m.SSA.Pkg.Scope().Names() {
		tn, ok := m.SSA.Pkg.Scope().Lookup(nm).(*types.TypeName)
		if !ok {
			continue
		}
		st, ok := tn.Type().Underlying().(*types.Struct)
		if !ok || st.NumFields() == 0 {
			continue
		}
		allBool := true
		for i := 0; i < st.NumFields(); i++ {
			if !types.Identical(st.Field(i).Type(), types.Typ[types.Bool]) {
				allBool = false
			}
		}
		if !allBool {
			continue
		}
		// fields that some caller sets
		set := map[int]string{}
		for _, fn := range m.Funcs {
			for _, b := range fn.Blocks {
				for _, in := range b.Instrs {
					if s, ok := in.(*ssa.Store); ok {
						if fa, ok := s.Addr.(*ssa.FieldAddr); ok {
							if t := fa.X.Type().Underlying().(*types.Pointer).Elem(); t == tn.Type() {
								if c, isC := s.Val.(*ssa.Const); !isC || c.Value == nil || constant.BoolVal(c.Value) {
									set[fa.Field] = m.instrPos(s)
								}
							}
						}
					}
				}
			}
		}
		for idx, where := range set {
			f := st.Field(idx)
			key := tn.Name() + "." + f.Name()
			// is the flag read in a branch that guards an error return?
			guarded := false
			read := false
			for _, fn := range m.Funcs {
				for _, iff := range allIfs(fn) {
					readsFlag := false
					var visit func(v ssa.Value, d int)
					visit = func(v ssa.Value, d int) {
						if d > 4 {
							return
						}
						switch x := v.(type) {
						case *ssa.Field:
							if x.X.Type() == tn.Type() && x.Field == idx {
								readsFlag = true
							}
						case *ssa.UnOp:
							if fa, ok := x.X.(*ssa.FieldAddr); ok && fa.Field == idx {
								if pt, ok := fa.X.Type().Underlying().(*types.Pointer); ok && pt.Elem() == tn.Type() {
									readsFlag = true
								}
							}
							visit(x.X, d+1)
						case *ssa.BinOp:
							visit(x.X, d+1)
							visit(x.Y, d+1)
						}
					}
					visit(iff.Cond, 0)
					if !readsFlag {
						continue
					}
					read = true
					// some return with a non-nil error is control dependent on this If
					for _, ret := range returnsOf(fn) {
						if len(ret.Results) == 0 {
							continue
						}
						last := ret.Results[len(ret.Results)-1]
						if isNilConst(last) || !types.Identical(last.Type(), types.Universe.Lookup("error").Type()) {
							continue
						}
						for _, ct := range controllingConds(fn, ret.Block()) {
							if ct.If == iff {
								guarded = true
							}
						}
					}
				}
			}
			switch {
			case guarded:
				r.ok(rule, key, where, "flag set by a caller is tested in a branch that guards an error return")
			case read:
				r.bad(rule, key, where, "option %s is set by a caller and read, but no error return depends on it: the existence check it stands for is not enforced", f.Name())
			default:
				r.bad(rule, key, where, "option %s is set by a caller but never consulted by the function that receives it", f.Name())
			}
		}
	}
	// a body write that carries no expected CAS is insert-only: a call of a writer that takes a
	// body (pointer to a package struct), an expected CAS by pointer and an all-bool option struct,
	// with a body and a nil CAS, sets one of the options to the constant true - whether the write
	// may replace a live document cannot depend on a runtime value
	allBoolStruct := func(t types.Type) bool {
		st, ok := t.Underlying().(*types.Struct)
		if !ok || st.NumFields() == 0 {
			return false
		}
		for i := 0; i < st.NumFields(); i++ {
			if !types.Identical(st.Field(i).Type(), types.Typ[types.Bool]) {
				return false
			}
		}
		return true
	}
	for _, w := range m.Funcs {
		if w.Parent() != nil || !m.inPkg(w) || w.Blocks == nil {
			continue
		}
		pc, pb, po := -1, -1, -1
		for i, p := range w.Params {
			t := p.Type()
			if pt, ok := t.(*types.Pointer); ok {
				if b, ok := pt.Elem().Underlying().(*types.Basic); ok && b.Kind() == types.Uint64 && pc < 0 {
					pc = i
				}
				if n, ok := pt.Elem().(*types.Named); ok && n.Obj().Pkg() == m.Pkg.Types && i > 0 && pb < 0 {
					if _, isSt := n.Underlying().(*types.Struct); isSt && !allBoolStruct(n) {
						pb = i
					}
				}
			} else if n, ok := t.(*types.Named); ok && n.Obj().Pkg() == m.Pkg.Types && allBoolStruct(n) {
				po = i
			}
		}
		if pc < 0 || pb < 0 || po < 0 {
			continue
		}
		for _, cl := range m.staticCallersOf(w) {
			args := cl.Common().Args
			if len(args) != len(w.Params) || !isNilConst(stripConv(args[pc])) || isNilConst(stripConv(args[pb])) {
				continue
			}
			constTrue := false
			if ld, ok := stripConv(args[po]).(*ssa.UnOp); ok && ld.Op == token.MUL {
				if al, ok := ld.X.(*ssa.Alloc); ok && al.Referrers() != nil {
					for _, ref := range *al.Referrers() {
						fa, ok := ref.(*ssa.FieldAddr)
						if !ok || fa.Referrers() == nil {
							continue
						}
						var stores []*ssa.Store
						for _, r2 := range *fa.Referrers() {
							if st, ok := r2.(*ssa.Store); ok && st.Addr == ssa.Value(fa) {
								stores = append(stores, st)
							}
						}
						if len(stores) == 1 {
							if k, ok := stores[0].Val.(*ssa.Const); ok && k.Value != nil && k.Value.Kind() == constant.Bool && constant.BoolVal(k.Value) {
								constTrue = true
							}
						}
					}
				}
			}
			r.check(constTrue, rule, m.declName(cl.Parent())+" / body write without an expected CAS is insert-only", m.instrPos(cl), "the call passes a body and no expected CAS, with an option that is the constant true", "the call hands "+w.Name()+" a body and no expected CAS (nil) while none of its options is the constant true: whether this unconditional write may replace a live document now depends on a runtime value (or on nothing)")
		}
	}
	r.floor(rule, 3)
}

// ---------------------------------------------------------------- R-READ-NULL

// The KV read helper maps a NULL body to the missing error on its no-error path, and the
// existence query excludes rows without a body.
func (m *Model) ruleREADNULL(r *Results) {
	const rule = "R-READ-NULL"
	m.sitesHealthy(r, rule)
	n := 0
	for _, sc := range m.scanCalls() {
		if sc.Site == nil || sc.Dests == nil {
			continue
		}
		fn := sc.Fn
		if fn.Parent() != nil {
			continue
		}
		for _, v := range sc.Site.Variants {
			st := v.Stmt()
			if st == nil || st.Select == nil || len(st.Select.From) != 1 || lower(st.Select.From[0].Name) != "documents" {
				continue
			}
			for i, col := range st.Select.Cols {
				if !isCol(col.Expr, "value") || i >= len(sc.Dests) {
					continue
				}
				// is the destination a named result ([]byte) of a function whose results are (val, cas, ..., err)?
				// ... or a field of a local struct that is returned as a whole (a small row type)
				dest := stripConv(sc.Dests[i])
				var base ssa.Value = dest
				if fa, isFA := dest.(*ssa.FieldAddr); isFA {
					base = stripConv(fa.X)
				}
				if _, ok := base.(*ssa.Alloc); !ok {
					continue
				}
				isResult := false
				for _, ret := range returnsOf(fn) {
					for _, res := range ret.Results {
						if ld, ok := res.(*ssa.UnOp); ok && ld.Op == token.MUL && (sameCell(ld.X, dest) || stripConv(ld.X) == base) {
							isResult = true
						}
					}
				}
				if !isResult || fn.Signature.Results().Len() < 2 {
					continue
				}
				// only the key-value read helper: takes the queryable handle as a parameter
				takesHandle := false
				for _, p := range fn.Params {
					if p.Type() == m.A.Queryable {
						takesHandle = true
					}
				}
				if !takesHandle {
					continue
				}
				n++
				// there must be an If comparing the loaded value with nil whose equal-edge stores a non-nil error
				found := false
				for _, iff := range allIfs(fn) {
					cd := condOf(iff)
					eq, ok := cd.equalEdge()
					if !ok || !(isNilConst(cd.Y) || isNilConst(cd.X)) {
						continue
					}
					other := cd.X
					if isNilConst(cd.X) {
						other = cd.Y
					}
					if ld, ok := stripConv(other).(*ssa.UnOp); ok && ld.Op == token.MUL && sameCell(ld.X, dest) {
						// on the equal edge, the error result gets a MissingError
						for _, in := range eq.Instrs {
							if v, ok := in.(ssa.Value); ok && m.makesNamedError(v, "MissingError", 0) {
								found = true
							}
						}
					}
				}
				r.check(found, rule, m.declName(fn)+" / NULL body is missing", m.instrPos(sc.Call), "a row whose body is NULL is reported as missing", "the key-value read helper returns success for a row without a body (tombstone): deleted documents would read back as empty documents")
			}
		}
	}
	if n == 0 {
		r.undecided(rule, "read helper", "-", "no key-value read helper (SELECT value ... scanned into a result) found")
	}
}

// flowsThroughPhi: does value src reach dst through phis and conversions only?
func flowsThroughPhi(src, dst ssa.Value) bool {
	seen := map[ssa.Value]bool{}
	var rec func(v ssa.Value) bool
	rec = func(v ssa.Value) bool {
		v = stripConv(v)
		if v == src {
			return true
		}
		if seen[v] {
			return false
		}
		seen[v] = true
		if phi, ok := v.(*ssa.Phi); ok {
			for _, e := range phi.Edges {
				if rec(e) {
					return true
				}
			}
		}
		return false
	}
	return rec(dst)
}

// isCasErrorPredicate: a package function func(error) bool that returns true only when its
// argument passed a CAS-mismatch type test or an errors.Is/As test.
func (m *Model) isCasErrorPredicate(f *ssa.Function) bool {
	if !m.inPkg(f) || len(f.Blocks) == 0 || len(f.Params) != 1 || f.Signature.Results().Len() != 1 {
		return false
	}
	if !types.Identical(f.Params[0].Type(), types.Universe.Lookup("error").Type()) || !types.Identical(f.Signature.Results().At(0).Type(), types.Typ[types.Bool]) {
		return false
	}
	P := f.Params[0]
	isErrTestCall := func(v ssa.Value) bool {
		call, ok := stripConv(v).(*ssa.Call)
		if !ok {
			return false
		}
		g := call.Common().StaticCallee()
		return g != nil && g.Pkg != nil && g.Pkg.Pkg.Path() == "errors" && (g.Name() == "Is" || g.Name() == "As") && stripConv(call.Common().Args[0]) == ssa.Value(P)
	}
	var okValue func(v ssa.Value, blk *ssa.BasicBlock, depth int) bool
	okValue = func(v ssa.Value, blk *ssa.BasicBlock, depth int) bool {
		v = stripConv(v)
		if depth > 4 {
			return false
		}
		switch x := v.(type) {
		case *ssa.Const:
			if x.Value == nil || !constant.BoolVal(x.Value) {
				return true // false: never asks for a retry
			}
			// true: only under a passed test
			for _, ct := range controllingConds(f, blk) {
				cond := ct.If.Cond
				if ex, ok := cond.(*ssa.Extract); ok && ct.Branch {
					if ta, ok := ex.Tuple.(*ssa.TypeAssert); ok && stripConv(ta.X) == ssa.Value(P) && isNamed(ta.AssertedType, sgbucketPath, "CasMismatchErr") {
						return true
					}
				}
				if isErrTestCall(cond) && ct.Branch {
					return true
				}
			}
			return false
		case *ssa.Call:
			return isErrTestCall(x)
		case *ssa.Extract:
			if ta, ok := x.Tuple.(*ssa.TypeAssert); ok && x.Index == 1 {
				return stripConv(ta.X) == ssa.Value(P) && isNamed(ta.AssertedType, sgbucketPath, "CasMismatchErr")
			}
		case *ssa.Phi:
			for i, e := range x.Edges {
				if !okValue(e, x.Block().Preds[i], depth+1) {
					return false
				}
			}
			return true
		}
		return false
	}
	for _, ret := range returnsOf(f) {
		if !okValue(ret.Results[0], ret.Block(), 0) {
			return false
		}
	}
	return true
}

// isDocWriter: a package-level function that (transitively) runs the CAS allocator or the
// with-meta writer, i.e. performs a document mutation.
func (m *Model) isDocWriter(f *ssa.Function) bool {
	if f == nil || !m.inPkg(f) || f.Parent() != nil || len(f.Blocks) == 0 {
		return false
	}
	reach := m.reachableLocal(f)
	return m.A.Allocator != nil && reach[m.A.Allocator] || m.A.WithMetaFn != nil && reach[m.A.WithMetaFn]
}

// sqlZeroCasUnguarded: with the CFG restricted to "expected CAS == 0 was supplied", which
// UPDATE statement texts can still reach the site without a conjunct cas = <expected> and
// without a guard that admits only rows without a body? (INSERTs are governed by R-INSERT-GUARD.)
// sqlLiveStmts: the statement variants of site s that can still be executed in K once the edges
// of cut c0 are removed (the text is re-folded over the cut CFG).
func (m *Model) sqlLiveStmts(s *SQLSite, K *ssa.Function, c0 *cut, isP func(ssa.Value) bool, asm casAssume) []*sqlp.Stmt {
	q := s.textArg()
	reach := entryReach(K, c0)
	if !reach[s.Call.Block().Index] {
		return nil
	}
	ev := newStrEval(m)
	hcuts := map[ssa.CallInstruction]*cut{}
	hreach := map[ssa.CallInstruction]map[int]bool{}
	helperCut := func(fr *frame) (*cut, map[int]bool) {
		if hc, ok := hcuts[fr.call]; ok {
			return hc, hreach[fr.call]
		}
		hc := newCut()
		m.helperCutUnder(fr, isP, asm, hc)
		hcuts[fr.call], hreach[fr.call] = hc, entryReach(fr.fn, hc)
		return hc, hreach[fr.call]
	}
	ev.liveRet = func(ret *ssa.Return, fr *frame) bool {
		if fr.caller == nil {
			return true
		}
		_, hr := helperCut(fr)
		return hr[ret.Block().Index]
	}
	ev.liveEdge = func(pred, blk *ssa.BasicBlock, fr *frame) bool {
		if fr.caller != nil {
			hc, hr := helperCut(fr)
			return hr[pred.Index] && !hc.edges[edge{pred.Index, blk.Index}]
		}
		if fr.fn != K {
			return true
		}
		if !reach[pred.Index] || c0.edges[edge{pred.Index, blk.Index}] {
			return false
		}
		if phi, _ := phiIf(pred); phi != nil {
			live := false
			for i, pp := range pred.Preds {
				if !reach[pp.Index] || c0.edges[edge{pp.Index, pred.Index}] || c0.triples[[3]int{pp.Index, pred.Index, blk.Index}] {
					continue
				}
				if forced, ok := constBoolOutcome(pred, i); ok && forced != blk {
					continue
				}
				live = true
			}
			return live
		}
		return true
	}
	texts, ok := ev.eval(q, s.textFrame(K))
	if !ok {
		return nil
	}
	var out []*sqlp.Stmt
	for _, t := range texts {
		if st, err := sqlp.Parse(t); err == nil {
			out = append(out, st)
		}
	}
	return out
}

func (m *Model) sqlZeroCasUnguarded(s *SQLSite, K *ssa.Function, c0 *cut, isP func(ssa.Value) bool) []string {
	if len(c0.edges) == 0 && len(c0.triples) == 0 {
		return nil // the closure never distinguishes the zero CAS: nothing to assume
	}
	q := s.textArg()
	reach := entryReach(K, c0)
	if !reach[s.Call.Block().Index] {
		return nil
	}
	ev := newStrEval(m)
	hcuts := map[ssa.CallInstruction]*cut{}
	hreach := map[ssa.CallInstruction]map[int]bool{}
	helperCut := func(fr *frame) (*cut, map[int]bool) {
		if hc, ok := hcuts[fr.call]; ok {
			return hc, hreach[fr.call]
		}
		hc := newCut()
		m.helperCutUnder(fr, isP, casAssume{pZero: 1}, hc)
		hcuts[fr.call], hreach[fr.call] = hc, entryReach(fr.fn, hc)
		return hc, hreach[fr.call]
	}
	ev.liveRet = func(ret *ssa.Return, fr *frame) bool {
		if fr.caller == nil {
			return true
		}
		_, hr := helperCut(fr)
		return hr[ret.Block().Index]
	}
	ev.liveEdge = func(pred, blk *ssa.BasicBlock, fr *frame) bool {
		if fr.caller != nil {
			hc, hr := helperCut(fr)
			return hr[pred.Index] && !hc.edges[edge{pred.Index, blk.Index}]
		}
		if fr.fn != K {
			return true
		}
		if !reach[pred.Index] || c0.edges[edge{pred.Index, blk.Index}] {
			return false
		}
		if phi, _ := phiIf(pred); phi != nil {
			live := false
			for i, pp := range pred.Preds {
				if !reach[pp.Index] || c0.edges[edge{pp.Index, pred.Index}] || c0.triples[[3]int{pp.Index, pred.Index, blk.Index}] {
					continue
				}
				if forced, ok := constBoolOutcome(pred, i); ok && forced != blk {
					continue
				}
				live = true
			}
			return live
		}
		return true
	}
	texts, ok := ev.eval(q, s.textFrame(K))
	if !ok {
		return nil
	}
	var out []string
	for _, t := range texts {
		st, err := sqlp.Parse(t)
		if err != nil || st.Kind != sqlp.SUpdate {
			continue
		}
		w := writeInfo(st)
		if w == nil {
			continue
		}
		guarded := false
		for _, cj := range w.Where {
			if p := colEqParam(cj, "cas"); p != nil {
				if b, ok := s.bindingFor(p); ok && isP(b.V) {
					guarded = true
				}
			}
			if noBodyTest(cj) {
				guarded = true
			}
		}
		if !guarded {
			out = append(out, st.Shape())
		}
	}
	return uniq(out)
}

// sameVariable: two SSA values can be the same source variable: equal, loads of the same cell,
// or phis that share a leaf (`if m == nil { m = new }` makes a phi of the variable).
func sameVariable(a, b ssa.Value) bool {
	leaves := func(v ssa.Value) map[ssa.Value]bool {
		out := map[ssa.Value]bool{}
		var walk func(v ssa.Value, d int)
		walk = func(v ssa.Value, d int) {
			v = stripConv(v)
			if d > 5 || out[v] {
				return
			}
			if phi, ok := v.(*ssa.Phi); ok {
				out[v] = true
				for _, e := range phi.Edges {
					walk(e, d+1)
				}
				return
			}
			if ld, ok := v.(*ssa.UnOp); ok && ld.Op == token.MUL {
				out[ld.X] = true
				return
			}
			out[v] = true
		}
		walk(v, 0)
		return out
	}
	la, lb := leaves(a), leaves(b)
	for v := range la {
		if lb[v] {
			return true
		}
	}
	return false
}

// bodyRetriesOnlyOnCasError: for a loop body function, "go round again" (the bool result being
// true) is reachable after the write only through the true edge of a CAS-mismatch test of the
// write's error.
func (m *Model) bodyRetriesOnlyOnCasError(lp *rmwLoop, w ssa.CallInstruction, errV ssa.Value) bool {
	fn := lp.Fn
	c := newCut()
	found := false
	for _, iff := range allIfs(fn) {
		cond := iff.Cond
		neg := false
		for {
			if u, ok := cond.(*ssa.UnOp); ok && u.Op == token.NOT {
				neg = !neg
				cond = u.X
				continue
			}
			break
		}
		isCasTest := false
		if ex, ok := cond.(*ssa.Extract); ok {
			if ta, ok := ex.Tuple.(*ssa.TypeAssert); ok && flowsThroughPhi(errV, ta.X) && isNamed(ta.AssertedType, sgbucketPath, "CasMismatchErr") {
				isCasTest = true
			}
		}
		if call, ok := cond.(*ssa.Call); ok {
			if f := call.Common().StaticCallee(); f != nil && f.Pkg != nil && f.Pkg.Pkg.Path() == "errors" && (f.Name() == "Is" || f.Name() == "As") && flowsThroughPhi(errV, call.Common().Args[0]) {
				isCasTest = true
			}
			if f := call.Common().StaticCallee(); f != nil && m.isCasErrorPredicate(f) && flowsThroughPhi(errV, call.Common().Args[0]) {
				isCasTest = true
			}
		}
		if !isCasTest {
			continue
		}
		found = true
		t := iff.Block().Succs[0]
		if neg {
			t = iff.Block().Succs[1]
		}
		c.cutEdge(iff.Block(), t)
	}
	// the "go round again" result may also be computed as a value (`return 0, isMismatch && cas == 0,
	// err`): true only where the CAS test on the write's error came out true
	isCasValue := func(v ssa.Value) bool {
		v = stripConv(v)
		if ex, ok := v.(*ssa.Extract); ok && ex.Index == 1 {
			if ta, ok := ex.Tuple.(*ssa.TypeAssert); ok && flowsThroughPhi(errV, ta.X) && isNamed(ta.AssertedType, sgbucketPath, "CasMismatchErr") {
				return true
			}
		}
		if call, ok := v.(*ssa.Call); ok && len(call.Common().Args) > 0 {
			f := call.Common().StaticCallee()
			if f != nil && f.Pkg != nil && f.Pkg.Pkg.Path() == "errors" && (f.Name() == "Is" || f.Name() == "As") && flowsThroughPhi(errV, call.Common().Args[0]) {
				return true
			}
			if f != nil && m.isCasErrorPredicate(f) && flowsThroughPhi(errV, call.Common().Args[0]) {
				return true
			}
		}
		return false
	}
	var impliesCas func(v ssa.Value, d int) bool
	impliesCas = func(v ssa.Value, d int) bool {
		v = stripConv(v)
		if d > 4 {
			return false
		}
		if isCasValue(v) {
			return true
		}
		phi, ok := v.(*ssa.Phi)
		if !ok {
			return false
		}
		for i, e := range phi.Edges {
			if k, ok := stripConv(e).(*ssa.Const); ok && k.Value != nil && !constant.BoolVal(k.Value) {
				continue
			}
			if impliesCas(e, d+1) {
				continue
			}
			// the second operand of `casTest && x`: its block is entered only over the test's true edge
			pred := phi.Block().Preds[i]
			under := false
			for _, iff := range allIfs(fn) {
				if isCasValue(iff.Cond) {
					t := iff.Block().Succs[0]
					if t == pred || t.Dominates(pred) {
						under = true
					}
				}
			}
			if !under {
				return false
			}
		}
		return true
	}
	valueForm := false
	for _, ret := range returnsOf(fn) {
		if lp.Retry < len(ret.Results) && impliesCas(ret.Results[lp.Retry], 0) {
			valueForm = true
		}
	}
	if !found && !valueForm {
		return false
	}
	// with the legitimate retry edges cut, no "retry = true" return may be reachable from the write
	reach := reachableFromSuccs(w.Block(), c)
	reach[w.Block().Index] = true
	for _, ret := range returnsOf(fn) {
		if !reach[ret.Block().Index] || lp.Retry >= len(ret.Results) {
			continue
		}
		v := stripConv(ret.Results[lp.Retry])
		if k, ok := v.(*ssa.Const); ok && k.Value != nil && !constant.BoolVal(k.Value) {
			continue
		}
		if impliesCas(v, 0) {
			continue
		}
		if ret.Block() == w.Block() && indexIn(w.Block(), w) > indexIn(ret.Block(), ret) {
			continue
		}
		return false
	}
	return true
}

// ---------------------------------------------------------------- R-RETRY-STATE

// A retry loop re-runs the whole attempt on the newer version: nothing an abandoned attempt
// computed may reach the write-back of a later one.
func (m *Model) ruleRETRYSTATE(r *Results) {
	const rule = "R-RETRY-STATE"
	if m.A.CollectionType == nil {
		r.undecided(rule, "anchors", "-", "collection type unresolved")
		return
	}
	for _, lp := range m.rmwLoops() {
		fn := lp.Fn
		name := m.declName(lp.nameFn())
		// (a') no argument of the write-back carries state from an abandoned attempt: a value that
		// reaches the call through a phi at the loop's header whose back-edge input was computed
		// inside the loop (an expiry the callback returned for a version that was then rejected) is
		// written on behalf of an attempt that no longer exists; a reset to a constant (previous =
		// nil) is not state
		if lp.Outer == nil {
			for _, w := range lp.Writes {
				site := w
				if v, ok := lp.Via[w]; ok {
					site = v
				}
				if site.Parent() != fn {
					continue
				}
				bad := ""
				for ai, arg := range site.Common().Args {
					seen := map[ssa.Value]bool{}
					var walk func(v ssa.Value, d int)
					walk = func(v ssa.Value, d int) {
						v = stripConv(v)
						if v == nil || seen[v] || d > 6 {
							return
						}
						seen[v] = true
						switch x := v.(type) {
						case *ssa.Phi:
							hdr := x.Block()
							carried := false
							for i, p := range hdr.Preds {
								if !hdr.Dominates(p) {
									continue
								}
								e := stripConv(x.Edges[i])
								if _, isC := e.(*ssa.Const); isC || e == ssa.Value(x) {
									continue
								}
								carried = true
							}
							if carried && (hdr == site.Block() || hdr.Dominates(site.Block())) {
								name := x.Comment
								if name == "" {
									name = x.Name()
								}
								bad = fmt.Sprintf("argument %d (%s)", ai, name)
								return
							}
							for _, e := range x.Edges {
								walk(e, d+1)
							}
						case *ssa.BinOp:
							walk(x.X, d+1)
							walk(x.Y, d+1)
						case *ssa.UnOp:
							if x.Op != token.MUL {
								walk(x.X, d+1)
							}
						}
					}
					walk(arg, 0)
				}
				callee := site.Common().StaticCallee()
				cname := "?"
				if callee != nil {
					cname = callee.Name()
				}
				r.check(bad == "", rule, name+" / write-back via "+cname+" carries no state of an abandoned attempt", m.instrPos(site), "no argument of the write-back is a value carried round the retry loop", bad+" of the write-back is carried round the retry loop from a previous iteration: what an abandoned attempt computed (e.g. the expiry its callback returned) is written by the retry although this attempt's callback did not ask for it")
			}
		}
	}
	r.floor(rule, 3)
}

// casAssume: what a cut CFG of a CAS-guarded closure assumes about the caller's inputs
// (0 = nothing, 1 = true, 2 = false).
type casAssume struct {
	pZero     int // the expected CAS is 0
	addOnly   int // the insert-only option bit is set
	otherBits int // some other option bit is set
}

func tri(b bool) int {
	if b {
		return 1
	}
	return 2
}

// boolUnder evaluates a boolean value under an assumption: conditions that were computed ahead of
// the branch (`insert := addOnly || cas == 0`, possibly handed to a statement-choosing helper as a
// bool parameter) are followed through cells, parameters and the phis of && / ||.
func (m *Model) boolUnder(v ssa.Value, fr *frame, isP func(ssa.Value) bool, asm casAssume, depth int) (val, known bool) {
	if depth > 10 || v == nil {
		return false, false
	}
	rv, rfr := m.resolve(v, fr)
	v, fr = stripConv(rv), rfr
	switch x := v.(type) {
	case *ssa.Const:
		if x.Value != nil && x.Value.Kind() == constant.Bool {
			return constant.BoolVal(x.Value), true
		}
	case *ssa.UnOp:
		if x.Op == token.NOT {
			b, k := m.boolUnder(x.X, fr, isP, asm, depth+1)
			return !b, k
		}
	case *ssa.BinOp:
		if x.Op != token.EQL && x.Op != token.NEQ {
			return false, false
		}
		other := x.X
		if isZeroConst(x.X) {
			other = x.Y
		} else if !isZeroConst(x.Y) {
			return false, false
		}
		ro, _ := m.resolve(other, fr)
		isZero := 0
		if isP(ro) {
			isZero = asm.pZero
		} else if bo, ok := stripConv(ro).(*ssa.BinOp); ok && bo.Op == token.AND {
			if cst, ok := bo.Y.(*ssa.Const); ok && cst.Value != nil {
				bit := asm.otherBits
				if ao := m.sgConst("AddOnly"); ao != nil && constant.Compare(cst.Value, token.EQL, ao) {
					bit = asm.addOnly
				}
				switch bit {
				case 1:
					isZero = 2
				case 2:
					isZero = 1
				}
			}
		}
		if isZero == 0 {
			return false, false
		}
		return (isZero == 1) == (x.Op == token.EQL), true
	case *ssa.Phi:
		// the frame of the function the phi lives in
		gfr := fr
		for gfr != nil && gfr.fn != x.Parent() {
			gfr = gfr.caller
		}
		if gfr == nil {
			return false, false
		}
		// blocks of that function that cannot be reached under the assumption
		var unreach map[int]bool
		if depth < 4 {
			hc := newCut()
			for _, iff := range allIfs(x.Parent()) {
				if iff.Block() == x.Block() {
					continue
				}
				if b, k := m.boolUnder(iff.Cond, gfr, isP, asm, depth+4); k {
					dead := iff.Block().Succs[0]
					if b {
						dead = iff.Block().Succs[1]
					}
					hc.cutEdge(iff.Block(), dead)
				}
			}
			if len(hc.edges) > 0 {
				r := entryReach(x.Parent(), hc)
				unreach = map[int]bool{}
				for _, b := range x.Parent().Blocks {
					if !r[b.Index] {
						unreach[b.Index] = true
					}
				}
			}
		}
		have, res := false, false
		for i, e := range x.Edges {
			pred := x.Block().Preds[i]
			if unreach[pred.Index] {
				continue
			}
			if iff, ok := pred.Instrs[len(pred.Instrs)-1].(*ssa.If); ok {
				need := pred.Succs[0] == x.Block()
				if b, k := m.boolUnder(iff.Cond, gfr, isP, asm, depth+1); k && b != need {
					continue // this way into the join is not taken under the assumption
				}
			}
			b, k := m.boolUnder(e, gfr, isP, asm, depth+1)
			if !k {
				return false, false
			}
			if have && b != res {
				return false, false
			}
			have, res = true, b
		}
		return res, have
	}
	return false, false
}

// helperCutUnder: the cut of a statement-choosing helper's CFG (frame fr) under an assumption:
// every branch whose condition evaluates to a constant loses its other edge.
func (m *Model) helperCutUnder(fr *frame, isP func(ssa.Value) bool, asm casAssume, hc *cut) {
	for _, iff := range allIfs(fr.fn) {
		if b, k := m.boolUnder(iff.Cond, fr, isP, asm, 0); k {
			dead := iff.Block().Succs[0]
			if b {
				dead = iff.Block().Succs[1]
			}
			hc.cutEdge(iff.Block(), dead)
		}
	}
}

// guardedInsideHelper: the instruction of the closure that leads to the write is a call of a
// package helper that reads the row's CAS through the transaction, compares it with the expected
// CAS it is handed, and can reach the write only over the edge on which the comparison passed.
func (m *Model) guardedInsideHelper(instr ssa.Instruction, site *SQLSite, fr *frame, P ssa.Value) bool {
	call, ok := instr.(ssa.CallInstruction)
	if !ok {
		return false
	}
	h := call.Common().StaticCallee()
	if h == nil || !m.inPkg(h) || h.Blocks == nil {
		return false
	}
	res := h.Signature.Results()
	if res.Len() == 0 {
		return false
	}
	xi, hc, ok := m.casReadCompareCut(h, res.Len()-1)
	if !ok || hc == nil || xi >= len(call.Common().Args) {
		return false
	}
	rv, _ := m.resolve(call.Common().Args[xi], fr)
	if stripConv(rv) != P {
		return false
	}
	reach := entryReach(h, hc)
	found, guarded := false, true
	m.eachCall(h, func(c ssa.CallInstruction) {
		leads := c == site.Call
		if g := c.Common().StaticCallee(); g != nil && m.inPkg(g) && m.reachableLocal(g)[site.Fn] {
			leads = true
		}
		if leads {
			found = true
			if reach[c.Block().Index] {
				guarded = false
			}
		}
	})
	return found && guarded
}

// sameCell: the same address value, or two addresses of the same field of the same object.
func sameCell(a, b ssa.Value) bool {
	a, b = stripConv(a), stripConv(b)
	if a == b {
		return true
	}
	fa, ok1 := a.(*ssa.FieldAddr)
	fb, ok2 := b.(*ssa.FieldAddr)
	return ok1 && ok2 && fa.Field == fb.Field && stripConv(fa.X) == stripConv(fb.X)
}

// makesNamedError: v is a freshly made sg-bucket error of the named type: the conversion of such a
// value to `error`, or a call of a package constructor every return of which makes one.
func (m *Model) makesNamedError(v ssa.Value, name string, depth int) bool {
	switch x := v.(type) {
	case *ssa.MakeInterface:
		return isNamed(x.X.Type(), sgbucketPath, name)
	case *ssa.Call:
		f := x.Common().StaticCallee()
		if f == nil || !m.inPkg(f) || f.Blocks == nil || depth > 2 || f.Signature.Results().Len() != 1 {
			return false
		}
		rets := returnsOf(f)
		for _, ret := range rets {
			if !m.makesNamedError(ret.Results[0], name, depth+1) {
				return false
			}
		}
		return len(rets) > 0
	}
	return false
}

// returnFails: the return certainly carries an error: by itself, through an error constructor
// of the package, or because it is reached only where a result of the same helper call (or a
// predicate over the error) says that the error is there.
func (m *Model) returnFails(ret *ssa.Return, depth int) bool {
	if m.isFailureReturn(ret) || m.mustBeFailureReturn(ret) {
		return true
	}
	if len(ret.Results) == 0 || depth > 3 {
		return false
	}
	fn := ret.Parent()
	errV := stripConv(ret.Results[len(ret.Results)-1])
	if !isErrorType(errV.Type()) {
		return false
	}
	// an error constructor: a package function every return of which fails
	if call, ok := errV.(*ssa.Call); ok {
		if f := call.Common().StaticCallee(); f != nil && m.inPkg(f) && len(f.Blocks) > 0 && f.Signature.Results().Len() == 1 {
			all := true
			for _, r2 := range returnsOf(f) {
				if !m.returnFails(r2, depth+1) {
					all = false
				}
			}
			if all {
				return true
			}
		}
	}
	behind := func(iff *ssa.If, s *ssa.BasicBlock) bool {
		// the return is reached only through the edge iff -> s
		c := newCut()
		c.cutEdge(iff.Block(), s)
		return !entryReach(fn, c)[ret.Block().Index]
	}
	for _, iff := range allIfs(fn) {
		cd := condOf(iff)
		// (1) a predicate over the returned error that says true only where it is non-nil
		if cd.Op == token.ILLEGAL && cd.X != nil {
			if pc, ok := stripConv(cd.X).(*ssa.Call); ok {
				if g := pc.Common().StaticCallee(); g != nil && m.inPkg(g) && len(g.Blocks) > 0 {
					for pi, a := range pc.Common().Args {
						if stripConv(a) == errV && pi < len(g.Params) && behind(iff, cd.succWhen(true)) && m.trueOnlyWhereNonNil(g, g.Params[pi]) {
							return true
						}
					}
				}
			}
		}
		ex, ok := errV.(*ssa.Extract)
		if !ok {
			continue
		}
		call, ok := ex.Tuple.(*ssa.Call)
		if !ok {
			continue
		}
		f := call.Common().StaticCallee()
		if f == nil || !m.inPkg(f) || len(f.Blocks) == 0 {
			continue
		}
		// (2) another result of the same call found nil / found false (true)
		var rx *ssa.Extract
		wantNil, badBool := false, false
		if eq, ok := cd.equalEdge(); ok {
			var x ssa.Value
			if isNilConst(cd.Y) {
				x = stripConv(cd.X)
			} else if isNilConst(cd.X) {
				x = stripConv(cd.Y)
			}
			if e2, ok := x.(*ssa.Extract); ok && e2.Tuple == ssa.Value(call) && e2.Index != ex.Index && behind(iff, eq) {
				rx, wantNil = e2, true
			}
		} else if cd.Op == token.ILLEGAL && cd.X != nil {
			if e2, ok := stripConv(cd.X).(*ssa.Extract); ok && e2.Tuple == ssa.Value(call) && e2.Index != ex.Index {
				if behind(iff, cd.succWhen(true)) {
					rx, badBool = e2, true
				} else if behind(iff, cd.succWhen(false)) {
					rx, badBool = e2, false
				}
			}
		}
		if rx == nil {
			continue
		}
		good := true
		for _, r2 := range returnsOf(f) {
			if rx.Index >= len(r2.Results) || m.returnFails(r2, depth+1) {
				continue
			}
			if wantNil {
				if !m.provablyNonNil(r2.Results[rx.Index], r2.Block(), call, 0) {
					good = false
				}
			} else {
				k, ok := stripConv(r2.Results[rx.Index]).(*ssa.Const)
				if !ok || k.Value == nil || k.Value.Kind() != constant.Bool || constant.BoolVal(k.Value) == badBool {
					good = false
				}
			}
		}
		if good {
			return true
		}
	}
	return false
}

// trueOnlyWhereNonNil: the boolean function g can return true only on paths on which its
// parameter p was compared with nil and found non-nil.
func (m *Model) trueOnlyWhereNonNil(g *ssa.Function, p *ssa.Parameter) bool {
	c := newCut()
	for _, iff := range allIfs(g) {
		cd := condOf(iff)
		eq, ok := cd.equalEdge()
		if !ok {
			continue
		}
		if isNilConst(cd.Y) && stripConv(cd.X) == ssa.Value(p) || isNilConst(cd.X) && stripConv(cd.Y) == ssa.Value(p) {
			for _, s := range iff.Block().Succs {
				if s != eq {
					c.cutEdge(iff.Block(), s)
				}
			}
		}
	}
	if len(c.edges) == 0 {
		return false
	}
	reach := entryReach(g, c)
	for _, ret := range returnsOf(g) {
		if !reach[ret.Block().Index] || len(ret.Results) != 1 {
			continue
		}
		k, ok := stripConv(ret.Results[0]).(*ssa.Const)
		if !ok || k.Value == nil || k.Value.Kind() != constant.Bool || constant.BoolVal(k.Value) {
			return false
		}
	}
	return true
}

// provablyNonNil: v, as seen at the end of block `at`, is not nil: a fresh interface value, a
// value that was compared with nil on the way, or (for a parameter of the function `call`
// invokes) an argument of that call for which the same holds.
func (m *Model) provablyNonNil(v ssa.Value, at *ssa.BasicBlock, call *ssa.Call, depth int) bool {
	return m.provablyNonNilOn(v, at, nil, call, depth)
}

// (to: when set, the value is used on the edge at -> to only)
func (m *Model) provablyNonNilOn(v ssa.Value, at, to *ssa.BasicBlock, call *ssa.Call, depth int) bool {
	if depth > 6 {
		return false
	}
	for {
		if ci, ok := v.(*ssa.ChangeInterface); ok {
			v = ci.X
			continue
		}
		break
	}
	switch x := v.(type) {
	case *ssa.MakeInterface, *ssa.Alloc, *ssa.MakeMap, *ssa.MakeSlice, *ssa.MakeClosure:
		return true
	case *ssa.Const:
		return x.Value != nil
	case *ssa.Phi:
		for i, e := range x.Edges {
			if !m.provablyNonNilOn(e, x.Block().Preds[i], x.Block(), call, depth+1) {
				return false
			}
		}
		return true
	case *ssa.Parameter:
		if call == nil || call.Common().StaticCallee() != x.Parent() {
			return false
		}
		for i, p := range x.Parent().Params {
			if p == x && i < len(call.Common().Args) {
				return m.provablyNonNil(call.Common().Args[i], call.Block(), nil, depth+1)
			}
		}
		return false
	}
	if v.Parent() == nil {
		return false
	}
	for _, iff := range allIfs(v.Parent()) {
		cd := condOf(iff)
		eq, ok := cd.equalEdge()
		if !ok {
			continue
		}
		if !(isNilConst(cd.Y) && stripConv(cd.X) == v || isNilConst(cd.X) && stripConv(cd.Y) == v) {
			continue
		}
		for _, s := range iff.Block().Succs {
			if s != eq && len(s.Preds) == 1 && (s == at || s.Dominates(at)) {
				return true
			}
			if s != eq && iff.Block() == at && s == to {
				return true
			}
		}
	}
	return false
}

// fieldOfHelperRowIsCas: fa addresses field f of a local struct variable whose only value is
// the struct a package helper returned, and inside that helper field f of the returned struct
// is filled by a Scan from documents.cas through the transaction handle.
func (m *Model) fieldOfHelperRowIsCas(fa *ssa.FieldAddr) (bool, string) {
	al, ok := fa.X.(*ssa.Alloc)
	if !ok {
		return false, ""
	}
	st := singleStore(al)
	if st == nil {
		return false, ""
	}
	src := stripConv(st.Val)
	idx := 0
	if ex, ok := src.(*ssa.Extract); ok {
		src, idx = ex.Tuple, ex.Index
	}
	call, ok := src.(*ssa.Call)
	if !ok {
		return false, ""
	}
	h := call.Common().StaticCallee()
	if h == nil || !m.inPkg(h) || len(h.Blocks) == 0 {
		return false, ""
	}
	f := fieldOf(fa)
	// the struct the helper returns: one local (or named result) on every non-failing return
	var row *ssa.Alloc
	for _, ret := range returnsOf(h) {
		if idx >= len(ret.Results) {
			return false, ""
		}
		ld, ok := stripConv(ret.Results[idx]).(*ssa.UnOp)
		if !ok || ld.Op != token.MUL {
			if m.isFailureReturn(ret) || m.mustBeFailureReturn(ret) {
				continue
			}
			return false, ""
		}
		ra, ok := ld.X.(*ssa.Alloc)
		if !ok || row != nil && row != ra {
			return false, ""
		}
		row = ra
	}
	if row == nil {
		return false, ""
	}
	for _, sc := range m.scanCalls() {
		if sc.Fn != h || sc.Site == nil {
			continue
		}
		for i, d := range sc.Dests {
			dfa, ok := stripConv(d).(*ssa.FieldAddr)
			if !ok || dfa.X != ssa.Value(row) || fieldOf(dfa) != f {
				continue
			}
			for _, v := range sc.Site.Variants {
				stmt := v.Stmt()
				if stmt == nil || stmt.Select == nil || i >= len(stmt.Select.Cols) {
					continue
				}
				if !isCol(stmt.Select.Cols[i].Expr, "cas") || len(stmt.Select.From) != 1 || lower(stmt.Select.From[0].Name) != "documents" {
					return false, "the compared cell is not filled from documents.cas"
				}
				if !onlyClasses(sc.Site, HTxn) {
					return false, "the current CAS is read outside the transaction (handle " + classList(sc.Site) + ")"
				}
				return true, ""
			}
		}
	}
	return false, ""
}

// succeedsOnlyWhereCasMatches: helper h compares its parameter p with zero and with an integer
// result of a call it makes (the CAS it read), and every return it can reach without passing
// the equal edge of one of those comparisons certainly carries an error.
func (m *Model) succeedsOnlyWhereCasMatches(h *ssa.Function, p *ssa.Parameter) bool {
	c := newCut()
	compared := false
	for _, iff := range allIfs(h) {
		cd := condOf(iff)
		eq, ok := cd.equalEdge()
		if !ok {
			continue
		}
		var other ssa.Value
		if stripConv(cd.X) == ssa.Value(p) {
			other = cd.Y
		} else if stripConv(cd.Y) == ssa.Value(p) {
			other = cd.X
		}
		if other == nil {
			continue
		}
		if isZeroConst(other) {
			c.cutEdge(iff.Block(), eq)
			continue
		}
		o := stripConv(other)
		if ld, ok := o.(*ssa.UnOp); ok && ld.Op == token.MUL {
			// a named result the read was assigned to
			if al, ok := ld.X.(*ssa.Alloc); ok {
				for _, st := range cellStores(al) {
					if ex, ok := stripConv(st.Val).(*ssa.Extract); ok {
						o = ex
					}
				}
			}
		}
		if ex, ok := o.(*ssa.Extract); ok {
			if _, isCall := ex.Tuple.(*ssa.Call); isCall {
				c.cutEdge(iff.Block(), eq)
				compared = true
			}
		}
	}
	if !compared {
		return false
	}
	reach := entryReach(h, c)
	for _, ret := range returnsOf(h) {
		if reach[ret.Block().Index] && !m.returnFails(ret, 0) {
			return false
		}
	}
	return true
}
