package lint

import (
	"fmt"
	"go/constant"
	"go/token"
	"go/types"
	"os"
	"sort"
	"strings"

	"golang.org/x/tools/go/ssa"
)

// ---------------------------------------------------------------- R-LOCK-PAIR

func (m *Model) ruleLOCKPAIR(r *Results) {
	const rule = "R-LOCK-PAIR"
	lm := m.locks()
	n := 0
	for _, fn := range m.Funcs {
		fl := lm.fns[fn]
		if fl == nil {
			fl = m.flowLocks(fn, lockset{})
		}
		for _, op := range fl.ops {
			if !op.Acquire || op.Deferred {
				continue
			}
			n++
			key := m.declName(fn) + " / " + op.Lock.String()
			pos := m.instrPos(op.Instr)
			// deferred unlock right after?
			deferred := false
			for _, o2 := range fl.ops {
				if !o2.Acquire && o2.Deferred && o2.Lock == op.Lock {
					if o2.Instr.Block() == op.Instr.Block() && indexIn(op.Instr.Block(), o2.Instr) > indexIn(op.Instr.Block(), op.Instr) || op.Instr.Block().Dominates(o2.Instr.Block()) && op.Instr.Block() != o2.Instr.Block() {
						deferred = true
					}
				}
			}
			if deferred {
				r.ok(rule, key, pos, "Lock followed by a deferred Unlock")
				continue
			}
			// manual pair: no return may be reached with the lock possibly held, and the region makes no foreign calls
			leak := false
			for ret, may := range fl.mayAtReturn {
				if may[op.Lock] {
					leak = true
					_ = ret
				}
			}
			if _, isW := m.lockWrapper(fn); isW && leak && !m.wrapperReturnsRelease(fn) && fn.Object() != nil && !fn.Object().Exported() && len(fn.Blocks) == 1 {
				r.ok(rule, key, pos, "acquire wrapper: returns holding the lock; every call of it is an acquisition that is paired at its call site")
				continue
			}
			if _, isW := m.lockWrapper(fn); isW && leak && m.wrapperReturnsRelease(fn) {
				r.ok(rule, key, pos, "acquire wrapper: returns holding the lock together with its release function (paired at the call sites)")
				continue
			}
			if leak {
				r.bad(rule, key, pos, "a return is reachable with %s still held (manual Lock without a matching Unlock on every path): later callers on any handle block forever", op.Lock)
				continue
			}
			// region: instructions where the lock is must-held in this function
			var foreign []string
			for _, ins := range m.manualRegion(op) {
				c, ok := ins.(ssa.CallInstruction)
				if !ok {
					continue
				}
				if callee := c.Common().StaticCallee(); callee != nil {
					if callee.Pkg != nil && (callee.Pkg.Pkg.Path() == "container/list" || callee.Pkg.Pkg.Path() == "sync") {
						continue
					}
					if m.inPkg(callee) && m.isLeaf(callee) {
						continue
					}
					foreign = append(foreign, callee.Name())
				} else if _, isB := c.Common().Value.(*ssa.Builtin); isB {
					continue
				} else {
					foreign = append(foreign, "dynamic call")
				}
			}
			r.check(len(foreign) == 0, rule, key, pos, "manual Lock/Unlock pair around a region without calls that could panic or block", fmt.Sprintf("manually paired lock region calls %v: a panic or early exit there leaves %s held", uniq(foreign), op.Lock))
		}
	}
	// no conditional acquisition: what a critical section does (arming the timer, registering a
	// feed, updating the registry) must happen; skipping it because the lock is busy loses it
	for _, fn := range m.Funcs {
		if !m.inPkg(fn) {
			continue
		}
		m.eachCall(fn, func(c ssa.CallInstruction) {
			callee := c.Common().StaticCallee()
			if callee == nil || callee.Pkg == nil || callee.Pkg.Pkg.Path() != "sync" {
				return
			}
			if nm := callee.Name(); nm == "TryLock" || nm == "TryRLock" {
				r.bad(rule, m.declName(fn)+" / conditional acquisition", m.instrPos(c), "%s: the critical section is skipped whenever the lock happens to be held by someone else, so its effect (e.g. arming the expiry timer for a write that just committed) is silently lost", nm)
			}
		})
	}
	if n < 20 {
		r.undecided(rule, "instance-floor", "-", "found %d lock acquisitions; at least 20 were confirmed by hand", n)
	}
}

// ---------------------------------------------------------------- R-LOCK-ORDER

type orderEdge struct {
	From, To lockID
	Fn       *ssa.Function
	Site     ssa.Instruction
	Via      *ssa.Function
}

func (m *Model) lockOrderEdges() []orderEdge {
	lm := m.locks()
	var edges []orderEdge
	seen := map[string]bool{}
	add := func(e orderEdge) {
		k := e.From.String() + ">" + e.To.String() + "@" + m.declName(e.Fn)
		if e.Via != nil {
			k += ">" + m.declName(e.Via)
		}
		if !seen[k] {
			seen[k] = true
			edges = append(edges, e)
		}
	}
	for _, fn := range m.Funcs {
		fl := lm.fns[fn]
		if fl == nil {
			continue
		}
		for _, op := range fl.ops {
			if op.Acquire && !op.Deferred {
				for h := range fl.mustAt[op.Instr] {
					add(orderEdge{h, op.Lock, fn, op.Instr, nil})
				}
			}
		}
		for _, e := range m.calleesOf(fn) {
			if e.IsGo {
				continue
			}
			held := fl.mustAt[e.Site]
			if len(held) == 0 {
				continue
			}
			for l2 := range lm.acq[e.Callee] {
				for h := range held {
					add(orderEdge{h, l2, fn, e.Site, e.Callee})
				}
			}
		}
	}
	sort.Slice(edges, func(i, j int) bool {
		a, b := edges[i], edges[j]
		if a.From.String() != b.From.String() {
			return a.From.String() < b.From.String()
		}
		if a.To.String() != b.To.String() {
			return a.To.String() < b.To.String()
		}
		return m.declName(a.Fn) < m.declName(b.Fn)
	})
	return edges
}

// witnessChain describes how callee `via` comes to acquire lock `to`.
func (m *Model) witnessChain(via *ssa.Function, to lockID) string {
	lm := m.locks()
	var chain []string
	cur := via
	seen := map[*ssa.Function]bool{}
	for cur != nil && !seen[cur] && len(chain) < 12 {
		seen[cur] = true
		chain = append(chain, m.declName(cur))
		direct := false
		m.eachCall(cur, func(c ssa.CallInstruction) {
			if op, ok := m.lockOpOf(c); ok && op.Acquire && op.Lock == to {
				direct = true
			}
		})
		if direct {
			break
		}
		var next *ssa.Function
		for _, e := range m.calleesOf(cur) {
			if !e.IsGo && lm.acq[e.Callee][to] && !seen[e.Callee] {
				next = e.Callee
				break
			}
		}
		cur = next
	}
	return strings.Join(chain, " -> ")
}

func (m *Model) ruleLOCKORDER(r *Results) {
	const rule = "R-LOCK-ORDER"
	edges := m.lockOrderEdges()
	// graph over locks
	adj := map[string]map[string][]orderEdge{}
	locks := map[string]bool{}
	for _, e := range edges {
		f, t := e.From.String(), e.To.String()
		locks[f], locks[t] = true, true
		if adj[f] == nil {
			adj[f] = map[string][]orderEdge{}
		}
		adj[f][t] = append(adj[f][t], e)
	}
	describe := func(e orderEdge) string {
		s := fmt.Sprintf("%s holds %s and ", m.declName(e.Fn), e.From)
		if e.Via == nil {
			s += fmt.Sprintf("locks %s (%s)", e.To, m.instrPos(e.Site))
		} else {
			s += fmt.Sprintf("calls %s (%s)", m.witnessChain(e.Via, e.To), m.instrPos(e.Site))
		}
		return s
	}
	// self edges
	for _, l := range sortedKeys(locks) {
		for _, e := range adj[l][l] {
			key := "self / " + l + " / " + m.declName(e.Fn)
			if ok, why := m.selfEdgeExcused(e); ok {
				r.ok(rule, key, m.instrPos(e.Site), "re-acquisition path is dead: %s", why)
			} else {
				r.bad(rule, key, m.instrPos(e.Site), "%s: the mutex is not re-entrant, so this path deadlocks (%s)", describe(e), why)
			}
		}
	}
	// cycles of length >= 2: enumerate simple cycles by DFS from each lock in sorted order
	names := sortedKeys(locks)
	index := map[string]int{}
	for i, n := range names {
		index[n] = i
	}
	reported := map[string]bool{}
	var path []string
	var dfs func(start, cur string, visited map[string]bool)
	dfs = func(start, cur string, visited map[string]bool) {
		for _, nxt := range sortedKeys(adj[cur]) {
			if nxt == cur {
				continue
			}
			if nxt == start && len(path) >= 2 {
				cyc := append([]string{}, path...)
				sorted := append([]string{}, cyc...)
				sort.Strings(sorted)
				id := strings.Join(sorted, " <-> ")
				if reported[id] {
					continue
				}
				reported[id] = true
				var wit []string
				for i := range cyc {
					a, b := cyc[i], cyc[(i+1)%len(cyc)]
					wit = append(wit, describe(adj[a][b][0]))
				}
				r.bad(rule, "cycle / "+id, m.instrPos(adj[cyc[0]][cyc[1%len(cyc)]][0].Site), "lock-order cycle %s: two goroutines taking these locks in the opposite orders deadlock. Witnesses: %s", strings.Join(append(cyc, cyc[0]), " -> "), strings.Join(wit, "; "))
				continue
			}
			if visited[nxt] || index[nxt] < index[start] {
				continue
			}
			visited[nxt] = true
			path = append(path, nxt)
			dfs(start, nxt, visited)
			path = path[:len(path)-1]
			delete(visited, nxt)
		}
	}
	for _, s := range names {
		path = []string{s}
		dfs(s, s, map[string]bool{s: true})
	}
	// each acquisition that lies on a cycle is a finding of its own (keyed by the function that
	// holds the first lock while the second is taken), so that a new way round a known cycle is
	// still reported
	onCycle := map[string]bool{}
	for id := range reported {
		parts := strings.Split(id, " <-> ")
		for _, a := range parts {
			for _, b := range parts {
				if a != b {
					onCycle[a+">"+b] = true
				}
			}
		}
	}
	for _, f := range sortedKeys(adj) {
		for _, t := range sortedKeys(adj[f]) {
			if f == t || !onCycle[f+">"+t] {
				continue
			}
			// only edges whose reverse direction is reachable (they really close a cycle)
			// keyed by the operations (exported or caller-less functions) on behalf of which the
			// acquisition happens, not by the helper it sits in: extracting or renaming a helper is
			// not a new finding, a new operation that goes round the cycle is
			seenRoot := map[string]bool{}
			for _, e := range adj[f][t] {
				for _, root := range m.operationRoots(e.Fn, e.Site) {
					if seenRoot[root] {
						continue
					}
					seenRoot[root] = true
					r.bad(rule, "cycle edge / "+f+" then "+t+" / on behalf of "+root, m.instrPos(e.Site), "%s; some other path takes these locks in the opposite order, so the two can deadlock", describe(e))
				}
			}
		}
	}
	// every ordered pair that is NOT part of a cycle is a discharged obligation
	for _, f := range sortedKeys(adj) {
		for _, t := range sortedKeys(adj[f]) {
			if f == t {
				continue
			}
			if _, back := adj[t][f]; !back {
				r.ok(rule, "order / "+f+" before "+t, m.instrPos(adj[f][t][0].Site), "%d site(s) take %s while holding %s; never the reverse", len(adj[f][t]), t, f)
			}
		}
	}
	if len(edges) < 6 {
		r.undecided(rule, "instance-floor", "-", "only %d lock-order edges found", len(edges))
	}
}

// selfEdgeExcused: the one tolerated self-edge shape: the callee chain re-acquires the
// lock only inside a function that returns before locking when its argument is zero, and
// every event that can travel along this chain has a zero in that field.
func (m *Model) selfEdgeExcused(e orderEdge) (bool, string) {
	if e.Via == nil {
		return false, "direct re-lock"
	}
	lm := m.locks()
	// find the functions on chains from e.Via that directly lock e.To
	var lockers []*ssa.Function
	for f := range m.reachHybrid(e.Via, false) {
		m.eachCall(f, func(c ssa.CallInstruction) {
			if op, ok := m.lockOpOf(c); ok && op.Acquire && op.Lock == e.To {
				lockers = append(lockers, f)
			}
		})
	}
	_ = lm
	for _, lf := range lockers {
		if lf == e.Fn {
			continue
		}
		// the locker must guard its Lock by param != 0 (return early on zero)
		var zeroGuarded bool
		var P *ssa.Parameter
		for _, iff := range allIfs(lf) {
			cd := condOf(iff)
			eq, ok := cd.equalEdge()
			if !ok {
				continue
			}
			var other ssa.Value
			if isZeroConst(cd.Y) {
				other = cd.X
			} else if isZeroConst(cd.X) {
				other = cd.Y
			}
			if other == nil {
				continue
			}
			rv0, _ := m.resolve(other, topFrame(lf))
			p, ok := stripConv(rv0).(*ssa.Parameter)
			if !ok {
				continue
			}
			c := newCut()
			for _, s := range iff.Block().Succs {
				if s != eq {
					c.cutEdge(iff.Block(), s)
				}
			}
			reach := entryReach(lf, c)
			lockReach := false
			m.eachCall(lf, func(cc ssa.CallInstruction) {
				if op, ok := m.lockOpOf(cc); ok && op.Acquire && op.Lock == e.To && reach[cc.Block().Index] {
					lockReach = true
				}
			})
			if !lockReach {
				zeroGuarded, P = true, p
			}
		}
		if !zeroGuarded {
			// the guard may sit in the callers of an unconditional locker (e.g. a withLock helper)
			guardFn, gp := m.zeroGuardedCaller(lf, e)
			if guardFn == nil {
				return false, m.declName(lf) + " locks " + e.To.String() + " unconditionally"
			}
			lf, P = guardFn, gp
		}
		// callers of lf on the chain: the argument must be the exp field of an event; every event
		// constructed in the extent of e.Via must leave that field zero
		idx := -1
		for i, q := range lf.Params {
			if q == P {
				idx = i
			}
		}
		var fld *types.Var
		for f := range m.reachHybrid(e.Via, false) {
			m.eachCall(f, func(c ssa.CallInstruction) {
				if c.Common().StaticCallee() == lf && idx < len(c.Common().Args) {
					if _, ff, ok := fieldLoad(c.Common().Args[idx]); ok {
						fld = ff
					}
				}
			})
		}
		if fld == nil || m.A.EventType == nil {
			return false, "cannot identify the value passed to " + m.declName(lf)
		}
		extent := m.reachHybrid(e.Via, false)
		// zero on this path: the constant 0, or a parameter of an event constructor for which every
		// call in the extent passes such a value
		var zeroHere func(v ssa.Value, d int) bool
		zeroHere = func(v ssa.Value, d int) bool {
			v = stripConv(v)
			if c, ok := v.(*ssa.Const); ok {
				return c.Value == nil || c.Uint64() == 0
			}
			p, ok := v.(*ssa.Parameter)
			if !ok || d > 2 {
				return false
			}
			g := p.Parent()
			pi := -1
			for i, q := range g.Params {
				if q == p {
					pi = i
				}
			}
			n := 0
			for f := range extent {
				okAll := true
				m.eachCall(f, func(c ssa.CallInstruction) {
					if c.Common().StaticCallee() == g && pi < len(c.Common().Args) {
						n++
						if !zeroHere(c.Common().Args[pi], d+1) {
							okAll = false
						}
					}
				})
				if !okAll {
					return false
				}
			}
			return n > 0
		}
		for f := range extent {
			for _, b := range f.Blocks {
				for _, in := range b.Instrs {
					st, ok := in.(*ssa.Store)
					if !ok {
						continue
					}
					fa, ok := st.Addr.(*ssa.FieldAddr)
					if !ok || fieldOf(fa) != fld || !ownerIs(fa, m.A.EventType) {
						continue
					}
					if zeroHere(st.Val, 0) {
						continue
					}
					return false, fmt.Sprintf("%s stores a possibly non-zero %s into an event on this path (%s)", m.declName(f), fld.Name(), m.instrPos(st))
				}
			}
		}
		return true, fmt.Sprintf("%s returns before locking when its argument is 0, and no event built on this path sets %s", m.declName(lf), fld.Name())
	}
	return false, "no locker found"
}

// ---------------------------------------------------------------- R-GUARDED and R-FEEDMAP

type guardedField struct {
	Field  *types.Var
	Lock   *types.Var
	What   string
	Strict bool // violation (true) or informational (false)
	Role   string
}

func (m *Model) guardedTable() []guardedField {
	a := &m.A
	var out []guardedField
	add := func(f, l *types.Var, what string, strict bool, role string) {
		if f != nil && l != nil {
			out = append(out, guardedField{f, l, what, strict, role})
		}
	}
	add(a.FeedsField, a.BucketMutex, "feed registry map (shared by all handles)", true, "feed-registry")
	add(a.CollsField, a.BucketMutex, "per-handle collections map", true, "collections-map")
	add(a.ClosedField, a.BucketMutex, "closed flag", true, "closed-flag")
	add(a.ViewCache, a.CollMutex, "view cache map", true, "view-cache")
	// registry maps
	for _, nm := range m.SSA.Pkg.Scope().Names() {
		tn, ok := m.SSA.Pkg.Scope().Lookup(nm).(*types.TypeName)
		if !ok {
			continue
		}
		st, ok := tn.Type().Underlying().(*types.Struct)
		if !ok {
			continue
		}
		var mu *types.Var
		var maps []*types.Var
		for i := 0; i < st.NumFields(); i++ {
			f := st.Field(i)
			if _, isPtr := f.Type().(*types.Pointer); !isPtr && isNamed(f.Type(), "sync", "Mutex") {
				mu = f
			}
			if _, isMap := f.Type().Underlying().(*types.Map); isMap {
				maps = append(maps, f)
			}
		}
		if mu != nil && len(maps) >= 2 && tn.Type() != types.Type(a.CollectionType) {
			for _, f := range maps {
				add(f, mu, "bucket registry map", true, "registry-map")
			}
		}
	}
	return out
}

func (m *Model) ruleGUARDED(r *Results) {
	const rule = "R-GUARDED"
	lm := m.locks()
	tab := m.guardedTable()
	if len(tab) < 5 {
		r.undecided(rule, "guarded-by table", "-", "only %d guarded fields resolved", len(tab))
	}
	byField := map[*types.Var]guardedField{}
	for _, g := range tab {
		byField[g.Field] = g
	}
	n := 0
	for _, fn := range m.Funcs {
		fl := lm.fns[fn]
		for _, b := range fn.Blocks {
			for _, ins := range b.Instrs {
				fa, ok := ins.(*ssa.FieldAddr)
				if !ok {
					continue
				}
				g, ok := byField[fieldOf(fa)]
				if !ok {
					continue
				}
				if _, fresh := fa.X.(*ssa.Alloc); fresh {
					continue // object under construction
				}
				// classify the uses of this field address
				for _, ref := range *fa.Referrers() {
					var kind string
					var at ssa.Instruction
					switch x := ref.(type) {
					case *ssa.Store:
						if x.Addr == fa {
							kind, at = "assignment", x
						}
					case *ssa.UnOp:
						if _, isMap := x.Type().Underlying().(*types.Map); isMap {
							// map value loaded: look at what is done with it
							for _, r2 := range *x.Referrers() {
								switch y := r2.(type) {
								case *ssa.Lookup:
									kind, at = "map read", y
								case *ssa.MapUpdate:
									kind, at = "map write", y
								case *ssa.Range:
									kind, at = "map iteration", y
								case *ssa.Call:
									if bi, ok := y.Common().Value.(*ssa.Builtin); ok && (bi.Name() == "delete" || bi.Name() == "len") {
										kind, at = "map "+bi.Name(), y
									}
								}
								if kind != "" {
									m.checkGuard(r, rule, lm, fl, fn, g, kind, at)
									n++
									kind = ""
								}
							}
							continue
						}
						kind, at = "read", x
					}
					if kind != "" {
						m.checkGuard(r, rule, lm, fl, fn, g, kind, at)
						n++
					}
				}
			}
		}
	}
	m.flushGuard(r, rule)
	if n < 25 {
		r.undecided(rule, "instance-floor", "-", "only %d accesses to guarded fields found", n)
	}
}

// ---------------------------------------------------------------- R-PKG-STATE

func (m *Model) rulePKGSTATE(r *Results) {
	const rule = "R-PKG-STATE"
	// Package-level slices, arrays and maps are tables that are only read once the package is
	// initialised: nothing guards them, so an operation writing one (directly, or by handing it
	// to a function that may) races with every other goroutine doing the same.
	nt := 0
	for _, mem := range m.SSA.Members {
		g, ok := mem.(*ssa.Global)
		if !ok {
			continue
		}
		switch g.Type().(*types.Pointer).Elem().Underlying().(type) {
		case *types.Slice, *types.Array, *types.Map:
		default:
			continue
		}
		nt++
		bad := ""
		for _, fn := range m.Funcs {
			if fn.Name() == "init" || strings.HasPrefix(fn.Name(), "init#") {
				continue
			}
			for _, b := range fn.Blocks {
				for _, ins := range b.Instrs {
					var vals []ssa.Value
					switch x := ins.(type) {
					case *ssa.UnOp:
						if x.Op == token.MUL && x.X == ssa.Value(g) {
							vals = append(vals, x)
						}
					case *ssa.Slice:
						if x.X == ssa.Value(g) {
							vals = append(vals, x)
						}
					case *ssa.IndexAddr:
						if x.X == ssa.Value(g) {
							vals = append(vals, x)
						}
					case *ssa.Store:
						if x.Addr == ssa.Value(g) {
							bad = m.instrPos(x)
						}
					}
					for _, v := range vals {
						for _, ref := range *v.Referrers() {
							switch u := ref.(type) {
							case *ssa.Store:
								if u.Addr == v {
									bad = m.instrPos(u)
								}
							case *ssa.MapUpdate:
								if u.Map == v {
									bad = m.instrPos(u)
								}
							case *ssa.IndexAddr:
								for _, r2 := range *u.Referrers() {
									if st, ok := r2.(*ssa.Store); ok && st.Addr == ssa.Value(u) {
										bad = m.instrPos(st)
									}
								}
							case ssa.CallInstruction:
								if readOnlyCallee(u) {
									continue
								}
								bad = m.instrPos(u)
							}
						}
					}
				}
			}
		}
		r.check(bad == "", rule, "package-level table "+g.Name()+" / read-only after initialisation", m.pos(g.Pos()), "only indexed, ranged over or formatted outside the package initialiser", "the package-level "+g.Name()+" is written, or handed to a function that may write it, at "+bad+": it is shared by every bucket and goroutine and nothing guards it, so concurrent operations overwrite one another's data")
	}
	r.ok(rule, "package-level tables", "-", "%d package-level slice/array/map variable(s)", nt)
	// An object taken from a sync.Pool goes back to it for the next caller: no function that
	// puts an object back returns bytes that still live inside that object.
	np := 0
	for _, fn := range m.Funcs {
		var pooled []ssa.Value
		putsBack := false
		m.eachCall(fn, func(c ssa.CallInstruction) {
			g := c.Common().StaticCallee()
			if g == nil || g.Pkg == nil || g.Pkg.Pkg.Path() != "sync" || g.Signature.Recv() == nil || !isPtrToNamed(g.Signature.Recv().Type(), "sync", "Pool") {
				return
			}
			switch g.Name() {
			case "Put":
				putsBack = true
			case "Get":
				if v := c.Value(); v != nil {
					pooled = append(pooled, v)
				}
			}
		})
		if !putsBack || len(pooled) == 0 {
			continue
		}
		np++
		tainted := map[ssa.Value]bool{}
		obj := map[ssa.Value]bool{}
		for _, v := range pooled {
			obj[v] = true
		}
		isSliceOrString := func(t types.Type) bool {
			switch u := t.Underlying().(type) {
			case *types.Slice:
				return true
			case *types.Basic:
				return u.Kind() == types.String && false // a string conversion copies
			}
			return false
		}
		for changed, round := true, 0; changed && round < 8; round++ {
			changed = false
			for _, b := range fn.Blocks {
				for _, ins := range b.Instrs {
					v, ok := ins.(ssa.Value)
					if !ok || tainted[v] || obj[v] {
						continue
					}
					mark := false
					switch x := ins.(type) {
					case *ssa.TypeAssert:
						if obj[x.X] {
							obj[v], changed = true, true
						}
						continue
					case *ssa.Extract:
						if obj[x.Tuple] {
							obj[v], changed = true, true
							continue
						}
						mark = tainted[x.Tuple]
					case *ssa.Call:
						if bi, isB := x.Common().Value.(*ssa.Builtin); isB {
							if bi.Name() == "append" && len(x.Common().Args) > 0 {
								mark = tainted[x.Common().Args[0]] // appending TO a pooled slice; appending its bytes to a fresh one copies
							}
							break
						}
						if !isSliceOrString(x.Type()) {
							break
						}
						for _, a := range x.Common().Args {
							if obj[a] || tainted[a] {
								mark = true
							}
						}
					case *ssa.Slice:
						mark = tainted[x.X]
					case *ssa.Phi:
						for _, e := range x.Edges {
							if tainted[e] {
								mark = true
							}
						}
					case *ssa.UnOp:
						if x.Op == token.MUL {
							if al, ok := x.X.(*ssa.Alloc); ok {
								for _, st := range cellStores(al) {
									if tainted[st.Val] {
										mark = true
									}
								}
							}
						}
					case *ssa.ChangeType:
						mark = tainted[x.X]
					}
					if mark {
						tainted[v], changed = true, true
					}
				}
			}
		}
		bad := ""
		for _, ret := range returnsOf(fn) {
			for _, res := range ret.Results {
				if tainted[res] {
					bad = m.instrPos(ret)
				}
			}
		}
		r.check(bad == "", rule, m.declName(fn)+" / nothing returned lives in an object put back into a pool", m.pos(fn.Pos()), "no result is a slice of a pooled object's memory", "the function puts an object back into a sync.Pool and returns (at "+bad+") bytes that still live inside it: the next caller that takes the object from the pool overwrites what this caller is holding")
	}
	r.ok(rule, "pooled objects", "-", "%d function(s) that take an object from a sync.Pool and put it back", np)
}

// readOnlyCallee: the call cannot write through a slice, array or map argument.
func readOnlyCallee(c ssa.CallInstruction) bool {
	if bi, ok := c.Common().Value.(*ssa.Builtin); ok {
		switch bi.Name() {
		case "len", "cap", "print", "println":
			return true
		}
		return false
	}
	if f := c.Common().StaticCallee(); f != nil && f.Pkg != nil {
		switch f.Pkg.Pkg.Path() {
		case "fmt", "strings", "log", "errors":
			return true
		}
	}
	return false
}

// guardVerdict is the outcome for one access to a guarded field.
type guardVerdict struct {
	key, pos, kind string
	status         Status
	msg            string
}

func (m *Model) checkGuard(r *Results, rule string, lm *lockModel, fl *fnLocks, fn *ssa.Function, g guardedField, kind string, at ssa.Instruction) {
	held := lockset{}
	if fl != nil {
		if s, ok := fl.mustAt[at]; ok {
			held = s
		}
	}
	has := false
	for l := range held {
		if l.Field == g.Lock {
			has = true
		}
	}
	v := guardVerdict{pos: m.instrPos(at), kind: kind}
	switch {
	case has:
		v.key = m.declName(fn) + " / " + g.Role
		v.status, v.msg = OK, fmt.Sprintf("%s of the %s under %s", kind, g.What, g.Lock.Name())
	case func() bool { _, reached := lm.entry[fn]; return !reached }():
		v.key = m.declName(fn) + " / " + g.Role
		v.status, v.msg = Info, "function is not reachable from any root"
	case kind == "read" && g.Field != m.A.ClosedField:
		// reading the map REFERENCE of a field that is never reassigned is harmless; only map operations matter
		v.key = m.declName(fn) + " / " + g.Role
		v.status, v.msg = Info, "unlocked read of a field value"
	default:
		// the finding belongs to the context that runs this code without the lock: walk up through
		// helpers to the function (by role) whose call arrives unlocked
		bf := m.guardBlame(lm, fn, g.Lock, 0)
		v.key = m.declName(bf) + " / " + g.Role
		v.status = Violation
		v.msg = fmt.Sprintf("%s of the %s at %s without holding %s (locks held there: %s)", kind, g.What, m.instrPos(at), g.Lock.Name(), held)
	}
	m.guardAcc = append(m.guardAcc, v)
}

// guardBlame: the function an unguarded access is attributed to. An unexported helper that is
// reached without the lock from exactly one calling function passes the blame to that caller.
func (m *Model) guardBlame(lm *lockModel, fn *ssa.Function, lock *types.Var, depth int) *ssa.Function {
	if depth > 4 || strings.HasPrefix(m.declName(fn), "<") || fn.Parent() != nil {
		return fn
	}
	if obj := fn.Object(); obj != nil && obj.Exported() {
		return fn
	}
	unlocked := map[*ssa.Function]bool{}
	for _, c := range m.staticCallersOf(fn) {
		caller := c.Parent()
		holds := false
		if cfl := lm.fns[caller]; cfl != nil {
			for l := range cfl.mustAt[c] {
				if l.Field == lock {
					holds = true
				}
			}
		}
		if !holds {
			unlocked[caller] = true
		}
	}
	if len(unlocked) != 1 {
		return fn
	}
	for caller := range unlocked {
		return m.guardBlame(lm, caller, lock, depth+1)
	}
	return fn
}

// flushGuard emits one obligation per (function, guarded field): violated if any access is.
func (m *Model) flushGuard(r *Results, rule string) {
	type group struct {
		bad, ok, info []guardVerdict
	}
	groups := map[string]*group{}
	var order []string
	for _, v := range m.guardAcc {
		g := groups[v.key]
		if g == nil {
			g = &group{}
			groups[v.key] = g
			order = append(order, v.key)
		}
		switch v.status {
		case Violation:
			g.bad = append(g.bad, v)
		case OK:
			g.ok = append(g.ok, v)
		default:
			g.info = append(g.info, v)
		}
	}
	m.guardAcc = nil
	for _, k := range order {
		g := groups[k]
		switch {
		case len(g.bad) > 0:
			var parts []string
			for _, v := range g.bad {
				parts = append(parts, v.msg)
			}
			r.bad(rule, k, g.bad[0].pos, "%s: a concurrent access from another goroutine is a data race; on a map it is a fatal \"concurrent map\" error that kills the process", strings.Join(uniq(parts), "; "))
		case len(g.ok) > 0:
			kinds := map[string]bool{}
			for _, v := range g.ok {
				kinds[v.kind] = true
			}
			var ks []string
			for kd := range kinds {
				ks = append(ks, kd)
			}
			sort.Strings(ks)
			r.ok(rule, k, g.ok[0].pos, "%d access(es) (%s) under the owning mutex", len(g.ok), strings.Join(ks, ", "))
		default:
			r.info(rule, k, g.info[0].pos, "%s", g.info[0].msg)
		}
	}
}

// R-FEEDMAP: the registry field is assigned only in constructors; collection methods use their own name as key.
func (m *Model) ruleFEEDMAP(r *Results) {
	const rule = "R-FEEDMAP"
	a := &m.A
	if a.FeedsField == nil || a.CollectionType == nil {
		r.undecided(rule, "anchors", "-", "feed registry unresolved")
		return
	}
	n := 0
	for _, fn := range m.Funcs {
		for _, b := range fn.Blocks {
			for _, ins := range b.Instrs {
				fa, ok := ins.(*ssa.FieldAddr)
				if !ok || fieldOf(fa) != a.FeedsField {
					continue
				}
				for _, ref := range *fa.Referrers() {
					switch x := ref.(type) {
					case *ssa.Store:
						if x.Addr != fa {
							continue
						}
						n++
						_, fresh := fa.X.(*ssa.Alloc)
						r.check(fresh, rule, m.declName(fn)+" / assigns registry", m.instrPos(x), "registry map installed on a freshly constructed bucket", "the bucket-wide feed registry is replaced (or set to nil) on a live bucket: the feeds of every other collection lose their registration, and the next registration panics on a nil map with the bucket mutex held")
					case *ssa.UnOp:
						for _, r2 := range *x.Referrers() {
							var keyV ssa.Value
							var what string
							switch y := r2.(type) {
							case *ssa.Lookup:
								keyV, what = y.Index, "lookup"
							case *ssa.MapUpdate:
								keyV, what = y.Key, "update"
							case *ssa.Call:
								if bi, ok := y.Common().Value.(*ssa.Builtin); ok && bi.Name() == "delete" {
									keyV, what = y.Common().Args[1], "delete"
								}
							}
							if keyV == nil || m.methodOwner(fn) != a.CollectionType {
								continue
							}
							n++
							// key must be <receiver>.DataStoreNameImpl
							okKey := false
							if base, f, ok := fieldLoad(keyV); ok && f.Embedded() && isNamed(f.Type(), sgbucketPath, "DataStoreNameImpl") {
								okKey = m.isReceiver(base, topFrame(fn), a.CollectionType) || m.recvViaField(base, fn)
							}
							r.check(okKey, rule, m.declName(fn)+" / registry "+what+" key", m.instrPos(r2.(ssa.Instruction)), "keyed by the receiver's own data-store name", "a collection method addresses the feed registry with a key other than its own name: it reads or changes the feeds of another collection")
						}
					}
				}
			}
		}
	}
	if n < 5 {
		r.undecided(rule, "instance-floor", "-", "only %d uses of the feed registry found", n)
	}
}

// recvViaField: base is a captured or directly available receiver in a closure.
func (m *Model) recvViaField(base ssa.Value, fn *ssa.Function) bool {
	rv, rfr := m.resolve(base, topFrame(fn))
	return m.isReceiver(rv, rfr, m.A.CollectionType)
}

// ---------------------------------------------------------------- R-ATOMIC-ENQ and R-BACKFILL-GAP

func (m *Model) ruleATOMICENQ(r *Results) {
	const rule = "R-ATOMIC-ENQ"
	a := &m.A
	if a.PostFn == nil || a.BucketMutex == nil {
		r.undecided(rule, "anchors", "-", "post function / bucket mutex unresolved")
		return
	}
	n := 0
	for _, fn := range m.Funcs {
		m.eachCall(fn, func(c ssa.CallInstruction) {
			if c.Common().StaticCallee() != a.PostFn {
				return
			}
			n++
			held := m.heldAt(c)
			has := false
			for l := range held {
				if l.Field == a.BucketMutex {
					has = true
				}
			}
			key := m.declName(fn) + " / post outside the commit's critical section"
			if has {
				key = m.declName(fn) + " / post inside the commit's critical section"
			}
			r.check(has, rule, key, m.instrPos(c), "the event is enqueued before the bucket mutex taken for the commit is released", "the event is posted after the bucket mutex that serialised the commit has been released: a later commit's event can be enqueued first, so feeds (FIFO queues) receive events out of CAS order, and a checkpoint taken between them skips a mutation")
		})
	}
	if n == 0 {
		r.undecided(rule, "post call sites", "-", "none found")
	}
}

func (m *Model) ruleBACKFILLGAP(r *Results) {
	const rule = "R-BACKFILL-GAP"
	a := &m.A
	bs := m.backfillSites()
	if len(bs) != 1 || a.FeedsField == nil {
		r.undecided(rule, "anchors", "-", "backfill statement / feed registry unresolved")
		return
	}
	bfFn := bs[0].Fn
	// the function that both calls the backfill function and registers the feed
	for _, fn := range m.Funcs {
		var bfCall ssa.CallInstruction
		var reg ssa.Instruction
		m.eachCall(fn, func(c ssa.CallInstruction) {
			callee := c.Common().StaticCallee()
			if callee == nil || !m.inPkg(callee) {
				return
			}
			if _, isGo := c.(*ssa.Go); isGo {
				return
			}
			if callee == bfFn || m.reachableLocal(callee)[bfFn] {
				bfCall = c
			}
		})
		var visit func(f *ssa.Function, depth int)
		visit = func(f *ssa.Function, depth int) {
			for _, b := range f.Blocks {
				for _, ins := range b.Instrs {
					if mu, ok := ins.(*ssa.MapUpdate); ok {
						if ld, ok := mu.Map.(*ssa.UnOp); ok {
							if fa, ok := ld.X.(*ssa.FieldAddr); ok && fieldOf(fa) == a.FeedsField {
								if f == fn {
									reg = mu
								}
							}
						}
					}
				}
			}
		}
		visit(fn, 0)
		// registration may be factored into a helper called from fn
		if reg == nil && bfCall != nil {
			m.eachCall(fn, func(c ssa.CallInstruction) {
				callee := c.Common().StaticCallee()
				if callee == nil || !m.inPkg(callee) || callee == bfFn || c == bfCall {
					return
				}
				if _, isGo := c.(*ssa.Go); isGo {
					return
				}
				for g := range m.reachableLocal(callee) {
					for _, b := range g.Blocks {
						for _, ins := range b.Instrs {
							if mu, ok := ins.(*ssa.MapUpdate); ok {
								if ld, ok := mu.Map.(*ssa.UnOp); ok {
									if fa, ok := ld.X.(*ssa.FieldAddr); ok && fieldOf(fa) == a.FeedsField {
										reg = c
									}
								}
							}
						}
					}
				}
			})
		}
		// ... or into a closure that this function hands to a helper that runs it (a lock helper)
		lexRegister := map[ssa.Instruction]*ssa.MapUpdate{}
		if reg == nil && bfCall != nil {
			for _, e := range m.calleesOf(fn) {
				if !e.Lexical || e.IsGo {
					continue
				}
				for _, b := range e.Callee.Blocks {
					for _, ins := range b.Instrs {
						if mu, ok := ins.(*ssa.MapUpdate); ok {
							if ld, ok := mu.Map.(*ssa.UnOp); ok {
								if fa, ok := ld.X.(*ssa.FieldAddr); ok && fieldOf(fa) == a.FeedsField {
									reg = e.Site
									lexRegister[e.Site] = mu
								}
							}
						}
					}
				}
			}
		}
		if bfCall == nil || reg == nil {
			continue
		}
		if rc, ok := reg.(ssa.CallInstruction); ok && rc == bfCall {
			continue
		}
		// the two must be separate steps of THIS function: the backfill call must not itself perform
		// the registration, nor the registration call the backfill (that would be a caller further up)
		registers := func(f *ssa.Function) bool {
			for g := range m.reachableLocal(f) {
				for _, b := range g.Blocks {
					for _, ins := range b.Instrs {
						if mu, ok := ins.(*ssa.MapUpdate); ok {
							if ld, ok := mu.Map.(*ssa.UnOp); ok {
								if fa, ok := ld.X.(*ssa.FieldAddr); ok && fieldOf(fa) == a.FeedsField {
									return true
								}
							}
						}
					}
				}
			}
			return false
		}
		if callee := bfCall.Common().StaticCallee(); callee != nil && registers(callee) {
			continue
		}
		if rc, ok := reg.(ssa.CallInstruction); ok {
			if callee := rc.Common().StaticCallee(); callee != nil && (callee == bfFn || m.reachableLocal(callee)[bfFn]) {
				continue
			}
		}
		order := "unordered"
		switch {
		case instrReachable(bfCall, reg, nil) && !instrReachable(reg, bfCall, nil):
			order = "snapshot-then-register"
		case instrReachable(reg, bfCall, nil) && !instrReachable(bfCall, reg, nil):
			order = "register-then-snapshot"
		}
		lockedAt := func(in ssa.Instruction) bool {
			for l := range m.heldAt(in) {
				if l.Field == a.BucketMutex {
					return true
				}
			}
			if mu := lexRegister[in]; mu != nil {
				for l := range m.heldAt(mu) {
					if l.Field == a.BucketMutex {
						return true
					}
				}
			}
			// a call to a helper that performs the registration under the mutex itself
			if c, ok := in.(ssa.CallInstruction); ok {
				if callee := c.Common().StaticCallee(); callee != nil {
					for g := range m.reachableLocal(callee) {
						for _, b := range g.Blocks {
							for _, ins := range b.Instrs {
								if mu, ok := ins.(*ssa.MapUpdate); ok {
									if ld, ok := mu.Map.(*ssa.UnOp); ok {
										if fa, ok := ld.X.(*ssa.FieldAddr); ok && fieldOf(fa) == a.FeedsField {
											for l := range m.heldAt(mu) {
												if l.Field == a.BucketMutex {
													return true
												}
											}
										}
									}
								}
							}
						}
					}
				}
			}
			return false
		}
		oneSection := lockedAt(bfCall) && lockedAt(reg)
		if oneSection {
			// no unlock of the bucket mutex between them
			fl := m.locks().fns[fn]
			for _, op := range fl.ops {
				if !op.Acquire && !op.Deferred && op.Lock.Field == a.BucketMutex && instrReachable(bfCall, op.Instr, nil) && instrReachable(op.Instr, reg, nil) {
					oneSection = false
				}
			}
		}
		key := fmt.Sprintf("%s / %s, snapshot locked=%v, registration locked=%v", m.declName(fn), order, lockedAt(bfCall), lockedAt(reg))
		switch {
		case oneSection:
			r.ok(rule, key, m.instrPos(bfCall), "snapshot query and live registration form one critical section of the bucket mutex")
		case order == "snapshot-then-register":
			r.bad(rule, key, m.instrPos(reg), "the backfill snapshot is taken, and only later (in a different critical section) is the feed registered for live events: a mutation that commits in between is in neither and is never delivered")
		case order == "register-then-snapshot":
			r.bad(rule, key, m.instrPos(reg), "the feed is registered for live events before its backfill snapshot is enqueued: concurrent writers push live events between (or ahead of) the snapshot rows, so the backfill section is no longer in CAS order, contains newer versions before older ones, and a checkpoint taken there skips the older rows")
		default:
			r.bad(rule, key, m.instrPos(reg), "snapshot and registration are not ordered on every path")
		}
		return
	}
	r.undecided(rule, "feed start function", "-", "no function both enqueues the backfill and registers the feed")
}

// ---------------------------------------------------------------- R-REGISTRY

func (m *Model) registryType() (*types.Named, *types.Var, []*types.Var) {
	for _, nm := range m.SSA.Pkg.Scope().Names() {
		tn, ok := m.SSA.Pkg.Scope().Lookup(nm).(*types.TypeName)
		if !ok {
			continue
		}
		named, ok := tn.Type().(*types.Named)
		if !ok {
			continue
		}
		st, ok := named.Underlying().(*types.Struct)
		if !ok {
			continue
		}
		var mu *types.Var
		var maps []*types.Var
		for i := 0; i < st.NumFields(); i++ {
			f := st.Field(i)
			if _, isPtr := f.Type().(*types.Pointer); !isPtr && isNamed(f.Type(), "sync", "Mutex") {
				mu = f
			}
			if _, isMap := f.Type().Underlying().(*types.Map); isMap {
				maps = append(maps, f)
			}
		}
		if mu != nil && len(maps) >= 2 && named != m.A.CollectionType {
			return named, mu, maps
		}
	}
	return nil, nil, nil
}

func (m *Model) ruleREGISTRY(r *Results) {
	const rule = "R-REGISTRY"
	a := &m.A
	reg, mu, maps := m.registryType()
	if reg == nil || a.ShutdownFn == nil || a.CloneFn == nil {
		r.undecided(rule, "anchors", "-", "registry type / shutdown / clone unresolved")
		return
	}
	var countMap, bucketMap *types.Var
	for _, f := range maps {
		mp := f.Type().Underlying().(*types.Map)
		if _, isPtr := mp.Elem().(*types.Pointer); isPtr {
			bucketMap = f
		} else {
			countMap = f
		}
	}
	holdsReg := func(in ssa.Instruction) bool {
		for l := range m.heldAt(in) {
			if l.Field == mu {
				return true
			}
		}
		return false
	}
	isRegMethod := func(fn *ssa.Function) bool { return m.methodOwner(fn) == reg }
	for _, fn := range m.Funcs {
		if !isRegMethod(fn) || fn.Parent() != nil {
			continue
		}
		name := m.declName(fn)
		// (a) handing out a handle increments the count, under the lock
		var clones []ssa.CallInstruction
		var shutdowns []ssa.CallInstruction
		var fileDeletes []ssa.CallInstruction
		m.eachCall(fn, func(c ssa.CallInstruction) {
			callee := c.Common().StaticCallee()
			switch {
			case callee == a.CloneFn:
				clones = append(clones, c)
			case callee == a.ShutdownFn:
				shutdowns = append(shutdowns, c)
			case callee != nil && m.inPkg(callee) && m.callsOSRemove(callee):
				fileDeletes = append(fileDeletes, c)
			}
		})
		var incs, dels []ssa.Instruction
		for _, b := range fn.Blocks {
			for _, ins := range b.Instrs {
				switch x := ins.(type) {
				case *ssa.MapUpdate:
					if ld, ok := x.Map.(*ssa.UnOp); ok {
						if fa, ok := ld.X.(*ssa.FieldAddr); ok && fieldOf(fa) == countMap {
							if bo, ok := stripConv(x.Value).(*ssa.BinOp); ok && bo.Op == token.ADD {
								incs = append(incs, x)
							}
						}
					}
				case *ssa.Call:
					if bi, ok := x.Common().Value.(*ssa.Builtin); ok && bi.Name() == "delete" {
						if ld, ok := x.Common().Args[0].(*ssa.UnOp); ok {
							if fa, ok := ld.X.(*ssa.FieldAddr); ok && fieldOf(fa) == bucketMap {
								dels = append(dels, x)
							}
						}
					}
				}
			}
		}
		for _, c := range clones {
			// the copy handed out must be a copy of the REGISTERED bucket (a lookup in the registry map)
			recvV := stripConv(c.Common().Args[0])
			fromRegistry := false
			if lk, ok := recvV.(*ssa.Lookup); ok {
				if ld, ok := lk.X.(*ssa.UnOp); ok {
					if fa, ok := ld.X.(*ssa.FieldAddr); ok && fieldOf(fa) == bucketMap {
						fromRegistry = true
					}
				}
			}
			if ex, ok := recvV.(*ssa.Extract); ok {
				if lk, ok := ex.Tuple.(*ssa.Lookup); ok {
					if ld, ok := lk.X.(*ssa.UnOp); ok {
						if fa, ok := ld.X.(*ssa.FieldAddr); ok && fieldOf(fa) == bucketMap {
							fromRegistry = true
						}
					}
				}
			}
			if !fromRegistry {
				// a local that is either the lookup's result or the value just stored under the same map
				okAll, n := true, 0
				var alts []ssa.Value
				if phi, ok := recvV.(*ssa.Phi); ok {
					alts = phi.Edges
				}
				for _, alt := range alts {
					n++
					av := stripConv(alt)
					isLookup := false
					if ex, ok := av.(*ssa.Extract); ok {
						av = ex.Tuple
					}
					if lk, ok := av.(*ssa.Lookup); ok {
						if ld, ok := lk.X.(*ssa.UnOp); ok {
							if fa, ok := ld.X.(*ssa.FieldAddr); ok && fieldOf(fa) == bucketMap {
								isLookup = true
							}
						}
					}
					stored := false
					for _, b := range fn.Blocks {
						for _, ins := range b.Instrs {
							if mu, ok := ins.(*ssa.MapUpdate); ok && stripConv(mu.Value) == stripConv(alt) {
								if ld, ok := mu.Map.(*ssa.UnOp); ok {
									if fa, ok := ld.X.(*ssa.FieldAddr); ok && fieldOf(fa) == bucketMap {
										stored = true
									}
								}
							}
						}
					}
					if !isLookup && !stored {
						okAll = false
					}
				}
				fromRegistry = okAll && n > 0
			}
			r.check(fromRegistry, rule, name+" / handle is a copy of the registered bucket", m.instrPos(c), "the handle handed out copies the bucket found in the registry", "the handle handed out is a copy of something other than the registered bucket (e.g. the caller's freshly opened one): handles opened concurrently on one name then use different databases, mutexes and feed registries")
			counted := false
			for _, inc := range incs {
				if inc.Block() == c.Block() || inc.Block().Dominates(c.Block()) {
					counted = true
				}
			}
			r.check(counted && holdsReg(c), rule, name+" / handle handed out is counted", m.instrPos(c), "every handle copy is preceded by a reference-count increment under the registry lock", "a handle is handed out without incrementing the reference count under the registry lock: closing it would shut the store down under the other handles")
		}
		// (b) shutting the store down and dropping the registry entry lie in one critical section
		for _, c := range shutdowns {
			okSec := holdsReg(c)
			for _, d := range dels {
				if !holdsReg(d) {
					okSec = false
				}
			}
			// no unlock between shutdown and the entry removal
			if fl := m.locks().fns[fn]; fl != nil {
				for _, op := range fl.ops {
					if !op.Acquire && !op.Deferred && op.Lock.Field == mu {
						okSec = false
					}
				}
			}
			r.check(okSec && len(dels) > 0, rule, name+" / shutdown and entry removal atomic", m.instrPos(c), "the store is shut down and its registry entry removed in one critical section of the registry lock", "the store is shut down while the registry lock is not held (or the entry is removed in a separate critical section): an OpenBucket in the gap is handed a copy of a bucket whose database is already closed")
		}
		// (c) a function that deletes the bucket's files does so on every path
		for _, c := range fileDeletes {
			ok, ret := mustPassThrough(fn, []*ssa.BasicBlock{c.Block()}, nil)
			pos := m.instrPos(c)
			if !ok {
				pos = m.instrPos(ret)
			}
			r.check(ok, rule, name+" / files removed on every path", pos, "deleting a bucket always reaches the removal of its files", "deleting a bucket can return without removing its files (e.g. when it is no longer registered): CloseAndDelete reports success but the data survives and can be reopened")
		}
		// (c'') the files that are removed are those of the bucket the caller handed in - the handle
		// that was just shut down -, not of whatever is registered under the name by now
		for _, c := range fileDeletes {
			for _, a := range c.Common().Args {
				ld, ok := stripConv(a).(*ssa.UnOp)
				if !ok || ld.Op != token.MUL {
					continue
				}
				fa, ok := ld.X.(*ssa.FieldAddr)
				if !ok {
					continue
				}
				_, isParam := stripConv(fa.X).(*ssa.Parameter)
				r.check(isParam, rule, name+" / the files removed are the caller's bucket's", m.instrPos(c), "the location handed to the file removal is a field of the bucket the method was given", "the location whose files are removed is not read from the bucket the caller handed in (it may come from the registry entry): when the name has been registered again for another location, closing and deleting a stale handle removes the files of the live bucket")
			}
		}
		// (c') ... and it drops the registry entry on every path too, whether or not the files could
		// be removed: an entry left behind names a store that was shut down, and the next open of
		// the name is handed a copy of it
		if len(fileDeletes) > 0 && len(dels) > 0 {
			c := newCut()
			for _, d := range dels {
				c.cutBlock(d.Block())
			}
			for _, iff := range allIfs(fn) {
				if ex, ok := stripConv(iff.Cond).(*ssa.Extract); ok && ex.Index == 1 {
					if lk, ok := ex.Tuple.(*ssa.Lookup); ok && lk.CommaOk {
						if ld, ok := lk.X.(*ssa.UnOp); ok {
							if fa, ok := ld.X.(*ssa.FieldAddr); ok && fieldOf(fa) == bucketMap {
								c.cutEdge(iff.Block(), iff.Block().Succs[1])
							}
						}
					}
				}
			}
			reach := entryReach(fn, c)
			bad := ""
			for _, ret := range returnsOf(fn) {
				if reach[ret.Block().Index] {
					bad = m.instrPos(ret)
				}
			}
			r.check(bad == "", rule, name+" / registry entry dropped on every path", m.instrPos(dels[0]), "every return of the deleting function lies behind the removal of the registry entry (or the finding that there is none)", "deleting a bucket can return (at "+bad+") with the bucket still registered, e.g. when its files could not be removed: the store has been shut down by then, and the next OpenBucket of the name is handed a copy of the closed bucket instead of opening the files")
		}
	}
	// (a') a registry method that hands a bucket out hands out a COPY: the stored pointer is the
	// shared store object, and a caller that closes "its handle" would close everybody's
	for _, fn := range m.Funcs {
		if !isRegMethod(fn) || fn.Parent() != nil {
			continue
		}
		res := fn.Signature.Results()
		for i := 0; i < res.Len(); i++ {
			pt, ok := res.At(i).Type().(*types.Pointer)
			if !ok || pt.Elem() != types.Type(a.BucketType) {
				continue
			}
			bad := ""
			var chk func(v ssa.Value, depth int, pos string)
			chk = func(v ssa.Value, depth int, pos string) {
				v = stripConv(v)
				if depth > 4 {
					return
				}
				switch x := v.(type) {
				case *ssa.Const:
				case *ssa.Phi:
					for _, e := range x.Edges {
						chk(e, depth+1, pos)
					}
				case *ssa.Call:
					if g := x.Common().StaticCallee(); g != a.CloneFn {
						// a helper of the registry whose own result is a copy on every return
						if g == nil || !isRegMethod(g) || g.Blocks == nil || g.Signature.Results().Len() != 1 {
							bad = pos
							return
						}
						for _, ret := range returnsOf(g) {
							chk(ret.Results[0], depth+1, m.instrPos(ret))
						}
					}
				case *ssa.Extract:
					// one result of a registry helper that returns several
					c, _ := x.Tuple.(*ssa.Call)
					var g *ssa.Function
					if c != nil {
						g = c.Common().StaticCallee()
					}
					if g == nil || !isRegMethod(g) || g.Blocks == nil {
						bad = pos
						return
					}
					for _, ret := range returnsOf(g) {
						if x.Index < len(ret.Results) {
							chk(ret.Results[x.Index], depth+1, m.instrPos(ret))
						}
					}
				case *ssa.UnOp:
					// a result spilled into a cell because of a defer: what the returns store there
					al, isAl := x.X.(*ssa.Alloc)
					if !isAl || x.Op != token.MUL || al.Referrers() == nil {
						bad = pos
						return
					}
					for _, ref := range *al.Referrers() {
						if st, ok := ref.(*ssa.Store); ok && st.Addr == ssa.Value(al) {
							chk(st.Val, depth+1, m.instrPos(st))
						}
					}
				default:
					bad = pos
				}
			}
			for _, ret := range returnsOf(fn) {
				if i < len(ret.Results) {
					chk(ret.Results[i], 0, m.instrPos(ret))
				}
			}
			pos := m.pos(fn.Pos())
			if bad != "" {
				pos = bad
			}
			r.check(bad == "", rule, m.declName(fn)+" / hands out copies only", pos, "every bucket the method returns is the result of the handle-copy function (or nil)", "the registry method returns a bucket that is not a fresh copy (the stored object itself, or the caller's): handles then share one `closed` flag and one reference, so closing one handle disables the others")
		}
	}
	// (a'') whether a bucket is registered is decided from the map that holds the buckets: a "not
	// there" answer (every result nil) of a registry method that hands out buckets is controlled by
	// a look-up in a map of buckets, not in a side table (the reference counts forget an in-memory
	// bucket whose handles are all closed, the bucket map does not)
	for _, fn := range m.Funcs {
		if !isRegMethod(fn) || fn.Parent() != nil {
			continue
		}
		res := fn.Signature.Results()
		handsOut := false
		for i := 0; i < res.Len(); i++ {
			if pt, ok := res.At(i).Type().(*types.Pointer); ok && pt.Elem() == types.Type(a.BucketType) {
				handsOut = true
			}
		}
		if os.Getenv("RL_DEBUG") != "" {
			fmt.Fprintf(os.Stderr, "DEBUG a'' %s handsOut=%v res=%d\n", m.declName(fn), handsOut, res.Len())
		}
		if !handsOut || res.Len() < 2 {
			continue
		}
		for _, ret := range returnsOf(fn) {
			allNil := true
			for _, rv := range ret.Results {
				if c, ok := stripConv(spilledResult(ret, rv)).(*ssa.Const); !ok || c.Value != nil {
					allNil = false
				}
			}
			if !allNil {
				continue
			}
			bad := ""
			for _, ct := range controllingConds(fn, ret.Block()) {
				cd := condOf(ct.If)
				for _, o := range []ssa.Value{cd.X, cd.Y} {
					if o == nil {
						continue
					}
					v := stripConv(o)
					if ex, ok := v.(*ssa.Extract); ok {
						v = ex.Tuple
					}
					if lk, ok := v.(*ssa.Lookup); ok {
						if mt, ok := lk.X.Type().Underlying().(*types.Map); ok {
							if pt, ok := mt.Elem().(*types.Pointer); !ok || pt.Elem() != types.Type(a.BucketType) {
								bad = m.instrPos(ct.If)
							}
						}
					}
				}
			}
			r.check(bad == "", rule, m.declName(fn)+" / registered is decided from the bucket map", m.instrPos(ret), "the not-registered answer depends only on look-ups in the map of buckets", "the registry answers 'no such bucket' from a look-up in a map that does not hold the buckets (at "+bad+"): the side table and the bucket map disagree for an in-memory bucket whose handles are all closed, so open modes and the URL check then see a bucket that exists as absent")
		}
	}
	// (d) Close is idempotent: unregister reachable only when the handle was not closed before, flag set under the lock
	// the registry methods that shut the store down, themselves or through a helper of the registry
	unregs := map[*ssa.Function]bool{}
	for _, fn := range m.Funcs {
		if isRegMethod(fn) && fn.Parent() == nil {
			for g := range m.reachableLocal(fn) {
				if g != fn && !isRegMethod(g) {
					continue
				}
				m.eachCall(g, func(c ssa.CallInstruction) {
					if c.Common().StaticCallee() == a.ShutdownFn {
						unregs[fn] = true
					}
				})
			}
		}
	}
	if len(unregs) == 0 {
		r.undecided(rule, "unregister", "-", "no registry method shuts the store down")
		return
	}
	callsUnreg := func(f *ssa.Function) bool {
		for u := range unregs {
			if m.staticallyCalls(f, u) {
				return true
			}
		}
		return false
	}
	nClose := 0
	for _, fn := range m.Funcs {
		if fn.Parent() != nil || m.methodOwner(fn) != a.BucketType {
			continue
		}
		var call ssa.CallInstruction
		m.eachCall(fn, func(c ssa.CallInstruction) {
			callee := c.Common().StaticCallee()
			if unregs[callee] || callee != nil && m.inPkg(callee) && callee.Signature.Recv() == nil && callsUnreg(callee) {
				call = c
			}
		})
		if call == nil {
			continue
		}
		nClose++
		name := m.declName(fn)
		// the closed flag: unregister only on the edge where the previously read flag was false
		c := newCut()
		found := false
		for _, iff := range allIfs(fn) {
			cd := condOf(iff)
			if cd.Op != token.ILLEGAL {
				continue
			}
			if ok, neg := m.derivesWithParity(cd.X, a.ClosedField.Name(), 0, map[ssa.Value]bool{}); ok {
				// cut the edge on which the handle was still open: the release must then be unreachable
				c.cutEdge(iff.Block(), cd.succWhen(neg))
				found = true
			}
		}
		r.check(found && !entryReach(fn, c)[call.Block().Index], rule, name+" / release once", m.instrPos(call), "the registry reference is released only if this handle was not closed before", "closing a handle releases the registry's reference every time: a second Close of the same handle takes away another handle's reference and shuts the store down under it")
		// flag set under the lock (in Close itself or in a helper it calls)
		setLocked := false
		for g := range m.reachableLocal(fn) {
			if unregs[g] || m.methodOwner(g) == reg {
				continue
			}
			for _, b := range g.Blocks {
				for _, ins := range b.Instrs {
					if st, ok := ins.(*ssa.Store); ok {
						if fa, ok := st.Addr.(*ssa.FieldAddr); ok && fieldOf(fa) == a.ClosedField {
							for l := range m.heldAt(st) {
								if l.Field == a.BucketMutex {
									setLocked = true
								}
							}
						}
					}
				}
			}
		}
		r.check(setLocked, rule, name+" / closed flag under mutex", m.pos(fn.Pos()), "the closed flag is set while holding the bucket mutex", "Close does not set the closed flag under the bucket mutex")
	}
	if nClose == 0 {
		r.undecided(rule, "Close", "-", "no bucket method releases the registry reference")
	}
	// the closed flag is tested and set in ONE critical section: between the read that decides
	// whether to release and the store that marks the handle closed the bucket mutex is not let go
	// (otherwise two overlapping Close calls both see "open" and both release)
	if a.ClosedField != nil && a.BucketMutex != nil {
		nTS := 0
		for _, fn := range m.Funcs {
			var stores []*ssa.Store
			var loads []*ssa.UnOp
			for _, b := range fn.Blocks {
				for _, ins := range b.Instrs {
					switch x := ins.(type) {
					case *ssa.Store:
						if fa, ok := x.Addr.(*ssa.FieldAddr); ok && fieldOf(fa) == a.ClosedField {
							if cst, ok := x.Val.(*ssa.Const); ok && cst.Value != nil && constant.BoolVal(cst.Value) {
								if _, fresh := fa.X.(*ssa.Alloc); !fresh {
									stores = append(stores, x)
								}
							}
						}
					case *ssa.UnOp:
						if _, f, ok := fieldLoad(x); ok && f == a.ClosedField {
							loads = append(loads, x)
						}
					}
				}
			}
			if len(stores) == 0 {
				continue
			}
			root := fn
			for root.Parent() != nil {
				root = root.Parent()
			}
			// only the functions that mark a handle closed on behalf of a release (Close), not constructors
			releases := func(f *ssa.Function) bool {
				if callsUnreg(f) {
					return true
				}
				for g := range m.reachableLocal(f) {
					if unregs[g] {
						return true
					}
				}
				return false
			}
			okRoot := releases(root)
			if !okRoot {
				// a helper (markClosed) of a function that releases
				for _, cl := range m.staticCallersOf(root) {
					cr := cl.Parent()
					for cr.Parent() != nil {
						cr = cr.Parent()
					}
					if releases(cr) {
						okRoot = true
					}
				}
			}
			if !okRoot {
				continue
			}
			for _, st := range stores {
				nTS++
				okTS := false
				for _, ld := range loads {
					// walk from the load to the store; an Unlock of the bucket mutex on the way breaks the section
					seen := map[*ssa.BasicBlock]bool{}
					var walk func(b *ssa.BasicBlock, from int) bool
					walk = func(b *ssa.BasicBlock, from int) bool {
						for i := from; i < len(b.Instrs); i++ {
							if b.Instrs[i] == ssa.Instruction(st) {
								return true
							}
							if c, ok := b.Instrs[i].(ssa.CallInstruction); ok {
								if _, isDefer := c.(*ssa.Defer); !isDefer {
									if op, ok := m.lockOpOf(c); ok && !op.Acquire && op.Lock.Field == a.BucketMutex {
										return false
									}
								}
							}
						}
						for _, s := range b.Succs {
							if !seen[s] {
								seen[s] = true
								if walk(s, 0) {
									return true
								}
							}
						}
						return false
					}
					if walk(ld.Block(), indexIn(ld.Block(), ld)+1) {
						okTS = true
					}
				}
				r.check(okTS, rule, m.declName(root)+" / closed flag tested and set in one critical section", m.instrPos(st), "the flag is set in the critical section that read it", "the handle is marked closed in a different critical section than the one that tested the flag (or without testing it): two overlapping Close calls of one handle both find it open and both release the registry's reference, shutting the store down under the other handles")
			}
		}
		if nTS == 0 {
			r.undecided(rule, "closed flag", "-", "no function marks a handle closed")
		}
	}
	// a bucket method that deletes the bucket's files first shuts the shared store down,
	// unconditionally: other handles must not keep working on a deleted store
	nDel := 0
	for _, fn := range m.Funcs {
		root := fn
		for root.Parent() != nil {
			root = root.Parent()
		}
		if m.methodOwner(root) != a.BucketType {
			continue
		}
		var del, shut ssa.CallInstruction
		m.eachCall(fn, func(c ssa.CallInstruction) {
			callee := c.Common().StaticCallee()
			if callee == nil || !m.inPkg(callee) {
				return
			}
			reach := m.reachableLocal(callee)
			if m.alwaysCalls(callee, a.ShutdownFn, 0) {
				if shut == nil {
					shut = c
				}
				if !m.deletesFiles(callee) {
					return
				}
			}
			if m.deletesFiles(callee) && !reach[a.ShutdownFn] {
				del = c
			}
		})
		if del == nil {
			continue
		}
		nDel++
		ok := shut != nil && (shut.Block() == del.Block() && indexIn(shut.Block(), shut) < indexIn(del.Block(), del) || shut.Block() != del.Block() && shut.Block().Dominates(del.Block()))
		if !ok && shut == nil && fn.Parent() != nil {
			// the deletion is a callback handed to a helper that shuts the store down first and only
			// then runs it (`bucket.shutDown(func() error { return deleteBucket(ctx, bucket) })`)
			ok = m.closureRunsAfterShutdown(fn)
		}
		r.check(ok, rule, m.declName(root)+" / store shut down before its files are deleted", m.instrPos(del), "the shutdown routine runs on every path before the files are deleted", "the bucket's files are deleted on a path on which the shared store has not been shut down: handles that are still open keep reading and writing a deleted database, and their feeds and timer keep running")
	}
	if nDel == 0 {
		r.undecided(rule, "delete", "-", "no bucket method deletes the bucket's files")
	}
	r.floor(rule, 6)
}

func (m *Model) callsOSRemove(fn *ssa.Function) bool {
	found := false
	m.eachCall(fn, func(c ssa.CallInstruction) {
		if f := c.Common().StaticCallee(); f != nil && f.Pkg != nil && f.Pkg.Pkg.Path() == "os" && (f.Name() == "Remove" || f.Name() == "RemoveAll") {
			found = true
		}
	})
	return found
}

func (m *Model) staticallyCalls(fn, target *ssa.Function) bool {
	found := false
	m.eachCall(fn, func(c ssa.CallInstruction) {
		if c.Common().StaticCallee() == target {
			found = true
		}
	})
	return found
}

// ---------------------------------------------------------------- R-SHUTDOWN

func (m *Model) ruleSHUTDOWN(r *Results) {
	const rule = "R-SHUTDOWN"
	a := &m.A
	fn := a.ShutdownFn
	if fn == nil || a.FeedsField == nil {
		r.undecided(rule, "anchors", "-", "shutdown routine unresolved")
		return
	}
	name := m.declName(fn)
	var dbClose, timerStop ssa.CallInstruction
	var feedRange ssa.Instruction
	var queueCloses []ssa.CallInstruction
	m.eachCall(fn, func(c ssa.CallInstruction) {
		cc := c.Common()
		if isMethodCall(cc, "database/sql", "DB", "Close") {
			dbClose = c
		}
		if callee := cc.StaticCallee(); callee != nil && m.inPkg(callee) {
			// the step of the shutdown routine that closes the handle
			for _, st := range a.ShutdownSteps {
				if st == callee {
					m.eachCall(st, func(c3 ssa.CallInstruction) {
						if isMethodCall(c3.Common(), "database/sql", "DB", "Close") {
							dbClose = c
						}
					})
				}
			}
			stops := false
			reach := m.reachHybrid(callee, false)
			for _, e := range m.calleesOf(fn) {
				if e.Site == c && e.Lexical {
					for f := range m.reachHybrid(e.Callee, false) {
						reach[f] = true
					}
				}
			}
			for f := range reach {
				m.eachCall(f, func(c2 ssa.CallInstruction) {
					if isMethodCall(c2.Common(), "time", "Timer", "Stop") {
						stops = true
					}
				})
			}
			if stops {
				timerStop = c
			}
			for f := range m.reachableLocal(callee) {
				if m.isQueueMethod(f, "close") {
					queueCloses = append(queueCloses, c)
					break
				}
			}
		}
	})
	rangesFeeds := func(f *ssa.Function) ssa.Instruction {
		for _, b := range f.Blocks {
			for _, ins := range b.Instrs {
				if rg, ok := ins.(*ssa.Range); ok {
					if ld, ok := rg.X.(*ssa.UnOp); ok {
						if fa, ok := ld.X.(*ssa.FieldAddr); ok && fieldOf(fa) == a.FeedsField {
							return rg
						}
					}
				}
			}
		}
		return nil
	}
	feedRange = rangesFeeds(fn)
	if feedRange == nil {
		m.eachCall(fn, func(c ssa.CallInstruction) {
			if callee := c.Common().StaticCallee(); callee != nil && m.inPkg(callee) {
				for g := range m.reachableLocal(callee) {
					if rangesFeeds(g) != nil {
						feedRange = c
					}
				}
			}
		})
	}
	if dbClose == nil {
		r.undecided(rule, name, m.pos(fn.Pos()), "no DB close found")
		return
	}
	before := func(x ssa.Instruction) bool {
		return x != nil && instrReachable(x, dbClose, nil) && !instrReachable(dbClose, x, nil)
	}
	r.check(timerStop != nil && before(timerStop), rule, name+" / timer stopped first", m.instrPos(dbClose), "the expiry timer is stopped before the database is closed", "the database is closed before (or without) stopping the expiry timer: the callback then runs against a closed database")
	r.check(feedRange != nil && before(feedRange) && len(queueCloses) > 0, rule, name+" / all feeds closed first", m.instrPos(dbClose), "every feed in the shared registry is closed before the database is closed", "shutdown does not close the feeds by walking the shared feed registry before closing the database: feeds started through another handle, or on collections this handle never opened, keep running (their done channels never close)")

	// The feed's own closer (a named method that hands over to the queue's close) does so on
	// every path: a closer that returns early for some feeds leaves those feeds' goroutines
	// running after shutdown. Only a nil guard on the receiver may bypass the hand-over.
	nClosers := 0
	for _, w := range m.Funcs {
		if w.Signature.Recv() == nil || w.Parent() != nil || len(w.Blocks) == 0 || m.isQueueMethod(w, "close") || rangesFeeds(w) != nil {
			continue
		}
		c := newCut()
		found := false
		m.eachCall(w, func(ci ssa.CallInstruction) {
			if callee := ci.Common().StaticCallee(); callee != nil && m.inPkg(callee) && m.isQueueMethod(callee, "close") && ci.Parent() == w {
				found = true
				c.cutBlock(ci.Block())
			}
		})
		if !found || c.blocks[0] {
			if found {
				nClosers++
				r.ok(rule, m.declName(w)+" / closes its queue on every path", m.pos(w.Pos()), "the queue's close is called in the entry block")
			}
			continue
		}
		nClosers++
		for _, iff := range allIfs(w) {
			cd := condOf(iff)
			eq, ok := cd.equalEdge()
			if !ok {
				continue
			}
			var other ssa.Value
			if isNilConst(cd.Y) {
				other = cd.X
			} else if isNilConst(cd.X) {
				other = cd.Y
			}
			if p, isP := other.(*ssa.Parameter); isP && len(w.Params) > 0 && p == w.Params[0] {
				c.cutEdge(iff.Block(), eq)
			}
		}
		reach := entryReach(w, c)
		escapes := false
		for _, ret := range returnsOf(w) {
			if reach[ret.Block().Index] {
				escapes = true
			}
		}
		r.check(!escapes, rule, m.declName(w)+" / closes its queue on every path", m.pos(w.Pos()), "every path through the feed's closer reaches the queue's close (a nil receiver aside)", "the feed's closer can return without closing the feed's queue: a feed for which it does so keeps its goroutines running after shutdown or drop, and its done channel never closes")
	}
	if nClosers == 0 {
		r.undecided(rule, "feed closer", m.pos(fn.Pos()), "no named method hands over to the queue's close")
	}
}

// manualRegion: the instructions executed between a manual Lock and the matching Unlock(s).
func (m *Model) manualRegion(op lockOp) []ssa.Instruction {
	var out []ssa.Instruction
	seen := map[*ssa.BasicBlock]bool{}
	var walk func(b *ssa.BasicBlock, from int)
	walk = func(b *ssa.BasicBlock, from int) {
		for i := from; i < len(b.Instrs); i++ {
			ins := b.Instrs[i]
			if c, ok := ins.(ssa.CallInstruction); ok {
				if o2, ok := m.lockOpOf(c); ok && o2.Lock == op.Lock && !o2.Acquire {
					return
				}
			}
			out = append(out, ins)
		}
		for _, s := range b.Succs {
			if !seen[s] {
				seen[s] = true
				walk(s, 0)
			}
		}
	}
	walk(op.Instr.Block(), indexIn(op.Instr.Block(), op.Instr)+1)
	return out
}

// isLeaf: a package function that makes no calls other than builtins.
func (m *Model) isLeaf(fn *ssa.Function) bool {
	leaf := true
	m.eachCall(fn, func(c ssa.CallInstruction) {
		if _, isB := c.Common().Value.(*ssa.Builtin); !isB {
			leaf = false
		}
	})
	return leaf
}

// zeroGuardedCaller: every caller (inside the extent of e.Via) of the unconditional locker lf
// reaches that call only when one of its own parameters is non-zero. Returns that caller and parameter.
func (m *Model) zeroGuardedCaller(lf *ssa.Function, e orderEdge) (*ssa.Function, *ssa.Parameter) {
	var guard *ssa.Function
	var gp *ssa.Parameter
	for f := range m.reachHybrid(e.Via, false) {
		for _, ce := range m.calleesOf(f) {
			if ce.Callee != lf || ce.IsGo {
				continue
			}
			// f calls lf at ce.Site: the site must be unreachable when some parameter of f is zero
			okSite := false
			for _, iff := range allIfs(f) {
				cd := condOf(iff)
				eq, ok := cd.equalEdge()
				if !ok {
					continue
				}
				var other ssa.Value
				if isZeroConst(cd.Y) {
					other = cd.X
				} else if isZeroConst(cd.X) {
					other = cd.Y
				}
				if other == nil {
					continue
				}
				rv, _ := m.resolve(other, topFrame(f))
				p, isP := stripConv(rv).(*ssa.Parameter)
				if !isP {
					continue
				}
				c := newCut()
				for _, s := range iff.Block().Succs {
					if s != eq {
						c.cutEdge(iff.Block(), s)
					}
				}
				if !entryReach(f, c)[ce.Site.Block().Index] {
					okSite = true
					guard, gp = f, p
				}
			}
			if !okSite && os.Getenv("RL_DEBUG") != "" {
				fmt.Fprintf(os.Stderr, "DEBUG zeroGuardedCaller: %s calls %s at %s without zero guard\n", m.declName(f), m.declName(lf), m.instrPos(ce.Site))
			}
			if !okSite {
				// f itself may be an unconditional intermediary: recurse one level
				if g2, p2 := m.zeroGuardedCaller(f, e); g2 != nil && f != lf {
					guard, gp = g2, p2
					continue
				}
				return nil, nil
			}
		}
	}
	return guard, gp
}

// alwaysCalls: every path through f (from entry to a return) calls target, directly or through a
// callee for which the same holds.
func (m *Model) alwaysCalls(f, target *ssa.Function, depth int) bool {
	if f == target {
		return true
	}
	if f == nil || depth > 3 || !m.inPkg(f) || len(f.Blocks) == 0 {
		return false
	}
	var through []*ssa.BasicBlock
	m.eachCall(f, func(c ssa.CallInstruction) {
		if _, isGo := c.(*ssa.Go); isGo {
			return
		}
		if _, isDefer := c.(*ssa.Defer); isDefer {
			return
		}
		if callee := c.Common().StaticCallee(); callee != nil && m.alwaysCalls(callee, target, depth+1) {
			through = append(through, c.Block())
		}
	})
	if len(through) == 0 {
		return false
	}
	ok, _ := mustPassThrough(f, through, nil)
	return ok
}

// operationRoots: the names of the exported or caller-less functions from which instruction
// `site` of fn is reached through static calls (closures count for their enclosing function); a
// caller whose constant boolean arguments make the site unreachable in the callee does not count
// (`shutDown(ctx, false)` never reaches the deletion).
func (m *Model) operationRoots(fn *ssa.Function, site ssa.Instruction) []string {
	type key struct {
		f *ssa.Function
		i ssa.Instruction
	}
	seen := map[key]bool{}
	roots := map[string]bool{}
	var visit func(f *ssa.Function, at ssa.Instruction, d int)
	visit = func(f *ssa.Function, at ssa.Instruction, d int) {
		if f == nil || d > 12 {
			return
		}
		// a function used as a value (a bound method, or a closure that is handed on rather than
		// called): a callback, named after the one package function it runs, however it is wrapped
		if isBound := strings.HasSuffix(f.Name(), "$bound"); isBound || f.Parent() != nil {
			asValue := isBound
			if f.Parent() != nil {
				asValue = true
				for _, b := range f.Parent().Blocks {
					for _, ins := range b.Instrs {
						if c, ok := ins.(ssa.CallInstruction); ok {
							if mc, ok := c.Common().Value.(*ssa.MakeClosure); ok && mc.Fn == ssa.Value(f) {
								asValue = false // called where it is made (a defer, an immediate call)
							}
							// handed to a package function that runs it before it returns (a transaction
							// runner, a "do this while holding the lock" helper): part of the same operation
							for i, a := range c.Common().Args {
								if mc, ok := a.(*ssa.MakeClosure); ok && mc.Fn == ssa.Value(f) {
									if h := c.Common().StaticCallee(); h != nil && m.inPkg(h) && m.invokesParam(h, i, 0) {
										asValue = false
									}
								}
							}
						}
					}
				}
			}
			if asValue {
				var callees []*ssa.Function
				m.eachCall(f, func(c ssa.CallInstruction) {
					if g := c.Common().StaticCallee(); g != nil && m.inPkg(g) {
						callees = append(callees, g)
					}
				})
				if len(callees) == 1 {
					roots["callback "+m.declName(callees[0])] = true
					return
				}
			}
			if f.Parent() != nil {
				// a closure: continue from the enclosing function (the closure's creation point)
				visit(f.Parent(), nil, d+1)
				return
			}
		}
		if seen[key{f, at}] {
			return
		}
		seen[key{f, at}] = true
		callers := m.staticCallersOf(f)
		exported := f.Object() != nil && f.Object().Exported()
		if exported || len(callers) == 0 {
			roots[m.declName(f)] = true
		}
		if exported {
			return
		}
		for _, c := range callers {
			if at != nil && at.Parent() == f && !reachableWithConstArgs(f, at, c) {
				continue
			}
			visit(c.Parent(), c, d+1)
		}
	}
	visit(fn, site, 0)
	var out []string
	for r := range roots {
		out = append(out, r)
	}
	sort.Strings(out)
	return out
}

// reachableWithConstArgs: is instruction `at` of f reachable when f is called by `call`, whose
// constant boolean arguments decide the branches on the corresponding parameters?
func reachableWithConstArgs(f *ssa.Function, at ssa.Instruction, call ssa.CallInstruction) bool {
	known := map[*ssa.Parameter]bool{}
	for i, a := range call.Common().Args {
		if i >= len(f.Params) {
			break
		}
		if k, ok := stripConv(a).(*ssa.Const); ok && k.Value != nil && k.Value.Kind() == constant.Bool {
			known[f.Params[i]] = constant.BoolVal(k.Value)
		}
	}
	if len(known) == 0 {
		return true
	}
	c := newCut()
	for _, iff := range allIfs(f) {
		cd := condOf(iff)
		if cd.Op != token.ILLEGAL || cd.X == nil {
			continue
		}
		if p, ok := stripConv(cd.X).(*ssa.Parameter); ok {
			if v, have := known[p]; have {
				c.cutEdge(iff.Block(), cd.succWhen(!v))
			}
		}
	}
	return entryReach(f, c)[at.Block().Index]
}

// spilledResult: a result that go/ssa spilled into a cell because of a defer: what the return
// statement stored there (the value itself otherwise).
func spilledResult(ret *ssa.Return, rv ssa.Value) ssa.Value {
	ld, ok := rv.(*ssa.UnOp)
	if !ok || ld.Op != token.MUL {
		return rv
	}
	al, ok := ld.X.(*ssa.Alloc)
	if !ok {
		return rv
	}
	instrs := ret.Block().Instrs
	for i := len(instrs) - 1; i >= 0; i-- {
		if st, ok := instrs[i].(*ssa.Store); ok && st.Addr == ssa.Value(al) {
			return st.Val
		}
	}
	return rv
}

// closureRunsAfterShutdown: the closure is created once, handed to a package function as an
// argument, and that function invokes the corresponding parameter only after a call that always
// reaches the shutdown routine.
func (m *Model) closureRunsAfterShutdown(clos *ssa.Function) bool {
	parent := clos.Parent()
	if parent == nil {
		return false
	}
	okAll, n := true, 0
	for _, b := range parent.Blocks {
		for _, ins := range b.Instrs {
			mc, isMC := ins.(*ssa.MakeClosure)
			if !isMC || mc.Fn != ssa.Value(clos) || mc.Referrers() == nil {
				continue
			}
			for _, ref := range *mc.Referrers() {
				call, isCall := ref.(ssa.CallInstruction)
				if !isCall {
					okAll = false
					continue
				}
				h := call.Common().StaticCallee()
				if h == nil || !m.inPkg(h) || h.Blocks == nil {
					okAll = false
					continue
				}
				for i, a := range call.Common().Args {
					if a != ssa.Value(mc) || i >= len(h.Params) {
						continue
					}
					n++
					p := h.Params[i]
					var shuts, invokes []ssa.CallInstruction
					m.eachCall(h, func(c ssa.CallInstruction) {
						if c.Common().Value == ssa.Value(p) && !c.Common().IsInvoke() {
							invokes = append(invokes, c)
						}
						if g := c.Common().StaticCallee(); g != nil && (g == m.A.ShutdownFn || m.inPkg(g) && m.alwaysCalls(g, m.A.ShutdownFn, 0)) {
							shuts = append(shuts, c)
						}
					})
					if len(invokes) == 0 || p.Referrers() == nil {
						okAll = false
					}
					for _, inv := range invokes {
						dominated := false
						for _, sh := range shuts {
							if sh.Block() == inv.Block() && indexIn(sh.Block(), sh) < indexIn(inv.Block(), inv) || sh.Block() != inv.Block() && sh.Block().Dominates(inv.Block()) {
								dominated = true
							}
						}
						if !dominated {
							okAll = false
						}
					}
				}
			}
		}
	}
	return okAll && n > 0
}

// invokesParam: package function h calls its function-typed parameter #i itself (or hands it to
// a package function that does), as opposed to storing it for later.
func (m *Model) invokesParam(h *ssa.Function, i int, depth int) bool {
	if h == nil || i >= len(h.Params) || depth > 2 || h.Blocks == nil {
		return false
	}
	p := h.Params[i]
	found := false
	m.eachCall(h, func(c ssa.CallInstruction) {
		if c.Common().Value == ssa.Value(p) && !c.Common().IsInvoke() {
			if _, isGo := c.(*ssa.Go); !isGo {
				found = true
			}
		}
		if g := c.Common().StaticCallee(); g != nil && m.inPkg(g) {
			for j, a := range c.Common().Args {
				if a == ssa.Value(p) && m.invokesParam(g, j, depth+1) {
					found = true
				}
			}
		}
	})
	return found
}
