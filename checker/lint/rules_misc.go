package lint

import (
	"fmt"
	"go/constant"
	"go/token"
	"go/types"
	"sort"
	"strings"

	"golang.org/x/tools/go/ssa"

	"rosmarlint/sqlp"
)

func isBuiltinCall(c ssa.CallInstruction, name string) bool {
	b, ok := c.Common().Value.(*ssa.Builtin)
	return ok && b.Name() == name
}

// derivesFromField: does v derive (through loads, phis, cells) from a load of a struct field with this name?
func (m *Model) derivesFromField(v ssa.Value, fieldName string, depth int, seen map[ssa.Value]bool) bool {
	if depth > 8 || v == nil || seen[v] {
		return false
	}
	seen[v] = true
	v = stripConv(v)
	if _, f, ok := fieldLoad(v); ok && f.Name() == fieldName {
		return true
	}
	switch x := v.(type) {
	case *ssa.Phi:
		for _, e := range x.Edges {
			if m.derivesFromField(e, fieldName, depth+1, seen) {
				return true
			}
		}
	case *ssa.Extract:
		return m.derivesFromField(x.Tuple, fieldName, depth+1, seen)
	case *ssa.Call:
		if callee := x.Common().StaticCallee(); callee != nil && m.inPkg(callee) {
			for _, ret := range returnsOf(callee) {
				for _, res := range ret.Results {
					if m.derivesFromField(res, fieldName, depth+1, seen) {
						return true
					}
				}
			}
		}
	case *ssa.UnOp:
		if x.Op == token.NOT {
			return m.derivesFromField(x.X, fieldName, depth+1, seen)
		}
		if x.Op == token.MUL {
			switch cell := x.X.(type) {
			case *ssa.Alloc:
				for _, ref := range *cell.Referrers() {
					if st, ok := ref.(*ssa.Store); ok && st.Addr == cell && m.derivesFromField(st.Val, fieldName, depth+1, seen) {
						return true
					}
				}
			case *ssa.FreeVar:
				if bind, _ := m.freeVarBinding(cell, nil); bind != nil {
					if al, ok := bind.(*ssa.Alloc); ok {
						for _, ref := range *al.Referrers() {
							if st, ok := ref.(*ssa.Store); ok && st.Addr == al && m.derivesFromField(st.Val, fieldName, depth+1, seen) {
								return true
							}
						}
					}
				}
			}
		}
	}
	return false
}

// ---------------------------------------------------------------- R-DONE

// feedLoopFn: the function that pulls from the queue in a loop and hands events to a callback.
func (m *Model) feedLoopFn() (*ssa.Function, ssa.CallInstruction, ssa.CallInstruction) {
	for _, fn := range m.Funcs {
		if fn.Parent() != nil {
			continue
		}
		var pull, cb ssa.CallInstruction
		m.eachCall(fn, func(c ssa.CallInstruction) {
			if callee := c.Common().StaticCallee(); callee != nil && m.isQueueMethod(callee, "pull") && inCycle(c.Block()) {
				pull = c
			}
			if c.Common().StaticCallee() == nil && !c.Common().IsInvoke() && inCycle(c.Block()) {
				if _, isB := c.Common().Value.(*ssa.Builtin); !isB {
					cb = c
				}
			}
		})
		if pull != nil && cb != nil {
			return fn, pull, cb
		}
		// the delivery may sit in a helper the loop hands each event to (`feed.deliver(event)`): the
		// loop's call of that helper then stands for the callback
		if pull != nil {
			m.eachCall(fn, func(c ssa.CallInstruction) {
				if h := c.Common().StaticCallee(); h != nil && m.inPkg(h) && inCycle(c.Block()) && cb == nil {
					if m.innerCallback(h) != nil {
						cb = c
					}
				}
			})
			if cb != nil {
				return fn, pull, cb
			}
		}
	}
	return nil, nil, nil
}

// innerCallback: the call of a function-typed field or parameter (the feed's callback) that h
// performs on every path, if any.
func (m *Model) innerCallback(h *ssa.Function) ssa.CallInstruction {
	var inner ssa.CallInstruction
	m.eachCall(h, func(c ssa.CallInstruction) {
		if c.Common().StaticCallee() == nil && !c.Common().IsInvoke() {
			if _, isB := c.Common().Value.(*ssa.Builtin); !isB {
				if _, isCall := c.(*ssa.Call); isCall {
					inner = c
				}
			}
		}
	})
	if inner == nil {
		return nil
	}
	if ok, _ := mustPassThrough(h, []*ssa.BasicBlock{inner.Block()}, nil); !ok {
		return nil
	}
	return inner
}

func (m *Model) ruleDONE(r *Results) {
	const rule = "R-DONE"
	fn, pull, cb := m.feedLoopFn()
	if fn == nil {
		r.undecided(rule, "feed loop", "-", "no function pulls from the queue in a loop and calls a callback")
		return
	}
	root, loopEntry := m.feedRoot()
	name := m.declName(root)
	// (a) deferred close of the done channel, guarded only by "non-nil", before the loop
	var deferClose ssa.CallInstruction
	var otherCloses []ssa.CallInstruction
	m.eachCall(root, func(c ssa.CallInstruction) {
		if !isBuiltinCall(c, "close") {
			return
		}
		if !m.derivesFromField(c.Common().Args[0], "DoneChan", 0, map[ssa.Value]bool{}) {
			return
		}
		if _, isDefer := c.(*ssa.Defer); isDefer {
			deferClose = c
		} else {
			otherCloses = append(otherCloses, c)
		}
	})
	// (or a deferred method of the feed whose only effect is that guarded close: `defer feed.signalDone()`)
	var deferHelper ssa.CallInstruction
	var helperClose ssa.CallInstruction
	if deferClose == nil {
		m.eachCall(root, func(c ssa.CallInstruction) {
			if _, isDefer := c.(*ssa.Defer); !isDefer {
				return
			}
			h := c.Common().StaticCallee()
			if h == nil || !m.inPkg(h) || len(h.Blocks) == 0 {
				return
			}
			var cl []ssa.CallInstruction
			others := 0
			m.eachCall(h, func(c2 ssa.CallInstruction) {
				if isBuiltinCall(c2, "close") && m.derivesFromField(c2.Common().Args[0], "DoneChan", 0, map[ssa.Value]bool{}) {
					if _, isDefer := c2.(*ssa.Defer); !isDefer {
						cl = append(cl, c2)
						return
					}
				}
				others++
			})
			if len(cl) == 1 && others == 0 {
				deferHelper, helperClose = c, cl[0]
			}
		})
	}
	switch {
	case deferClose == nil && deferHelper != nil && len(otherCloses) == 0:
		hconds := controllingConds(helperClose.Parent(), helperClose.Block())
		okGuard := len(hconds) == 1 && len(controllingConds(root, deferHelper.Block())) == 0
		if okGuard {
			cd := condOf(hconds[0].If)
			_, isEq := cd.equalEdge()
			okGuard = isEq && (isNilConst(cd.X) || isNilConst(cd.Y))
		}
		c := newCut()
		c.cutBlock(deferHelper.Block())
		beforeLoop := !entryReach(root, c)[loopEntry.Block().Index]
		r.check(okGuard && beforeLoop, rule, name+" / done channel closed by defer", m.instrPos(deferHelper), "a deferred helper whose only effect is the close guarded by 'channel non-nil' is registered unconditionally before the loop", "the deferred helper that closes the done channel is registered conditionally, or closes it under more than 'channel non-nil'")
	case deferClose == nil:
		pos := m.pos(root.Pos())
		if len(otherCloses) > 0 {
			pos = m.instrPos(otherCloses[0])
		}
		r.bad(rule, name+" / done channel closed by defer", pos, "the feed loop does not close its done channel in a defer: any return (or panic) that bypasses the explicit close leaves waiters blocked forever")
	case len(otherCloses) > 0:
		r.bad(rule, name+" / done channel closed by defer", m.instrPos(otherCloses[0]), "the done channel is closed a second time outside the defer")
	default:
		conds := controllingConds(root, deferClose.Block())
		okGuard := len(conds) == 1
		if okGuard {
			cd := condOf(conds[0].If)
			_, isEq := cd.equalEdge()
			okGuard = isEq && (isNilConst(cd.X) || isNilConst(cd.Y))
		}
		c := newCut()
		c.cutBlock(deferClose.Block())
		for _, ct := range conds {
			cd := condOf(ct.If)
			if eq, ok := cd.equalEdge(); ok {
				c.cutEdge(ct.If.Block(), eq)
			}
		}
		beforeLoop := !entryReach(root, c)[loopEntry.Block().Index]
		r.check(okGuard && beforeLoop, rule, name+" / done channel closed by defer", m.instrPos(deferClose), "a deferred close, guarded only by 'channel non-nil', is registered on every path before the loop", "the deferred close of the done channel is conditional on more than 'channel non-nil', or is not registered on every path into the loop")
	}
	// (b) terminator goroutine: started whenever a terminator is given
	var goTerm ssa.CallInstruction
	m.eachCall(root, func(c ssa.CallInstruction) {
		if _, isGo := c.(*ssa.Go); !isGo {
			return
		}
		for _, t := range m.funcTargets(c.Common().Value) {
			closes := false
			for f := range m.reachableLocal(t) {
				if m.isQueueMethod(f, "close") {
					closes = true
				}
			}
			if closes {
				goTerm = c
			}
		}
	})
	if goTerm == nil {
		r.bad(rule, name+" / terminator goroutine", m.pos(root.Pos()), "the feed loop starts no goroutine that closes the queue when the terminator fires")
	} else {
		conds := controllingConds(root, goTerm.Block())
		ok := len(conds) == 1
		if ok {
			cd := condOf(conds[0].If)
			_, isEq := cd.equalEdge()
			other := cd.X
			if isNilConst(cd.X) {
				other = cd.Y
			}
			ok = isEq && (isNilConst(cd.X) || isNilConst(cd.Y)) && m.derivesFromField(other, "Terminator", 0, map[ssa.Value]bool{})
		}
		dominatesLoop := goTerm.Block().Dominates(loopEntry.Block()) || func() bool {
			c := newCut()
			c.cutBlock(goTerm.Block())
			for _, ct := range conds {
				if eq, ok := condOf(ct.If).equalEdge(); ok {
					c.cutEdge(ct.If.Block(), eq)
				}
			}
			return !entryReach(root, c)[loopEntry.Block().Index]
		}()
		r.check(ok && dominatesLoop, rule, name+" / terminator goroutine", m.instrPos(goTerm), "the terminator watcher is started whenever a terminator is given, before the loop", "the terminator watcher is not started for every feed that has a terminator (extra condition): closing the terminator of such a feed does not end it")
	}
	// (c) callback only for non-nil events
	{
		// the event handed to the callback, and where it is defined
		var ev ssa.Value
		for _, a := range cb.Common().Args {
			v := stripConv(a)
			if ld, ok := v.(*ssa.UnOp); ok && ld.Op == token.MUL {
				v = stripConv(ld.X)
			}
			if m.pulledValue(v) {
				ev = v
			}
		}
		if ev == nil {
			r.bad(rule, name+" / callback only for events", m.instrPos(cb), "the callback is not handed the event that was just pulled from the queue")
		} else {
			def := pull.Block()
			if in, ok := ev.(ssa.Instruction); ok {
				def = in.Block()
			}
			c := newCut()
			found := false
			for _, iff := range allIfs(fn) {
				cd := condOf(iff)
				eq, ok := cd.equalEdge()
				if !ok {
					continue
				}
				if isNilConst(cd.Y) && stripConv(cd.X) == ev || isNilConst(cd.X) && stripConv(cd.Y) == ev {
					for _, s := range iff.Block().Succs {
						if s != eq {
							c.cutEdge(iff.Block(), s)
							found = true
						}
					}
				}
			}
			r.check(found && !reachableFrom(def, c)[cb.Block().Index] || found && cb.Block() != def && !reachableFromSuccs(def, c)[cb.Block().Index], rule, name+" / callback only for events", m.instrPos(cb), "the callback is invoked only for a non-nil event (a nil pull means the queue was closed)", "the callback can be invoked after the queue was closed (nil event)")
		}
	}
	// (d) multi-collection start: fresh per-collection done channels, coalesced close of the caller's channel
	nFresh, nCoalesce := 0, 0
	for _, f := range m.Funcs {
		for _, b := range f.Blocks {
			for _, ins := range b.Instrs {
				if st, ok := ins.(*ssa.Store); ok {
					if fa, ok := st.Addr.(*ssa.FieldAddr); ok && fieldOf(fa) != nil && fieldOf(fa).Name() == "DoneChan" {
						if _, isLocal := fa.X.(*ssa.Alloc); isLocal {
							fresh := m.derivesFromMakeChan(st.Val, 0, map[ssa.Value]bool{})
							nFresh++
							r.check(fresh, rule, m.declName(f)+" / per-collection done channel", m.instrPos(st), "each per-collection feed gets a freshly made done channel", "a per-collection feed is given a done channel that is not freshly made (e.g. the caller's own): it would be closed once per collection")
						}
					}
				}
			}
		}
		m.eachCall(f, func(c ssa.CallInstruction) {
			if f == fn || f == root || !isBuiltinCall(c, "close") {
				return
			}
			if deferHelper != nil && deferHelper.Common().StaticCallee() == f {
				return // the feed loop's own deferred closer, judged in (a)
			}
			closesDone := m.derivesFromField(c.Common().Args[0], "DoneChan", 0, map[ssa.Value]bool{})
			goroutineBody := f.Parent() != nil
			if p, ok := stripConv(c.Common().Args[0]).(*ssa.Parameter); ok && !closesDone {
				// a named goroutine function that is handed the caller's done channel
				callers := m.staticCallersOf(f)
				all, allGo := len(callers) > 0, len(callers) > 0
				for _, cl := range callers {
					idx := -1
					for i, q := range f.Params {
						if q == p {
							idx = i
						}
					}
					if idx < 0 || idx >= len(cl.Common().Args) || !m.derivesFromField(cl.Common().Args[idx], "DoneChan", 0, map[ssa.Value]bool{}) {
						all = false
					}
					if _, isGo := cl.(*ssa.Go); !isGo {
						allGo = false
					}
				}
				closesDone = all
				goroutineBody = allGo
			}
			if closesDone {
				nCoalesce++
				// must be in a goroutine body that first receives from per-collection channels, once
				r.check(goroutineBody && !inCycle(c.Block()), rule, m.declName(f)+" / coalesced close", m.instrPos(c), "the caller's done channel is closed once, by the coalescing goroutine", "the caller's done channel may be closed more than once or outside the coalescing goroutine")
				// ... and only after every per-collection channel was received from: the waits in the
				// coalescing function are plain receives, not selects that have another way out
				early := ""
				for _, b := range f.Blocks {
					for _, ins := range b.Instrs {
						if sel, ok := ins.(*ssa.Select); ok {
							recvs := 0
							for _, st := range sel.States {
								if st.Dir == types.RecvOnly {
									recvs++
								}
							}
							if recvs > 0 && (len(sel.States) > 1 || !sel.Blocking) {
								early = m.instrPos(sel)
							}
						}
					}
				}
				r.check(early == "", rule, m.declName(f)+" / the close waits for every per-collection feed", m.instrPos(c), "the coalescing function waits with plain receives", "the function that closes the caller's done channel waits for the per-collection channels in a select that has another way out (at "+early+"): the caller is told the feed has ended while per-collection feeds are still inside their callbacks, and further callbacks can follow")
			}
		})
	}
	// the per-collection feed is started with the arguments copy that carries the fresh channel
	for _, f := range m.Funcs {
		m.eachCall(f, func(c ssa.CallInstruction) {
			callee := c.Common().StaticCallee()
			if callee == nil || !m.inPkg(callee) || !inCycle(c.Block()) {
				return
			}
			for i, p := range callee.Params {
				if !isNamed(p.Type(), sgbucketPath, "FeedArguments") || i >= len(c.Common().Args) {
					continue
				}
				// only calls that (transitively) start the feed loop
				if !m.reachHybrid(callee, true)[fn] {
					continue
				}
				arg := stripConv(c.Common().Args[i])
				okCopy := false
				if ld, ok := arg.(*ssa.UnOp); ok {
					if al, ok := ld.X.(*ssa.Alloc); ok {
						for _, ref := range *al.Referrers() {
							if fa, ok := ref.(*ssa.FieldAddr); ok && fieldOf(fa).Name() == "DoneChan" {
								for _, r2 := range *fa.Referrers() {
									if st, ok := r2.(*ssa.Store); ok && m.derivesFromMakeChan(st.Val, 0, map[ssa.Value]bool{}) {
										okCopy = true
									}
								}
							}
						}
					}
				}
				if !okCopy {
					// ... or the callee, which receives the arguments by value, puts a freshly made channel
					// into its own copy before handing it on
					for _, b := range callee.Blocks {
						for _, ins := range b.Instrs {
							st, ok := ins.(*ssa.Store)
							if !ok {
								continue
							}
							fa, ok := st.Addr.(*ssa.FieldAddr)
							if !ok || fieldOf(fa) == nil || fieldOf(fa).Name() != "DoneChan" {
								continue
							}
							al, ok := fa.X.(*ssa.Alloc)
							if !ok {
								continue
							}
							// the alloc is the spilled parameter
							if ps := singleStoreOrFirst(al); ps != nil && ps.Val == ssa.Value(p) && m.derivesFromMakeChan(st.Val, 0, map[ssa.Value]bool{}) {
								okCopy = true
							}
						}
					}
				}
				r.check(okCopy, rule, m.declName(f)+" / per-collection feed arguments", m.instrPos(c), "each per-collection feed is started with the arguments copy that carries its own done channel", "a per-collection feed is started with the caller's own arguments (and so with the caller's done channel): every per-collection feed closes it, and the second close panics in a library goroutine")
			}
		})
	}
	if nFresh == 0 || nCoalesce == 0 {
		r.undecided(rule, "multi-collection feed start", "-", "expected a per-collection done channel and one coalescing close; found %d/%d", nFresh, nCoalesce)
	}
}

func reachableFromSuccs(b *ssa.BasicBlock, c *cut) map[int]bool {
	out := map[int]bool{}
	for _, s := range b.Succs {
		if c.edges[edge{b.Index, s.Index}] || c.blocks[s.Index] {
			continue
		}
		for k := range reachableFrom(s, c) {
			out[k] = true
		}
	}
	return out
}

func (m *Model) derivesFromMakeChan(v ssa.Value, depth int, seen map[ssa.Value]bool) bool {
	if depth > 8 || seen[v] {
		return false
	}
	seen[v] = true
	v = stripConv(v)
	switch x := v.(type) {
	case *ssa.MakeChan:
		return true
	case *ssa.Parameter:
		// a helper that is handed the channel: every caller passes a freshly made one
		fn := x.Parent()
		idx := -1
		for i, q := range fn.Params {
			if q == x {
				idx = i
			}
		}
		callers := m.staticCallersOf(fn)
		if idx < 0 || len(callers) == 0 {
			return false
		}
		for _, cl := range callers {
			if idx >= len(cl.Common().Args) || !m.derivesFromMakeChan(cl.Common().Args[idx], depth+1, seen) {
				return false
			}
		}
		return true
	case *ssa.Lookup: // doneChans[collection]
		if ld, ok := x.X.(*ssa.UnOp); ok {
			_ = ld
		}
		// the map's values must all be MakeChan
		okAll, n := true, 0
		maps := []ssa.Value{x.X}
		if ld, ok := x.X.(*ssa.UnOp); ok {
			if cell, ok := ld.X.(*ssa.Alloc); ok {
				for _, ref := range *cell.Referrers() {
					if l2, ok := ref.(*ssa.UnOp); ok {
						maps = append(maps, l2)
					}
				}
			}
		}
		for _, mv := range maps {
			if mv.Referrers() == nil {
				continue
			}
			for _, ref := range *mv.Referrers() {
				if mu, ok := ref.(*ssa.MapUpdate); ok {
					n++
					if !m.derivesFromMakeChan(mu.Value, depth+1, seen) {
						okAll = false
					}
				}
			}
		}
		return okAll && n > 0
	case *ssa.UnOp:
		if al, ok := x.X.(*ssa.Alloc); ok {
			okAll, n := true, 0
			for _, ref := range *al.Referrers() {
				if st, ok := ref.(*ssa.Store); ok && st.Addr == al {
					n++
					if !m.derivesFromMakeChan(st.Val, depth+1, seen) {
						okAll = false
					}
				}
			}
			return okAll && n > 0
		}
	case *ssa.Extract:
		if lk, ok := x.Tuple.(*ssa.Lookup); ok {
			return m.derivesFromMakeChan(lk, depth+1, seen)
		}
	}
	return false
}

// ---------------------------------------------------------------- R-OPENMODE

func (m *Model) pkgConst(name string) (int64, bool) {
	c, ok := m.SSA.Pkg.Scope().Lookup(name).(*types.Const)
	if !ok {
		return 0, false
	}
	v, ok := constant.Int64Val(c.Val())
	return v, ok
}

func isIntConst(v ssa.Value, n int64) bool {
	c, ok := stripConv(v).(*ssa.Const)
	return ok && c.Value != nil && c.Value.Kind() == constant.Int && c.Int64() == n
}

// modeTest: is the If a comparison of the open-mode parameter with constant n? returns the equal edge.
func (m *Model) modeTest(iff *ssa.If, n int64) (*ssa.BasicBlock, bool) {
	return m.modeTestCond(condOf(iff), n)
}

// modeTestCond: the same for a condition that reaches the If through a phi (`a && mode == X`).
func (m *Model) modeTestCond(cd cond, n int64) (*ssa.BasicBlock, bool) {
	eq, ok := cd.equalEdge()
	if !ok {
		return nil, false
	}
	var other ssa.Value
	if isIntConst(cd.Y, n) {
		other = cd.X
	} else if isIntConst(cd.X, n) {
		other = cd.Y
	} else {
		return nil, false
	}
	if p, ok := stripConv(other).(*ssa.Parameter); ok {
		if named, ok := p.Type().(*types.Named); ok && named.Obj().Pkg() == m.SSA.Pkg {
			return eq, true
		}
	}
	return nil, false
}

func (m *Model) ruleOPENMODE(r *Results) {
	const rule = "R-OPENMODE"
	a := &m.A
	// the schema script marks the database as initialised (user_version) with its LAST statement:
	// the script runs statement by statement, and the open function takes a non-zero version to
	// mean that everything before it is there
	if m.Schema != nil && len(m.Schema.Stmts) > 0 {
		idx := -1
		for i, st := range m.Schema.Stmts {
			if st.Kind == sqlp.SPragma && strings.EqualFold(st.PragmaName, "user_version") {
				idx = i
			}
		}
		r.check(idx == len(m.Schema.Stmts)-1, rule, "schema script / version marker last", m.Schema.File, "PRAGMA user_version is the last statement of the schema script", "the schema script sets user_version before its last statement (or never): a process killed in between leaves a database that every later open takes for complete although rows the script creates afterwards are missing")
	}
	createNew, ok1 := m.pkgConst("CreateNew")
	reopen, ok2 := m.pkgConst("ReOpenExisting")
	if !ok1 || !ok2 || a.OpenFn == nil || a.CloneFn == nil {
		r.undecided(rule, "anchors", "-", "open-mode constants / open function unresolved")
		return
	}
	// (1) the registry lookup hands out a cached handle only if mode != CreateNew and the URL matches
	reg, _, _ := m.registryType()
	for _, fn := range m.Funcs {
		if fn.Parent() != nil || m.methodOwner(fn) != reg {
			continue
		}
		hasMode := false
		for _, p := range fn.Params {
			if named, ok := p.Type().(*types.Named); ok && named.Obj().Pkg() == m.SSA.Pkg {
				if b, ok := named.Underlying().(*types.Basic); ok && b.Info()&types.IsInteger != 0 {
					hasMode = true
				}
			}
		}
		if !hasMode {
			continue
		}
		var clone ssa.CallInstruction
		m.eachCall(fn, func(c ssa.CallInstruction) {
			if c.Common().StaticCallee() == a.CloneFn {
				clone = c
			}
		})
		if clone == nil {
			continue
		}
		name := m.declName(fn)
		// mode == CreateNew must not reach the clone
		okMode, okURL := false, false
		urlCut, urlTests := newCut(), 0
		for _, iff := range allIfs(fn) {
			if eq, ok := m.modeTest(iff, createNew); ok {
				if !reachableFrom(eq, nil)[clone.Block().Index] {
					okMode = true
				}
			}
			cd := condOf(iff)
			if eq, ok := cd.equalEdge(); ok {
				_, fx, okx := fieldLoad(cd.X)
				_, fy, oky := fieldLoad(cd.Y)
				isURLField := func(f *types.Var) bool {
					return f != nil && types.Identical(f.Type(), types.Typ[types.String]) && strings.Contains(strings.ToLower(f.Name()), "url")
				}
				if okx && isURLField(fx) || oky && isURLField(fy) {
					// with the "URLs are equal" edge removed the hand-out must be unreachable: the test is
					// made for every cached bucket, not only under some other condition
					urlCut.cutEdge(iff.Block(), eq)
					urlTests++
				}
			}
		}
		okURL = urlTests > 0 && !entryReach(fn, urlCut)[clone.Block().Index]
		r.check(okMode, rule, name+" / CreateNew refuses an open bucket", m.instrPos(clone), "a cached handle is never handed out for mode CreateNew", "OpenBucket with CreateNew can return a handle to a bucket that is already open")
		r.check(okURL, rule, name+" / other URL refused", m.instrPos(clone), "a cached handle is handed out only if the URL matches", "a bucket name that is open at another URL is not refused")
	}
	// (2) open function
	fn := a.OpenFn
	name := m.declName(fn)
	// flowsToReturn: the value ends up as (part of) a result of its function: directly, through a
	// phi or an interface conversion, or through a named-result cell that a return loads
	var flowsToReturn func(v ssa.Value, depth int, seen map[ssa.Value]bool) bool
	flowsToReturn = func(v ssa.Value, depth int, seen map[ssa.Value]bool) bool {
		if depth > 6 || v.Referrers() == nil || seen[v] {
			return false
		}
		seen[v] = true
		for _, ref := range *v.Referrers() {
			switch x := ref.(type) {
			case *ssa.Return:
				return true
			case *ssa.Phi, *ssa.MakeInterface, *ssa.ChangeType, *ssa.ChangeInterface:
				if flowsToReturn(x.(ssa.Value), depth+1, seen) {
					return true
				}
			case *ssa.Store:
				if al, ok := x.Addr.(*ssa.Alloc); ok && x.Val == v && al.Referrers() != nil {
					for _, r2 := range *al.Referrers() {
						if ld, ok := r2.(*ssa.UnOp); ok && ld.Op == token.MUL && flowsToReturn(ld, depth+1, seen) {
							return true
						}
					}
				}
			}
		}
		return false
	}
	errLoadedIn := func(b *ssa.BasicBlock, global string) bool {
		for _, ins := range b.Instrs {
			if ld, ok := ins.(*ssa.UnOp); ok {
				if g, ok := ld.X.(*ssa.Global); ok && g.Name() == global {
					// (an error that is loaded but assigned to a shadowed variable is reported to nobody)
					if flowsToReturn(ld, 0, map[ssa.Value]bool{}) {
						return true
					}
				}
			}
		}
		return false
	}
	okReopen, okCreate := false, false
	for g := range m.reachableLocal(fn) {
		if m.methodOwner(g) == reg && reg != nil {
			continue
		}
		for _, d := range m.decisions(g, topFrame(g)) {
			if eq, ok := m.modeTestCond(d.C, reopen); ok && errLoadedIn(eq, "ErrNotExist") {
				okReopen = true
			}
			if eq, ok := m.modeTestCond(d.C, createNew); ok && errLoadedIn(eq, "ErrExist") {
				okCreate = true
			}
		}
	}
	// the ReOpenExisting refusal may only come after the registry lookup has missed
	{
		var lookup ssa.CallInstruction
		m.eachCall(fn, func(c ssa.CallInstruction) {
			callee := c.Common().StaticCallee()
			if callee == nil || !m.inPkg(callee) {
				return
			}
			for g := range m.reachableLocal(callee) {
				if m.methodOwner(g) == reg && reg != nil {
					hasMode := false
					for _, p := range g.Params {
						if named, ok := p.Type().(*types.Named); ok && named.Obj().Pkg() == m.SSA.Pkg {
							if b, ok := named.Underlying().(*types.Basic); ok && b.Info()&types.IsInteger != 0 {
								hasMode = true
							}
						}
					}
					if hasMode && lookup == nil {
						lookup = c
					}
				}
			}
		})
		after := lookup != nil
		if lookup != nil {
			for _, iff := range allIfs(fn) {
				if _, ok := m.modeTest(iff, reopen); ok {
					if !(lookup.Block() == iff.Block() && indexIn(lookup.Block(), lookup) < indexIn(iff.Block(), iff) || lookup.Block() != iff.Block() && lookup.Block().Dominates(iff.Block())) {
						after = false
					}
				}
			}
		}
		r.check(after, rule, name+" / registry consulted before refusing ReOpenExisting", m.pos(fn.Pos()), "the not-exist refusal for ReOpenExisting comes after the registry lookup", "ReOpenExisting is refused before the registry of open buckets has been consulted: an in-memory bucket that exists (it lives in the registry until CloseAndDelete) can no longer be reopened")
	}
	r.check(okReopen, rule, name+" / ReOpenExisting of an absent in-memory bucket fails", m.pos(fn.Pos()), "mode ReOpenExisting on an in-memory URL that is not cached returns the not-exist error", "ReOpenExisting no longer fails for an in-memory bucket that does not exist")
	r.check(okCreate, rule, name+" / CreateNew of an existing directory fails", m.pos(fn.Pos()), "mode CreateNew on an existing directory returns the exist error", "CreateNew no longer fails when the bucket directory already exists")
	// schema initialised only when user_version == 0
	var initCall, rearm ssa.CallInstruction
	// re-arm: reaches the min-expiry query and a timer
	rearmMemo := map[*ssa.Function]bool{}
	isRearm := func(callee *ssa.Function) bool {
		if v, ok := rearmMemo[callee]; ok {
			return v
		}
		hasMin, hasTimer := false, false
		for f := range m.reachableLocal(callee) {
			for _, s := range m.Sites {
				if s.Fn == f {
					for _, v := range s.Variants {
						if st := v.Stmt(); st != nil && st.Select != nil && len(st.Select.Cols) == 1 && isAgg(st.Select.Cols[0].Expr, "min", "exp") {
							hasMin = true
						}
					}
				}
			}
			m.eachCall(f, func(c2 ssa.CallInstruction) {
				if t := c2.Common().StaticCallee(); t != nil && t.Pkg != nil && t.Pkg.Pkg.Path() == "time" && t.Name() == "AfterFunc" {
					hasTimer = true
				}
			})
		}
		rearmMemo[callee] = hasMin && hasTimer
		return hasMin && hasTimer
	}
	m.eachCall(fn, func(c ssa.CallInstruction) {
		callee := c.Common().StaticCallee()
		if callee == nil || !m.inPkg(callee) {
			return
		}
		for _, s := range m.Sites {
			if s.IsSchema && m.reachableLocal(callee)[s.Fn] {
				initCall = c
			}
		}
		if isRearm(callee) {
			rearm = c
		}
	})
	// the re-arm may sit in a helper of the open function (which is handed the condition): descend to
	// the innermost call that still reaches both the query and the timer
	rearmFn, rearmFr, rearmOuter := fn, topFrame(fn), rearm
	for depth := 0; rearm != nil && depth < 2; depth++ {
		callee := rearm.Common().StaticCallee()
		var inner ssa.CallInstruction
		m.eachCall(callee, func(c2 ssa.CallInstruction) {
			if t := c2.Common().StaticCallee(); t != nil && m.inPkg(t) && isRearm(t) {
				inner = c2
			}
		})
		if inner == nil {
			break
		}
		rearmFr = rearmFr.inline(rearm, callee)
		rearmFn, rearm = callee, inner
	}
	versCutIn := m.versCutIn
	versCut := func(equalSide bool) *cut { return versCutIn(fn, topFrame(fn), equalSide, false) }
	if initCall == nil {
		r.undecided(rule, name+" / schema initialisation", m.pos(fn.Pos()), "no call reaching the schema script")
	} else {
		// the version test may sit in a helper together with the initialisation: descend to the
		// innermost call that still reaches the schema script
		initFn, initFr := fn, topFrame(fn)
		reachesSchema := func(f *ssa.Function) bool {
			for _, s := range m.Sites {
				if s.IsSchema && m.reachableLocal(f)[s.Fn] {
					return true
				}
			}
			return false
		}
		for depth := 0; depth < 2; depth++ {
			callee := initCall.Common().StaticCallee()
			var inner ssa.CallInstruction
			m.eachCall(callee, func(c2 ssa.CallInstruction) {
				if t := c2.Common().StaticCallee(); t != nil && m.inPkg(t) && reachesSchema(t) {
					inner = c2
				}
			})
			if inner == nil {
				break
			}
			initFr = initFr.inline(initCall, callee)
			initFn, initCall = callee, inner
		}
		c := versCut(true)
		if initFn != fn {
			c = versCutIn(initFn, initFr, true, false)
		}
		r.check(len(c.edges) > 0 && !entryReach(initFn, c)[initCall.Block().Index], rule, name+" / schema initialised only for a new database", m.instrPos(initCall), "the schema script runs only when user_version is 0", "the schema script can run on a database that already has a schema (bucket UUID, collections and documents would be re-created or the open would fail)")
	}
	if rearm == nil {
		r.bad(rule, name+" / expiry re-armed on reopen", m.pos(fn.Pos()), "the open function never schedules the pending expirations of an existing bucket: documents whose TTL was set before the restart never expire")
	} else {
		c := versCutIn(rearmFn, rearmFr, false, true)
		// ... or on the false edge of a flag that can be true only where the version was found 0
		// (`isNew`): that edge is taken for every existing database
		{
			te := m.newTermEval()
			for _, iff := range allIfs(rearmFn) {
				if pol, exact := versPred(te.term(iff.Cond, iff, rearmFr)); pol == 1 && !exact {
					c.cutEdge(iff.Block(), iff.Block().Succs[1])
					continue
				}
				// a local flag that is assigned true only under such a test
				cd := condOf(iff)
				if cd.Op != token.ILLEGAL || cd.X == nil {
					continue
				}
				ld, ok := stripConv(cd.X).(*ssa.UnOp)
				if !ok || ld.Op != token.MUL {
					continue
				}
				al, ok := ld.X.(*ssa.Alloc)
				if !ok {
					continue
				}
				onlyUnderZero, anyTrue := true, false
				for _, st := range cellStores(al) {
					if k, ok := st.Val.(*ssa.Const); ok && k.Value != nil && k.Value.Kind() == constant.Bool && !constant.BoolVal(k.Value) {
						continue
					}
					anyTrue = true
					under := false
					for _, ct := range controllingConds(st.Parent(), st.Block()) {
						if pol, _ := versPred(te.term(ct.If.Cond, ct.If, m.closureFrame(st.Parent()))); pol == 1 && ct.Branch {
							under = true
						}
					}
					if !under {
						onlyUnderZero = false
					}
				}
				if anyTrue && onlyUnderZero {
					c.cutEdge(iff.Block(), cd.succWhen(false))
				}
			}
		}
		// the re-arm must sit directly on the "version != 0" edge (no further condition in between)
		direct := false
		for e := range c.edges {
			if e.to == rearm.Block().Index {
				direct = true
			}
		}
		if rearmFn != fn {
			// the helper that holds the re-arm is itself called on every path that opens a database and succeeds
			var dbOpen ssa.CallInstruction
			m.eachCall(fn, func(c2 ssa.CallInstruction) {
				if f := c2.Common().StaticCallee(); f != nil && f.Pkg != nil && f.Pkg.Pkg.Path() == "database/sql" && f.Name() == "Open" {
					dbOpen = c2
				}
			})
			oc := newCut()
			oc.cutBlock(rearmOuter.Block())
			if dbOpen == nil {
				direct = false
			} else {
				reach := reachableFrom(dbOpen.Block(), oc)
				for _, ret := range returnsOf(fn) {
					if reach[ret.Block().Index] && !m.isFailureReturn(ret) {
						direct = false
					}
				}
			}
		}
		r.check(len(c.edges) > 0 && !entryReach(rearmFn, c)[rearm.Block().Index] && direct, rule, name+" / expiry re-armed on reopen", m.instrPos(rearm), "an existing bucket (user_version != 0) always has its expirations scheduled on open", "the re-arm on reopen is skipped on some path for an existing bucket")
	}
}

// ---------------------------------------------------------------- R-VIEW, R-VIEW-MARK

func (m *Model) ruleVIEW(r *Results) {
	const rule = "R-VIEW"
	m.sitesHealthy(r, rule)
	// the index-update closure: contains DELETE FROM mapped, a SELECT on documents, UPDATE views
	var del, sel, upd, ins *SQLSite
	var updFn *ssa.Function
	for _, s := range m.Sites {
		for _, v := range s.Variants {
			st := v.Stmt()
			if st == nil {
				continue
			}
			switch {
			case st.Kind == sqlp.SUpdate && lower(st.Table) == "views":
				upd, updFn = s, s.Fn
			}
		}
	}
	if upd == nil {
		r.undecided(rule, "index update", "-", "no UPDATE views statement found")
		return
	}
	// the transaction closure the mark update belongs to, and its extent (helpers included)
	for _, tc := range m.txnClosures() {
		if m.reachableLocal(tc.Fn)[updFn] {
			updFn = tc.Fn
		}
	}
	extent := m.reachableLocal(updFn)
	for _, s := range m.Sites {
		if !extent[s.Fn] {
			continue
		}
		for _, v := range s.Variants {
			st := v.Stmt()
			if st == nil {
				continue
			}
			switch {
			case st.Kind == sqlp.SDelete && lower(st.Table) == "mapped":
				del = s
			case st.Kind == sqlp.SSelect && st.Select != nil && len(st.Select.From) == 1 && lower(st.Select.From[0].Name) == "documents" && s.Method == "Query":
				sel = s
			case st.Kind == sqlp.SInsert && lower(st.Table) == "mapped":
				ins = s
			}
		}
	}
	name := m.declName(updFn)
	// the whole update may have been moved out of the closure into a method it calls: work in the
	// innermost function that still leads to all of the statements (the key keeps the closure's name)
	for depth := 0; depth < 3 && del != nil && sel != nil && ins != nil; depth++ {
		var only ssa.CallInstruction
		n := 0
		direct := false
		for _, s := range []*SQLSite{del, sel, ins, upd} {
			if s.Fn == updFn {
				direct = true
			}
		}
		if direct {
			break
		}
		m.eachCall(updFn, func(c ssa.CallInstruction) {
			callee := c.Common().StaticCallee()
			if callee == nil || !m.inPkg(callee) {
				return
			}
			reach := m.reachableLocal(callee)
			if reach[del.Fn] && reach[sel.Fn] && reach[ins.Fn] && reach[upd.Fn] {
				only = c
				n++
			}
		})
		if n != 1 {
			break
		}
		updFn = only.Common().StaticCallee()
	}
	// the instruction of the closure that performs (or leads to) a site
	anchor := func(s *SQLSite) ssa.Instruction {
		if s.Fn == updFn {
			return s.Call
		}
		var out ssa.Instruction
		var visit func(f *ssa.Function)
		visit = func(f *ssa.Function) {
			m.eachCall(f, func(c ssa.CallInstruction) {
				if callee := c.Common().StaticCallee(); callee != nil && m.inPkg(callee) && m.reachableLocal(callee)[s.Fn] && f == updFn {
					out = c
				}
			})
		}
		visit(updFn)
		return out
	}
	// every changed document that is read is handed to the mappers: the reader's row loop cannot
	// come round to the next row without the hand-over unless reading the row failed
	if sel != nil {
		for _, sc := range m.scansOfSite(sel) {
			var sinks []*ssa.BasicBlock
			for _, b := range sc.Fn.Blocks {
				for _, ins := range b.Instrs {
					switch x := ins.(type) {
					case *ssa.Send:
						sinks = append(sinks, b)
					case *ssa.Select:
						// a hand-over offered along with another way out: giving it up must at
						// least be recorded as an error for the transaction to see
						sends := false
						for _, st := range x.States {
							if st.Dir == types.SendOnly {
								sends = true
							}
						}
						if !sends {
							continue
						}
						sinks = append(sinks, b)
						if len(x.States) > 1 || !x.Blocking {
							records := false
							for _, b2 := range sc.Fn.Blocks {
								for _, i2 := range b2.Instrs {
									if st, ok := i2.(*ssa.Store); ok && isErrorType(st.Val.Type()) {
										if _, isFree := st.Addr.(*ssa.FreeVar); isFree && forwardReachable(x, st) {
											records = true
										}
									}
								}
							}
							r.check(records, rule, name+" / the hand-over of a changed document is not given up silently", m.instrPos(x), "", "the reader offers the row it read to the mappers in a select with another way out, and records no error when that way is taken: the rest of the changed documents is left out of the index while the transaction goes on to record the view as up to date")
						}
					case ssa.CallInstruction:
						// or a direct call of the map function / a helper that sends
						if callee := x.Common().StaticCallee(); callee != nil && m.inPkg(callee) && callee != sc.Fn {
							for g := range m.reachableLocal(callee) {
								for _, gb := range g.Blocks {
									for _, gi := range gb.Instrs {
										if _, isSend := gi.(*ssa.Send); isSend {
											sinks = append(sinks, b)
										}
									}
								}
							}
						}
					}
				}
			}
			if len(sinks) == 0 || !inCycle(sc.Call.Block()) {
				continue
			}
			r.check(!m.rowCanBeSkipped(sc, sinks), rule, name+" / every changed document is mapped", m.instrPos(sc.Call), "a row that was read without error always reaches the mappers", "the reader can go on to the next row without handing the one it read to the map function although no error occurred: documents are left out of the index by a condition on their content (which the map function, not the reader, is to judge)")
		}
	}
	if del == nil || sel == nil || ins == nil {
		r.bad(rule, name+" / shape", m.instrPos(upd.Call), "the index-update transaction must delete the obsolete rows of changed documents (DELETE FROM mapped ... IN (SELECT ... documents)), re-map them (SELECT ... FROM documents) and insert the new rows; found delete=%v select=%v insert=%v in this closure", del != nil, sel != nil, ins != nil)
	} else {
		// comparator + bound mark of the delete's sub-select and the re-map select
		casCmp := func(conj []*sqlp.Expr) (string, *sqlp.Expr) {
			for _, c := range conj {
				if c.Kind == sqlp.EBinary && (c.Op == ">" || c.Op == ">=") && isCol(c.Args[0], "cas") && isParam(c.Args[1]) {
					return c.Op, c.Args[1]
				}
			}
			return "", nil
		}
		var dOp, sOp string
		var dP, sP *sqlp.Expr
		dst := del.Variants[0].Stmt()
		for _, c := range sqlp.Conjuncts(dst.Where) {
			if c.Kind == sqlp.EIn && c.Sub != nil && !c.Not {
				dOp, dP = casCmp(sqlp.Conjuncts(c.Sub.Where))
			}
		}
		sst := sel.Variants[0].Stmt()
		sOp, sP = casCmp(sqlp.Conjuncts(sst.Select.Where))
		okSame := dOp != "" && dOp == sOp
		if okSame {
			bd, ok1 := del.bindingFor(dP)
			bs, ok2 := sel.bindingFor(sP)
			okSame = ok1 && ok2 && (m.sameFieldOfSameCell(bd, bs) || m.sameMarkThroughHelpers(del, bd, sel, bs, updFn))
		}
		r.check(okSame, rule, name+" / delete and re-map agree", m.instrPos(del.Call), "obsolete-row delete and re-map select range over the same documents (cas "+dOp+" the view's mark)", fmt.Sprintf("the delete of obsolete index rows (cas %s mark) and the re-map select (cas %s mark) do not range over the same set of documents: rows are duplicated or lost", dOp, sOp))
		// the re-map select keeps documents that have a body or xattrs
		keep := false
		for _, c := range sqlp.Conjuncts(sst.Select.Where) {
			if c.Kind == sqlp.EBinary && c.Op == "OR" {
				keep = true
			}
		}
		// no other restriction on cas: every document above the view's mark is in the window (CAS
		// values supplied through the *WithMeta API can lie above the collection's own mark)
		casConj := func(conj []*sqlp.Expr) int {
			n := 0
			for _, c := range conj {
				mentions := false
				c.Walk(func(e *sqlp.Expr) {
					if isCol(e, "cas") {
						mentions = true
					}
				})
				if mentions {
					n++
				}
			}
			return n
		}
		nd := 0
		for _, c := range sqlp.Conjuncts(dst.Where) {
			if c.Kind == sqlp.EIn && c.Sub != nil && !c.Not {
				nd = casConj(sqlp.Conjuncts(c.Sub.Where))
			}
		}
		ns := casConj(sqlp.Conjuncts(sst.Select.Where))
		r.check(nd == 1 && ns == 1, rule, name+" / index window has no upper bound", m.instrPos(sel.Call), "the only restriction on cas is `cas > <view mark>` in both statements", "the delete and/or re-map statement restricts cas by more than the lower bound `cas > <view mark>`: documents outside the extra bound are never (re)indexed although the view's mark moves past them")
		r.check(keep, rule, name+" / re-map filter", m.instrPos(sel.Call), "documents with a body or xattrs are re-mapped", "the re-map select's filter changed")
		// delete precedes inserts
		da, ia := anchor(del), anchor(ins)
		// both inside one helper of the closure: order them there
		for depth := 0; depth < 3 && da != nil && da == ia; depth++ {
			call, ok := da.(ssa.CallInstruction)
			if !ok {
				break
			}
			h := call.Common().StaticCallee()
			if h == nil || !m.inPkg(h) {
				break
			}
			da, ia = m.anchorIn(h, del), m.anchorIn(h, ins)
		}
		r.check(da != nil && ia != nil && instrReachable(da, ia, nil) && !instrReachable(ia, da, nil), rule, name+" / delete before insert", m.instrPos(del.Call), "obsolete rows are deleted before new rows are inserted", "index rows are inserted before the obsolete ones are deleted")
	}
	// the view mark is set to the collection mark read through the same transaction
	{
		st := upd.Variants[0].Stmt()
		w := writeInfo(st)
		okMark := false
		if e, ok := w.Update["lastcas"]; ok {
			if b, ok := upd.bindingFor(e); ok {
				bfr := b.Fr
				if upd.Fn != updFn {
					// the statement sits in a helper of the update closure: bind its parameters at the call
					m.eachCall(updFn, func(c ssa.CallInstruction) {
						if c.Common().StaticCallee() == upd.Fn {
							bfr = m.closureFrame(updFn).inline(c, upd.Fn)
						}
					})
				}
				rv, _ := m.resolve(b.V, bfr)
				// the mark is handed to the function that holds the update by its caller, which read it
				if p, isP := stripConv(rv).(*ssa.Parameter); isP && p.Parent().Parent() == nil {
					callers := m.staticCallersOf(p.Parent())
					if len(callers) == 1 {
						if call, isCall := callers[0].(*ssa.Call); isCall {
							cfr := m.closureFrame(call.Parent()).inline(call, p.Parent())
							rv, _ = m.resolve(p, cfr)
						}
					}
				}
				if ex, ok := rv.(*ssa.Extract); ok {
					if call, ok := ex.Tuple.(*ssa.Call); ok {
						callee := call.Common().StaticCallee()
						if callee != nil {
							for _, s := range m.Sites {
								if s.Fn == callee {
									for _, v := range s.Variants {
										q := v.Stmt()
										if q != nil && q.Select != nil && len(q.Select.Cols) == 1 && isCol(q.Select.Cols[0].Expr, "lastCas") && len(q.Select.From) == 1 && lower(q.Select.From[0].Name) == "collections" {
											// handle argument must be the txn
											for _, arg := range call.Common().Args {
												if isPtrToNamed(stripConv(arg).Type(), "database/sql", "Tx") {
													okMark = true
												}
											}
										}
									}
								}
							}
						}
					}
				}
			}
		}
		r.check(okMark, rule, name+" / view mark", m.instrPos(upd.Call), "views.lastCas := collections.lastCas as read through this transaction", "the view's mark is not the collection's mark read inside the same transaction")
	}
	// row query: ORDER BY (mapped.key, documents.key) same direction; range operators paired with min/max
	for _, s := range m.Sites {
		isRowQ := false
		for _, v := range s.Variants {
			if st := v.Stmt(); st != nil && st.Kind == sqlp.SSelect {
				tabs := st.Tables()
				if len(tabs) == 2 && tabs[0] == "documents" && tabs[1] == "mapped" {
					isRowQ = true
				}
			}
		}
		if !isRowQ {
			continue
		}
		qn := m.declName(s.Fn)
		for _, v := range s.Variants {
			st := v.Stmt()
			if st == nil || st.Select == nil {
				continue
			}
			ob := st.Select.OrderBy
			okOrder := len(ob) == 2 && ob[0].Expr.Kind == sqlp.EColumn && lower(ob[0].Expr.Table) == "mapped" && lower(ob[0].Expr.Name) == "key" &&
				ob[1].Expr.Kind == sqlp.EColumn && lower(ob[1].Expr.Table) == "documents" && lower(ob[1].Expr.Name) == "key" && ob[0].Desc == ob[1].Desc
			r.check(okOrder, rule, qn+" / ORDER BY", m.instrPos(s.Call), "rows ordered by (emitted key, document id) in one direction", "view rows are not ordered by (mapped.key, documents.key) with a common direction")
			for _, c := range sqlp.Conjuncts(st.Select.Where) {
				if c.Kind != sqlp.EBinary || !isParam(c.Args[1]) || c.Args[0].Kind != sqlp.EColumn || lower(c.Args[0].Table) != "mapped" || lower(c.Args[0].Name) != "key" {
					continue
				}
				pn := strings.ToUpper(c.Args[1].Name)
				switch {
				case strings.Contains(pn, "MIN"):
					r.check(c.Op == ">" || c.Op == ">=", rule, qn+" / lower bound", m.instrPos(s.Call), "start key compared with > / >=", "the start key of a view range is compared with "+c.Op)
				case strings.Contains(pn, "MAX"):
					r.check(c.Op == "<" || c.Op == "<=", rule, qn+" / upper bound", m.instrPos(s.Call), "end key compared with < / <=", "the end key of a view range is compared with "+c.Op)
				}
			}
		}
		// the closure's call sites pair fields and operators
		for _, fn := range append([]*ssa.Function{s.Fn}, s.Fn.AnonFuncs...) {
			m.eachCall(fn, func(c ssa.CallInstruction) {
				if _, ok := c.Common().Value.(*ssa.MakeClosure); !ok {
					return
				}
				var fields, consts []string
				for _, arg := range c.Common().Args {
					if fa, ok := stripConv(arg).(*ssa.FieldAddr); ok {
						fields = append(fields, fieldOf(fa).Name())
					} else if _, f, ok := fieldLoad(arg); ok {
						fields = append(fields, f.Name())
					} else if s, ok := constString(arg); ok {
						consts = append(consts, s)
					}
				}
				if len(fields) < 2 || len(consts) < 2 {
					return
				}
				isMin := strings.Contains(fields[0], "Min")
				isMax := strings.Contains(fields[0], "Max")
				good := (isMin && strings.Contains(fields[1], "Min") && consts[0] == ">" && strings.Contains(strings.ToUpper(consts[1]), "MIN")) ||
					(isMax && strings.Contains(fields[1], "Max") && consts[0] == "<" && strings.Contains(strings.ToUpper(consts[1]), "MAX"))
				r.check(good, rule, qn+" / range fragment for "+fields[0], m.instrPos(c), "key bound, inclusiveness flag, operator and parameter name belong together", fmt.Sprintf("view range fragment pairs %v with operator %q and parameter %q", fields, consts[0], consts[1]))
			})
		}
	}
	// collation
	if mp := m.Schema.Table("mapped"); mp != nil {
		kc := mp.Col("key")
		coll := ""
		if kc != nil {
			coll = kc.Collate
		}
		registered := false
		for _, fn := range m.Funcs {
			m.eachCall(fn, func(c ssa.CallInstruction) {
				if f := c.Common().StaticCallee(); f != nil && f.Name() == "RegisterCollation" && len(c.Common().Args) >= 2 {
					if s, ok := constString(c.Common().Args[1]); ok && strings.EqualFold(s, coll) {
						registered = true
					}
				}
			})
		}
		r.check(coll != "" && registered, rule, "schema / mapped.key collation", "schema.sql", "mapped.key is declared COLLATE "+coll+" and a collation of that name is registered on every connection", "mapped.key's collation is missing or not registered by the connect hook: view rows would be ordered bytewise")
	}
	// cached map function reused only when its source is unchanged
	m.ruleViewCache(r, rule)
	// stale handling: the updater is called unless stale is ok/true/updateAfter, before the row query
	// design-document replacement: delete precedes inserts, in one transaction
	for _, tc := range m.txnClosures() {
		var dd, di *SQLSite
		ext := m.reachableLocal(tc.Fn)
		for _, s := range m.Sites {
			// in the closure itself, or in a helper it calls (`c.deleteDDocRow(txn, name)`)
			if s.Fn != tc.Fn && !(ext[s.Fn] && s.Fn.Parent() == nil && m.anchorIn(tc.Fn, s) != nil) {
				continue
			}
			for _, v := range s.Variants {
				if st := v.Stmt(); st != nil {
					if st.Kind == sqlp.SDelete && lower(st.Table) == "designdocs" {
						dd = s
					}
					if st.Kind == sqlp.SInsert && lower(st.Table) == "designdocs" {
						di = s
					}
				}
			}
		}
		var da, ia ssa.Instruction
		if dd != nil {
			da = m.anchorIn(tc.Fn, dd)
		}
		if di != nil {
			ia = m.anchorIn(tc.Fn, di)
		}
		// both inside one helper (the closure's body was moved into a named method): decide there
		scope := tc.Fn
		for depth := 0; depth < 3 && da != nil && da == ia; depth++ {
			call, ok := da.(ssa.CallInstruction)
			if !ok {
				break
			}
			h := call.Common().StaticCallee()
			if h == nil || !m.inPkg(h) {
				break
			}
			scope = h
			da, ia = m.anchorIn(h, dd), m.anchorIn(h, di)
		}
		_ = scope
		if di != nil && dd != nil && da != nil && da.Parent() == tc.Fn {
			m.ddocUnchangedShortcut(r, rule, tc.Fn, da)
		}
		if di != nil {
			r.check(da != nil && ia != nil && instrReachable(da, ia, nil) && (da.Block() == ia.Block() || da.Block().Dominates(ia.Block())), rule, m.declName(tc.Fn)+" / replace design document", m.instrPos(di.Call), "the old design-document row (whose cascade removes its views and index rows) is deleted before the new one is inserted, in the same transaction", "a design document is inserted without first deleting the old row in the same transaction: old views and their index rows survive")
		}
	}
	r.floor(rule, 8)
}

// sameFieldOfSameCell: two bindings are loads of the same field of objects held in the same cell.
func (m *Model) sameFieldOfSameCell(a, b Binding) bool {
	ba, fa, ok1 := fieldLoad(stripConv(a.V))
	bb, fb, ok2 := fieldLoad(stripConv(b.V))
	if !ok1 || !ok2 || fa != fb {
		return false
	}
	cellOf := func(v ssa.Value) ssa.Value {
		v = stripConv(v)
		if ld, ok := v.(*ssa.UnOp); ok && ld.Op == token.MUL {
			return ld.X
		}
		return v
	}
	return cellOf(ba) == cellOf(bb)
}

func (m *Model) ruleViewCache(r *Results, rule string) {
	// find stores to a field of function-object type (*JSMapFunction) whose value is a load of the same field of another object
	n := 0
	for _, fn := range m.Funcs {
		for _, b := range fn.Blocks {
			for _, ins := range b.Instrs {
				st, ok := ins.(*ssa.Store)
				if !ok {
					continue
				}
				fa, ok := st.Addr.(*ssa.FieldAddr)
				if !ok {
					continue
				}
				f := fieldOf(fa)
				if f == nil || !isPtrToNamed(f.Type(), sgbucketPath, "JSMapFunction") {
					continue
				}
				_, vf, isLoad := fieldLoad(st.Val)
				if !isLoad || vf != f {
					continue
				}
				n++
				// must be control dependent on an equality of two loads of one string field of different objects
				guarded := false
				for _, ct := range controllingConds(fn, st.Block()) {
					cd := condOf(ct.If)
					if cd.Op != token.EQL && cd.Op != token.NEQ {
						continue
					}
					bx, fx, okx := fieldLoad(cd.X)
					by, fy, oky := fieldLoad(cd.Y)
					if okx && oky && fx == fy && types.Identical(fx.Type(), types.Typ[types.String]) && stripConv(bx) != stripConv(by) {
						eq, _ := cd.equalEdge()
						taken := ct.If.Block().Succs[0]
						if !ct.Branch {
							taken = ct.If.Block().Succs[1]
						}
						if taken == eq {
							guarded = true
						}
					}
				}
				r.check(guarded, rule, m.declName(fn)+" / cached map function reuse", m.instrPos(st), "the compiled map function is taken from the cache only when the stored source equals the cached source", "the compiled map function is reused from the cache without checking that the view's source is unchanged: after the design document is replaced through another handle, this handle keeps indexing with the old function")
			}
		}
	}
	if n == 0 {
		r.undecided(rule, "map function cache", "-", "no reuse of a cached compiled map function found")
	}
}

func (m *Model) ruleVIEWMARK(r *Results) {
	const rule = "R-VIEW-MARK"
	a := &m.A
	var collMarks []*SQLSite
	for _, s := range m.markSites() {
		for _, v := range s.Variants {
			if st := v.Stmt(); st != nil && lower(st.Table) == "collections" {
				collMarks = append(collMarks, s)
			}
		}
	}
	if len(collMarks) == 0 {
		r.undecided(rule, "anchors", "-", "no statement advances collections.lastCas")
		return
	}
	n := 0
	for _, tc := range m.txnClosures() {
		if tc.Kind != "runner" || tc.Fn == a.AllocClos || tc.Fn == a.AllocOuter {
			continue
		}
		reach := m.reachableLocal(tc.Fn)
		writes := false
		for _, dw := range m.docWrites() {
			if reach[dw.Site.Fn] {
				writes = true
			}
		}
		if !writes {
			continue
		}
		n++
		marks := false
		for _, ms := range collMarks {
			if reach[ms.Fn] {
				marks = true
			}
		}
		key := m.declName(tc.Fn) + " / writes documents without advancing the collection mark"
		if marks {
			key = m.declName(tc.Fn) + " / advances the collection mark"
		}
		r.check(marks, rule, key, m.pos(tc.Fn.Pos()), "the transaction that changes a document also advances collections.lastCas", "a transaction changes a document without advancing the collection's high-water mark: a view whose mark equals the collection's is considered fresh and a non-stale query misses the change")
	}
	// the allocator path is covered by R-HLC/MARK
	r.ok(rule, "allocator path", "-", "every write through the CAS allocator advances the mark (R-HLC)")
	if n == 0 {
		r.info(rule, "direct closures", "-", "no transaction closure outside the allocator writes documents")
	}
}

// ---------------------------------------------------------------- R-BG-PANIC

func (m *Model) ruleBGPANIC(r *Results) {
	const rule = "R-BG-PANIC"
	lm := m.locks()
	bg := map[*ssa.Function]string{}
	for fn, why := range lm.roots {
		if strings.Contains(why, "goroutine") {
			for f := range m.reachHybrid(fn, true) {
				if _, ok := bg[f]; !ok {
					bg[f] = m.declName(fn)
				}
			}
		}
	}
	n := 0
	for _, fn := range m.Funcs {
		m.eachCall(fn, func(c ssa.CallInstruction) {
			if !isBuiltinCall(c, "panic") {
				return
			}
			n++
			key := m.declName(fn) + " / explicit panic"
			switch {
			case fn == m.A.Converter || m.declName(fn) == m.roleOf(m.A.Converter):
				r.ok(rule, key+" (converter assertion)", m.instrPos(c), "assertion on the event's expiry/revision number; its condition is excluded on every path by R-EXP (absolute expiry) and R-REV (revision number = n+1 >= 1)")
			case bg[fn] != "":
				r.bad(rule, key, m.instrPos(c), "an explicit panic is reachable from the background goroutine / timer callback %s: an error there (e.g. the bucket being closed concurrently) kills the whole process", bg[fn])
			default:
				r.bad(rule, key, m.instrPos(c), "explicit panic in library code")
			}
		})
	}
	if len(bg) < 5 {
		r.undecided(rule, "background roots", "-", "found only %d functions on background goroutines", len(bg))
	}
	r.ok(rule, "inventory", "-", "%d explicit panic call(s) in the package; %d functions run on background goroutines or timers", n, len(bg))
}

// ---------------------------------------------------------------- R-EVT-CONV

func (m *Model) ruleEVTCONV(r *Results) {
	const rule = "R-EVT-CONV"
	a := &m.A
	fn := a.Converter
	ftab, why := m.eventFieldTable()
	if fn == nil || ftab == nil {
		r.undecided(rule, "anchors", "-", "converter / field table unresolved: %s", why)
		return
	}
	want := map[string]string{"Key": "key", "Value": "value", "Cas": "cas", "Expiry": "exp", "RevNo": "revseqno", "DataType": "isjson", "Opcode": "tombstone"}
	recv := fn.Params[0]
	// which event fields does a value depend on?
	var deps func(v ssa.Value, depth int, seen map[ssa.Value]bool, out map[*types.Var]bool)
	deps = func(v ssa.Value, depth int, seen map[ssa.Value]bool, out map[*types.Var]bool) {
		if depth > 8 || v == nil || seen[v] {
			return
		}
		seen[v] = true
		v = stripConv(v)
		if base, f, ok := fieldLoad(v); ok && stripConv(base) == ssa.Value(recv) {
			out[f] = true
			return
		}
		switch x := v.(type) {
		case *ssa.Phi:
			for _, e := range x.Edges {
				deps(e, depth+1, seen, out)
			}
		case *ssa.Extract:
			deps(x.Tuple, depth+1, seen, out)
		case *ssa.Call:
			// a method of the event called on the same receiver: the fields it reads
			if callee := x.Common().StaticCallee(); callee != nil && m.inPkg(callee) && len(x.Common().Args) > 0 && stripConv(x.Common().Args[0]) == ssa.Value(recv) && callee.Signature.Recv() != nil {
				for f := range m.fieldsReadVia(callee, map[*ssa.Function]bool{}) {
					out[f] = true
				}
			}
			for _, arg := range x.Common().Args {
				deps(arg, depth+1, seen, out)
			}
		case *ssa.BinOp:
			deps(x.X, depth+1, seen, out)
			deps(x.Y, depth+1, seen, out)
		case *ssa.UnOp:
			deps(x.X, depth+1, seen, out)
		case *ssa.Slice:
			deps(x.X, depth+1, seen, out)
		case *ssa.Alloc:
			for _, ref := range *x.Referrers() {
				if st, ok := ref.(*ssa.Store); ok {
					deps(st.Val, depth+1, seen, out)
				}
				if ia, ok := ref.(*ssa.IndexAddr); ok {
					for _, r2 := range *ia.Referrers() {
						if st, ok := r2.(*ssa.Store); ok {
							deps(st.Val, depth+1, seen, out)
						}
					}
				}
			}
		}
	}
	seenFields := map[string]bool{}
	for _, b := range fn.Blocks {
		for _, ins := range b.Instrs {
			st, ok := ins.(*ssa.Store)
			if !ok {
				continue
			}
			fa, ok := st.Addr.(*ssa.FieldAddr)
			if !ok || !isNamed(fa.X.Type(), sgbucketPath, "FeedEvent") {
				continue
			}
			fname := fieldOf(fa).Name()
			col, tracked := want[fname]
			if !tracked {
				continue
			}
			got := map[*types.Var]bool{}
			deps(st.Val, 0, map[ssa.Value]bool{}, got)
			wantF := ftab[col]
			var gotNames []string
			for f := range got {
				gotNames = append(gotNames, f.Name())
			}
			sort.Strings(gotNames)
			okDeps := got[wantF]
			for f := range got {
				// Value may additionally depend on xattrs; DataType on xattrs presence
				if f != wantF && !(fname == "Value" && f == ftab["xattrs"]) && !(fname == "DataType" && f == ftab["xattrs"]) {
					okDeps = false
				}
			}
			// a later store to the same field (xattr branch) is checked as its own obligation
			key := m.declName(fn) + " / FeedEvent." + fname
			if seenFields[fname] {
				key += " (xattr branch)"
				okDeps = got[wantF] || got[ftab["xattrs"]]
				for f := range got {
					if f != wantF && f != ftab["xattrs"] {
						okDeps = false
					}
				}
				if len(got) == 0 {
					okDeps = true // e.g. DataType |= Xattr flag reads the FeedEvent itself
				}
			}
			seenFields[fname] = true
			// whether a field is (re)computed may depend only on the presence of xattrs: a branch on
			// any other event field (say, "not for deletions") makes the delivered event incomplete
			// for some rows although every assignment is right
			for _, ct := range controllingConds(fn, st.Block()) {
				// conditions that merely guard a panic (one side never returns) are not choices
				aborts := false
				for _, sc := range ct.If.Block().Succs {
					reach := reachableFrom(sc, nil)
					canReturn := false
					for _, ret := range returnsOf(fn) {
						if reach[ret.Block().Index] {
							canReturn = true
						}
					}
					if !canReturn {
						aborts = true
					}
				}
				if aborts {
					continue
				}
				cdeps := map[*types.Var]bool{}
				deps(ct.If.Cond, 0, map[ssa.Value]bool{}, cdeps)
				var extra []string
				for f := range cdeps {
					if f != ftab["xattrs"] {
						extra = append(extra, f.Name())
					}
				}
				sort.Strings(extra)
				r.check(len(extra) == 0, rule, m.declName(fn)+" / FeedEvent."+fname+" conditional only on xattrs being present", m.instrPos(ct.If), "the assignment is controlled only by the presence of xattrs", fmt.Sprintf("whether FeedEvent.%s is computed depends on event field(s) %v: for those events the xattrs (and the xattr datatype bit) are left out although the row has them", fname, extra))
			}
			r.check(okDeps, rule, key, m.instrPos(st), "FeedEvent."+fname+" is computed from event."+wantF.Name(), fmt.Sprintf("FeedEvent.%s is computed from event field(s) %v, want %s: the delivered event does not describe the stored row", fname, gotNames, wantF.Name()))
			// polarity of the two selectors
			if (fname == "Opcode" || fname == "DataType") && !strings.Contains(key, "xattr branch") {
				var wantConst constant.Value
				if fname == "Opcode" {
					wantConst = m.sgConst("FeedOpDeletion")
				} else {
					wantConst = m.sgConst("FeedDataTypeJSON")
				}
				onTrue, ok := m.constSelectedOnTrue(st.Val, wantF, 0)
				if !ok {
					r.undecided(rule, key+" polarity", m.instrPos(st), "cannot see how FeedEvent.%s is selected", fname)
				} else {
					good := onTrue != nil && wantConst != nil && constant.Compare(onTrue, token.EQL, wantConst)
					r.check(good, rule, key+" polarity", m.instrPos(st), "the flag's true side selects the matching constant", "the selector for FeedEvent."+fname+" is inverted (true side does not select the deletion / JSON constant)")
				}
			}
		}
	}
	for fname := range want {
		if !seenFields[fname] {
			r.bad(rule, m.declName(fn)+" / FeedEvent."+fname, m.pos(fn.Pos()), "the converter never sets FeedEvent.%s", fname)
		}
	}
	// Live and backfilled events are labelled with the same identifier of their collection: every
	// call of the converter takes its collection-id argument from the same source (the public-id
	// accessor, not - at one site - the row id of the collections table, which differs by one).
	{
		idSource := func(v ssa.Value) string {
			for i := 0; i < 6; i++ {
				v = stripConv(v)
				if cv, ok := v.(*ssa.Convert); ok {
					v = cv.X
					continue
				}
				break
			}
			if call, ok := v.(*ssa.Call); ok {
				if g := call.Common().StaticCallee(); g != nil {
					return "the result of " + g.Name() + "()"
				}
				if call.Common().IsInvoke() {
					return "the result of " + call.Common().Method.Name() + "()"
				}
			}
			if _, f, ok := fieldLoad(v); ok {
				return "the field " + f.Name()
			}
			if p, ok := v.(*ssa.Parameter); ok {
				return "the parameter " + p.Name()
			}
			return "a computed value"
		}
		sources := map[string]string{}
		for _, g := range m.Funcs {
			m.eachCall(g, func(c ssa.CallInstruction) {
				if c.Common().StaticCallee() != fn {
					return
				}
				for i, arg := range c.Common().Args {
					if i == 0 {
						continue
					}
					if b, ok := arg.Type().Underlying().(*types.Basic); ok && b.Info()&types.IsInteger != 0 {
						sources[idSource(arg)] = m.instrPos(c)
					}
				}
			})
		}
		if len(sources) > 0 {
			var list []string
			for k, v := range sources {
				list = append(list, k+" at "+v)
			}
			sort.Strings(list)
			r.check(len(sources) == 1, rule, "<event-converter> / every caller labels the event with the same collection identifier", m.pos(fn.Pos()), "all calls of the converter take the collection id from "+strings.Join(list, ", "), "the calls of the converter take the collection id from different sources ("+strings.Join(list, "; ")+"): live and backfilled events of one collection then carry different collection ids, and a consumer files one of them under a neighbouring collection")
		}
	}
}

// ---------------------------------------------------------------- R-ERRPROP

func (m *Model) ruleERRPROP(r *Results) {
	const rule = "R-ERRPROP"
	errT := types.Universe.Lookup("error").Type()
	inTxn := m.inTxnExtent()
	n := 0
	for fn := range inTxn {
		if fn == m.A.TxnRunner {
			continue
		}
		m.eachCall(fn, func(c ssa.CallInstruction) {
			call, ok := c.(*ssa.Call)
			if !ok {
				return
			}
			cc := c.Common()
			// storage-layer calls: database/sql methods, the scan helper, package functions taking the txn
			storage := false
			var calleeName string
			if callee := cc.StaticCallee(); callee != nil {
				calleeName = callee.Name()
				if callee.Pkg != nil && callee.Pkg.Pkg.Path() == "database/sql" {
					storage = callee.Name() != "RowsAffected" && callee.Name() != "LastInsertId"
				}
				if m.inPkg(callee) {
					for _, arg := range cc.Args {
						t := stripConv(arg).Type()
						if isPtrToNamed(t, "database/sql", "Tx") || isPtrToNamed(t, "database/sql", "Row") || t == types.Type(m.A.Queryable) {
							storage = true
						}
					}
					if callee == m.A.ScanHelper {
						storage = true
					}
				}
			} else if cc.IsInvoke() && cc.Value.Type() == types.Type(m.A.Queryable) {
				storage, calleeName = true, cc.Method.Name()
			}
			if !storage {
				return
			}
			// locate the error result
			sig := cc.Signature()
			res := sig.Results()
			if res.Len() == 0 || !types.Identical(res.At(res.Len()-1).Type(), errT) {
				return
			}
			n++
			var errV ssa.Value
			if res.Len() == 1 {
				errV = call
			} else if call.Referrers() != nil {
				for _, ref := range *call.Referrers() {
					if ex, ok := ref.(*ssa.Extract); ok && ex.Index == res.Len()-1 {
						errV = ex
					}
				}
			}
			used := false
			if errV != nil && errV.Referrers() != nil {
				for _, ref := range *errV.Referrers() {
					if _, isDbg := ref.(*ssa.DebugRef); !isDbg {
						used = true
					}
				}
			}
			key := m.declName(fn) + " / error of " + calleeName
			if used {
				r.ok(rule, key, m.instrPos(c), "the error is propagated or examined")
			} else {
				r.bad(rule, key, m.instrPos(c), "the error returned by %s inside a transaction is dropped: a failed statement would not abort (roll back) the operation, and a partial write could be committed", calleeName)
			}
		})
	}
	if n < 30 {
		r.undecided(rule, "instance-floor", "-", "only %d storage calls found inside transactions", n)
	}
}

// constSelectedOnTrue: v is selected between two constants by a bool field `flag` of some
// object: which constant is chosen when the flag is true? Understands the generic
// ifelse(cond, a, b) helper shape, a phi controlled by an If on the flag, and a helper
// function/method whose returns are such constants.
func (m *Model) constSelectedOnTrue(v ssa.Value, flag *types.Var, depth int) (constant.Value, bool) {
	if depth > 3 {
		return nil, false
	}
	v = stripConv(v)
	readsFlag := func(x ssa.Value) bool {
		_, f, ok := fieldLoad(x)
		return ok && f == flag
	}
	switch x := v.(type) {
	case *ssa.Call:
		args := x.Common().Args
		callee := x.Common().StaticCallee()
		if len(args) == 3 && readsFlag(args[0]) {
			if c, ok := stripConv(args[1]).(*ssa.Const); ok && c.Value != nil {
				return c.Value, true
			}
			return nil, false
		}
		if callee != nil && m.inPkg(callee) && len(callee.Blocks) > 0 {
			// a helper: look at its returns
			for _, ret := range returnsOf(callee) {
				if len(ret.Results) != 1 {
					continue
				}
				res := stripConv(ret.Results[0])
				if c, ok := res.(*ssa.Const); ok && c.Value != nil {
					for _, ct := range controllingConds(callee, ret.Block()) {
						cd := condOf(ct.If)
						if cd.Op == token.ILLEGAL && cd.X != nil {
							isFlag := readsFlag(cd.X)
							if p, okp := stripConv(cd.X).(*ssa.Parameter); okp && !isFlag {
								// flag passed as a bool parameter
								for i, q := range callee.Params {
									if q == p && i < len(args) && readsFlag(args[i]) {
										isFlag = true
									}
								}
							}
							taken := ct.Branch
							if cd.Neg {
								taken = !taken
							}
							if isFlag && taken {
								return c.Value, true
							}
						}
					}
					continue
				}
				if cv, ok := m.constSelectedOnTrue(res, flag, depth+1); ok {
					return cv, true
				}
			}
		}
	case *ssa.Phi:
		fn := x.Parent()
		for _, pred := range x.Block().Preds {
			for p := pred; p != nil; p = p.Idom() {
				if len(p.Instrs) == 0 {
					continue
				}
				if iff, ok := p.Instrs[len(p.Instrs)-1].(*ssa.If); ok {
					if readsFlag(iff.Cond) {
						n := m.phiConstOnTrueSide(x, iff)
						for _, e := range x.Edges {
							if c, ok := e.(*ssa.Const); ok && c.Value != nil && int(c.Int64()) == n {
								return c.Value, true
							}
						}
					}
					break
				}
			}
		}
		_ = fn
	}
	return nil, false
}

// derivesWithParity: like derivesFromField, but also says whether v is the field's value (neg=false)
// or its negation (neg=true). Mixed parities give ok=false.
func (m *Model) derivesWithParity(v ssa.Value, fieldName string, depth int, seen map[ssa.Value]bool) (ok bool, neg bool) {
	if depth > 8 || v == nil || seen[v] {
		return false, false
	}
	seen[v] = true
	v = stripConv(v)
	if _, f, isLoad := fieldLoad(v); isLoad && f.Name() == fieldName {
		return true, false
	}
	merge := func(vals []ssa.Value) (bool, bool) {
		any, first, neg := false, true, false
		for _, x := range vals {
			o, n := m.derivesWithParity(x, fieldName, depth+1, seen)
			if !o {
				continue
			}
			any = true
			if first {
				neg, first = n, false
			} else if n != neg {
				return false, false
			}
		}
		return any, neg
	}
	switch x := v.(type) {
	case *ssa.Phi:
		return merge(x.Edges)
	case *ssa.Extract:
		return m.derivesWithParity(x.Tuple, fieldName, depth+1, seen)
	case *ssa.Call:
		if callee := x.Common().StaticCallee(); callee != nil && m.inPkg(callee) {
			var vals []ssa.Value
			for _, ret := range returnsOf(callee) {
				vals = append(vals, ret.Results...)
			}
			return merge(vals)
		}
	case *ssa.UnOp:
		if x.Op == token.NOT {
			o, n := m.derivesWithParity(x.X, fieldName, depth+1, seen)
			return o, !n
		}
		if x.Op == token.MUL {
			if cell, ok := x.X.(*ssa.Alloc); ok {
				var vals []ssa.Value
				for _, st := range cellStores(cell) {
					vals = append(vals, st.Val)
				}
				return merge(vals)
			}
		}
	}
	return false, false
}

// cellStores: every store to a local cell, including those made by closures that capture it.
func cellStores(cell *ssa.Alloc) []*ssa.Store {
	var out []*ssa.Store
	seen := map[ssa.Value]bool{}
	var visit func(v ssa.Value)
	visit = func(v ssa.Value) {
		if seen[v] || v.Referrers() == nil {
			return
		}
		seen[v] = true
		for _, ref := range *v.Referrers() {
			switch x := ref.(type) {
			case *ssa.Store:
				if x.Addr == v {
					out = append(out, x)
				}
			case *ssa.MakeClosure:
				fn := x.Fn.(*ssa.Function)
				for i, b := range x.Bindings {
					if b == v && i < len(fn.FreeVars) {
						visit(fn.FreeVars[i])
					}
				}
			}
		}
	}
	visit(cell)
	return out
}

// sameMarkThroughHelpers: both statements bind the lastCas field of the view object held in the
// same cell of the closure, possibly passed through a helper parameter.
func (m *Model) sameMarkThroughHelpers(s1 *SQLSite, b1 Binding, s2 *SQLSite, b2 Binding, K *ssa.Function) bool {
	src := func(s *SQLSite, b Binding) (ssa.Value, *types.Var) {
		fr := topFrame(s.Fn)
		if s.Fn != K {
			// helper called from K: bind its parameters at the call site
			var call ssa.CallInstruction
			m.eachCall(K, func(c ssa.CallInstruction) {
				if c.Common().StaticCallee() == s.Fn {
					call = c
				}
			})
			if call == nil {
				return nil, nil
			}
			fr = m.closureFrame(K).inline(call, s.Fn)
		}
		rv, _ := m.resolve(b.V, fr)
		base, f, ok := fieldLoad(rv)
		if !ok {
			// the helper may receive the mark itself as a parameter
			if _, f2, ok2 := fieldLoad(stripConv(rv)); ok2 {
				return nil, f2
			}
			return nil, nil
		}
		bv, _ := m.resolve(base, fr)
		if ld, ok := stripConv(bv).(*ssa.UnOp); ok && ld.Op == token.MUL {
			return ld.X, f
		}
		return stripConv(bv), f
	}
	c1, f1 := src(s1, b1)
	c2, f2 := src(s2, b2)
	return f1 != nil && f1 == f2 && c1 != nil && c1 == c2
}

// pulledValue: v is the result of pulling from the queue (every phi leaf is a pull call).
func (m *Model) pulledValue(v ssa.Value) bool {
	seen := map[ssa.Value]bool{}
	n := 0
	var rec func(v ssa.Value) bool
	rec = func(v ssa.Value) bool {
		v = stripConv(v)
		if seen[v] {
			return true
		}
		seen[v] = true
		switch x := v.(type) {
		case *ssa.Phi:
			for _, e := range x.Edges {
				if !rec(e) {
					return false
				}
			}
			return true
		case *ssa.Call:
			if callee := x.Common().StaticCallee(); callee != nil && m.isQueueMethod(callee, "pull") {
				n++
				return true
			}
		}
		return false
	}
	return rec(v) && n > 0
}

// ddocUnchangedShortcut: a success return of the design-document writer that skips the
// delete-and-reinsert ("unchanged") must be guarded by an equality that covers everything a view
// definition persists (map AND reduce source): reflect.DeepEqual on the documents / view maps,
// or a helper that reads every ViewDef field the INSERT binds.
func (m *Model) ddocUnchangedShortcut(r *Results, rule string, K *ssa.Function, ddAnchor ssa.Instruction) {
	// the ViewDef fields the views INSERT persists
	persisted := map[string]bool{}
	for _, s := range m.Sites {
		if !m.reachableLocal(K)[s.Fn] && s.Fn != K {
			continue
		}
		for _, v := range s.Variants {
			st := v.Stmt()
			if st == nil || st.Kind != sqlp.SInsert || lower(st.Table) != "views" {
				continue
			}
			for _, vals := range st.Values {
				for _, e := range vals {
					if b, ok := s.bindingFor(e); ok && b.V != nil {
						if _, f, ok := fieldLoad(stripConv(b.V)); ok && isNamed(derefType(f), sgbucketPath, "ViewDef") == false {
							persisted[f.Name()] = true
						} else if fv, ok := stripConv(b.V).(*ssa.Field); ok {
							persisted[fieldOfField(fv).Name()] = true
						}
					}
				}
			}
		}
	}
	isWholeType := func(t types.Type) bool {
		if p, ok := t.(*types.Pointer); ok {
			t = p.Elem()
		}
		return isNamed(t, sgbucketPath, "DesignDoc") || isNamed(t, sgbucketPath, "ViewMap") || isNamed(t, sgbucketPath, "ViewDef")
	}
	isDeepEqualWhole := func(call *ssa.Call) bool {
		g := call.Common().StaticCallee()
		if g == nil || g.Pkg == nil || g.Pkg.Pkg.Path() != "reflect" || g.Name() != "DeepEqual" {
			return false
		}
		for _, a := range call.Common().Args {
			mi, ok := a.(*ssa.MakeInterface)
			if !ok || !isWholeType(mi.X.Type()) {
				return false
			}
		}
		return true
	}
	var coversAll func(f *ssa.Function) (bool, []string)
	coversAll = func(f *ssa.Function) (bool, []string) {
		read := map[string]bool{}
		whole := false
		for g := range m.reachableLocal(f) {
			for _, b := range g.Blocks {
				for _, ins := range b.Instrs {
					switch x := ins.(type) {
					case *ssa.Call:
						if isDeepEqualWhole(x) {
							whole = true
						}
					case *ssa.Field:
						if isNamed(x.X.Type(), sgbucketPath, "ViewDef") {
							read[fieldOfField(x).Name()] = true
						}
					case *ssa.FieldAddr:
						if pt, ok := x.X.Type().(*types.Pointer); ok && isNamed(pt.Elem(), sgbucketPath, "ViewDef") {
							read[fieldOf(x).Name()] = true
						}
					}
				}
			}
		}
		if whole {
			return true, nil
		}
		var missing []string
		for f := range persisted {
			if !read[f] {
				missing = append(missing, f)
			}
		}
		sort.Strings(missing)
		return len(missing) == 0, missing
	}
	n := 0
	for _, ret := range returnsOf(K) {
		if len(ret.Results) == 0 || !isNilConst(ret.Results[len(ret.Results)-1]) {
			continue
		}
		if instrReachable(ddAnchor, ret, nil) {
			continue // after the delete: the normal path
		}
		n++
		key := m.declName(K) + " / unchanged design document shortcut"
		good, why := false, "no equality test guards it"
		for _, ct := range controllingConds(K, ret.Block()) {
			call, ok := stripConv(ct.If.Cond).(*ssa.Call)
			if !ok || !ct.Branch {
				continue
			}
			if isDeepEqualWhole(call) {
				good = true
				continue
			}
			if h := call.Common().StaticCallee(); h != nil && m.inPkg(h) {
				if okc, missing := coversAll(h); okc {
					good = true
				} else {
					why = "the comparison " + h.Name() + " never looks at ViewDef." + strings.Join(missing, ", ViewDef.")
				}
			}
		}
		r.check(good, rule, key, m.instrPos(ret), "the write is skipped only when the stored design document equals the new one in everything that is persisted", "the design-document writer returns success without writing when a comparison finds the document 'unchanged', but "+why+": a replacement that differs only there is silently dropped and queries keep using the superseded definition")
	}
	_ = n
}

func derefType(v *types.Var) types.Type { return v.Type() }

// feedRoot: the function that runs on the feed's own goroutine (the target of the `go` statement)
// and, in it, the instruction at which the delivery loop starts: the pull itself when the loop
// is written in that function, otherwise the call that leads to the loop function.
func (m *Model) feedRoot() (*ssa.Function, ssa.Instruction) {
	fn, pull, _ := m.feedLoopFn()
	if fn == nil {
		return nil, nil
	}
	isGoTarget := func(f *ssa.Function) bool {
		for _, g := range m.Funcs {
			found := false
			m.eachCall(g, func(c ssa.CallInstruction) {
				if _, isGo := c.(*ssa.Go); !isGo {
					return
				}
				if c.Common().StaticCallee() == f {
					found = true
				}
				for _, t := range m.funcTargets(c.Common().Value) {
					if t == f {
						found = true
					}
				}
			})
			if found {
				return true
			}
		}
		return false
	}
	cur := fn
	var entry ssa.Instruction = pull
	for depth := 0; depth < 3 && !isGoTarget(cur); depth++ {
		callers := m.staticCallersOf(cur)
		if len(callers) != 1 {
			break
		}
		entry = callers[0]
		cur = callers[0].Parent()
	}
	return cur, entry
}

// ---- "the database is new" predicates ----

// isVersTerm: the term is the schema version read by PRAGMA user_version (possibly through a
// helper); the variable's zero value before the Scan is tolerated as an alternative.
func isVersTerm(t *Term) bool {
	isVers := false
	for _, alt := range t.alts() {
		switch {
		case alt.Kind == "scan" && strings.Contains(alt.Col, "pragma:user_version"):
			isVers = true
		case isZeroTerm(alt):
		default:
			return false
		}
	}
	return isVers
}

// versPredAlt classifies ONE alternative of a boolean term: +1 if it is (schema version == 0),
// -1 if it is (schema version != 0), 0 otherwise.
func versPredAlt(a *Term) int {
	switch {
	case a.Kind == "binop" && (a.Name == "==" || a.Name == "!=") && len(a.Args) == 2:
		var other *Term
		switch {
		case isZeroTerm(a.Args[1]) && a.Args[1].Name == "":
			other = a.Args[0]
		case isZeroTerm(a.Args[0]) && a.Args[0].Name == "":
			other = a.Args[1]
		default:
			return 0
		}
		if !isVersTerm(other) {
			return 0
		}
		if a.Name == "==" {
			return 1
		}
		return -1
	case a.Kind == "call" && a.Name == "unop!" && len(a.Args) == 1:
		p := 0
		for i, alt := range a.Args[0].alts() {
			q := versPredAlt(alt)
			if q == 0 || i > 0 && q != p {
				return 0
			}
			p = q
		}
		return -p
	}
	return 0
}

// versPred summarises a boolean term. exact: every alternative is the predicate with one
// polarity (returned). weak: every alternative is either that predicate or the constant that
// makes the "new" reading false (so "value true ⇒ new", resp. "value false ⇒ new" still holds).
func versPred(t *Term) (pol int, exact bool) {
	exact = true
	for _, alt := range t.alts() {
		q := versPredAlt(alt)
		if q == 0 {
			if alt.Kind == "zero" || alt.Kind == "const" {
				exact = false
				continue
			}
			return 0, false
		}
		if pol != 0 && q != pol {
			return 0, false
		}
		pol = q
	}
	if pol == 0 {
		return 0, false
	}
	// a constant alternative must be the one under which the value does NOT claim "new":
	// false for pol=+1 (value ≡ new), true for pol=-1 (value ≡ existing)
	for _, alt := range t.alts() {
		if versPredAlt(alt) != 0 {
			continue
		}
		isFalse := alt.Kind == "zero"
		isTrue := alt.Kind == "const" && alt.Name == "true"
		if pol == 1 && !isFalse || pol == -1 && !isTrue {
			return 0, false
		}
	}
	return pol, exact
}

// versCutIn cuts, in function g (seen through frame fr), the edges taken when the schema version
// is 0 (equalSide) or is not 0 (!equalSide). The condition may be the comparison itself, its
// negation, or a flag that was assigned from it (in g or in a caller that passes it down).
// With exactOnly the condition must be the predicate on every alternative (no "initially false").
func (m *Model) versCutIn(g *ssa.Function, fr *frame, equalSide, exactOnly bool) *cut {
	c := newCut()
	te := m.newTermEval()
	for _, iff := range allIfs(g) {
		pol, exact := versPred(te.term(iff.Cond, iff, fr))
		if pol == 0 || exactOnly && !exact {
			continue
		}
		// pol=+1: true edge ⇒ version == 0; if exact, false edge ⇒ version != 0
		// pol=-1: true edge ⇒ version != 0; if exact, false edge ⇒ version == 0
		trueIsEqual := pol == 1
		for i, s := range iff.Block().Succs {
			edgeEqual := trueIsEqual == (i == 0)
			if edgeEqual != equalSide {
				continue
			}
			if !exact && !edgeEqual {
				continue // a flag that may still hold its initial value proves "new" only
			}
			c.cutEdge(iff.Block(), s)
		}
	}
	return c
}

// anchorIn: the instruction of K at which statement site s is executed: the site's own call, or
// the call of the helper (of K's extent) that holds it.
func (m *Model) anchorIn(K *ssa.Function, s *SQLSite) ssa.Instruction {
	if s.Fn == K {
		return s.Call
	}
	var out ssa.Instruction
	m.eachCall(K, func(c ssa.CallInstruction) {
		if out != nil {
			return
		}
		if g := c.Common().StaticCallee(); g != nil && m.inPkg(g) && g != m.A.TxnRunner && m.reachableLocal(g)[s.Fn] {
			out = c
		}
	})
	return out
}

// singleStoreOrFirst: the store that initialises a spilled parameter (the first store of the
// whole value into the cell, in the entry block).
func singleStoreOrFirst(al *ssa.Alloc) *ssa.Store {
	if al.Referrers() == nil {
		return nil
	}
	for _, ref := range *al.Referrers() {
		if st, ok := ref.(*ssa.Store); ok && st.Addr == ssa.Value(al) && st.Block().Index == 0 {
			return st
		}
	}
	return nil
}
