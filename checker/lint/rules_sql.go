package lint

import (
	"fmt"
	"go/ast"
	"go/constant"
	"go/token"
	"go/types"
	"sort"
	"strings"

	"golang.org/x/tools/go/ssa"

	"rosmarlint/sqlp"
)

// ownerOf describes how a table belongs to a collection: directly (a column referencing
// collections.id) or through a parent table. It is derived from the schema's foreign keys.
type ownership struct {
	direct string            // column referencing collections(id), "" if none
	via    map[string]string // fk column -> parent table (lower-case), for non-collections parents
}

func (m *Model) ownershipOf(table string) *ownership {
	t := m.Schema.Table(table)
	if t == nil {
		return nil
	}
	o := &ownership{via: map[string]string{}}
	for _, cn := range t.Order {
		c := t.Col(cn)
		if c.RefTable == "" {
			continue
		}
		if strings.EqualFold(c.RefTable, "collections") {
			o.direct = lower(c.Name)
		} else {
			o.via[lower(c.Name)] = lower(c.RefTable)
		}
	}
	return o
}

// ownedTable reports whether rows of the table belong to one collection (directly or
// transitively).
func (m *Model) ownedTable(table string) bool {
	seen := map[string]bool{}
	var rec func(t string) bool
	rec = func(t string) bool {
		if seen[t] {
			return false
		}
		seen[t] = true
		o := m.ownershipOf(t)
		if o == nil {
			return false
		}
		if o.direct != "" {
			return true
		}
		for _, p := range o.via {
			if rec(p) {
				return true
			}
		}
		return false
	}
	return rec(lower(table))
}

// methodOwner returns the named receiver type of the outermost enclosing declared function.
func (m *Model) methodOwner(fn *ssa.Function) *types.Named {
	root := rootOf(fn)
	if root.Signature.Recv() == nil {
		return nil
	}
	t := root.Signature.Recv().Type()
	if p, ok := t.(*types.Pointer); ok {
		t = p.Elem()
	}
	n, _ := t.(*types.Named)
	return n
}

// sitesHealthy adds UNDECIDED obligations to `rule` for every SQL site that could not be
// folded or parsed: a rule over "all statements" is only as good as the inventory.
func (m *Model) sitesHealthy(r *Results, rule string) {
	for _, s := range m.Sites {
		if s.Undecided != "" {
			r.undecided(rule, m.declName(s.Fn)+" / unfoldable SQL", m.instrPos(s.Call), "%s", s.Undecided)
			continue
		}
		for _, v := range s.Variants {
			if v.Err != nil {
				r.undecided(rule, m.declName(s.Fn)+" / unparsable SQL", m.instrPos(s.Call), "%v in %q", v.Err, v.SQL)
			}
		}
	}
}

// eachStmt iterates the parsed statements of all sites (schema script excluded unless asked).
func (m *Model) eachStmt(includeSchema bool, f func(s *SQLSite, v *Variant, st *sqlp.Stmt)) {
	for _, s := range m.Sites {
		if s.IsSchema && !includeSchema {
			continue
		}
		for _, v := range s.Variants {
			if v.Err != nil {
				continue
			}
			for _, st := range v.Stmts {
				f(s, v, st)
			}
		}
	}
}

func onlyClasses(s *SQLSite, allowed ...HandleClass) bool {
	for c := range s.Classes {
		ok := false
		for _, a := range allowed {
			if c == a {
				ok = true
			}
		}
		if !ok {
			return false
		}
	}
	return len(s.Classes) > 0
}

func classList(s *SQLSite) string {
	var cls []string
	for c := range s.Classes {
		cls = append(cls, c.String())
	}
	sort.Strings(cls)
	return strings.Join(cls, "|")
}

// ---------------------------------------------------------------- R-TXN

// ruleTXN: every DML statement runs on the transaction handle, with three shape-defined
// exceptions (schema script; single metadata statement by a *Bucket method; DDL).
func (m *Model) ruleTXN(r *Results) {
	const rule = "R-TXN"
	m.sitesHealthy(r, rule)
	for _, s := range m.Sites {
		for _, v := range s.Variants {
			if v.Err != nil {
				continue
			}
			if s.IsSchema {
				r.ok(rule, m.declName(s.Fn)+" / schema script", m.instrPos(s.Call), "embedded schema script (exception i)")
				continue
			}
			for _, st := range v.Stmts {
				if !isDML(st) {
					if st.Kind == sqlp.SOther && s.Holes == 0 {
						r.undecided(rule, s.key(m, v), m.instrPos(s.Call), "statement of unknown kind: %q", st.Raw)
					}
					continue
				}
				key := s.key(m, v)
				pos := m.instrPos(s.Call)
				tbl := lower(st.Table)
				if onlyClasses(s, HTxn) {
					r.ok(rule, key, pos, "DML on %s runs on the transaction handle", tbl)
					continue
				}
				// exception ii: single statement on metadata tables by a *Bucket method on the pool
				meta := tbl == "bucket" || tbl == "collections"
				if meta && len(v.Stmts) == 1 && m.methodOwner(s.Fn) == m.A.BucketType && onlyClasses(s, HPool, HClosed) && len(st.Tables()) == 1 {
					r.ok(rule, key, pos, "single autocommit statement on metadata table %s by a bucket method (exception ii)", tbl)
					continue
				}
				if len(s.Classes) == 0 || s.Classes[HUnknown] && len(s.Classes) == 1 {
					if n := m.CG.Nodes[s.Fn]; n == nil || len(n.In) == 0 {
						r.info(rule, key, pos, "function has no callers; handle class unknown")
						continue
					}
				}
				r.bad(rule, key, pos, "DML on table %s can run outside the transaction: handle may be %s", tbl, classList(s))
			}
		}
	}
	r.floor(rule, 18)
}

// ---------------------------------------------------------------- R-COLL

type viewFieldFact struct {
	table string // table whose pk the field holds
	ok    bool
}

// constrainedScanFields finds struct fields (and plain cells) that receive the primary key
// of an owned table from a SELECT that is itself constrained to the receiver's collection.
// Returns map from field object to the table whose id it carries.
func (m *Model) constrainedIDFields() map[*types.Var]string {
	out := map[*types.Var]string{}
	for _, sc := range m.scanCalls() {
		if sc.Site == nil {
			continue
		}
		for _, v := range sc.Site.Variants {
			st := v.Stmt()
			if st == nil || st.Kind != sqlp.SSelect || st.Select == nil {
				continue
			}
			uses := tableUses(st)
			for i, col := range st.Select.Cols {
				if i >= len(sc.Dests) || col.Expr.Kind != sqlp.EColumn || !strings.EqualFold(col.Expr.Name, "id") {
					continue
				}
				// which table?
				for _, u := range uses {
					if m.colOf(col.Expr, u, "id") && m.ownedTable(u.Table) {
						if ok, _ := m.useConstrained(sc.Site, u, uses, nil, 0); ok {
							if fa, isFA := sc.Dests[i].(*ssa.FieldAddr); isFA {
								if f := fieldOf(fa); f != nil {
									out[f] = u.Table
								}
							}
						}
					}
				}
			}
		}
	}
	return out
}

// useConstrained decides whether table use u is restricted to the receiver's collection.
func (m *Model) useConstrained(s *SQLSite, u *tableUse, all []*tableUse, idFields map[*types.Var]string, depth int) (bool, string) {
	if depth > 4 {
		return false, "ownership chain too deep"
	}
	o := m.ownershipOf(u.Table)
	if o == nil {
		return false, "unknown table " + u.Table
	}
	if u.Table == "collections" {
		for _, other := range m.eqConjuncts(u, "id") {
			if b, ok := s.bindingFor(other); ok && m.isRecvCollID(b) {
				return true, "collections.id = receiver id"
			}
		}
		return false, "no conjunct collections.id = <receiver>.id"
	}
	if u.Role == "insert" {
		if o.direct != "" {
			val := u.InsertVal[o.direct]
			if b, ok := s.bindingFor(val); ok && m.isRecvCollID(b) {
				return true, "inserted " + o.direct + " = receiver id"
			}
			return false, fmt.Sprintf("INSERT into %s does not bind column %s to <receiver>.id", u.Table, o.direct)
		}
		for fk, parent := range o.via {
			if !m.ownedTable(parent) {
				continue
			}
			val := u.InsertVal[fk]
			b, ok := s.bindingFor(val)
			if !ok {
				continue
			}
			if m.bindingIsConstrainedID(b, parent, idFields) {
				return true, "inserted " + fk + " is the id of a constrained " + parent + " row"
			}
		}
		return false, fmt.Sprintf("INSERT into %s: no foreign key is bound to the id of a row known to belong to the receiver's collection", u.Table)
	}
	if o.direct != "" {
		for _, other := range m.eqConjuncts(u, o.direct) {
			if b, ok := s.bindingFor(other); ok && m.isRecvCollID(b) {
				return true, u.RefName + "." + o.direct + " = receiver id"
			}
		}
		// or: joined on its primary key from a child table that is itself constrained
		// (e.g. mapped.doc = documents.id with mapped restricted to one of this collection's views)
		for _, sib := range u.Siblings {
			if sib == u {
				continue
			}
			so := m.ownershipOf(sib.Table)
			if so == nil {
				continue
			}
			for fk, parent := range so.via {
				if parent != u.Table {
					continue
				}
				for _, other := range m.eqConjuncts(sib, fk) {
					if m.colOf(other, u, "id") {
						if ok, _ := m.useConstrained(s, sib, all, idFields, depth+2); ok {
							return true, fmt.Sprintf("%s joined on its id from constrained %s.%s", u.RefName, sib.RefName, fk)
						}
					}
				}
			}
		}
		return false, fmt.Sprintf("no top-level conjunct %s.%s = <receiver>.id", u.RefName, o.direct)
	}
	// transitively owned: equality join to a constrained parent, or fk/pk bound to a constrained id
	for fk, parent := range o.via {
		if !m.ownedTable(parent) {
			continue
		}
		for _, other := range m.eqConjuncts(u, fk) {
			if other.Kind == sqlp.EColumn && strings.EqualFold(other.Name, "id") {
				for _, sib := range u.Siblings {
					if sib != u && sib.Table == parent && m.colOf(other, sib, "id") {
						if ok, _ := m.useConstrained(s, sib, all, idFields, depth+1); ok {
							return true, fmt.Sprintf("%s.%s joins constrained %s", u.RefName, fk, parent)
						}
					}
				}
			}
			if b, ok := s.bindingFor(other); ok && m.bindingIsConstrainedID(b, parent, idFields) {
				return true, fmt.Sprintf("%s.%s bound to the id of a constrained %s row", u.RefName, fk, parent)
			}
		}
	}
	for _, other := range m.eqConjuncts(u, "id") {
		if b, ok := s.bindingFor(other); ok && m.bindingIsConstrainedID(b, u.Table, idFields) {
			return true, u.RefName + ".id bound to the id of a constrained row"
		}
	}
	// mapped.doc IN (SELECT id FROM documents WHERE collection=...) style
	for _, c := range u.Conjuncts {
		if c.Kind == sqlp.EIn && !c.Not && c.Sub != nil {
			for fk, parent := range o.via {
				if m.colOf(c.Args[0], u, fk) && len(c.Sub.From) == 1 && lower(c.Sub.From[0].Name) == parent {
					// the sub-select's own constraint is checked as a separate table use; accept only with it
					for _, su := range all {
						if su.Table == parent && su != u && sameConjuncts(su.Conjuncts, sqlp.Conjuncts(c.Sub.Where)) {
							if ok, _ := m.useConstrained(s, su, all, idFields, depth+1); ok {
								// a secondary owner path; keep looking for the primary one too
								_ = fk
							}
						}
					}
				}
			}
		}
	}
	return false, fmt.Sprintf("%s is owned through %v but no join/conjunct ties it to a row of the receiver's collection", u.Table, o.via)
}

func sameConjuncts(a, b []*sqlp.Expr) bool {
	if len(a) != len(b) {
		return false
	}
	for i := range a {
		if a[i] != b[i] {
			return false
		}
	}
	return true
}

// bindingIsConstrainedID: the bound Go value is known to be the id of a row of `table`
// belonging to the receiver's collection: a struct field filled from a constrained SELECT,
// or the LastInsertId of a constrained INSERT into that table in the same function.
func (m *Model) bindingIsConstrainedID(b Binding, table string, idFields map[*types.Var]string) bool {
	if b.V == nil {
		return false
	}
	rv, rfr := m.resolve(b.V, b.Fr)
	if _, f, ok := fieldLoad(rv); ok && idFields != nil {
		if t, ok := idFields[f]; ok && t == lower(table) {
			return true
		}
		// copied fields (out.doc_id = input.doc_id): same-named field of another struct fed from it
		for g, t := range idFields {
			if t == lower(table) && g.Name() == f.Name() && m.fieldCopiedFrom(f, g) {
				return true
			}
		}
	}
	// the result of a package helper that returns such an id (its failure returns aside)
	{
		var hc *ssa.Call
		idx := 0
		switch x := rv.(type) {
		case *ssa.Call:
			hc = x
		case *ssa.Extract:
			if c, ok := x.Tuple.(*ssa.Call); ok {
				hc, idx = c, x.Index
			}
		}
		if hc != nil {
			if callee := hc.Common().StaticCallee(); callee != nil && m.inPkg(callee) && len(callee.Blocks) > 0 && (rfr == nil || rfr.depth < 3) {
				fr := rfr
				if fr == nil {
					fr = topFrame(hc.Parent())
				}
				cfr := fr.inline(hc, callee)
				all, any := true, false
				for _, ret := range returnsOf(callee) {
					if idx >= len(ret.Results) || m.isFailureReturn(ret) {
						continue
					}
					any = true
					if !m.bindingIsConstrainedID(Binding{V: ret.Results[idx], Fr: cfr}, table, idFields) {
						all = false
					}
				}
				if any && all {
					return true
				}
			}
		}
	}
	// LastInsertId of an INSERT into `table`
	if ex, ok := rv.(*ssa.Extract); ok {
		if call, ok := ex.Tuple.(*ssa.Call); ok && call.Common().IsInvoke() && call.Common().Method.Name() == "LastInsertId" {
			res, _ := m.resolve(call.Common().Value, rfr)
			if ex2, ok := res.(*ssa.Extract); ok {
				for _, s := range m.Sites {
					if s.Call.Value() != nil && ssa.Value(s.Call.Value()) == ex2.Tuple {
						for _, v := range s.Variants {
							st := v.Stmt()
							if st != nil && st.Kind == sqlp.SInsert && lower(st.Table) == lower(table) {
								uses := tableUses(st)
								for _, u := range uses {
									if u.Role == "insert" {
										if ok, _ := m.useConstrained(s, u, uses, idFields, 1); ok {
											return true
										}
									}
								}
							}
						}
					}
				}
			}
		}
	}
	return false
}

// fieldCopiedFrom reports whether some store in the package assigns a load of field g to field f.
func (m *Model) fieldCopiedFrom(f, g *types.Var) bool {
	for _, fn := range m.Funcs {
		for _, b := range fn.Blocks {
			for _, in := range b.Instrs {
				st, ok := in.(*ssa.Store)
				if !ok {
					continue
				}
				fa, ok := st.Addr.(*ssa.FieldAddr)
				if !ok || fieldOf(fa) != f {
					continue
				}
				if _, gf, ok := fieldLoad(st.Val); ok && gf == g {
					return true
				}
			}
		}
	}
	return false
}

func (m *Model) ruleCOLL(r *Results) {
	const rule = "R-COLL"
	m.sitesHealthy(r, rule)
	if m.A.CollectionType == nil || m.A.CollIDField == nil {
		r.undecided(rule, "anchors", "-", "collection type / id field unresolved: %v", m.A.Problems)
		return
	}
	idFields := m.constrainedIDFields()
	m.eachStmt(false, func(s *SQLSite, v *Variant, st *sqlp.Stmt) {
		owner := m.methodOwner(s.Fn)
		key := s.key(m, v)
		pos := m.instrPos(s.Call)
		uses := tableUses(st)
		if st.Kind == sqlp.SCreateIndex {
			return // DDL is bucket-wide by documentation (CreateIndex)
		}
		for _, u := range uses {
			if !m.ownedTable(u.Table) && !(u.Table == "collections" && owner == m.A.CollectionType) {
				continue
			}
			ck := key + " / " + u.Table
			// frozen list of bucket-wide statements, by shape
			bucketWide := func(ck string) {
				if st.Kind == sqlp.SDelete && u.Role == "target" && u.Table == "documents" && len(u.Conjuncts) == 1 && noBodyTest(u.Conjuncts[0]) {
					r.ok(rule, ck, pos, "bucket-wide purge statement (by specification)")
				} else if st.Kind == sqlp.SSelect && st.Select != nil && len(st.Select.Cols) == 1 && isAgg(st.Select.Cols[0].Expr, "min", "exp") && u.Table == "documents" {
					r.ok(rule, ck, pos, "bucket-wide min-expiry query (single timer per bucket)")
				} else {
					r.bad(rule, ck, pos, "bucket method touches collection-owned table %s; only the purge statement and the min-expiry query may be bucket-wide", u.Table)
				}
			}
			switch owner {
			case m.A.CollectionType:
				ok, why := m.useConstrained(s, u, uses, idFields, 0)
				if !ok {
					// an unexported method that is handed the collection id (e.g. inside a key struct):
					// decided in the context of each of its callers, which must all be collection methods
					callers := m.staticCallersOf(rootOf(s.Fn))
					if len(callers) == 0 && !ast.IsExported(rootOf(s.Fn).Name()) && len(m.hybridCallersOf(rootOf(s.Fn))) == 0 {
						ok, why = true, "unexported method that nothing calls"
					}
					if len(callers) > 0 && !ast.IsExported(rootOf(s.Fn).Name()) {
						all := true
						for _, cs := range callers {
							if m.methodOwner(rootOf(cs.Parent())) != m.A.CollectionType {
								all = false
								break
							}
							s.evalFrame = m.closureFrame(cs.Parent()).inline(cs, rootOf(s.Fn))
							ok2, _ := m.useConstrained(s, u, uses, idFields, 0)
							s.evalFrame = nil
							if !ok2 {
								all = false
							}
						}
						if all {
							ok, why = true, "restricted to the calling collection at every call site"
						}
					}
				}
				if ok {
					r.ok(rule, ck, pos, "%s", why)
				} else {
					r.bad(rule, ck, pos, "statement of a collection method ranges over %s without being restricted to the receiver's collection: %s", u.Table, why)
				}
			case m.A.BucketType:
				bucketWide(ck)
			default:
				// a helper function: decide it in the context of each of its callers
				callers := m.staticCallersOf(rootOf(s.Fn))
				if len(callers) == 0 {
					r.bad(rule, ck, pos, "statement on collection-owned table %s outside any collection or bucket method", u.Table)
					break
				}
				// a helper (or a method handed to the transaction runner as a bound value) that only
				// bucket methods use is judged like a bucket method
				onlyBucket := true
				for _, cs := range callers {
					ctx := rootOf(cs.Parent())
					if strings.HasSuffix(cs.Parent().Name(), "$bound") {
						ctx = nil
						if fr := m.closureFrame(rootOf(s.Fn)); fr.recv != nil && fr.caller != nil {
							ctx = rootOf(fr.caller.fn)
						}
					}
					if ctx == nil || m.methodOwner(ctx) != m.A.BucketType {
						onlyBucket = false
					}
				}
				if onlyBucket {
					bucketWide(ck + " via bucket methods")
					break
				}
				for _, cs := range callers {
					if strings.HasSuffix(cs.Parent().Name(), "$bound") {
						// the method is used as a bound method value (x.m handed to the transaction
						// runner): decide it where the value is created
						fr := m.closureFrame(rootOf(s.Fn))
						if fr.recv != nil && fr.caller != nil && m.methodOwner(rootOf(fr.caller.fn)) == m.A.CollectionType {
							s.evalFrame = fr
							ok, why := m.useConstrained(s, u, uses, idFields, 0)
							s.evalFrame = nil
							if ok {
								r.ok(rule, ck+" via "+m.declName(fr.caller.fn), pos, "%s", why)
							} else {
								r.bad(rule, ck+" via "+m.declName(fr.caller.fn), pos, "helper statement ranges over %s without being restricted to the calling collection: %s", u.Table, why)
							}
							continue
						}
					}
					if m.methodOwner(cs.Parent()) != m.A.CollectionType {
						r.bad(rule, ck+" via "+m.declName(cs.Parent()), m.instrPos(cs), "helper with a statement on collection-owned table %s is called from outside a collection method", u.Table)
						continue
					}
					s.evalFrame = m.closureFrame(cs.Parent()).inline(cs, rootOf(s.Fn))
					ok, why := m.useConstrained(s, u, uses, idFields, 0)
					s.evalFrame = nil
					if ok {
						r.ok(rule, ck+" via "+m.declName(cs.Parent()), pos, "%s", why)
					} else {
						r.bad(rule, ck+" via "+m.declName(cs.Parent()), pos, "helper statement ranges over %s without being restricted to the calling collection: %s", u.Table, why)
					}
				}
			}
		}
	})
	r.floor(rule, 40)
}

func isAgg(e *sqlp.Expr, fn, col string) bool {
	return e != nil && e.Kind == sqlp.EFunc && strings.EqualFold(e.Name, fn) && len(e.Args) == 1 && isCol(e.Args[0], col)
}

// ---------------------------------------------------------------- R-KEYSPACE

func (m *Model) ruleKEYSPACE(r *Results) {
	const rule = "R-KEYSPACE"
	m.sitesHealthy(r, rule)
	for _, s := range m.Sites {
		if s.Holes == 0 || s.IsSchema {
			continue
		}
		if s.FormatHoles > 0 {
			r.bad(rule, m.declName(s.Fn)+" / caller text is not a format string", m.instrPos(s.Call), "the caller-supplied statement text is made part of a fmt.Sprintf FORMAT string: a '%%' in the query (LIKE pattern, modulo) is rewritten by Sprintf and the query silently returns other rows or fails")
		}
		for _, v := range s.Variants {
			if v.Err != nil {
				continue
			}
			for _, st := range v.Stmts {
				if st.Kind == sqlp.SCreateIndex {
					r.info(rule, s.key(m, v), m.instrPos(s.Call), "user-supplied index expression (bucket-wide by documentation)")
					continue
				}
				key := m.declName(s.Fn) + " / user SQL envelope"
				pos := m.instrPos(s.Call)
				if s.XformHoles > 0 {
					r.bad(rule, m.declName(s.Fn)+" / caller's statement reaches the engine verbatim", pos, "the caller's statement text goes through %s before it is executed: rewriting SQL as plain text (folding whitespace, replacing substrings) also rewrites string literals and comments inside it, so the query that runs is not the query that was asked", s.XformBy)
				}
				if len(st.With) != 1 {
					r.bad(rule, key, pos, "statement with caller-supplied text is not wrapped in exactly one keyspace CTE (found %d)", len(st.With))
					continue
				}
				sel := st.With[0].Select
				var problems []string
				if len(sel.From) != 1 || lower(sel.From[0].Name) != "documents" || sel.From[0].Sub != nil {
					problems = append(problems, "keyspace does not select from documents alone")
				}
				want := map[string]string{"id": "key", "body": "value", "xattrs": "xattrs"}
				got := map[string]string{}
				for _, c := range sel.Cols {
					name := c.Alias
					if name == "" && c.Expr.Kind == sqlp.EColumn {
						name = c.Expr.Name
					}
					if c.Expr.Kind == sqlp.EColumn {
						got[lower(name)] = lower(c.Expr.Name)
					} else {
						got[lower(name)] = c.Expr.String()
					}
				}
				for k, w := range want {
					if got[k] != w {
						problems = append(problems, fmt.Sprintf("keyspace column %s is %q, want %s", k, got[k], w))
					}
				}
				if len(got) != len(want) {
					problems = append(problems, fmt.Sprintf("keyspace exposes %d columns, want 3", len(got)))
				}
				conj := sqlp.Conjuncts(sel.Where)
				haveColl, haveBody, extra := false, false, 0
				for _, c := range conj {
					if p := colEqParam(c, "collection"); p != nil {
						if b, ok := s.bindingFor(p); ok && m.isRecvCollID(b) {
							haveColl = true
							continue
						}
					}
					if c.Kind == sqlp.EIsNull && c.Not && isCol(c.Args[0], "value") {
						haveBody = true // the encoding the key-value reads use
						continue
					}
					extra++
				}
				if !haveColl {
					problems = append(problems, "no conjunct collection = <receiver>.id")
				}
				if !haveBody {
					problems = append(problems, "no conjunct excluding rows without a body")
				}
				if extra > 0 {
					problems = append(problems, fmt.Sprintf("%d further conjunct(s) hide live documents from queries", extra))
				}
				if sel.Limit != nil || len(sel.OrderBy) > 0 && false {
					problems = append(problems, "keyspace has a LIMIT")
				}
				if len(problems) == 0 {
					r.ok(rule, key, pos, "keyspace CTE = live documents of the receiver's collection (id, body, xattrs)")
				} else {
					r.bad(rule, key, pos, "%s", strings.Join(problems, "; "))
				}
			}
		}
	}
	// the caller's statement is what produces the result: every return of the function that executes
	// it which can report success lies behind the execution (an "empty collection, nothing to
	// match" shortcut decided from bookkeeping answers without asking the store)
	for _, s := range m.Sites {
		if s.Holes == 0 || s.IsSchema || s.Method != "Query" || len(s.Variants) == 0 {
			continue
		}
		fn := s.Call.Parent()
		if fn == nil || fn.Parent() != nil {
			continue
		}
		userSQL := false
		for _, v := range s.Variants {
			for _, st := range v.Stmts {
				if len(st.With) == 1 {
					userSQL = true
				}
			}
		}
		if !userSQL {
			continue
		}
		c := newCut()
		c.cutBlock(s.Call.Block())
		reach := entryReach(fn, c)
		bad := ""
		for _, ret := range returnsOf(fn) {
			if reach[ret.Block().Index] && ret.Block() != s.Call.Block() && !m.mustBeFailureReturn(ret) {
				bad = m.instrPos(ret)
			}
		}
		pos := m.instrPos(s.Call)
		if bad != "" {
			pos = bad
		}
		r.check(bad == "", rule, m.declName(fn)+" / a result is what the statement produced", pos, "every return that can report success is behind the execution of the caller's statement", "a return that can report success is reachable without the caller's statement having been executed: the rows handed back (none) are decided from something other than the documents the statement ranges over")
	}
	// the keyspace token is replaced wherever it occurs (a statement may name it more than once:
	// self-join, sub-select, UNION)
	for _, f := range m.Funcs {
		if !m.inPkg(f) {
			continue
		}
		m.eachCall(f, func(c ssa.CallInstruction) {
			callee := c.Common().StaticCallee()
			if callee == nil || callee.Pkg == nil || callee.Pkg.Pkg.Path() != "strings" || callee.Name() != "Replace" || len(c.Common().Args) != 4 {
				return
			}
			if oldS, ok := constString(c.Common().Args[1]); !ok || !strings.HasPrefix(oldS, "$") {
				return
			}
			k, ok := stripConv(c.Common().Args[3]).(*ssa.Const)
			r.check(ok && k.Value != nil && k.Int64() < 0, rule, m.declName(f)+" / every occurrence of the token is replaced", m.instrPos(c), "strings.Replace with n < 0", "only a bounded number of occurrences of the keyspace token is replaced: a statement that names the keyspace again (self-join, sub-select) keeps the raw token and fails, or worse, is parsed as a bind parameter")
		})
	}
	r.floor(rule, 2)
}

// ---------------------------------------------------------------- R-DROP (SQL + schema part)

func (m *Model) ruleDROP(r *Results) {
	const rule = "R-DROP"
	m.sitesHealthy(r, rule)
	// schema: cascade on every ownership foreign key; collections.id AUTOINCREMENT
	for _, tn := range sortedKeys(m.Schema.Tables) {
		t := m.Schema.Tables[tn]
		for _, cn := range t.Order {
			c := t.Col(cn)
			if c.RefTable == "" {
				continue
			}
			key := "schema / " + t.Name + "." + c.Name + " -> " + c.RefTable
			r.check(c.OnDelete == "CASCADE", rule, key, "schema.sql", "foreign key cascades on delete", "ownership foreign key does not cascade on delete: dropping a collection (or replacing a design document) leaves orphan rows that a re-created parent could adopt")
		}
	}
	if ct := m.Schema.Table("collections"); ct != nil {
		id := ct.Col("id")
		r.check(id != nil && id.PrimaryKey && id.AutoInc, rule, "schema / collections.id AUTOINCREMENT", "schema.sql", "collection ids are never reused", "collections.id is not AUTOINCREMENT: a re-created collection could reuse the id of a dropped one")
	} else {
		r.undecided(rule, "schema / collections", "schema.sql", "no collections table")
	}
	// the drop statement
	n := 0
	m.eachStmt(false, func(s *SQLSite, v *Variant, st *sqlp.Stmt) {
		if st.Kind != sqlp.SDelete || lower(st.Table) != "collections" {
			return
		}
		n++
		key := s.key(m, v)
		pos := m.instrPos(s.Call)
		conj := sqlp.Conjuncts(st.Where)
		var scopeP, nameP *sqlp.Expr
		other := 0
		for _, c := range conj {
			if p := colEqParam(c, "scope"); p != nil {
				scopeP = p
			} else if p := colEqParam(c, "name"); p != nil {
				nameP = p
			} else if p := colEqParam(c, "id"); p != nil {
				scopeP, nameP = p, p // keyed by id is at least as precise
			} else {
				other++
			}
		}
		if scopeP == nil || nameP == nil {
			r.bad(rule, key, pos, "drop statement is not keyed by both scope and name")
			return
		}
		bs, ok1 := s.bindingFor(scopeP)
		bn, ok2 := s.bindingFor(nameP)
		if !ok1 || !ok2 {
			r.bad(rule, key, pos, "drop statement has an unbound key parameter")
			return
		}
		ds, dn := m.accessorName(bs), m.accessorName(bn)
		okS := strings.Contains(lower(ds), "scope")
		okN := strings.Contains(lower(dn), "collection") || strings.Contains(lower(dn), "name") && !strings.Contains(lower(dn), "scope")
		r.check(okS && okN, rule, key, pos, "scope and name bound to the scope/collection parts of the argument", fmt.Sprintf("drop statement binds scope to %q and name to %q", ds, dn))
	})
	if n == 0 {
		r.undecided(rule, "drop statement", "-", "no DELETE FROM collections found")
	}
}

// accessorName names the field or method a bound value is read through.
func (m *Model) accessorName(b Binding) string {
	rv, _ := m.resolve(b.V, b.Fr)
	if _, f, ok := fieldLoad(rv); ok {
		return f.Name()
	}
	if c, ok := rv.(*ssa.Call); ok {
		if c.Common().IsInvoke() {
			return c.Common().Method.Name()
		}
		if f := c.Common().StaticCallee(); f != nil {
			return f.Name()
		}
	}
	return rv.Name()
}

// ---------------------------------------------------------------- documents write units

// docWrite is a statement (variant) writing the documents table, split into the part that
// creates a row and the part that updates an existing row.
type docWrite struct {
	Site    *SQLSite
	Variant *Variant
	Stmt    *sqlp.Stmt
	W       *WriteInfo
	// a write unit may consist of several UPDATE statements of the same row issued by one
	// function (one UPDATE split in two): Parts lists their sites, ColSite says which site
	// assigns which column
	Parts   []*SQLSite
	ColSite map[string]*SQLSite
}

// siteFor returns the site whose arguments bind the expression assigned to col.
func (dw *docWrite) siteFor(col string) *SQLSite {
	if s, ok := dw.ColSite[col]; ok {
		return s
	}
	return dw.Site
}

func whereSignature(st *sqlp.Stmt) string {
	var cols []string
	for _, c := range sqlp.Conjuncts(st.Where) {
		if c.Kind == sqlp.EBinary && c.Op == "=" {
			if c.Args[0].Kind == sqlp.EColumn && c.Args[1].Kind == sqlp.EParam {
				cols = append(cols, lower(c.Args[0].Name))
				continue
			}
			if c.Args[1].Kind == sqlp.EColumn && c.Args[0].Kind == sqlp.EParam {
				cols = append(cols, lower(c.Args[1].Name))
				continue
			}
		}
		cols = append(cols, c.String())
	}
	sort.Strings(cols)
	return strings.Join(cols, ",")
}

func (m *Model) docWrites() []*docWrite {
	if m.docWriteCache != nil {
		return m.docWriteCache
	}
	var out []*docWrite
	m.eachStmt(false, func(s *SQLSite, v *Variant, st *sqlp.Stmt) {
		if !isDML(st) || lower(st.Table) != "documents" || st.Kind == sqlp.SDelete {
			return
		}
		out = append(out, &docWrite{Site: s, Variant: v, Stmt: st, W: writeInfo(st), Parts: []*SQLSite{s}, ColSite: map[string]*SQLSite{}})
	})
	// merge single-variant UPDATEs of one function that address the row by the same key columns
	var merged []*docWrite
	used := map[*docWrite]bool{}
	for i, a := range out {
		if used[a] {
			continue
		}
		if a.Stmt.Kind != sqlp.SUpdate || len(a.Site.Variants) != 1 {
			merged = append(merged, a)
			continue
		}
		group := []*docWrite{a}
		for _, b := range out[i+1:] {
			if !used[b] && b.Stmt.Kind == sqlp.SUpdate && len(b.Site.Variants) == 1 && b.Site.Fn == a.Site.Fn && b.Site != a.Site && whereSignature(b.Stmt) == whereSignature(a.Stmt) {
				group = append(group, b)
				used[b] = true
			}
		}
		if len(group) == 1 {
			merged = append(merged, a)
			continue
		}
		mw := &docWrite{Site: a.Site, Variant: a.Variant, Stmt: a.Stmt, ColSite: map[string]*SQLSite{}}
		w := &WriteInfo{Table: a.W.Table, Kind: a.W.Kind, Update: map[string]*sqlp.Expr{}, Where: a.W.Where}
		for _, g := range group {
			mw.Parts = append(mw.Parts, g.Site)
			for c, e := range g.W.Update {
				w.Update[c] = e
				mw.ColSite[c] = g.Site
			}
		}
		mw.W = w
		merged = append(merged, mw)
	}
	m.docWriteCache = merged
	return merged
}

// assignedInSameFunc: is column col assigned by another documents UPDATE in the same function?
func (m *Model) assignedElsewhere(dw *docWrite, col string, all []*docWrite) bool {
	for _, o := range all {
		if o == dw || o.Site.Fn != dw.Site.Fn || o.Site == dw.Site {
			continue
		}
		if o.W.Update != nil {
			if _, ok := o.W.Update[col]; ok {
				return true
			}
		}
	}
	return false
}

func isParam(e *sqlp.Expr) bool { return e != nil && e.Kind == sqlp.EParam }

// exprEqual compares two SQL expressions structurally.
func exprEqual(a, b *sqlp.Expr) bool {
	if a == nil || b == nil {
		return a == b
	}
	return a.String() == b.String()
}

// ---------------------------------------------------------------- R-TOMB (SQL side)

func (m *Model) ruleTOMB(r *Results) {
	const rule = "R-TOMB"
	m.sitesHealthy(r, rule)
	all := m.docWrites()
	for _, dw := range all {
		key := dw.Site.key(m, dw.Variant)
		pos := m.instrPos(dw.Site.Call)
		// INSERT part
		if dw.W.Insert != nil {
			val, hasV := dw.W.Insert["value"]
			tomb, hasT := dw.W.Insert["tombstone"]
			k := key + " / insert-row"
			switch {
			case hasV && !hasT:
				if isNullLit(val) {
					r.bad(rule, k, pos, "INSERT stores a NULL body but relies on the default tombstone=0")
				} else if isParam(val) {
					ok, what := m.boundNonNil(dw, val)
					r.check(ok, rule, k, pos, "new row gets a body that is never nil ("+what+") and the column default tombstone=0", "the INSERT binds the body from Go ("+what+") and relies on the default tombstone=0: a nil body is stored as NULL with the flag saying 'live' - reads report the key missing while inserts, feeds and GetWithXattrs treat it as a live document; derive the flag from the bound body (tombstone = (?N IS NULL))")
				} else {
					r.ok(rule, k, pos, "new row gets a computed body and the column default tombstone=0")
				}
			case hasV && hasT:
				m.checkTombPair(r, rule, k, pos, dw, val, tomb)
			case !hasV && hasT:
				r.bad(rule, k, pos, "INSERT assigns tombstone without value")
			default:
				r.bad(rule, k, pos, "INSERT into documents assigns neither value nor tombstone")
			}
		}
		if dw.W.Update != nil {
			val, hasV := dw.W.Update["value"]
			tomb, hasT := dw.W.Update["tombstone"]
			k := key + " / update-row"
			switch {
			case hasV && hasT:
				m.checkTombPair(r, rule, k, pos, dw, val, tomb)
			case hasV && !hasT:
				if m.assignedElsewhere(dw, "tombstone", all) {
					r.ok(rule, k, pos, "tombstone assigned by a sibling statement of the same function")
				} else {
					r.bad(rule, k, pos, "statement assigns value but not the tombstone flag: the two encodings of 'deleted' can disagree afterwards")
				}
			case !hasV && hasT:
				if m.assignedElsewhere(dw, "value", all) {
					r.ok(rule, k, pos, "value assigned by a sibling statement of the same function")
				} else {
					r.bad(rule, k, pos, "statement assigns the tombstone flag but not value")
				}
			default:
				r.ok(rule, k, pos, "statement assigns neither value nor tombstone (flag untouched)")
			}
		}
	}
	m.tombFlagFromCallers(r, rule)
	// Per transaction closure: a closure that reads the row's body into an event (NULL for a
	// tombstone) and hands that event to the function that stores body and flag from it also
	// decides the event's deletion field - by reading the flag column, or by assigning it. A field
	// that is never written says "live" for a row without a body.
	if ftab, _ := m.eventFieldTable(); ftab != nil && ftab["value"] != nil && ftab["tombstone"] != nil {
		// the functions that store an event's body and flag
		storers := map[*ssa.Function]bool{}
		for _, dw := range m.docWrites() {
			if dw.W.Update == nil && dw.W.Insert == nil {
				continue
			}
			f := rootOf(dw.Site.Fn)
			for _, p := range f.Params {
				if pt, ok := p.Type().(*types.Pointer); ok && m.A.EventType != nil && pt.Elem() == types.Type(m.A.EventType) {
					storers[f] = true
				}
			}
		}
		seenK := map[*ssa.Function]bool{}
		for _, tc := range m.txnClosures() {
			K := tc.Fn
			if seenK[K] || len(K.Blocks) == 0 {
				continue
			}
			seenK[K] = true
			callsStorer := false
			m.eachCall(K, func(c ssa.CallInstruction) {
				if storers[c.Common().StaticCallee()] {
					callsStorer = true
				}
			})
			if !callsStorer {
				continue
			}
			readsBody, decidesFlag := false, false
			for _, b := range K.Blocks {
				for _, ins := range b.Instrs {
					fa, ok := ins.(*ssa.FieldAddr)
					if !ok || fa.Referrers() == nil {
						continue
					}
					f := fieldOf(fa)
					for _, u := range *fa.Referrers() {
						switch x := u.(type) {
						case *ssa.Store:
							if x.Addr == ssa.Value(fa) && f == ftab["tombstone"] {
								decidesFlag = true
							}
						case *ssa.MakeInterface, ssa.CallInstruction:
							// handed to a scan as a destination
							if f == ftab["value"] {
								readsBody = true
							}
							if f == ftab["tombstone"] {
								decidesFlag = true
							}
						}
					}
				}
			}
			if !readsBody {
				continue
			}
			r.check(decidesFlag, rule, m.declName(K)+" / an event whose body is read from the row has its deletion field decided", m.pos(K.Pos()), "the closure reads or assigns the event's deletion field", "the closure reads the row's body into the event (NULL for a tombstone) and hands the event to the function that stores body and flag from it, but never reads or assigns the event's deletion field: applied to a tombstone it leaves a row without a body that is flagged live - feeds report a mutation, inserts refuse the key, reads say it is missing")
		}
	}
	r.floor(rule, 9)
}

// tombFlagFromCallers: a writer that builds its event from parameters (the with-meta writer:
// body and deletion flag are both handed in) relies on its callers to keep the two in step. For
// every call of it: a constant flag "not a deletion" needs a body that is never nil, a constant
// flag "deletion" needs a nil body; a computed flag must be the nil-test of the body passed.
func (m *Model) tombFlagFromCallers(r *Results, rule string) {
	w := m.A.WithMetaFn
	ftab, _ := m.eventFieldTable()
	if w == nil || ftab == nil || ftab["value"] == nil || ftab["tombstone"] == nil {
		return
	}
	// which parameters reach the event's body and flag fields
	bodyIdx, flagIdx := -1, -1
	te0 := m.newTermEval()
	for _, K := range w.AnonFuncs {
		fields, has, _ := m.eventAtReturns(te0, K)
		if !has {
			continue
		}
		for i, p := range w.Params {
			pname := m.declName(w) + "." + p.Name()
			if t := fields[ftab["value"]]; t != nil && t.Kind == "param" && t.Name == pname {
				bodyIdx = i
			}
			if t := fields[ftab["tombstone"]]; t != nil && t.Kind == "param" && t.Name == pname {
				flagIdx = i
			}
		}
	}
	if bodyIdx < 0 || flagIdx < 0 {
		return // the writer derives the flag itself
	}
	for _, cl := range m.staticCallersOf(w) {
		args := cl.Common().Args
		if bodyIdx >= len(args) || flagIdx >= len(args) {
			continue
		}
		caller := cl.Parent()
		te := m.newTermEval()
		body := te.term(args[bodyIdx], cl, m.closureFrame(caller))
		flag := te.term(args[flagIdx], cl, m.closureFrame(caller))
		ok := true
		why := ""
		for _, fa := range flag.alts() {
			switch {
			case isZeroTerm(fa): // "not a deletion"
				for _, ba := range body.alts() {
					if !termNonNil(ba) {
						ok, why = false, "the flag says 'not a deletion' but the body passed ("+body.String()+") may be nil"
					}
				}
			case fa.Kind == "const" && fa.Name == "true":
				for _, ba := range body.alts() {
					if !isZeroTerm(ba) {
						ok, why = false, "the flag says 'deletion' but a body ("+body.String()+") is passed"
					}
				}
			case fa.Kind == "binop" && fa.Name == "==" && len(fa.Args) == 2 && isZeroTerm(fa.Args[1]) && termsEqual(fa.Args[0], body):
			default:
				ok, why = false, "the flag ("+flag.String()+") is not derived from the body passed"
			}
		}
		r.check(ok, rule, m.declName(caller)+" / body and deletion flag handed to "+m.declName(w)+" agree", m.instrPos(cl), "flag "+flag.String()+" with body "+body.String(), why+": the row is stored with a body-less 'live' flag (or a tombstone flag with a body), and the observers of C05 disagree about it")
	}
}

func (m *Model) checkTombPair(r *Results, rule, k, pos string, dw *docWrite, val, tomb *sqlp.Expr) {
	tn, tIsLit := litInt(tomb)
	switch {
	case isNullLit(val) && tIsLit:
		r.check(tn == 1, rule, k, pos, "value=NULL together with tombstone=1", "value=NULL together with tombstone=0")
	case isNullLit(val):
		r.bad(rule, k, pos, "value=NULL but tombstone is %s", tomb)
	case isParam(val) && tIsLit:
		if tn != 0 {
			r.bad(rule, k, pos, "statement stores a body but sets tombstone=1")
			break
		}
		ok, what := m.boundNonNil(dw, val)
		r.check(ok, rule, k, pos, "bound body that is never nil ("+what+") together with tombstone=0", "the statement binds the body from Go ("+what+") and sets tombstone=0 whatever it is: a nil body is stored as NULL with the flag saying 'live' - reads report the key missing while inserts, feeds and GetWithXattrs treat it as a live document; derive the flag from the bound body (tombstone = (?N IS NULL))")
	case isParam(val) && isParam(tomb):
		// both bound: the Go side must derive the flag from the same event (checked by R-EVT-PAIR/R-TOMB-GO)
		ok, why := m.tombParamFromDeletionFlag(dw, val, tomb)
		r.check(ok, rule, k, pos, "body and flag both bound; "+why, "body and flag both bound but "+why)
	default:
		// SQL expression: accept tombstone = (<value expr> IS NULL)
		if tomb.Kind == sqlp.EIsNull && !tomb.Not && exprEqual(tomb.Args[0], val) {
			r.ok(rule, k, pos, "tombstone computed in SQL as (<the value written> IS NULL)")
		} else if f := tomb; f.Kind == sqlp.EFunc && strings.EqualFold(f.Name, "iif") && len(f.Args) == 3 && f.Args[0].Kind == sqlp.EIsNull && !f.Args[0].Not && exprEqual(f.Args[0].Args[0], val) && isLitN(f.Args[1], 1) && isLitN(f.Args[2], 0) {
			r.ok(rule, k, pos, "tombstone computed in SQL as iif(<the value written> IS NULL, 1, 0)")
		} else {
			r.bad(rule, k, pos, "cannot see that tombstone (%s) agrees with value (%s)", tomb, val)
		}
	}
}

// boundNonNil: the Go value bound to the body parameter is never nil (every alternative of its
// term is a string conversion, a formatter result or a constant).
func (m *Model) boundNonNil(dw *docWrite, val *sqlp.Expr) (bool, string) {
	site := dw.siteFor("value")
	b, ok := site.bindingFor(val)
	if !ok || b.V == nil {
		return false, "unbound parameter"
	}
	t := m.newTermEval().term(b.V, site.Call, m.closureFrame(site.Fn))
	for _, alt := range t.alts() {
		if !termNonNil(alt) {
			return false, "may be nil: " + t.String()
		}
	}
	return true, t.String()
}

func isLitN(e *sqlp.Expr, n int) bool { v, ok := litInt(e); return ok && v == n }

// tombParamFromDeletionFlag: in the upsert primitive both value and tombstone are bound;
// require value to be a field of the event parameter and tombstone to be a 0/1 selected by
// a branch on a bool field of the same event.
func (m *Model) tombParamFromDeletionFlag(dw *docWrite, val, tomb *sqlp.Expr) (bool, string) {
	bv, ok1 := dw.Site.bindingFor(val)
	bt, ok2 := dw.Site.bindingFor(tomb)
	if !ok1 || !ok2 {
		return false, "a parameter is unbound"
	}
	rv, _ := m.resolve(bv.V, bv.Fr)
	base, _, ok := fieldLoad(rv)
	if !ok {
		return false, "the body is not a field of an event object"
	}
	rt := stripConv(bt.V)
	phi, ok := rt.(*ssa.Phi)
	if !ok {
		// maybe a direct bool field
		if b2, f, ok := fieldLoad(rt); ok && types.Identical(f.Type(), types.Typ[types.Bool]) && sameValue(b2, base) {
			return true, "flag is the event's own bool field"
		}
		// a helper / ternary call fed by the event's deletion field
		if call, ok := rt.(*ssa.Call); ok {
			ftab, _ := m.eventFieldTable()
			if flag := ftab["tombstone"]; flag != nil {
				fromSame := false
				for _, a := range call.Common().Args {
					if b2, f, ok := fieldLoad(a); ok && f == flag && sameValue(b2, base) {
						fromSame = true
					}
					// (a method of the event itself: `e.tombstoneFlag()`)
					if sameValue(stripConv(a), stripConv(base)) {
						fromSame = true
					}
				}
				if cv, ok := m.constSelectedOnTrue(rt, flag, 0); ok && fromSame {
					if n, exact := constant.Int64Val(constant.ToInt(cv)); exact && n == 1 {
						return true, "flag is 1 exactly when the event's " + flag.Name() + " field is set (same event object as the body)"
					}
					return false, "flag is not 1 when the event's " + flag.Name() + " field is set"
				}
			}
		}
		return false, "the flag is not selected by a branch on the event's deletion field"
	}
	// find the controlling If of the phi's block
	blk := phi.Block()
	for _, pred := range blk.Preds {
		for p := pred; p != nil; p = p.Idom() {
			if len(p.Instrs) == 0 {
				continue
			}
			if iff, ok := p.Instrs[len(p.Instrs)-1].(*ssa.If); ok {
				if b2, f, ok := fieldLoad(iff.Cond); ok && types.Identical(f.Type(), types.Typ[types.Bool]) && sameValue(b2, base) {
					// the edge for "true" must carry 1
					for i, e := range phi.Edges {
						c, ok := e.(*ssa.Const)
						if !ok {
							return false, "flag alternatives are not constants"
						}
						_ = i
						_ = c
					}
					one := m.phiConstOnTrueSide(phi, iff)
					if one == 1 {
						return true, "flag is 1 exactly when the event's " + f.Name() + " field is set (same event object as the body)"
					}
					return false, "flag is not 1 on the branch where the event's " + f.Name() + " field is set"
				}
				break
			}
		}
	}
	return false, "no branch on the event's deletion field controls the flag"
}

func sameValue(a, b ssa.Value) bool { return stripConv(a) == stripConv(b) }

// phiConstOnTrueSide returns the integer constant the phi takes when control reaches it
// through the If's true successor (-1 if it cannot tell).
func (m *Model) phiConstOnTrueSide(phi *ssa.Phi, iff *ssa.If) int {
	tsucc := iff.Block().Succs[0]
	for i, pred := range phi.Block().Preds {
		// pred is on the true side if tsucc dominates pred or is pred, and the false succ does not
		if pred == tsucc || tsucc.Dominates(pred) {
			if c, ok := phi.Edges[i].(*ssa.Const); ok && c.Value != nil {
				return int(c.Int64())
			}
		}
	}
	// the true successor may be the phi block itself's predecessor chain; handle "if cond {x=1}" shape
	for i, pred := range phi.Block().Preds {
		if pred == iff.Block() && phi.Block() == tsucc {
			if c, ok := phi.Edges[i].(*ssa.Const); ok {
				return int(c.Int64())
			}
		}
	}
	return -1
}

// ---------------------------------------------------------------- R-ROWCOMPLETE

func (m *Model) ruleROWCOMPLETE(r *Results) {
	const rule = "R-ROWCOMPLETE"
	m.sitesHealthy(r, rule)
	all := m.docWrites()
	need := func(dw *docWrite, set map[string]*sqlp.Expr, cols ...string) []string {
		var missing []string
		for _, c := range cols {
			if _, ok := set[c]; !ok && !m.assignedElsewhere(dw, c, all) {
				missing = append(missing, c)
			}
		}
		return missing
	}
	for _, dw := range all {
		key := dw.Site.key(m, dw.Variant)
		pos := m.instrPos(dw.Site.Call)
		if dw.W.Insert != nil {
			k := key + " / insert-row"
			miss := need(dw, dw.W.Insert, "collection", "key", "value", "cas", "exp", "isjson", "revseqno")
			r.check(len(miss) == 0, rule, k, pos, "new row gets key, body, cas, exp, isJSON, revSeqNo", fmt.Sprintf("INSERT into documents leaves %v to column defaults", miss))
		}
		if dw.W.Update != nil {
			set := dw.W.Update
			k := key + " / update-row"
			val, hasV := set["value"]
			_, hasX := set["xattrs"]
			_, hasE := set["exp"]
			switch {
			case hasV && isNullLit(val):
				miss := need(dw, set, "cas", "exp", "isjson", "revseqno", "xattrs")
				if len(miss) > 0 {
					r.bad(rule, k, pos, "tombstoning statement does not assign %v", miss)
					break
				}
				e := set["exp"]
				n, isLit := litInt(e)
				r.check(isLit && n == 0 || isParam(e), rule, k, pos, "tombstoning statement rewrites cas, exp, isJSON, revSeqNo, xattrs", fmt.Sprintf("tombstoning statement sets exp to %s (want 0 or a bound value)", e))
			case hasV:
				miss := need(dw, set, "cas", "exp", "isjson", "revseqno")
				r.check(len(miss) == 0, rule, k, pos, "body-assigning statement also assigns cas, exp, isJSON, revSeqNo", fmt.Sprintf("body-assigning statement does not assign %v: the row keeps the previous version's value there", miss))
			case hasX:
				miss := need(dw, set, "cas", "revseqno")
				r.check(len(miss) == 0, rule, k, pos, "xattr-only statement assigns cas and revSeqNo", fmt.Sprintf("xattr-only statement does not assign %v", miss))
			case hasE:
				// bare touch: the one named exception to "assigns cas"
				miss := need(dw, set, "revseqno")
				_, hasCas := set["cas"]
				r.check(len(miss) == 0 && !hasCas || len(miss) == 0, rule, k, pos, "touch statement assigns exp and revSeqNo (named exception: keeps cas)", fmt.Sprintf("touch statement does not assign %v", miss))
			default:
				cols := sortedKeys(set)
				r.bad(rule, k, pos, "statement updates documents columns %v without touching value, xattrs or exp: not one of the known write-unit kinds", cols)
			}
		}
	}
	r.floor(rule, 9)
}

// ---------------------------------------------------------------- R-INSERT-GUARD (SQL side) and R-PURGE

// upsertPrimitive: a documents INSERT..ON CONFLICT in a function that receives the event
// object as a parameter (storeDocument).
func (m *Model) isUpsertPrimitive(s *SQLSite) bool {
	if m.A.EventType == nil || s.Fn.Parent() != nil {
		return false
	}
	for _, p := range s.Fn.Params {
		if pt, ok := p.Type().(*types.Pointer); ok && pt.Elem() == m.A.EventType {
			return true
		}
	}
	return false
}

func (m *Model) ruleINSERTGUARD(r *Results) {
	const rule = "R-INSERT-GUARD"
	m.sitesHealthy(r, rule)
	for _, dw := range m.docWrites() {
		if dw.Stmt.Kind != sqlp.SInsert || !dw.W.HasUpsert {
			continue
		}
		key := dw.Site.key(m, dw.Variant)
		pos := m.instrPos(dw.Site.Call)
		if m.isUpsertPrimitive(dw.Site) {
			// the primitive overwrites unconditionally; its WHERE may only restate the conflict key
			okKeyOnly := true
			for _, c := range dw.W.Where {
				if colEqParam(c, "collection") == nil && colEqParam(c, "key") == nil {
					okKeyOnly = false
				}
			}
			r.check(okKeyOnly, rule, key+" / upsert primitive", pos, "upsert primitive: existence is decided in Go by its callers (see R-FLAGS, R-CAS)", "upsert primitive carries a conflict condition other than the row key")
			continue
		}
		guard := false
		for _, c := range dw.W.Where {
			if noBodyTest(c) {
				guard = true
			}
		}
		// ... and by nothing else: a further condition (on the CAS order, on the expiry) makes the
		// insert refuse a key that has no body
		extra := ""
		for _, c := range dw.W.Where {
			if noBodyTest(c) || colEqParam(c, "collection") != nil || colEqParam(c, "key") != nil || colEqParam(c, "cas") != nil {
				continue
			}
			extra = c.String()
		}
		r.check(extra == "", rule, key+" / conflict-guard is only the no-body test", pos, "the conflict update is restricted by the no-body test (and the row's address / expected CAS) only", "the ON CONFLICT update carries the further condition "+extra+": a key whose row has no body (a tombstone) can then be refused by an insert although nothing live is in the way")
		r.check(guard, rule, key+" / conflict-guard", pos, "ON CONFLICT update applies only to rows without a body", fmt.Sprintf("ON CONFLICT DO UPDATE is not restricted (as a top-level AND-conjunct) to rows without a body: conflict WHERE = %s", exprString(dw.Stmt.Conflict.Where)))
		// conditional statement => RowsAffected consulted
		r.check(m.rowsAffectedConsulted(dw.Site), rule, key+" / RowsAffected", pos, "the statement's RowsAffected is consulted", "conditional INSERT whose RowsAffected is never consulted: a refused insert is indistinguishable from a successful one")
	}
	// conditional UPDATEs (cas = ? conjunct) must also consult RowsAffected
	for _, dw := range m.docWrites() {
		if dw.Stmt.Kind != sqlp.SUpdate {
			continue
		}
		cond := false
		what := "CAS-conditional"
		for _, c := range dw.W.Where {
			if colEqParam(c, "cas") != nil {
				cond = true
				continue
			}
			// any conjunct beyond the row's address (collection, key) can leave an existing row
			// unmatched: the statement then changes nothing although the closure goes on to report
			// (and post an event for) the write
			if colEqParam(c, "collection") == nil && colEqParam(c, "key") == nil {
				cond = true
				what = "conditional (" + c.String() + ")"
			}
		}
		if cond {
			r.check(m.rowsAffectedConsulted(dw.Site), rule, dw.Site.key(m, dw.Variant)+" / RowsAffected", m.instrPos(dw.Site.Call), "the statement's RowsAffected is consulted", what+" UPDATE whose RowsAffected is never consulted: when the condition does not hold nothing is written, yet the operation reports success and posts an event (new CAS, next revision number) for a change the row never saw")
		}
	}
	// a CAS-guarded statement that matched no row makes the operation FAIL: from the edge on which
	// RowsAffected was found zero only returns whose error is non-nil on every path are reachable
	// (reporting the version that is there "because the body is the same anyway" accepts a stale CAS)
	done := map[ssa.CallInstruction]bool{}
	for _, dw := range m.docWrites() {
		casGuard := false
		for _, c := range dw.W.Where {
			if colEqParam(c, "cas") != nil {
				casGuard = true
			}
		}
		if !casGuard || done[dw.Site.Call] || dw.Site.Helper != nil {
			continue
		}
		done[dw.Site.Call] = true
		fn := dw.Site.Call.Parent()
		for _, iff := range m.zeroRowsTests(dw.Site) {
			cd := condOf(iff)
			eq, ok := cd.equalEdge()
			if !ok && cd.Op == token.LSS {
				eq, ok = cd.succWhen(true), true
			}
			if !ok || iff.Block().Parent() != fn {
				continue
			}
			bad := ""
			reach := reachableFrom(eq, newCut())
			for _, ret := range returnsOf(fn) {
				if !reach[ret.Block().Index] || len(ret.Results) == 0 {
					continue
				}
				ev := ret.Results[len(ret.Results)-1]
				if isErrorType(ev.Type()) && !m.errNonNil(ev, ret.Block(), 0) {
					bad = m.instrPos(ret)
				}
			}
			pos := m.instrPos(iff)
			if bad != "" {
				pos = bad
			}
			// ... and the failure is a CAS mismatch, which is what the retry loops look for; another
			// error (key exists) is made only where the insert-only option bit was found set
			if addOnly := m.sgConst("AddOnly"); addOnly != nil {
				cf := newCut()
				kfr := m.closureFrame(fn)
				for _, d := range m.decisions(fn, kfr) {
					c2 := d.C
					if _, ok2 := c2.equalEdge(); !ok2 || c2.Y == nil {
						continue
					}
					x, y := c2.X, c2.Y
					if isZeroConst(x) {
						x, y = y, x
					}
					if !isZeroConst(y) {
						continue
					}
					rx, _ := m.resolve(x, kfr)
					if bo, ok := stripConv(rx).(*ssa.BinOp); ok && bo.Op == token.AND {
						if cst, ok := bo.Y.(*ssa.Const); ok && cst.Value != nil && constant.Compare(cst.Value, token.EQL, addOnly) {
							d.cutNotEqual(cf) // the edge on which the bit is set
						}
					}
				}
				reachNoFlag := reachableFrom(eq, cf)
				badS := ""
				for _, b2 := range fn.Blocks {
					if !reachNoFlag[b2.Index] {
						continue
					}
					for _, in2 := range b2.Instrs {
						if ld, ok := in2.(*ssa.UnOp); ok && ld.Op == token.MUL && isErrorType(ld.Type()) {
							if g, isG := ld.X.(*ssa.Global); isG && g.Pkg != nil && g.Pkg.Pkg.Path() == sgbucketPath {
								badS = g.Name() + " at " + m.instrPos(ld)
							}
						}
					}
				}
				r.check(badS == "", rule, m.declName(fn)+" / a refused CAS write is reported as a CAS mismatch", m.instrPos(iff), "behind the zero-rows edge a sentinel error other than the CAS mismatch is made only where the insert-only bit is set", "behind the zero-rows edge the error "+badS+" can be produced although the insert-only option is not set: read-modify-write loops (Update, sub-document writes) retry on a CAS mismatch only, so a lost race surfaces to their callers as this error and the update is dropped")
			}
			r.check(bad == "", rule, m.declName(fn)+" / CAS-guarded statement that matched no row fails", pos, "every return behind the zero-rows edge reports an error", "when the CAS-guarded statement matched no row (the CAS was stale) a return is reachable that reports no error: the caller is told its write is in, although it was computed from a version that is no longer current and nothing was stored")
		}
	}
	// the KV Add entry points reach only guarded inserts
	for _, name := range []string{"Add", "AddRaw"} {
		ep := m.lookupMethod(m.A.CollectionType.Obj().Name(), name)
		if ep == nil {
			r.undecided(rule, "entry point "+name, "-", "KVStore.%s not found on the collection type", name)
			continue
		}
		reach := m.reachableLocal(ep)
		n := 0
		for _, dw := range m.docWrites() {
			if !reach[dw.Site.Fn] {
				continue
			}
			n++
			guarded := dw.Stmt.Kind == sqlp.SInsert && !m.isUpsertPrimitive(dw.Site)
			if dw.W.HasUpsert {
				g := false
				for _, c := range dw.W.Where {
					if noBodyTest(c) {
						g = true
					}
				}
				guarded = guarded && g
			}
			r.check(guarded, rule, name+" reaches "+dw.Site.key(m, dw.Variant), m.instrPos(dw.Site.Call), "insert-only entry point writes through a guarded INSERT", "insert-only entry point can reach a statement that overwrites an existing body")
		}
		if n == 0 {
			r.undecided(rule, "entry point "+name+" reaches no documents write", m.pos(ep.Pos()), "cannot find the statement %s executes", name)
		}
	}
	r.floor(rule, 6)
}

func exprString(e *sqlp.Expr) string {
	if e == nil {
		return "<none>"
	}
	return e.String()
}

// rowsAffectedConsulted: the sql.Result of the Exec has RowsAffected called on it.
func (m *Model) rowsAffectedConsulted(s *SQLSite) bool {
	call, ok := s.Call.(*ssa.Call)
	if !ok {
		return false
	}
	found := false
	var visit func(v ssa.Value, depth int)
	visit = func(v ssa.Value, depth int) {
		if depth > 4 || v.Referrers() == nil {
			return
		}
		for _, ref := range *v.Referrers() {
			switch x := ref.(type) {
			case *ssa.Extract:
				visit(x, depth+1)
			case *ssa.Call:
				if x.Common().IsInvoke() && x.Common().Value == v && x.Common().Method.Name() == "RowsAffected" {
					found = true
				}
			case *ssa.Phi:
				visit(x, depth+1)
			case *ssa.MakeInterface:
				visit(x, depth+1)
			}
		}
	}
	visit(call, 0)
	return found
}

// reachableLocal: functions reachable from fn through static calls within the package and
// syntactic closure nesting, without entering the transaction runner (whose callback edges
// would connect every closure with every other).
func (m *Model) reachableLocal(fn *ssa.Function) map[*ssa.Function]bool {
	seen := map[*ssa.Function]bool{}
	var visit func(f *ssa.Function)
	visit = func(f *ssa.Function) {
		if f == nil || seen[f] || !m.inPkg(f) {
			return
		}
		seen[f] = true
		for _, an := range f.AnonFuncs {
			visit(an)
		}
		if f == m.A.TxnRunner {
			return
		}
		m.eachCall(f, func(c ssa.CallInstruction) {
			visit(c.Common().StaticCallee())
		})
		// a bound method value (x.m) created here runs on behalf of this function
		for _, b := range f.Blocks {
			for _, ins := range b.Instrs {
				if mc, ok := ins.(*ssa.MakeClosure); ok {
					if w, ok := mc.Fn.(*ssa.Function); ok && strings.HasSuffix(w.Name(), "$bound") {
						for _, t := range m.funcTargets(mc) {
							visit(t)
						}
					}
				}
			}
		}
	}
	visit(fn)
	return seen
}

func (m *Model) rulePURGE(r *Results) {
	const rule = "R-PURGE"
	m.sitesHealthy(r, rule)
	n := 0
	m.eachStmt(false, func(s *SQLSite, v *Variant, st *sqlp.Stmt) {
		if st.Kind != sqlp.SDelete || lower(st.Table) != "documents" {
			return
		}
		n++
		conj := sqlp.Conjuncts(st.Where)
		key := s.key(m, v)
		pos := m.instrPos(s.Call)
		// any DELETE FROM documents must be either the purge (exactly a no-body test) or carry one
		r.check(len(conj) == 1 && noBodyTest(conj[0]), rule, key, pos, "removes exactly the rows without a body", fmt.Sprintf("DELETE FROM documents whose predicate is not exactly a no-body test: WHERE %s", exprString(st.Where)))
	})
	if n == 0 {
		r.undecided(rule, "purge statement", "-", "no DELETE FROM documents found")
	}
}

// ---------------------------------------------------------------- R-XATTR-CARRY (SQL side)

func (m *Model) ruleXATTRCARRY(r *Results) {
	const rule = "R-XATTR-CARRY"
	m.sitesHealthy(r, rule)
	all := m.docWrites()
	for _, dw := range all {
		if dw.W.Update == nil {
			continue
		}
		val, hasV := dw.W.Update["value"]
		if !hasV || isNullLit(val) {
			continue // tombstoning / xattr-only units are covered by R-ROWCOMPLETE
		}
		key := dw.Site.key(m, dw.Variant) + " / xattrs"
		pos := m.instrPos(dw.Site.Call)
		x, hasX := dw.W.Update["xattrs"]
		guardNoBody := false
		for _, c := range dw.W.Where {
			if noBodyTest(c) {
				guardNoBody = true
			}
		}
		switch {
		case !hasX:
			// leaving xattrs alone is only right if the row cannot be a tombstone
			hasBody := false
			for _, c := range dw.W.Where {
				if hasBodyTest(c) {
					hasBody = true
				}
			}
			r.check(hasBody, rule, key, pos, "xattrs untouched and the statement applies to live rows only", "body-assigning statement leaves xattrs as they are although the row may be a tombstone: a resurrected document would inherit the tombstone's xattrs")
		case isNullLit(x):
			r.check(guardNoBody, rule, key, pos, "xattrs cleared under a guard admitting only rows without a body", "body-assigning statement clears xattrs of rows that may be live")
		case isCol(x, "xattrs"):
			r.ok(rule, key, pos, "xattrs = xattrs")
		case x.Kind == sqlp.EFunc && strings.EqualFold(x.Name, "iif") && len(x.Args) == 3:
			r.check(noBodyTest(x.Args[0]) && isNullLit(x.Args[1]) && isCol(x.Args[2], "xattrs"), rule, key, pos, "xattrs = iif(<row was a tombstone>, NULL, xattrs)", fmt.Sprintf("xattrs computed as %s: want iif(<test on the OLD row's tombstone/body>, NULL, xattrs)", x))
		case isParam(x):
			m.xattrCarryGo(r, rule, key, pos, dw, x)
		default:
			r.bad(rule, key, pos, "unrecognised xattrs expression %s in a body-assigning statement", x)
		}
	}
	r.floor(rule, 5)
}

// staticCallersOf lists the call instructions that statically call fn.
func (m *Model) staticCallersOf(fn *ssa.Function) []ssa.CallInstruction {
	var out []ssa.CallInstruction
	for _, g := range m.Funcs {
		m.eachCall(g, func(c ssa.CallInstruction) {
			if c.Common().StaticCallee() == fn {
				out = append(out, c)
			}
		})
	}
	return out
}

// xattrCarryGo: a body-assigning statement binds xattrs from Go. If the bound value can be the
// row's xattrs exactly as read, that must only be possible on paths where the row is known to
// have had a body: a tombstone's xattrs must not be carried into the resurrected document.
func (m *Model) xattrCarryGo(r *Results, rule, key, pos string, dw *docWrite, x *sqlp.Expr) {
	site := dw.siteFor("xattrs")
	b, ok := site.bindingFor(x)
	if !ok || b.V == nil {
		r.ok(rule, key, pos, "xattrs bound from Go")
		return
	}
	F := site.Fn
	e := m.newTermEval()
	t := e.term(b.V, site.Call, m.closureFrame(F))
	raw := false
	for _, alt := range t.alts() {
		if isScanOf(alt, "xattrs", false) {
			raw = true
		}
	}
	if !raw {
		r.ok(rule, key, pos, "xattrs bound from Go are computed (%s), not the row's xattrs as read", t)
		return
	}
	ld, ok := stripConv(b.V).(*ssa.UnOp)
	if !ok || ld.Op != token.MUL {
		r.ok(rule, key, pos, "xattrs bound from Go (carried value not held in a variable the checker follows)")
		return
	}
	cell := ld.X
	// the scan that fills the cell, and the sibling destination that says whether the row had a body
	var sc *scanCall
	var flag ssa.Value
	flagLiveWhenTrue := true
	for _, c := range m.scanCalls() {
		if c.Fn != F || c.Site == nil {
			continue
		}
		for i, d := range c.Dests {
			if d != cell {
				continue
			}
			for _, v := range c.Site.Variants {
				st := v.Stmt()
				if st == nil || st.Select == nil || i >= len(st.Select.Cols) || !isCol(st.Select.Cols[i].Expr, "xattrs") {
					continue
				}
				sc = c
				for j, col := range st.Select.Cols {
					if j >= len(c.Dests) {
						continue
					}
					switch {
					case hasBodyTest(col.Expr):
						flag, flagLiveWhenTrue = c.Dests[j], true
					case noBodyTest(col.Expr) || isCol(col.Expr, "tombstone"):
						flag, flagLiveWhenTrue = c.Dests[j], false
					}
				}
			}
		}
	}
	if sc == nil {
		r.ok(rule, key, pos, "xattrs bound from Go (read elsewhere)")
		return
	}
	if flag == nil {
		r.undecided(rule, key, pos, "the statement may carry the row's xattrs as read, and the read does not say whether the row had a body")
		return
	}
	c := newCut()
	for _, blk := range F.Blocks {
		for i, ins := range blk.Instrs {
			st, ok := ins.(*ssa.Store)
			if !ok || st.Addr != cell {
				continue
			}
			if blk == ld.Block() && indexIn(blk, ld) < i {
				continue
			}
			if blk == sc.Call.Block() && i < indexIn(blk, sc.Call) {
				continue
			}
			c.cutBlock(blk)
		}
	}
	isFlagLoad := func(v ssa.Value) bool {
		l2, ok := stripConv(v).(*ssa.UnOp)
		return ok && l2.Op == token.MUL && l2.X == flag
	}
	for _, iff := range allIfs(F) {
		cd := condOf(iff)
		switch {
		case cd.Op == token.ILLEGAL && cd.X != nil && isFlagLoad(cd.X):
			// bare boolean flag: cut the edge on which the row is live
			c.cutEdge(iff.Block(), cd.succWhen(flagLiveWhenTrue))
		case cd.Y != nil && isFlagLoad(cd.X) && isZeroConst(cd.Y) || cd.Y != nil && isFlagLoad(cd.Y) && isZeroConst(cd.X):
			// integer flag compared with 0: flag == 0 means "false"
			if eq, ok := cd.equalEdge(); ok {
				if flagLiveWhenTrue {
					for _, sck := range iff.Block().Succs {
						if sck != eq {
							c.cutEdge(iff.Block(), sck)
						}
					}
				} else {
					c.cutEdge(iff.Block(), eq)
				}
			}
		}
	}
	// the value read matters only when a row was read: leave the scan through its success edge
	if blk := sc.Call.Block(); len(blk.Instrs) > 0 {
		if iff, ok := blk.Instrs[len(blk.Instrs)-1].(*ssa.If); ok {
			cd := condOf(iff)
			if eq, ok := cd.equalEdge(); ok && (isNilConst(cd.X) || isNilConst(cd.Y)) {
				other := cd.X
				if isNilConst(cd.X) {
					other = cd.Y
				}
				if types.Identical(other.Type(), types.Universe.Lookup("error").Type()) {
					for _, sck := range blk.Succs {
						if sck != eq {
							c.cutEdge(blk, sck)
						}
					}
					// later tests of the same error (`exists := err == nil` ... `if !exists`) say the
					// same thing as long as the error variable has not been assigned again
					sameErr := func(v ssa.Value) bool {
						v, o := stripConv(v), stripConv(other)
						if v == o {
							return true
						}
						l1, ok1 := v.(*ssa.UnOp)
						l2, ok2 := o.(*ssa.UnOp)
						if !ok1 || !ok2 || l1.Op != token.MUL || l2.Op != token.MUL || l1.X != l2.X {
							return false
						}
						al, ok := l1.X.(*ssa.Alloc)
						if !ok {
							return false
						}
						for _, st := range cellStores(al) {
							if forwardReachable(sc.Call, st) && forwardReachable(st, l1) && st.Block() != sc.Call.Block() {
								return false
							}
						}
						return true
					}
					for _, iff2 := range allIfs(F) {
						if iff2 == iff {
							continue
						}
						cd2 := condOf(iff2)
						eq2, ok := cd2.equalEdge()
						if !ok {
							continue
						}
						if isNilConst(cd2.Y) && sameErr(cd2.X) || isNilConst(cd2.X) && sameErr(cd2.Y) {
							for _, sck := range iff2.Block().Succs {
								if sck != eq2 {
									c.cutEdge(iff2.Block(), sck)
								}
							}
						}
					}
				}
			}
		}
	}
	reach := sc.Call.Block() == ld.Block() || !c.blocks[ld.Block().Index] && reachableFromSuccs(sc.Call.Block(), c)[ld.Block().Index]
	r.check(!reach, rule, key, pos, "the row's xattrs as read reach the statement only on paths where the row is known to have had a body (otherwise they are replaced)", "the row's xattrs, as read, can be written back together with the new body on a path that has not established that the row had a body: a document re-created over a tombstone inherits the tombstone's xattrs")
}

// zeroRowsTests: the branch instructions that compare the RowsAffected of site s with 0 (or < 1).
func (m *Model) zeroRowsTests(s *SQLSite) []*ssa.If {
	call, ok := s.Call.(*ssa.Call)
	if !ok {
		return nil
	}
	var counts []ssa.Value
	var visit func(v ssa.Value, depth int)
	visit = func(v ssa.Value, depth int) {
		if depth > 4 || v.Referrers() == nil {
			return
		}
		for _, ref := range *v.Referrers() {
			switch x := ref.(type) {
			case *ssa.Extract:
				visit(x, depth+1)
			case *ssa.Call:
				if x.Common().IsInvoke() && x.Common().Value == v && x.Common().Method.Name() == "RowsAffected" {
					for _, r2 := range *x.Referrers() {
						if ex, ok := r2.(*ssa.Extract); ok && ex.Index == 0 {
							counts = append(counts, ex)
						}
					}
				}
			case *ssa.Phi:
				visit(x, depth+1)
			case *ssa.MakeInterface:
				visit(x, depth+1)
			}
		}
	}
	visit(call, 0)
	var out []*ssa.If
	for _, iff := range allIfs(call.Parent()) {
		cd := condOf(iff)
		if cd.X == nil || cd.Y == nil {
			continue
		}
		for _, n := range counts {
			if stripConv(cd.X) != n {
				continue
			}
			k, ok := stripConv(cd.Y).(*ssa.Const)
			if !ok || k.Value == nil {
				continue
			}
			if (cd.Op == token.EQL || cd.Op == token.NEQ) && k.Int64() == 0 || cd.Op == token.LSS && k.Int64() == 1 {
				out = append(out, iff)
			}
		}
	}
	return out
}

// errNonNil: the error value v is non-nil whenever control is in block blk: a freshly made error,
// a sentinel, a phi of such values, or a value every path to blk has tested and found non-nil.
func (m *Model) errNonNil(v ssa.Value, blk *ssa.BasicBlock, depth int) bool {
	if depth > 6 {
		return false
	}
	switch x := v.(type) {
	case *ssa.Const:
		return x.Value != nil
	case *ssa.MakeInterface:
		return true
	case *ssa.UnOp:
		if _, isG := x.X.(*ssa.Global); isG && x.Op == token.MUL {
			return true
		}
	case *ssa.Call:
		if f := x.Common().StaticCallee(); f != nil && f.Pkg != nil && (f.Pkg.Pkg.Path() == "fmt" || f.Pkg.Pkg.Path() == "errors") {
			return true
		}
		// an error translator (remapKeyError(err, key)): non-nil whenever the error it is given is
		if f := x.Common().StaticCallee(); f != nil {
			if pi, ok := m.errTranslator(f, map[*ssa.Function]bool{}); ok && pi < len(x.Common().Args) {
				return m.errNonNil(x.Common().Args[pi], blk, depth+1)
			}
		}
		// a package helper that makes or translates the error: each of its returns hands back a
		// non-nil error, or the error it was given - which is non-nil here
		if f := x.Common().StaticCallee(); f != nil && m.inPkg(f) && f.Blocks != nil && f.Signature.Results().Len() == 1 {
			rets := returnsOf(f)
			var okVal func(rv ssa.Value, rb *ssa.BasicBlock, d int) bool
			okVal = func(rv ssa.Value, rb *ssa.BasicBlock, d int) bool {
				if d > 4 {
					return false
				}
				if p, isP := rv.(*ssa.Parameter); isP && isErrorType(p.Type()) {
					for i, q := range f.Params {
						if q == p && i < len(x.Common().Args) {
							return m.errNonNil(x.Common().Args[i], blk, depth+1)
						}
					}
					return false
				}
				if phi, isPhi := rv.(*ssa.Phi); isPhi {
					for i, e := range phi.Edges {
						if !okVal(e, phi.Block().Preds[i], d+1) {
							return false
						}
					}
					return true
				}
				return m.errNonNil(rv, rb, depth+1)
			}
			all := len(rets) > 0
			for _, ret := range rets {
				if !okVal(ret.Results[0], ret.Block(), 0) {
					all = false
				}
			}
			if all {
				return true
			}
			// otherwise: a value like any other, possibly tested by the caller (below)
		}
	case *ssa.Phi:
		for i, e := range x.Edges {
			if !m.errNonNil(e, x.Block().Preds[i], depth+1) {
				return false
			}
		}
		return true
	}
	// tested: with the edges on which v was found non-nil removed, blk is out of reach
	fn := blk.Parent()
	c := newCut()
	for _, iff := range allIfs(fn) {
		cd := condOf(iff)
		eq, ok := cd.equalEdge()
		if !ok || !(isNilConst(cd.X) || isNilConst(cd.Y)) {
			continue
		}
		other := cd.X
		if isNilConst(cd.X) {
			other = cd.Y
		}
		if stripConv(other) != stripConv(v) {
			continue
		}
		for _, sc := range iff.Block().Succs {
			if sc != eq {
				c.cutEdge(iff.Block(), sc)
			}
		}
	}
	return len(c.edges) > 0 && !entryReach(fn, c)[blk.Index]
}

// errTranslator: f has one error parameter and one (error) result, and every return hands back a
// made error, a sentinel, the parameter itself, or what another translator makes of it. Returns
// the parameter's index.
func (m *Model) errTranslator(f *ssa.Function, seen map[*ssa.Function]bool) (int, bool) {
	if f == nil || !m.inPkg(f) || f.Blocks == nil || seen[f] || f.Signature.Results().Len() != 1 || !isErrorType(f.Signature.Results().At(0).Type()) {
		return 0, false
	}
	seen[f] = true
	pi := -1
	for i, p := range f.Params {
		if isErrorType(p.Type()) {
			if pi >= 0 {
				return 0, false
			}
			pi = i
		}
	}
	if pi < 0 {
		return 0, false
	}
	var ok func(v ssa.Value, d int) bool
	ok = func(v ssa.Value, d int) bool {
		if d > 5 {
			return false
		}
		switch x := v.(type) {
		case *ssa.Parameter:
			return x == f.Params[pi]
		case *ssa.MakeInterface:
			return true
		case *ssa.UnOp:
			_, isG := x.X.(*ssa.Global)
			return isG && x.Op == token.MUL
		case *ssa.Phi:
			for _, e := range x.Edges {
				if !ok(e, d+1) {
					return false
				}
			}
			return true
		case *ssa.Call:
			g := x.Common().StaticCallee()
			if g != nil && g.Pkg != nil && (g.Pkg.Pkg.Path() == "fmt" || g.Pkg.Pkg.Path() == "errors") {
				return true
			}
			if gi, isT := m.errTranslator(g, seen); isT && gi < len(x.Common().Args) {
				return ok(x.Common().Args[gi], d+1)
			}
		}
		return false
	}
	for _, ret := range returnsOf(f) {
		if !ok(ret.Results[0], 0) {
			return 0, false
		}
	}
	return pi, true
}
