package lint

import (
	"fmt"
	"go/constant"
	"go/token"
	"go/types"
	"strconv"
	"strings"

	"golang.org/x/tools/go/ssa"

	"rosmarlint/sqlp"
)

func constString(v ssa.Value) (string, bool) {
	c, ok := stripConv(v).(*ssa.Const)
	if !ok || c.Value == nil || c.Value.Kind() != constant.String {
		return "", false
	}
	return constant.StringVal(c.Value), true
}

// ---------------------------------------------------------------- R-DSN

func (m *Model) ruleDSN(r *Results) {
	const rule = "R-DSN"
	fn := m.A.OpenFn
	if fn == nil {
		r.undecided(rule, "open function", "-", "anchor unresolved: %s", m.A.Problems["OpenFn"])
		return
	}
	type opt struct {
		val   string
		block *ssa.BasicBlock
		pos   string
	}
	opts := map[string][]opt{}
	var openCall ssa.CallInstruction
	m.eachCall(fn, func(c ssa.CallInstruction) {
		if f := c.Common().StaticCallee(); f != nil && f.Pkg != nil && f.Pkg.Pkg.Path() == "database/sql" && f.Name() == "Open" {
			openCall = c
		}
	})
	// option-setting calls in the open function itself or in helpers it calls; for a helper the
	// anchoring block is the call site in the open function, provided the option is set on every
	// path through the helper
	var scan func(g *ssa.Function, anchor *ssa.BasicBlock, anchorPos string, depth int)
	scan = func(g *ssa.Function, anchor *ssa.BasicBlock, anchorPos string, depth int) {
		m.eachCall(g, func(c ssa.CallInstruction) {
			f := c.Common().StaticCallee()
			if f == nil {
				return
			}
			if m.inPkg(f) && depth < 2 && f != fn && len(f.Blocks) > 0 {
				ab := anchor
				if g == fn {
					ab = c.Block()
				}
				scan(f, ab, m.instrPos(c), depth+1)
				return
			}
			at := c.Block() // the block whose execution implies the option is set
			blockOf := func() *ssa.BasicBlock {
				if g == fn {
					return at
				}
				// inside a helper: the call must dominate the helper's returns
				for _, ret := range returnsOf(g) {
					if m.isFailureReturn(ret) {
						continue
					}
					if !(at == ret.Block() || at.Dominates(ret.Block())) {
						return nil
					}
				}
				return anchor
			}
			if f.Signature.Recv() != nil && isNamed(f.Signature.Recv().Type(), "net/url", "Values") && (f.Name() == "Add" || f.Name() == "Set") && len(c.Common().Args) == 3 {
				k, ok1 := constString(c.Common().Args[1])
				if !ok1 {
					// table-driven: query.Add(row.key, row.value) once for every row of a constant table
					tg, kf, hdr, isTab := m.tableField(c.Common().Args[1])
					if !isTab || !loopRunsAll(hdr, c.Block()) {
						return
					}
					rows, okRows := m.tableRows(tg)
					if !okRows {
						return
					}
					vf := -1
					if tg2, f2, hdr2, ok2 := m.tableField(c.Common().Args[2]); ok2 && tg2 == tg && hdr2 == hdr {
						vf = f2
					}
					at = hdr
					for _, row := range rows {
						if !strings.HasPrefix(row[kf], "_") {
							continue
						}
						v := "<dynamic>"
						if vf >= 0 {
							v = row[vf]
						} else if cv, isC := constString(c.Common().Args[2]); isC {
							v = cv
						}
						opts[row[kf]] = append(opts[row[kf]], opt{v, blockOf(), m.instrPos(c)})
					}
					return
				}
				if k == "cache" {
					// SQLite's shared-cache mode replaces WAL snapshot isolation between the pool's
					// connections by table-level locks: a read outside a transaction that overlaps a
					// write transaction fails with "table is locked" instead of seeing the last commit
					if v, isC := constString(c.Common().Args[2]); !isC || v != "private" {
						r.bad(rule, m.declName(fn)+" / connections do not share a page cache", m.instrPos(c), "the connection string sets cache=%q: with a shared cache the pooled connections lock tables against one another, and the lock-free reads of the key-value API fail (or Update gives up) whenever they overlap another goroutine's write transaction", v)
					}
					return
				}
				if !strings.HasPrefix(k, "_") {
					return
				}
				v, ok2 := constString(c.Common().Args[2])
				if !ok2 {
					v = "<dynamic>"
				}
				opts[k] = append(opts[k], opt{v, blockOf(), m.instrPos(c)})
			}
			if f.Signature.Recv() != nil && isNamed(f.Signature.Recv().Type(), "net/url", "Values") && f.Name() == "Del" && len(c.Common().Args) == 2 {
				if k, ok := constString(c.Common().Args[1]); ok && strings.HasPrefix(k, "_") {
					opts[k] = append(opts[k], opt{"<deleted>", blockOf(), m.instrPos(c)})
				}
			}
		})
	}
	scan(fn, nil, "", 0)
	// every set of query parameters that is changed is the one that is encoded into the connection
	// string: url.URL.Query() hands out a fresh copy on every call, so a Set/Add/Del on a value
	// nobody encodes is lost (the open mode never reaches SQLite, which then creates the file)
	{
		encoded := map[ssa.Value]bool{}
		type mut struct {
			v   ssa.Value
			pos string
			key string
		}
		var muts []mut
		for g := range m.reachableLocal(fn) {
			m.eachCall(g, func(c ssa.CallInstruction) {
				f := c.Common().StaticCallee()
				if f == nil || f.Signature.Recv() == nil || !isNamed(f.Signature.Recv().Type(), "net/url", "Values") || len(c.Common().Args) == 0 {
					return
				}
				recv := stripConv(c.Common().Args[0])
				switch f.Name() {
				case "Encode":
					encoded[recv] = true
					// (`withOptions(query).Encode()`: a helper that fills in the values it is handed
					// and returns them)
					if hc, ok := recv.(*ssa.Call); ok {
						if h := hc.Common().StaticCallee(); h != nil && m.inPkg(h) && len(h.Blocks) > 0 {
							for i, p := range h.Params {
								if !isNamed(p.Type(), "net/url", "Values") || i >= len(hc.Common().Args) {
									continue
								}
								all := true
								for _, ret := range returnsOf(h) {
									if len(ret.Results) != 1 || stripConv(ret.Results[0]) != ssa.Value(p) {
										all = false
									}
								}
								if all {
									encoded[stripConv(hc.Common().Args[i])] = true
								}
							}
						}
					}
				case "Set", "Add", "Del":
					k, _ := constString(c.Common().Args[1])
					muts = append(muts, mut{recv, m.instrPos(c), k})
				}
			})
		}
		// (a value handed to a package helper that encodes its parameter is encoded)
		for g := range m.reachableLocal(fn) {
			m.eachCall(g, func(c ssa.CallInstruction) {
				h := c.Common().StaticCallee()
				if h == nil || !m.inPkg(h) || len(h.Blocks) == 0 {
					return
				}
				for i, a := range c.Common().Args {
					if i >= len(h.Params) || !isNamed(a.Type(), "net/url", "Values") {
						continue
					}
					m.eachCall(h, func(c2 ssa.CallInstruction) {
						f2 := c2.Common().StaticCallee()
						if f2 != nil && f2.Name() == "Encode" && f2.Signature.Recv() != nil && isNamed(f2.Signature.Recv().Type(), "net/url", "Values") && len(c2.Common().Args) > 0 && stripConv(c2.Common().Args[0]) == ssa.Value(h.Params[i]) {
							encoded[stripConv(a)] = true
						}
					})
				}
			})
		}
		lost := ""
		for _, mu := range muts {
			if _, isParam := mu.v.(*ssa.Parameter); isParam {
				continue // a helper that is handed the values to fill in
			}
			if !encoded[mu.v] {
				lost = mu.key + " at " + mu.pos
			}
		}
		r.check(lost == "", rule, m.declName(fn)+" / the parameters that are set are the ones that are encoded", m.pos(fn.Pos()), "every url.Values that is changed is also encoded into the connection string", "a connection-string parameter ("+lost+") is set on a copy of the query values that is never encoded (url.URL.Query() returns a fresh copy each time): the setting - e.g. the open mode that forbids creating the file - never reaches SQLite")
	}
	if openCall == nil {
		r.undecided(rule, "sql.Open call", m.pos(fn.Pos()), "no sql.Open call in %s", fn)
		return
	}
	want := func(key string, okVal func(string) bool, why string) {
		k := m.declName(fn) + " / " + key
		os := opts[key]
		if len(os) == 0 {
			r.bad(rule, k, m.instrPos(openCall), "connection string never sets %s: %s", key, why)
			return
		}
		for _, o := range os {
			if !okVal(o.val) {
				r.bad(rule, k, o.pos, "connection option %s=%s: %s", key, o.val, why)
				return
			}
			if o.block == nil || !(o.block == openCall.Block() || o.block.Dominates(openCall.Block())) {
				r.bad(rule, k, o.pos, "connection option %s is not set on every path to sql.Open", key)
				return
			}
		}
		r.ok(rule, k, os[0].pos, "%s=%s on every path to sql.Open", key, os[0].val)
	}
	truthy := func(s string) bool { s = strings.ToLower(s); return s == "1" || s == "true" || s == "on" || s == "yes" }
	want("_journal_mode", func(s string) bool { return strings.EqualFold(s, "WAL") }, "acknowledged writes must survive a crash and readers must not block the single writer (write-ahead log)")
	want("_txlock", func(s string) bool { return strings.EqualFold(s, "immediate") }, "a transaction must take the write lock when it begins, or two read-modify-write transactions can both read before either writes")
	want("_foreign_keys", truthy, "ON DELETE CASCADE is only enforced with foreign keys on")
	want("_busy_timeout", func(s string) bool { n, err := strconv.Atoi(s); return err == nil && n > 0 }, "a non-zero busy timeout is needed for the pool's readers")
	for _, bad := range []string{"_synchronous", "_sync"} {
		for _, o := range opts[bad] {
			v := strings.ToUpper(o.val)
			if v == "0" || v == "OFF" || v == "1" || v == "NORMAL" {
				r.bad(rule, m.declName(fn)+" / "+bad, o.pos, "connection option %s=%s weakens durability of acknowledged commits", bad, o.val)
			}
		}
	}
	for _, o := range opts["_locking_mode"] {
		r.info(rule, m.declName(fn)+" / _locking_mode", o.pos, "locking mode %s", o.val)
	}
	// an in-memory database lives exactly as long as its one connection: the pool must never
	// retire connections by age or idleness
	retire := ""
	for _, f := range m.Funcs {
		if !m.inPkg(f) {
			continue
		}
		m.eachCall(f, func(c ssa.CallInstruction) {
			for _, name := range []string{"SetConnMaxIdleTime", "SetConnMaxLifetime"} {
				if isMethodCall(c.Common(), "database/sql", "DB", name) && len(c.Common().Args) == 2 {
					if k, ok := stripConv(c.Common().Args[1]).(*ssa.Const); ok && k.Value != nil && k.Int64() <= 0 {
						continue // 0 = never
					}
					retire = m.instrPos(c)
				}
			}
		})
	}
	pos := m.pos(fn.Pos())
	if retire != "" {
		pos = retire
	}
	r.check(retire == "", rule, "pool never retires a connection", pos, "no call gives the pool's connections a maximum age or idle time", "the pool is told to close connections after a while: the single connection of an in-memory bucket IS the bucket, so after that time every handle finds an empty database (no such table) although nobody deleted it")
}

// ---------------------------------------------------------------- R-BACKFILL (statement and scan shape)

// eventFieldForColumn maps a documents column to the event struct field that mirrors it.
// Fields are matched by name (case-insensitively); the one pair whose names differ is
// derived from the upsert primitive, which binds the tombstone column from a branch on a
// bool field of the event.
func (m *Model) eventFieldTable() (map[string]*types.Var, string) {
	if m.A.EventType == nil {
		return nil, "event type unresolved"
	}
	st := m.A.EventType.Underlying().(*types.Struct)
	out := map[string]*types.Var{}
	docs := m.Schema.Table("documents")
	if docs == nil {
		return nil, "no documents table"
	}
	used := map[*types.Var]bool{}
	flat := flatFields(st)
	for _, cn := range docs.Order {
		for _, ff := range flat {
			if strings.EqualFold(ff.v.Name(), cn) {
				out[lower(cn)] = ff.v
				used[ff.v] = true
			}
		}
	}
	// remaining bool field <-> tombstone
	for _, ff := range flat {
		f := ff.v
		if !used[f] && types.Identical(f.Type(), types.Typ[types.Bool]) {
			if _, dup := out["tombstone"]; dup {
				return nil, "two candidate deletion-flag fields in the event type"
			}
			out["tombstone"] = f
			used[f] = true
		}
	}
	for _, ff := range flat {
		if !used[ff.v] {
			return nil, "event field " + ff.v.Name() + " mirrors no documents column"
		}
	}
	return out, ""
}

func (m *Model) backfillSites() []*SQLSite {
	var out []*SQLSite
	for _, s := range m.Sites {
		if s.Method != "Query" || s.Fn == m.A.PostFn {
			continue
		}
		callsConv := false
		m.eachCall(s.Fn, func(c ssa.CallInstruction) {
			if c.Common().StaticCallee() == m.A.Converter || m.A.ConvWrappers[c.Common().StaticCallee()] {
				callsConv = true
			}
		})
		if !callsConv {
			// ... or hands the result set to a helper that does
			callsConv = m.rowsHelperCallsConverter(s.Fn, s.Call, 0)
		}
		if callsConv {
			out = append(out, s)
		}
	}
	return out
}

// rowsHelperCallsConverter: a package function that is handed the *sql.Rows produced in fn
// (by call `src`, or received as a parameter when src is nil) calls the event converter.
func (m *Model) rowsHelperCallsConverter(fn *ssa.Function, src ssa.CallInstruction, depth int) bool {
	if depth > 2 {
		return false
	}
	isRowsT := func(t types.Type) bool {
		pt, ok := t.(*types.Pointer)
		return ok && isNamed(pt.Elem(), "database/sql", "Rows")
	}
	found := false
	m.eachCall(fn, func(c ssa.CallInstruction) {
		callee := c.Common().StaticCallee()
		if found || callee == nil || !m.inPkg(callee) || len(callee.Blocks) == 0 || c == src {
			return
		}
		gets := false
		for _, a := range c.Common().Args {
			if isRowsT(a.Type()) {
				gets = true
			}
		}
		if !gets {
			return
		}
		m.eachCall(callee, func(c2 ssa.CallInstruction) {
			if c2.Common().StaticCallee() == m.A.Converter || m.A.ConvWrappers[c2.Common().StaticCallee()] {
				found = true
			}
		})
		if !found && m.rowsHelperCallsConverter(callee, nil, depth+1) {
			found = true
		}
	})
	return found
}

func (m *Model) ruleBACKFILL(r *Results) {
	const rule = "R-BACKFILL"
	m.sitesHealthy(r, rule)
	sites := m.backfillSites()
	if len(sites) != 1 {
		r.undecided(rule, "backfill statement", "-", "expected exactly one Query site in a function that converts rows to feed events, found %d", len(sites))
		return
	}
	s := sites[0]
	pos := m.instrPos(s.Call)
	fnName := m.declName(s.Fn)
	ftab, why := m.eventFieldTable()
	if ftab == nil {
		r.undecided(rule, fnName+" / field table", pos, "%s", why)
		return
	}
	scans := m.scansOfSite(s)
	if len(scans) != 1 || scans[0].Dests == nil {
		r.undecided(rule, fnName+" / Scan", pos, "expected exactly one literal Scan of the backfill rows, found %d", len(scans))
		return
	}
	sc := scans[0]
	// every row that is read is pushed: the loop cannot come round without the push unless an error occurred
	{
		var sinks []*ssa.BasicBlock
		m.eachCall(sc.Fn, func(c ssa.CallInstruction) {
			if callee := c.Common().StaticCallee(); callee != nil && m.isQueueMethod(callee, "push") {
				sinks = append(sinks, c.Block())
			}
		})
		if len(sinks) > 0 && inCycle(sc.Call.Block()) {
			r.check(!m.rowCanBeSkipped(sc, sinks), rule, fnName+" / every row read is pushed", m.instrPos(sc.Call), "a row that was read without error is always enqueued", "the backfill loop can go on to the next row without enqueueing the one it read although no error occurred: that document's current version is missing from the snapshot")
		}
	}
	// the row loop ends only when the rows are exhausted (or on an error): a counter or size test
	// truncates the snapshot, and the live stream then moves the checkpoint past the missing rows
	if inCycle(sc.Call.Block()) {
		for _, ct := range controllingConds(sc.Fn, sc.Call.Block()) {
			if !inCycle(ct.If.Block()) {
				continue
			}
			cd := condOf(ct.If)
			okCond := false
			for _, o := range []ssa.Value{cd.X, cd.Y} {
				if o == nil {
					continue
				}
				v := stripConv(o)
				if call, ok := v.(*ssa.Call); ok && isMethodCall(call.Common(), "database/sql", "Rows", "Next") {
					okCond = true
				}
				if types.Identical(v.Type(), types.Universe.Lookup("error").Type()) {
					okCond = true
				}
			}
			if !okCond {
				r.bad(rule, fnName+" / row loop runs to the end of the rows", m.instrPos(ct.If), "the backfill row loop is also controlled by a condition that is neither rows.Next() nor an error test (a row count or size limit): rows beyond it are silently left out of the snapshot")
			}
		}
	}
	// the scanned values are queued and delivered later: they must be copies, not views into the
	// driver's row buffer (sql.RawBytes is only valid until the next Next/Scan/Close)
	for i, d := range sc.RawDests {
		if mi, ok := d.(*ssa.MakeInterface); ok {
			d = mi.X
		}
		t := d.Type()
		if pt, ok := t.Underlying().(*types.Pointer); ok {
			t = pt.Elem()
		}
		if isNamed(t, "database/sql", "RawBytes") {
			r.bad(rule, fnName+" / scanned values are copies", pos, "column %d of the backfill row is scanned into a sql.RawBytes, which aliases the driver's buffer and is overwritten by the next row: queued events then carry another document's bytes", i+1)
		}
	}
	for _, v := range s.Variants {
		st := v.Stmt()
		if st == nil || st.Kind != sqlp.SSelect || st.Select == nil {
			r.undecided(rule, fnName+" / statement", pos, "backfill statement is not a single SELECT")
			continue
		}
		sel := st.Select
		key := fnName + " / " + st.Shape()
		var problems []string
		if len(sel.From) != 1 || lower(sel.From[0].Name) != "documents" || sel.From[0].Sub != nil {
			problems = append(problems, "does not read from documents alone")
		}
		// predicate: exactly collection = recv.id AND cas >= start
		haveColl, haveCas, extra := false, false, []string{}
		for _, c := range sqlp.Conjuncts(sel.Where) {
			if p := colEqParam(c, "collection"); p != nil {
				if b, ok := s.bindingFor(p); ok && m.isRecvCollID(b) {
					haveColl = true
					continue
				}
			}
			if c.Kind == sqlp.EBinary && (c.Op == ">=" && isCol(c.Args[0], "cas") && isParam(c.Args[1]) || c.Op == "<=" && isCol(c.Args[1], "cas") && isParam(c.Args[0])) {
				p := c.Args[1]
				if c.Op == "<=" {
					p = c.Args[0]
				}
				if b, ok := s.bindingFor(p); ok {
					rv, _ := m.resolve(b.V, b.Fr)
					if _, isParamV := rv.(*ssa.Parameter); isParamV {
						haveCas = true
						continue
					}
				}
			}
			extra = append(extra, c.String())
		}
		if !haveColl {
			problems = append(problems, "no conjunct collection = <receiver>.id")
		}
		if !haveCas {
			problems = append(problems, "no conjunct cas >= <start CAS parameter> (inclusive)")
		}
		if len(extra) > 0 {
			problems = append(problems, "extra conjunct(s) "+strings.Join(extra, ", ")+" drop documents (e.g. tombstones) from the snapshot")
		}
		if len(sel.OrderBy) != 1 || !isCol(sel.OrderBy[0].Expr, "cas") || sel.OrderBy[0].Desc {
			problems = append(problems, "not ordered by cas ascending")
		}
		if sel.Limit != nil {
			problems = append(problems, "has a LIMIT")
		}
		// column <-> field coverage
		if len(sel.Cols) != len(sc.Dests) {
			problems = append(problems, fmt.Sprintf("selects %d columns but scans %d destinations", len(sel.Cols), len(sc.Dests)))
		} else {
			covered := map[*types.Var]bool{}
			for i, c := range sel.Cols {
				fa, ok := sc.Dests[i].(*ssa.FieldAddr)
				if !ok || !ownerIs(fa, m.A.EventType) {
					problems = append(problems, fmt.Sprintf("column %d is not scanned into an event field", i+1))
					continue
				}
				f := fieldOf(fa)
				covered[f] = true
				var wantCol string
				for col, ff := range ftab {
					if ff == f {
						wantCol = col
					}
				}
				switch {
				case c.Expr.Kind == sqlp.EColumn && lower(c.Expr.Name) == wantCol:
				case isNullLit(c.Expr) && (wantCol == "value" || wantCol == "xattrs"):
					// keys-only variant
				default:
					problems = append(problems, fmt.Sprintf("event field %s is filled from %s, want column %s", f.Name(), c.Expr, wantCol))
				}
			}
			for col, f := range ftab {
				if col == "collection" || col == "id" {
					continue
				}
				if !covered[f] {
					problems = append(problems, fmt.Sprintf("event field %s (column %s) is not filled from the row: the backfill event cannot describe the document as a live event does", f.Name(), col))
				}
			}
		}
		if len(problems) == 0 {
			r.ok(rule, key, pos, "snapshot = all rows of the collection with cas >= start, ordered by cas, every event field filled from its column")
		} else {
			r.bad(rule, key, pos, "%s", strings.Join(problems, "; "))
		}
	}
	// no store to a scanned event field between Scan and the converter call (the event IS the row)
	for _, b := range s.Fn.Blocks {
		for _, in := range b.Instrs {
			if st, ok := in.(*ssa.Store); ok {
				if fa, ok := st.Addr.(*ssa.FieldAddr); ok && ownerIs(fa, m.A.EventType) {
					r.bad(rule, fnName+" / store to event."+fieldOf(fa).Name(), m.instrPos(st), "backfill overrides event field %s in Go instead of taking it from the row", fieldOf(fa).Name())
				}
			}
		}
	}
	r.floor(rule, 1)
}

// ---------------------------------------------------------------- R-EXP-SQL: expiry scan and min-expiry query

func (m *Model) ruleEXPSQL(r *Results) {
	const rule = "R-EXP-SQL"
	m.sitesHealthy(r, rule)
	nScan, nMin := 0, 0
	m.eachStmt(false, func(s *SQLSite, v *Variant, st *sqlp.Stmt) {
		if st.Kind != sqlp.SSelect || st.Select == nil || len(st.Select.From) != 1 || lower(st.Select.From[0].Name) != "documents" {
			return
		}
		conj := sqlp.Conjuncts(st.Select.Where)
		mentionsExp := false
		for _, c := range conj {
			c.Walk(func(e *sqlp.Expr) {
				if isCol(e, "exp") {
					mentionsExp = true
				}
			})
		}
		if !mentionsExp {
			return
		}
		key := s.key(m, v)
		pos := m.instrPos(s.Call)
		if len(st.Select.Cols) == 1 && isAgg(st.Select.Cols[0].Expr, "min", "exp") {
			nMin++
			ok := len(conj) == 1 && conj[0].Kind == sqlp.EBinary && conj[0].Op == ">" && isCol(conj[0].Args[0], "exp") && isLitN(conj[0].Args[1], 0)
			r.check(ok, rule, key+" / min-expiry", pos, "next deadline = min(exp) over all rows with exp > 0", fmt.Sprintf("min-expiry query must range over exactly the rows with exp > 0 (overdue ones included), but its predicate is %s", exprString(st.Select.Where)))
			return
		}
		// expiry scan: collection = recv AND exp > 0 AND exp <= now
		nScan++
		haveColl, havePos, haveDue, extra := false, false, false, []string{}
		for _, c := range conj {
			if p := colEqParam(c, "collection"); p != nil {
				if b, ok := s.bindingFor(p); ok && m.isRecvCollID(b) {
					haveColl = true
					continue
				}
			}
			if c.Kind == sqlp.EBinary && c.Op == ">" && isCol(c.Args[0], "exp") && isLitN(c.Args[1], 0) {
				havePos = true
				continue
			}
			if c.Kind == sqlp.EBinary && c.Op == "<=" && isCol(c.Args[0], "exp") && isParam(c.Args[1]) {
				if b, ok := s.bindingFor(c.Args[1]); ok {
					isNow := func(b Binding) bool {
						rv, _ := m.resolve(b.V, b.Fr)
						call, ok := rv.(*ssa.Call)
						return ok && m.A.NowAsExpiry != nil && call.Common().StaticCallee() == m.A.NowAsExpiry
					}
					good := isNow(b)
					if !good {
						// the current time may be a parameter of a helper: then every caller must pass it
						if rv, _ := m.resolve(b.V, b.Fr); rv != nil {
							if _, isParamV := rv.(*ssa.Parameter); isParamV {
								callers := m.staticCallersOf(rootOf(s.Fn))
								good = len(callers) > 0
								for _, cs := range callers {
									if !isNow(Binding{V: b.V, Fr: m.closureFrame(cs.Parent()).inline(cs, rootOf(s.Fn))}) {
										good = false
									}
								}
							}
						}
					}
					if good {
						haveDue = true
						continue
					}
				}
			}
			extra = append(extra, c.String())
		}
		var problems []string
		if !haveColl {
			problems = append(problems, "not restricted to the receiver's collection")
		}
		if !havePos {
			problems = append(problems, "no conjunct exp > 0 (documents without expiry would be deleted)")
		}
		if !haveDue {
			problems = append(problems, "no conjunct exp <= <current time as expiry>")
		}
		if len(extra) > 0 {
			problems = append(problems, "extra conjunct(s) "+strings.Join(extra, ", "))
		}
		r.check(len(problems) == 0, rule, key+" / expiry-scan", pos, "due = rows of this collection with 0 < exp <= now", strings.Join(problems, "; "))
		// Go side: a sweep that walks the collections visits every one of them: the loop that calls
		// the function holding this scan cannot come round without the call (a collection skipped
		// on some condition keeps its overdue documents for ever)
		for _, cl := range m.staticCallersOf(rootOf(s.Fn)) {
			cb := cl.Block()
			if cb == nil || !inCycle(cb) {
				continue
			}
			cu := newCut()
			cu.cutBlock(cb)
			skip := ""
			for _, b := range cb.Parent().Blocks {
				if b != cb && sameCycle(b, cb) && reachableFromSuccs(b, cu)[b.Index] {
					skip = m.pos(b.Instrs[0].Pos())
				}
			}
			// ... and the collection it sweeps is the one the database has under that name now: the
			// sweep runs on the bucket's shared instance, whose cache of collections no handle keeps
			// current (a collection dropped and re-created through a handle has a new id), so the
			// lookup it uses must go to the collections table on every path
			if len(cl.Common().Args) > 0 {
				if ex, ok := stripConv(cl.Common().Args[0]).(*ssa.Extract); ok {
					if lc, ok := ex.Tuple.(*ssa.Call); ok {
						if g := lc.Common().StaticCallee(); g != nil && m.inPkg(g) && len(g.Blocks) > 0 {
							bad := m.returnsWithoutCollectionsQuery(g, 0)
							r.check(bad == "", rule, m.declName(cb.Parent())+" / the sweep looks its collections up in the database", m.instrPos(lc), "every successful return of the lookup lies behind a query of the collections table", "the sweep takes the collection from "+g.Name()+", which can answer (at "+bad+") without asking the collections table, i.e. from the handle's cache: after a collection was dropped and re-created through another handle the sweep keeps scanning the old id - the documents of the new incarnation never expire and the timer re-arms for them for ever")
						}
					}
				}
			}
			r.check(skip == "", rule, m.declName(cb.Parent())+" / the sweep visits every collection", m.instrPos(cl), "the loop over the collections cannot go on to the next one without sweeping the current one (errors leave the loop)", "the loop that sweeps the collections for expired documents can go on to the next collection without sweeping the current one: documents of a skipped collection stay readable past their expiry, and the timer keeps firing for them")
		}
		// Go side: the list of keys to delete is made of the rows of this scan only - it starts
		// empty (not with what an earlier pass, or another collection's pass, left in a buffer)
		for _, sc := range m.scansOfSite(s) {
			for _, d := range sc.Dests {
				d = stripConv(d)
				for _, b := range sc.Fn.Blocks {
					for _, ins := range b.Instrs {
						call, ok := ins.(*ssa.Call)
						if !ok || !isBuiltinCall(call, "append") || len(call.Common().Args) != 2 {
							continue
						}
						sl, ok := call.Common().Args[1].(*ssa.Slice)
						if !ok {
							continue
						}
						vals, dyn := varargValues(sl)
						if dyn || len(vals) != 1 {
							continue
						}
						ld, ok := stripConv(vals[0]).(*ssa.UnOp)
						if !ok || ld.Op != token.MUL || stripConv(ld.X) != d {
							continue
						}
						bad := ""
						seen := map[ssa.Value]bool{}
						var start func(v ssa.Value)
						start = func(v ssa.Value) {
							v = stripConv(v)
							if seen[v] {
								return
							}
							seen[v] = true
							switch x := v.(type) {
							case *ssa.Const:
								if x.Value != nil {
									bad = m.pos(x.Pos())
								}
							case *ssa.Phi:
								for _, e := range x.Edges {
									start(e)
								}
							case *ssa.Call:
								if x == call {
									return
								}
								if isBuiltinCall(x, "append") {
									start(x.Common().Args[0])
									return
								}
								bad = m.instrPos(x)
							case *ssa.MakeSlice:
								if k, ok := x.Len.(*ssa.Const); !ok || k.Value == nil || !isZeroConst(k) {
									bad = m.instrPos(x)
								}
							case *ssa.Slice:
								if k, ok := x.High.(*ssa.Const); !ok || !isZeroConst(k) {
									bad = m.instrPos(x)
								}
							case *ssa.UnOp:
								if al, ok := x.X.(*ssa.Alloc); ok && x.Op == token.MUL {
									for _, st := range cellStores(al) {
										start(st.Val)
									}
									return
								}
								bad = m.instrPos(x)
							default:
								bad = m.pos(v.Pos())
							}
						}
						start(call.Common().Args[0])
						r.check(bad == "", rule, m.declName(sc.Fn)+" / the keys to expire are those the scan returned", m.instrPos(call), "the list the due keys are appended to starts empty", "the list the due keys are appended to does not start empty (it starts from the value at "+bad+"): keys left in it by another pass - another collection's keys - are deleted from this collection as if they had expired there")
					}
				}
			}
		}
	})
	if nScan == 0 {
		r.undecided(rule, "expiry scan", "-", "no SELECT on documents with a predicate on exp found")
	}
	if nMin == 0 {
		r.undecided(rule, "min-expiry query", "-", "no SELECT min(exp) FROM documents found")
	}
}

// ---------------------------------------------------------------- R-LIVE: read-side liveness uses the body, like the KV reads

func (m *Model) ruleLIVE(r *Results) {
	const rule = "R-LIVE"
	m.sitesHealthy(r, rule)
	// Every read-only statement on documents that filters on liveness must do so on `value`
	// (the encoding the KV read path uses), never on the tombstone flag alone.
	m.eachStmt(false, func(s *SQLSite, v *Variant, st *sqlp.Stmt) {
		check := func(sel *sqlp.Select, what string) {
			if sel == nil {
				return
			}
			for _, c := range sqlp.Conjuncts(sel.Where) {
				usesTomb := false
				c.Walk(func(e *sqlp.Expr) {
					if isCol(e, "tombstone") {
						usesTomb = true
					}
				})
				if usesTomb {
					if n := m.CG.Nodes[s.Fn]; (n == nil || len(n.In) == 0) && s.Fn.Parent() == nil {
						r.info(rule, s.key(m, v)+what, m.instrPos(s.Call), "unused function filters on the tombstone flag")
						continue
					}
					r.bad(rule, s.key(m, v)+what, m.instrPos(s.Call), "read filters on the tombstone flag (%s) whereas key-value reads decide liveness from the body (value IS [NOT] NULL); the two encodings are only kept equal by the writers", c)
				} else if hasBodyTest(c) || noBodyTest(c) {
					r.ok(rule, s.key(m, v)+what, m.instrPos(s.Call), "liveness test on the body: %s", c)
				}
			}
		}
		if st.Kind == sqlp.SSelect {
			check(st.Select, "")
		}
		for _, cte := range st.With {
			check(cte.Select, " / "+cte.Name)
		}
	})
	// the KV read helper maps a NULL body to the missing error: see R-READ-NULL
	// Go side: whether a row that was read is live is decided by the body being NULL (nil) or by
	// the flag column, never by the body's length: a zero-length body is a live document
	nb := 0
	for _, sc := range m.scanCalls() {
		if sc.Site == nil {
			continue
		}
		for i, d := range sc.Dests {
			isBody := false
			for _, v := range sc.Site.Variants {
				if st := v.Stmt(); st != nil && st.Select != nil && i < len(st.Select.Cols) && isCol(st.Select.Cols[i].Expr, "value") {
					for _, t := range st.Tables() {
						if t == "documents" {
							isBody = true
						}
					}
				}
			}
			if !isBody {
				continue
			}
			nb++
			fn := sc.Fn
			sameLoc := func(addr ssa.Value) bool {
				if addr == d {
					return true
				}
				fa, ok1 := addr.(*ssa.FieldAddr)
				fd, ok2 := d.(*ssa.FieldAddr)
				return ok1 && ok2 && fa.Field == fd.Field && stripConv(fa.X) == stripConv(fd.X)
			}
			bad := ""
			for _, b := range fn.Blocks {
				for _, ins := range b.Instrs {
					bo, ok := ins.(*ssa.BinOp)
					if !ok {
						continue
					}
					for _, pair := range [][2]ssa.Value{{bo.X, bo.Y}, {bo.Y, bo.X}} {
						call, ok := stripConv(pair[0]).(*ssa.Call)
						if !ok || !isZeroConst(pair[1]) {
							continue
						}
						bi, ok := call.Common().Value.(*ssa.Builtin)
						if !ok || bi.Name() != "len" {
							continue
						}
						if ld, ok := stripConv(call.Common().Args[0]).(*ssa.UnOp); ok && ld.Op == token.MUL && sameLoc(ld.X) {
							bad = m.instrPos(bo)
						}
					}
				}
			}
			key := m.declName(fn) + " / liveness of the row read is not decided by the body's length"
			r.check(bad == "", rule, key, m.instrPos(sc.Call), "no test of len(<body read>) against 0", "the body read from the row is tested with len(...) against 0 (at "+bad+"): a live document with a zero-length body is then treated as a tombstone / as missing")
		}
	}
	if nb < 4 {
		r.undecided(rule, "body reads", "-", "only %d scans of the body column found", nb)
	}
	// ... and the deletion flag read into a local variable stays what the row said: nothing
	// (the clock, the expiry) turns a live row into a deleted one after the read
	for _, sc := range m.scanCalls() {
		if sc.Site == nil {
			continue
		}
		for i, d := range sc.Dests {
			isFlag := false
			for _, v := range sc.Site.Variants {
				if st := v.Stmt(); st != nil && st.Select != nil && i < len(st.Select.Cols) && (isCol(st.Select.Cols[i].Expr, "tombstone") || hasBodyTest(st.Select.Cols[i].Expr) || noBodyTest(st.Select.Cols[i].Expr)) {
					for _, t := range st.Tables() {
						if t == "documents" {
							isFlag = true
						}
					}
				}
			}
			cell := stripConv(d)
			switch cell.(type) {
			case *ssa.Alloc, *ssa.FreeVar:
			default:
				continue
			}
			if !isFlag || sc.Call.Block() == nil {
				continue
			}
			after := reachableFrom(sc.Call.Block(), nil)
			bad := ""
			for _, b := range sc.Fn.Blocks {
				if !after[b.Index] && b != sc.Call.Block() {
					continue
				}
				for _, ins := range b.Instrs {
					if st, ok := ins.(*ssa.Store); ok && stripConv(st.Addr) == cell {
						if b == sc.Call.Block() && indexIn(b, st) < indexIn(b, sc.Call.(ssa.Instruction)) && !inCycle(b) {
							continue
						}
						bad = m.instrPos(st)
					}
				}
			}
			key := m.declName(sc.Fn) + " / the deletion flag read from the row is not overwritten"
			r.check(bad == "", rule, key, m.instrPos(sc.Call), "the variable the row's deletion flag was read into is written by the read only", "the variable holding the deletion flag read from the row is assigned again after the read (at "+bad+"): a live document is then treated as deleted (or a deleted one as live) by what follows, whatever the row says")
		}
	}
	// a partial UPDATE (one that leaves the body alone: a touch, an xattr edit) applies to whatever
	// row the key addresses, tombstone or not, unless the statement says otherwise; the transaction
	// that issues it must therefore have looked at the row's liveness (body or flag) itself
	e := m.newTermEval()
	for _, wu := range m.writeUnits(e) {
		if wu.Stmt.Kind != sqlp.SUpdate || wu.Cols["value"].Kind != "unassigned" {
			continue
		}
		inWhere := false
		for _, cj := range sqlp.Conjuncts(wu.Stmt.Where) {
			if hasBodyTest(cj) || noBodyTest(cj) {
				inWhere = true
			}
		}
		ext := m.reachableLocal(wu.K)
		read := false
		for _, sc := range m.scanCalls() {
			if sc.Site == nil || !ext[sc.Fn] {
				continue
			}
			for _, v := range sc.Site.Variants {
				st := v.Stmt()
				if st == nil || st.Select == nil {
					continue
				}
				onDocs := false
				for _, t := range st.Tables() {
					if t == "documents" {
						onDocs = true
					}
				}
				if !onDocs {
					continue
				}
				for _, c := range st.Select.Cols {
					if isCol(c.Expr, "value") || isCol(c.Expr, "tombstone") || hasBodyTest(c.Expr) || noBodyTest(c.Expr) {
						read = true
					}
				}
			}
		}
		key := fmt.Sprintf("%s / %s / partial update knows whether the row is live", m.declName(wu.K), wu.Stmt.Shape())
		r.check(inWhere || read, rule, key, m.instrPos(wu.Site.Call), "the transaction reads the row's body or deletion flag (or the statement tests it)", "the statement rewrites part of a row (not its body) and neither it nor any read in the same transaction looks at the row's body or deletion flag: it is applied to a tombstone as if the document were live (a deleted key can be touched, gets an expiry and a new revision)")
	}
	r.floor(rule, 2)
}

// ---------------------------------------------------------------- R-HLC-MARK (SQL part) and R-HLC-SEED (SQL part)

func (m *Model) ruleHLCMARKSQL(r *Results) {
	const rule = "R-HLC-MARK-SQL"
	m.sitesHealthy(r, rule)
	clos := m.A.AllocClos
	if clos == nil {
		r.undecided(rule, "allocator", "-", "anchor unresolved: %s", m.A.Problems["Allocator"])
		return
	}
	// the CAS handed to the write callback
	var cbCas ssa.Value
	m.eachCall(clos, func(c ssa.CallInstruction) {
		if c.Common().StaticCallee() == nil && !c.Common().IsInvoke() {
			for _, arg := range c.Common().Args {
				if b, ok := arg.Type().Underlying().(*types.Basic); ok && b.Kind() == types.Uint64 {
					cbCas, _ = m.resolve(arg, m.closureFrame(clos))
				}
			}
		}
	})
	extent := m.reachableLocal(clos)
	haveBucket, haveColl := false, false
	for _, s := range m.markSites() {
		if !extent[s.Fn] {
			m.markOutsideAllocator(r, rule, s, nil)
			continue
		}
		// a mark helper of the allocator must not also be called with some other CAS
		if s.Fn != clos {
			for _, c := range m.staticCallersOf(s.Fn) {
				if !extent[c.Parent()] {
					m.markOutsideAllocator(r, rule, s, c)
				}
			}
		}
		// frame: the closure itself, or the helper as called from the closure
		fr := m.closureFrame(clos)
		if s.Fn != clos {
			m.eachCall(clos, func(c ssa.CallInstruction) {
				if c.Common().StaticCallee() == s.Fn {
					fr = m.closureFrame(clos).inline(c, s.Fn)
				}
			})
		}
		for _, v := range s.Variants {
			st := v.Stmt()
			if st == nil || st.Kind != sqlp.SUpdate {
				continue
			}
			w := writeInfo(st)
			e, ok := w.Update["lastcas"]
			if !ok {
				continue
			}
			key := "mark / " + st.Shape()
			pos := m.instrPos(s.Call)
			b, okb := s.bindingFor(e)
			isCas := false
			if okb && b.V != nil {
				rv, _ := m.resolve(b.V, fr)
				isCas = cbCas != nil && stripConv(rv) == stripConv(cbCas)
			}
			if !isCas {
				r.bad(rule, key, pos, "lastCas is not set to the CAS that was handed to the write (%s)", e)
				continue
			}
			if !onlyClasses(s, HTxn) {
				r.bad(rule, key, pos, "high-water mark written outside the transaction (handle %s)", classList(s))
				continue
			}
			switch w.Table {
			case "bucket":
				r.check(len(w.Where) == 0, rule, key, pos, "bucket.lastCas := cas", "bucket mark update is conditional")
				haveBucket = haveBucket || len(w.Where) == 0
			case "collections":
				okc := false
				if len(w.Where) == 1 {
					if p := colEqParam(w.Where[0], "id"); p != nil {
						if b, ok := s.bindingFor(p); ok {
							// in a collection method the receiver is the method's own; in the allocator's
							// closure it is the captured receiver of the enclosing method
							if m.isRecvCollID(b) {
								okc = true
							}
							b.Fr = fr
							if m.isRecvCollID(b) {
								okc = true
							}
						}
					}
				}
				r.check(okc, rule, key, pos, "collections.lastCas := cas WHERE id = receiver id", "collection mark update is not keyed exactly by the receiver's id")
				haveColl = haveColl || okc
			}
		}
	}
	if !haveBucket {
		r.bad(rule, "mark / bucket", m.pos(clos.Pos()), "the allocator does not advance bucket.lastCas (the clock cannot be re-seeded after reopen)")
	}
	if !haveColl {
		r.bad(rule, "mark / collections", m.pos(clos.Pos()), "the allocator does not advance collections.lastCas (views cannot tell they are stale)")
	}
}

// markOutsideAllocator: a statement that persists a high-water mark with a CAS that does not come
// from the allocator (e.g. a caller-supplied CAS) must be monotone in SQL: lastCas = max(lastCas, ?).
func (m *Model) markOutsideAllocator(r *Results, rule string, s *SQLSite, via ssa.CallInstruction) {
	where := s.Fn
	pos := m.instrPos(s.Call)
	if via != nil {
		where = via.Parent()
		pos = m.instrPos(via)
	}
	for _, v := range s.Variants {
		st := v.Stmt()
		if st == nil || st.Kind != sqlp.SUpdate {
			continue
		}
		w := writeInfo(st)
		e, ok := w.Update["lastcas"]
		if !ok {
			continue
		}
		monotone := e.Kind == sqlp.EFunc && strings.EqualFold(e.Name, "max") && len(e.Args) == 2 && (isCol(e.Args[0], "lastCas") || isCol(e.Args[1], "lastCas"))
		r.check(monotone, rule, "mark outside the allocator / "+m.declName(where)+" / "+st.Shape(), pos, "a mark written with a CAS that is not the allocator's only ever raises it (max)", "the persisted high-water mark is overwritten, outside the CAS allocator, with a CAS that need not be the largest handed out: the mark can move backwards and a reopened bucket can hand out a CAS twice")
	}
}

// returnsWithoutCollectionsQuery: a return of g that may report success and that is reachable
// without passing a call that (transitively) reads the collections table; "" if there is none.
// A function that only forwards to another one is judged by that one.
func (m *Model) returnsWithoutCollectionsQuery(g *ssa.Function, depth int) string {
	queryFns := map[*ssa.Function]bool{}
	m.eachStmt(false, func(s *SQLSite, v *Variant, st *sqlp.Stmt) {
		if st.Kind != sqlp.SSelect {
			return
		}
		for _, t := range st.Tables() {
			if t == "collections" {
				queryFns[s.Fn] = true
			}
		}
	})
	var through []*ssa.BasicBlock
	var forwards []*ssa.Function
	m.eachCall(g, func(c ssa.CallInstruction) {
		f := c.Common().StaticCallee()
		if f == nil || !m.inPkg(f) {
			return
		}
		hit := queryFns[f]
		for h := range m.reachableLocal(f) {
			if queryFns[h] {
				hit = true
			}
		}
		if hit {
			through = append(through, c.Block())
			forwards = append(forwards, f)
		}
	})
	if queryFns[g] {
		for _, s := range m.Sites {
			if s.Fn == g {
				through = append(through, s.Call.Block())
			}
		}
	}
	c := newCut()
	for _, b := range through {
		c.cutBlock(b)
	}
	reach := entryReach(g, c)
	for _, ret := range returnsOf(g) {
		if reach[ret.Block().Index] && !m.returnFails(ret, 0) {
			return m.instrPos(ret)
		}
	}
	// a pure forwarder (`return bucket.getOrCreate(name, false)`): what it forwards to decides
	if len(g.Blocks) == 1 && len(forwards) == 1 && depth < 2 {
		return m.returnsWithoutCollectionsQuery(forwards[0], depth+1)
	}
	return ""
}
