package lint

import (
	"fmt"
	"go/ast"
	"go/constant"
	"go/token"
	"go/types"
	"strconv"
	"strings"

	"golang.org/x/tools/go/ssa"

	"rosmarlint/sqlp"
)

// ---------------------------------------------------------------- R-READ-ONCE

// A function that returns a document read (CAS / BucketDocument) outside a transaction must
// obtain it from ONE statement: two pool-handle SELECTs on documents can straddle a commit
// and return a body of one version with the xattrs (or CAS) of another.
func (m *Model) ruleREADONCE(r *Results) {
	const rule = "R-READ-ONCE"
	m.sitesHealthy(r, rule)
	pool := map[*ssa.Function]bool{}
	for _, f := range m.A.PoolFns {
		pool[f] = true
	}
	inTxn := m.inTxnExtent()
	n := 0
	for _, fn := range m.Funcs {
		if fn.Parent() != nil || fn.Pkg != m.SSA || !m.isReadFn(fn) {
			continue
		}
		if _, isIn := inTxn[fn]; isIn {
			// helpers that also run inside transactions are checked in their pool-calling callers
		}
		// does fn itself obtain the pool? (otherwise it is a handle-taking helper, atomic in its caller's context)
		obtainsPool := false
		for g := range m.reachableLocal(fn) {
			if g == m.A.TxnRunner {
				continue
			}
			m.eachCall(g, func(c ssa.CallInstruction) {
				if callee := c.Common().StaticCallee(); callee != nil && pool[callee] {
					obtainsPool = true
				}
			})
		}
		if !obtainsPool || m.reachesRunner(fn, map[*ssa.Function]int{}) {
			continue
		}
		// statements on documents reachable from fn (static calls), with the instruction in fn that leads to each
		type hit struct {
			in   ssa.Instruction
			site *SQLSite
		}
		var hits []hit
		for _, s := range m.Sites {
			if s.Method == "Exec" {
				continue
			}
			reads := false
			for _, v := range s.Variants {
				if st := v.Stmt(); st != nil && st.Kind == sqlp.SSelect {
					for _, t := range st.Tables() {
						if t == "documents" {
							reads = true
						}
					}
				}
			}
			if !reads {
				continue
			}
			if s.Fn == fn {
				hits = append(hits, hit{s.Call, s})
				continue
			}
			m.eachCall(fn, func(c ssa.CallInstruction) {
				if callee := c.Common().StaticCallee(); callee != nil && m.inPkg(callee) && m.reachableLocal(callee)[s.Fn] {
					hits = append(hits, hit{c, s})
				}
			})
		}
		if len(hits) == 0 {
			continue
		}
		n++
		key := m.declName(fn) + " / one statement per read"
		bad := ""
		for i := range hits {
			for j := range hits {
				if i == j {
					continue
				}
				a, b := hits[i], hits[j]
				if a.in == b.in && a.site == b.site {
					continue
				}
				if a.in == b.in || instrReachable(a.in, b.in, nil) {
					bad = fmt.Sprintf("%s and then %s", m.instrPos(a.site.Call), m.instrPos(b.site.Call))
				}
			}
		}
		r.check(bad == "", rule, key, m.pos(fn.Pos()), "the document is read by a single statement", "a read outside any transaction is assembled from two statements on documents ("+bad+"): a commit between them yields the body/CAS of one version with the xattrs of another, and a read-modify-write loop then stores a result computed from a version that never existed")
	}
	if n < 3 {
		r.undecided(rule, "instance-floor", "-", "only %d read functions found", n)
	}
}

// ---------------------------------------------------------------- R-POST-ORDER

// In the post function nothing that can block on a lock happens before the fan-out.
func (m *Model) rulePOSTORDER(r *Results) {
	const rule = "R-POST-ORDER"
	a := &m.A
	if a.PostFn == nil || a.FanoutFn == nil {
		r.undecided(rule, "anchors", "-", "post / fan-out unresolved")
		return
	}
	lm := m.locks()
	var fan ssa.CallInstruction
	m.eachCall(a.PostFn, func(c ssa.CallInstruction) {
		if c.Common().StaticCallee() == a.FanoutFn {
			fan = c
		}
	})
	if fan == nil {
		r.undecided(rule, "fan-out call", m.pos(a.PostFn.Pos()), "the post function does not call the fan-out")
		return
	}
	var blockers []string
	for _, e := range m.calleesOf(a.PostFn) {
		if e.Site == fan || e.IsGo || !instrReachable(e.Site, fan, nil) {
			continue
		}
		for l := range lm.acq[e.Callee] {
			blockers = append(blockers, fmt.Sprintf("%s (may take %s, %s)", m.declName(e.Callee), l, m.instrPos(e.Site)))
		}
	}
	r.check(len(blockers) == 0, rule, m.declName(a.PostFn)+" / enqueue first", m.instrPos(fan), "the event is enqueued before anything that can wait for a lock", "before enqueueing the event the post function calls "+strings.Join(uniq(blockers), ", ")+": while it waits there, later commits enqueue their events first, so feeds receive events out of CAS order")
}

// ---------------------------------------------------------------- R-FEEDMAP-WRITERS

// The only updates of a registry entry are the registration append (old entry + one new feed).
func (m *Model) ruleFEEDWRITERS(r *Results) {
	const rule = "R-FEEDMAP-WRITERS"
	a := &m.A
	if a.FeedsField == nil {
		r.undecided(rule, "anchors", "-", "feed registry unresolved")
		return
	}
	n := 0
	for _, fn := range m.Funcs {
		for _, b := range fn.Blocks {
			for _, ins := range b.Instrs {
				mu, ok := ins.(*ssa.MapUpdate)
				if !ok {
					continue
				}
				ld, ok := mu.Map.(*ssa.UnOp)
				if !ok {
					continue
				}
				fa, ok := ld.X.(*ssa.FieldAddr)
				if !ok || fieldOf(fa) != a.FeedsField {
					continue
				}
				n++
				// value must be append(<lookup of the same map>, <one element>)
				good := false
				if call, ok := stripConv(mu.Value).(*ssa.Call); ok && isBuiltinCall(call, "append") && len(call.Common().Args) == 2 {
					base := stripConv(call.Common().Args[0])
					if lk, ok := base.(*ssa.Lookup); ok {
						if l2, ok := lk.X.(*ssa.UnOp); ok {
							if fa2, ok := l2.X.(*ssa.FieldAddr); ok && fieldOf(fa2) == a.FeedsField {
								// appended slice: a fresh varargs pack of one element
								if sl, ok := call.Common().Args[1].(*ssa.Slice); ok {
									if vals, dyn := varargValues(sl); !dyn && len(vals) == 1 {
										good = true
									}
									// ... and the entry appended to is the one read in the same critical
									// section: an entry read under an earlier acquisition is stale, and writing
									// it back drops every feed registered in between
									if between := m.lockOpBetween(lk, mu); between != nil {
										r.bad(rule, m.declName(fn)+" / registry entry read and extended in one critical section", m.instrPos(mu), "the registry entry that is extended was read at %s, and the lock is released or taken (%s) before the extended entry is written back: a feed registered in between is dropped from the registry and never receives another event", m.instrPos(lk), m.instrPos(between))
									} else {
										r.ok(rule, m.declName(fn)+" / registry entry read and extended in one critical section", m.instrPos(mu), "no lock operation between the read of the entry and its update")
									}
								}
							}
						}
					}
				}
				r.check(good, rule, m.declName(fn)+" / registry entry update", m.instrPos(mu), "registration appends one feed to the collection's entry", "a feed-registry entry is rewritten by something other than appending one new feed (e.g. removing an element in place): the slice a concurrent fan-out is iterating shares its backing array, so events are skipped for one feed and delivered twice to another")
			}
		}
	}
	if n == 0 {
		r.undecided(rule, "registration", "-", "no update of the feed registry found")
	}
	// a feed is registered by the function that starts it, before its goroutine runs - never by the
	// goroutine itself (registering "when the consumer gets there" leaves every mutation that
	// commits in the meantime in neither the snapshot nor the live stream)
	if root, _ := m.feedRoot(); root != nil {
		bad := ""
		for g := range m.reachableLocal(root) {
			for _, b := range g.Blocks {
				for _, ins := range b.Instrs {
					if mu, ok := ins.(*ssa.MapUpdate); ok {
						if ld, ok := mu.Map.(*ssa.UnOp); ok {
							if fa, ok := ld.X.(*ssa.FieldAddr); ok && fieldOf(fa) == a.FeedsField {
								bad = m.instrPos(mu)
							}
						}
					}
				}
			}
		}
		pos := m.pos(root.Pos())
		if bad != "" {
			pos = bad
		}
		r.check(bad == "", rule, "<feed-goroutine> / does not register the feed", pos, "the feed's goroutine never writes the feed registry", "the feed is (also) registered for live events from its own goroutine, i.e. some time after the start function returned: mutations that commit before the consumer gets there are in neither the backfill snapshot nor the live stream")
	}
}

// ---------------------------------------------------------------- R-LOOPVAR

// goVersionBefore122 reads the language version from go.mod.
func (m *Model) goVersionBefore122() bool {
	if m.Pkg.Module == nil || m.Pkg.Module.GoVersion == "" {
		return true
	}
	parts := strings.Split(m.Pkg.Module.GoVersion, ".")
	if len(parts) < 2 {
		return true
	}
	maj, _ := strconv.Atoi(parts[0])
	min, _ := strconv.Atoi(parts[1])
	return maj < 1 || maj == 1 && min < 22
}

// With per-loop (pre-1.22) variable semantics, a goroutine or deferred closure started in a
// loop must not capture the loop variable: every instance sees the last value.
func (m *Model) ruleLOOPVAR(r *Results) {
	const rule = "R-LOOPVAR"
	if !m.goVersionBefore122() {
		r.ok(rule, "language version", "go.mod", "go >= 1.22: loop variables are per-iteration")
		return
	}
	n := 0
	for _, fn := range m.Funcs {
		for _, b := range fn.Blocks {
			for _, ins := range b.Instrs {
				g, ok := ins.(*ssa.Go)
				if !ok || !inCycle(b) {
					continue
				}
				mc, ok := g.Common().Value.(*ssa.MakeClosure)
				if !ok {
					continue
				}
				n++
				var captured []string
				for _, bnd := range mc.Bindings {
					al, ok := bnd.(*ssa.Alloc)
					if !ok {
						continue
					}
					// allocated outside the loop but assigned inside it: a loop-carried variable
					if inCycle(al.Block()) && reachableFrom(al.Block(), nil)[b.Index] && reachableFrom(b, nil)[al.Block().Index] {
						continue // allocated per iteration
					}
					storedInLoop := false
					for _, ref := range *al.Referrers() {
						if st, ok := ref.(*ssa.Store); ok && st.Addr == al && inCycle(st.Block()) && reachableFrom(st.Block(), nil)[b.Index] && reachableFrom(b, nil)[st.Block().Index] {
							storedInLoop = true
						}
					}
					if storedInLoop {
						captured = append(captured, al.Comment)
					}
				}
				r.check(len(captured) == 0, rule, m.declName(fn)+" / goroutine started in a loop", m.instrPos(g), "the goroutine captures only per-iteration variables", fmt.Sprintf("a goroutine started inside a loop captures the loop variable(s) %v by reference (go.mod declares go %s, i.e. one variable for the whole loop): every goroutine sees the last value", captured, m.goVersionString()))
			}
		}
	}
	r.ok(rule, "inventory", "-", "%d goroutine(s) started inside loops", n)
	// The address of the one loop variable is not kept past the iteration: put into a map, a
	// field of something older than the iteration or a channel, every entry would alias the
	// same variable and hold the last value.
	na := 0
	for _, fn := range m.Funcs {
		for _, b := range fn.Blocks {
			for _, ins := range b.Instrs {
				al, ok := ins.(*ssa.Alloc)
				if !ok || al.Referrers() == nil {
					continue
				}
				var loopStore *ssa.Store
				for _, ref := range *al.Referrers() {
					if st, ok := ref.(*ssa.Store); ok && st.Addr == al && inCycle(st.Block()) && !sameCycle(al.Block(), st.Block()) {
						loopStore = st
					}
				}
				if loopStore == nil {
					continue
				}
				sink := loopVarAddrKept(al, loopStore.Block())
				if sink == nil {
					continue
				}
				na++
				r.bad(rule, m.declName(fn)+" / address of a loop variable kept", m.instrPos(sink), "%s", fmt.Sprintf("the address of %s, which is one variable for the whole loop (go.mod declares go %s), is stored where it outlives the iteration: every entry ends up pointing at the last value", al.Comment, m.goVersionString()))
			}
		}
	}
	if na == 0 {
		r.ok(rule, "address of a loop variable kept", "-", "no loop-carried variable has its address stored into a map, an older object or a channel inside its loop")
	}
}

func sameCycle(a, b *ssa.BasicBlock) bool {
	if a == b {
		return inCycle(a)
	}
	return reachableFrom(a, nil)[b.Index] && reachableFrom(b, nil)[a.Index]
}

// loopVarAddrKept follows the address of al through interface conversions and the fields of
// per-iteration temporaries, and returns the instruction (inside the loop of `in`) that
// stores it into a map, into memory that is older than the iteration, or sends it.
func loopVarAddrKept(al *ssa.Alloc, in *ssa.BasicBlock) ssa.Instruction {
	tainted := map[ssa.Value]bool{al: true}
	cells := map[*ssa.Alloc]bool{}
	rootAlloc := func(v ssa.Value) *ssa.Alloc {
		for i := 0; i < 8; i++ {
			switch x := v.(type) {
			case *ssa.FieldAddr:
				v = x.X
			case *ssa.IndexAddr:
				v = x.X
			case *ssa.Alloc:
				return x
			default:
				return nil
			}
		}
		return nil
	}
	fn := al.Parent()
	for changed, round := true, 0; changed && round < 6; round++ {
		changed = false
		for _, b := range fn.Blocks {
			if !sameCycle(b, in) {
				continue
			}
			for _, ins := range b.Instrs {
				switch x := ins.(type) {
				case *ssa.MakeInterface:
					if tainted[x.X] && !tainted[x] {
						tainted[x], changed = true, true
					}
				case *ssa.ChangeInterface:
					if tainted[x.X] && !tainted[x] {
						tainted[x], changed = true, true
					}
				case *ssa.ChangeType:
					if tainted[x.X] && !tainted[x] {
						tainted[x], changed = true, true
					}
				case *ssa.Phi:
					for _, e := range x.Edges {
						if tainted[e] && !tainted[x] {
							tainted[x], changed = true, true
						}
					}
				case *ssa.UnOp:
					if x.Op == token.MUL {
						if ra := rootAlloc(x.X); ra != nil && cells[ra] && !tainted[x] {
							if _, isStruct := x.Type().Underlying().(*types.Struct); isStruct {
								tainted[x], changed = true, true
							}
						}
					}
				case *ssa.Store:
					if !tainted[x.Val] {
						continue
					}
					ra := rootAlloc(x.Addr)
					if ra != nil && ra != al && sameCycle(ra.Block(), in) {
						if _, isStruct := ra.Type().Underlying().(*types.Pointer).Elem().Underlying().(*types.Struct); isStruct && !cells[ra] {
							cells[ra], changed = true, true
						}
						continue
					}
					if ra != nil && ra != al {
						// a variable declared before the loop
						if _, isStruct := ra.Type().Underlying().(*types.Pointer).Elem().Underlying().(*types.Struct); isStruct || x.Addr == ssa.Value(ra) {
							return x
						}
						continue
					}
					if ra == nil {
						return x
					}
				case *ssa.MapUpdate:
					if tainted[x.Value] || tainted[x.Key] {
						return x
					}
				case *ssa.Send:
					if tainted[x.X] {
						return x
					}
				}
			}
		}
	}
	return nil
}

// ---------------------------------------------------------------- R-FEED-START

// Every feed that is started is either registered for live events or given its end marker.
func (m *Model) ruleFEEDSTART(r *Results) {
	const rule = "R-FEED-START"
	a := &m.A
	loopFn, _ := m.feedRoot()
	if loopFn == nil || a.FeedsField == nil {
		r.undecided(rule, "anchors", "-", "feed loop / registry unresolved")
		return
	}
	n := 0
	for _, fn := range m.Funcs {
		if fn.Parent() != nil {
			continue
		}
		var goRun ssa.CallInstruction
		m.eachCall(fn, func(c ssa.CallInstruction) {
			if _, isGo := c.(*ssa.Go); isGo {
				for _, t := range m.funcTargets(c.Common().Value) {
					if t == loopFn {
						goRun = c
					}
				}
				if c.Common().StaticCallee() == loopFn {
					goRun = c
				}
			}
		})
		if goRun == nil {
			continue
		}
		n++
		// blocks that register the feed or push the nil end marker (directly or through a helper)
		c := newCut()
		registersOrEnds := func(f *ssa.Function, ins ssa.Instruction) bool {
			if mu, ok := ins.(*ssa.MapUpdate); ok {
				if ld, ok := mu.Map.(*ssa.UnOp); ok {
					if fa, ok := ld.X.(*ssa.FieldAddr); ok && fieldOf(fa) == a.FeedsField {
						return true
					}
				}
			}
			if call, ok := ins.(ssa.CallInstruction); ok {
				if callee := call.Common().StaticCallee(); callee != nil && m.isQueueMethod(callee, "push") {
					args := call.Common().Args
					if len(args) > 0 && isNilConst(stripConv(args[len(args)-1])) {
						return true
					}
				}
			}
			return false
		}
		for _, b := range fn.Blocks {
			for _, ins := range b.Instrs {
				if registersOrEnds(fn, ins) {
					c.cutBlock(b)
				}
				if call, ok := ins.(ssa.CallInstruction); ok {
					// a closure handed to a higher-order helper that runs it (a lock helper): as if called here
					for _, e := range m.calleesOf(fn) {
						if e.Site != call || !e.Lexical || e.IsGo {
							continue
						}
						g := e.Callee
						for _, gb := range g.Blocks {
							for _, gi := range gb.Instrs {
								if registersOrEnds(g, gi) {
									uncond := gb == g.Blocks[0]
									if !uncond {
										uncond = true
										for _, ret := range returnsOf(g) {
											if !(gb == ret.Block() || gb.Dominates(ret.Block())) {
												uncond = false
											}
										}
									}
									if uncond {
										c.cutBlock(b)
									}
								}
							}
						}
					}
					if callee := call.Common().StaticCallee(); callee != nil && m.inPkg(callee) && callee != loopFn {
						if _, isGo := call.(*ssa.Go); isGo {
							continue
						}
						for g := range m.reachableLocal(callee) {
							for _, gb := range g.Blocks {
								for _, gi := range gb.Instrs {
									if registersOrEnds(g, gi) {
										// only if unconditional in the helper
										if gb == g.Blocks[0] || func() bool {
											for _, ret := range returnsOf(g) {
												if !(gb == ret.Block() || gb.Dominates(ret.Block())) {
													return false
												}
											}
											return true
										}() {
											c.cutBlock(b)
										}
									}
								}
							}
						}
					}
				}
			}
		}
		r.check(!entryReach(fn, c)[goRun.Block().Index], rule, m.declName(fn)+" / started feed can end", m.instrPos(goRun), "on every path a started feed is either registered for live events or has its end marker queued", "a feed's goroutine can be started without the feed being registered for live events and without an end marker in its queue: it blocks forever, its done channel never closes, and shutdown cannot reach it")
	}
	if n == 0 {
		r.undecided(rule, "feed start", "-", "no function starts the feed loop in a goroutine")
	}
}

// ---------------------------------------------------------------- R-TIMER

// The expiry manager keeps a single pending timer: a new one is created only when none is held.
func (m *Model) ruleTIMER(r *Results) {
	const rule = "R-TIMER"
	n := 0
	for _, fn := range m.Funcs {
		m.eachCall(fn, func(c ssa.CallInstruction) {
			callee := c.Common().StaticCallee()
			if callee == nil || callee.Pkg == nil || callee.Pkg.Pkg.Path() != "time" || callee.Name() != "AfterFunc" {
				return
			}
			// stored into a *time.Timer field?
			var tf *types.Var
			if v := c.Value(); v != nil && v.Referrers() != nil {
				for _, ref := range *v.Referrers() {
					if st, ok := ref.(*ssa.Store); ok {
						if fa, ok := st.Addr.(*ssa.FieldAddr); ok {
							tf = fieldOf(fa)
						}
					}
				}
			}
			if tf == nil {
				return
			}
			n++
			guarded := false
			for _, ct := range controllingConds(fn, c.Block()) {
				cd := condOf(ct.If)
				eq, ok := cd.equalEdge()
				if !ok || !(isNilConst(cd.X) || isNilConst(cd.Y)) {
					continue
				}
				other := cd.X
				if isNilConst(cd.X) {
					other = cd.Y
				}
				if _, f, ok := fieldLoad(other); ok && f == tf {
					taken := ct.If.Block().Succs[0]
					if !ct.Branch {
						taken = ct.If.Block().Succs[1]
					}
					if taken == eq {
						guarded = true
					}
				}
			}
			r.check(guarded, rule, m.declName(fn)+" / new timer only when none is held", m.instrPos(c), "a timer is created only when the manager holds none (otherwise the held one is reset)", "a new timer is created although one may be pending: the old one is forgotten, stop() cannot cancel it, and it fires after the store has been shut down (a callback against a closed database)")
		})
	}
	if n == 0 {
		r.undecided(rule, "timer creation", "-", "no time.AfterFunc whose result is kept in a field")
	}
	// the shared timer is stopped only by the store's shutdown routine: a handle that is merely
	// closed must not stop the timer the other handles rely on
	if sh := m.A.ShutdownFn; sh != nil {
		ns := 0
		for _, fn := range m.Funcs {
			m.eachCall(fn, func(c ssa.CallInstruction) {
				callee := c.Common().StaticCallee()
				if callee == nil || callee.Pkg == nil || callee.Pkg.Pkg.Path() != "time" || callee.Name() != "Stop" || !isMethodCall(c.Common(), "time", "Timer", "Stop") {
					return
				}
				// the package function that contains the Stop (the manager's stop method), and who calls it
				stopFn := fn
				for stopFn.Parent() != nil {
					stopFn = stopFn.Parent()
				}
				for _, cl := range m.hybridCallersOf(stopFn) {
					ns++
					caller := cl.Site.Parent()
					for caller.Parent() != nil {
						caller = caller.Parent()
					}
					bad := m.escapesVia(caller, sh, map[*ssa.Function]bool{})
					who := caller
					if bad != nil {
						who = bad
					}
					r.check(bad == nil, rule, m.declName(who)+" / timer stopped only at store shutdown", m.instrPos(cl.Site), "the expiry timer is stopped from the shutdown routine", "the shared expiry timer is stopped from "+m.declName(who)+", outside the store's shutdown routine: closing one handle (or another operation) silences expiry for every other handle of the bucket")
				}
			})
		}
		if ns == 0 {
			r.undecided(rule, "timer stop", "-", "no caller of the function that stops the timer")
		}
	}
	// the open function arms the timer only after the bucket has been registered: a bucket that loses
	// the registration race is closed, and a timer armed on its private manager before that could
	// never be stopped (the shutdown routine only knows the registered object)
	if fn := m.A.OpenFn; fn != nil && m.A.CloneFn != nil {
		var open ssa.CallInstruction
		var regs, arms []ssa.CallInstruction
		// (static calls only: a bound method value handed to a constructor is not run by it)
		var armsTimerD func(f *ssa.Function, seen map[*ssa.Function]bool) bool
		armsTimerD = func(f *ssa.Function, seen map[*ssa.Function]bool) bool {
			if f == nil || seen[f] || !m.inPkg(f) {
				return false
			}
			seen[f] = true
			hit := false
			m.eachCall(f, func(c ssa.CallInstruction) {
				t := c.Common().StaticCallee()
				if t == nil || hit {
					return
				}
				if _, isGo := c.(*ssa.Go); isGo {
					return
				}
				if t.Pkg != nil && t.Pkg.Pkg.Path() == "time" && (t.Name() == "AfterFunc" || t.Name() == "Reset") {
					hit = true
					return
				}
				if armsTimerD(t, seen) {
					hit = true
				}
			})
			return hit
		}
		armsTimer := func(f *ssa.Function) bool { return armsTimerD(f, map[*ssa.Function]bool{}) }
		m.eachCall(fn, func(c ssa.CallInstruction) {
			f := c.Common().StaticCallee()
			if f == nil {
				return
			}
			if f.Pkg != nil && f.Pkg.Pkg.Path() == "database/sql" && f.Name() == "Open" {
				open = c
			}
			if !m.inPkg(f) || c.Parent() != fn {
				return
			}
			if m.reachableLocal(f)[m.A.CloneFn] {
				regs = append(regs, c)
			} else if armsTimer(f) {
				arms = append(arms, c)
			}
		})
		for _, ac := range arms {
			if open == nil || !(open.Block() == ac.Block() || open.Block().Dominates(ac.Block())) {
				continue
			}
			after := false
			for _, rg := range regs {
				// (the registration of the bucket opened here, not the cache lookup before the open)
				if !(open.Block() == rg.Block() && indexIn(open.Block(), open) < indexIn(rg.Block(), rg) || open.Block() != rg.Block() && open.Block().Dominates(rg.Block())) {
					continue
				}
				if rg.Block() == ac.Block() && indexIn(rg.Block(), rg) < indexIn(ac.Block(), ac) || rg.Block() != ac.Block() && rg.Block().Dominates(ac.Block()) {
					after = true
				}
			}
			r.check(after, rule, m.declName(fn)+" / timer armed only after registration", m.instrPos(ac), "the open function arms the expiry timer after the registration call", "the open function arms the expiry timer before the bucket is registered: when another opener wins the registration this bucket is closed, but the timer it armed on its own expiry manager keeps running and fires into a store that may already have been shut down and deleted")
		}
	}
	_ = token.ADD
}

// hybridCallersOf: the call edges (static, VTA-resolved, or lexical: a function value handed to a
// higher-order helper) whose callee is fn.
func (m *Model) hybridCallersOf(fn *ssa.Function) []callEdge {
	var out []callEdge
	for _, g := range m.Funcs {
		if strings.HasSuffix(g.Name(), "$bound") {
			continue
		}
		for _, e := range m.calleesOf(g) {
			if e.Callee == fn {
				out = append(out, e)
			}
		}
	}
	return out
}

// escapesVia: walking up the callers of f without passing through `through`, the first function
// that is an entry point (exported, or without callers). nil if every chain passes through it.
func (m *Model) escapesVia(f, through *ssa.Function, seen map[*ssa.Function]bool) *ssa.Function {
	if f == through || seen[f] {
		return nil
	}
	seen[f] = true
	if ast.IsExported(f.Name()) {
		return f
	}
	callers := m.hybridCallersOf(f)
	if len(callers) == 0 {
		return f
	}
	for _, cl := range callers {
		g := cl.Site.Parent()
		for g.Parent() != nil {
			g = g.Parent()
		}
		if bad := m.escapesVia(g, through, seen); bad != nil {
			return bad
		}
	}
	return nil
}

func (m *Model) goVersionString() string {
	if m.Pkg.Module == nil {
		return "<unknown>"
	}
	return m.Pkg.Module.GoVersion
}

// ---------------------------------------------------------------- R-TOMB-XATTRS

// A statement that tombstones a row (value = NULL) and binds xattrs from Go must not bind the
// row's xattrs as they were read: deleting keeps system xattrs only, so the value must have
// passed through a filter, except on paths on which the read xattrs are known to be empty.
func (m *Model) ruleTOMBXATTRS(r *Results) {
	const rule = "R-TOMB-XATTRS"
	m.sitesHealthy(r, rule)
	n := 0
	for _, dw := range m.docWrites() {
		if dw.W.Update == nil {
			continue
		}
		val, hasV := dw.W.Update["value"]
		x, hasX := dw.W.Update["xattrs"]
		if !hasV || !isNullLit(val) || !hasX || !isParam(x) {
			continue
		}
		site := dw.siteFor("xattrs")
		b, ok := site.bindingFor(x)
		if !ok || b.V == nil {
			continue
		}
		n++
		key := site.key(m, dw.Variant) + " / xattrs filtered"
		pos := m.instrPos(site.Call)
		F := site.Fn
		// does the bound value have an alternative that is the row's xattrs as read?
		e := m.newTermEval()
		fr := m.closureFrame(F)
		t := e.term(b.V, site.Call, fr)
		raw := false
		for _, alt := range t.alts() {
			if isScanOf(alt, "xattrs", false) {
				raw = true
			}
		}
		if !raw {
			r.ok(rule, key, pos, "the xattrs bound by the tombstoning statement are computed (%s), not the row's xattrs as read", t)
			continue
		}
		// the raw loads the bound value can come from
		var loads []*ssa.UnOp
		seen := map[ssa.Value]bool{}
		var walk func(v ssa.Value)
		walk = func(v ssa.Value) {
			v = stripConv(v)
			if seen[v] {
				return
			}
			seen[v] = true
			switch y := v.(type) {
			case *ssa.Phi:
				for _, ed := range y.Edges {
					walk(ed)
				}
			case *ssa.UnOp:
				if y.Op == token.MUL {
					loads = append(loads, y)
				}
			}
		}
		walk(b.V)
		bad := ""
		decided := false
		for _, ld := range loads {
			cell := ld.X
			// the scan that fills the cell from documents.xattrs, in this function
			var sc *scanCall
			for _, c := range m.scanCalls() {
				if c.Fn != F || c.Site == nil {
					continue
				}
				for i, d := range c.Dests {
					if d != cell {
						continue
					}
					for _, v := range c.Site.Variants {
						if st := v.Stmt(); st != nil && st.Select != nil && i < len(st.Select.Cols) && isCol(st.Select.Cols[i].Expr, "xattrs") {
							sc = c
						}
					}
				}
			}
			if sc == nil {
				continue
			}
			decided = true
			c := newCut()
			// stores to the cell overwrite the raw value
			for _, blk := range F.Blocks {
				for i, ins := range blk.Instrs {
					st, ok := ins.(*ssa.Store)
					if !ok || st.Addr != cell {
						continue
					}
					if blk == ld.Block() && indexIn(blk, ld) < i {
						continue // stored after the load
					}
					if blk == sc.Call.Block() && i < indexIn(blk, sc.Call) {
						continue // stored before the scan
					}
					c.cutBlock(blk)
				}
			}
			// edges on which the read xattrs are known to be empty
			isCellLoad := func(v ssa.Value) bool {
				l2, ok := stripConv(v).(*ssa.UnOp)
				return ok && l2.Op == token.MUL && l2.X == cell
			}
			for _, iff := range allIfs(F) {
				cd := condOf(iff)
				if cd.Y == nil {
					continue
				}
				lenOfCell := func(v ssa.Value) bool {
					call, ok := stripConv(v).(*ssa.Call)
					if !ok {
						return false
					}
					bi, ok := call.Common().Value.(*ssa.Builtin)
					return ok && bi.Name() == "len" && len(call.Common().Args) == 1 && isCellLoad(call.Common().Args[0])
				}
				switch {
				case lenOfCell(cd.X) && isZeroConst(cd.Y):
					switch cd.Op {
					case token.EQL, token.LEQ:
						c.cutEdge(iff.Block(), cd.succWhen(true))
					case token.NEQ, token.GTR:
						c.cutEdge(iff.Block(), cd.succWhen(false))
					}
				case isCellLoad(cd.X) && isNilConst(cd.Y) || isCellLoad(cd.Y) && isNilConst(cd.X):
					if eq, ok := cd.equalEdge(); ok {
						c.cutEdge(iff.Block(), eq)
					}
				}
			}
			if c.blocks[ld.Block().Index] {
				continue
			}
			if sc.Call.Block() == ld.Block() || reachableFromSuccs(sc.Call.Block(), c)[ld.Block().Index] {
				bad = "the row's xattrs, as read, can reach the statement unfiltered on a path on which they are not known to be empty"
			}
		}
		switch {
		case !decided:
			r.bad(rule, key, pos, "the tombstoning statement binds the row's xattrs as read (%s): user xattrs survive the deletion", t)
		case bad != "":
			r.bad(rule, key, pos, "%s: user xattrs survive the deletion", bad)
		default:
			r.ok(rule, key, pos, "the read xattrs reach the tombstoning statement only filtered, or on paths where they are empty")
		}
	}
	if n == 0 {
		r.undecided(rule, "instance-floor", "-", "no tombstoning statement binds xattrs from Go")
	}
	// The with-meta writer replaces the row: the xattrs it stores are the caller's, never what the
	// row had (a tombstone's system xattrs would otherwise survive a resurrection through it).
	if m.A.WithMetaFn != nil {
		e := m.newTermEval()
		for _, wu := range m.writeUnits(e) {
			if rootOf(wu.K) != m.A.WithMetaFn {
				continue
			}
			t := wu.Cols["xattrs"]
			if t.Kind != "bound" || t.Term == nil {
				continue
			}
			kept := false
			for _, alt := range t.Term.alts() {
				if isScanOf(alt, "xattrs", false) {
					kept = true
				}
			}
			r.check(!kept, rule, m.declName(wu.K)+" / "+wu.Stmt.Shape()+" / the with-meta writer stores the caller's xattrs", m.instrPos(wu.Site.Call), "the xattrs bound into the row are not the row's own xattrs as read", "the with-meta writer can store the xattrs it read from the row ("+t.String()+"): writing a body over a tombstone through it then yields a live document that still carries the tombstone's xattrs")
		}
	}
}

// ---------------------------------------------------------------- R-ERR-OVERWRITE

// An error stored into a variable (a captured or address-taken cell) must be examined or used
// before the variable is assigned again: otherwise a failure reported by an earlier step (an
// earlier loop iteration) is silently replaced by the outcome of a later one.
func (m *Model) ruleERROVERWRITE(r *Results) {
	const rule = "R-ERR-OVERWRITE"
	errT := types.Universe.Lookup("error").Type()
	n := 0
	for _, fn := range m.Funcs {
		if !m.inPkg(fn) || len(fn.Blocks) == 0 {
			continue
		}
		// stores of error values into cells, by cell
		byCell := map[ssa.Value][]*ssa.Store{}
		for _, b := range fn.Blocks {
			for _, ins := range b.Instrs {
				st, ok := ins.(*ssa.Store)
				if !ok || !types.Identical(st.Val.Type(), errT) {
					continue
				}
				switch st.Addr.(type) {
				case *ssa.Alloc, *ssa.FreeVar:
					byCell[st.Addr] = append(byCell[st.Addr], st)
				}
			}
		}
		for cell, stores := range byCell {
			isLoad := func(v ssa.Value) bool {
				ld, ok := stripConv(v).(*ssa.UnOp)
				return ok && ld.Op == token.MUL && ld.X == cell
			}
			// a "use" of the error: any referrer of a load of the cell that is not a comparison with nil
			usesAt := map[*ssa.BasicBlock][]int{} // instruction indexes of uses, per block
			noteUse := func(in ssa.Instruction) {
				usesAt[in.Block()] = append(usesAt[in.Block()], indexIn(in.Block(), in))
			}
			for _, b := range fn.Blocks {
				for _, ins := range b.Instrs {
					ld, ok := ins.(*ssa.UnOp)
					if !ok || ld.Op != token.MUL || ld.X != cell || ld.Referrers() == nil {
						continue
					}
					for _, ref := range *ld.Referrers() {
						if bo, ok := ref.(*ssa.BinOp); ok && (bo.Op == token.EQL || bo.Op == token.NEQ) && (isNilConst(bo.X) || isNilConst(bo.Y)) {
							continue
						}
						if _, ok := ref.(*ssa.DebugRef); ok {
							continue
						}
						noteUse(ref)
					}
				}
			}
			for _, st := range stores {
				if isNilConst(st.Val) {
					continue
				}
				// only values that can be a fresh failure: results of calls
				v := stripConv(st.Val)
				if ex, ok := v.(*ssa.Extract); ok {
					v = ex.Tuple
				}
				if _, isCall := v.(*ssa.Call); !isCall {
					continue
				}
				n++
				c := newCut()
				for _, iff := range allIfs(fn) {
					cd := condOf(iff)
					eq, ok := cd.equalEdge()
					if !ok {
						continue
					}
					if isNilConst(cd.Y) && (isLoad(cd.X) || stripConv(cd.X) == stripConv(st.Val)) || isNilConst(cd.X) && (isLoad(cd.Y) || stripConv(cd.Y) == stripConv(st.Val)) {
						c.cutEdge(iff.Block(), eq)
					}
				}
				// a sibling result of the same call that implies "no error": `x, retry, err := once()` where
				// the callee returns retry == true only together with a nil error
				if ex, ok := stripConv(st.Val).(*ssa.Extract); ok {
					if call, ok := ex.Tuple.(*ssa.Call); ok {
						if h := call.Common().StaticCallee(); h != nil && m.inPkg(h) && len(h.Blocks) > 0 {
							for _, iff := range allIfs(fn) {
								cd := condOf(iff)
								if cd.Op != token.ILLEGAL || cd.X == nil {
									continue
								}
								bv := stripConv(cd.X)
								if ld, ok := bv.(*ssa.UnOp); ok && ld.Op == token.MUL {
									// the bool was stored into a variable first
									if al, ok := ld.X.(*ssa.Alloc); ok {
										for _, s2 := range cellStores(al) {
											if e2, ok := stripConv(s2.Val).(*ssa.Extract); ok && e2.Tuple == ssa.Value(call) {
												bv = e2
											}
										}
									}
								}
								bex, ok := bv.(*ssa.Extract)
								if !ok || bex.Tuple != ssa.Value(call) || bex.Index == ex.Index {
									continue
								}
								// does result[bex.Index] == true imply result[ex.Index] == nil in the callee?
								implies := true
								for _, ret := range returnsOf(h) {
									if bex.Index >= len(ret.Results) || ex.Index >= len(ret.Results) {
										implies = false
										continue
									}
									if k, ok := stripConv(ret.Results[bex.Index]).(*ssa.Const); ok && k.Value != nil && !constant.BoolVal(k.Value) {
										continue // returns false: says nothing
									}
									if !isNilConst(ret.Results[ex.Index]) {
										implies = false
									}
								}
								if implies {
									c.cutEdge(iff.Block(), cd.succWhen(true))
								}
							}
						}
					}
				}
				// direct uses of the stored value also count
				if refs := st.Val.Referrers(); refs != nil {
					for _, ref := range *refs {
						if ref == ssa.Instruction(st) {
							continue
						}
						if bo, ok := ref.(*ssa.BinOp); ok && (bo.Op == token.EQL || bo.Op == token.NEQ) {
							continue
						}
						if _, ok := ref.(*ssa.DebugRef); ok {
							continue
						}
						if _, ok := ref.(*ssa.Extract); ok {
							continue
						}
						noteUse(ref)
					}
				}
				// walk: from just after st, can another store to the cell be reached with the error unexamined?
				var hit *ssa.Store
				scan := func(b *ssa.BasicBlock, from int) (stop bool) {
					for i := from; i < len(b.Instrs); i++ {
						for _, u := range usesAt[b] {
							if u == i {
								return true
							}
						}
						if s2, ok := b.Instrs[i].(*ssa.Store); ok && s2.Addr == cell {
							hit = s2
							return true
						}
						if _, ok := b.Instrs[i].(*ssa.Return); ok {
							return true
						}
					}
					return false
				}
				seen := map[int]bool{}
				// (a block that only joins the operands of && / || and branches on the result is entered
				// with a known outcome from a predecessor that contributes a constant: follow only that edge)
				var visit func(b *ssa.BasicBlock, from int, via *ssa.BasicBlock)
				visit = func(b *ssa.BasicBlock, from int, via *ssa.BasicBlock) {
					if hit != nil || scan(b, from) {
						return
					}
					var forced *ssa.BasicBlock
					if via != nil {
						for i, p := range b.Preds {
							if p == via {
								if f, ok := constBoolOutcome(b, i); ok {
									forced = f
								}
							}
						}
					}
					for _, s := range b.Succs {
						if forced != nil && s != forced {
							continue
						}
						if c.edges[edge{b.Index, s.Index}] || (seen[s.Index] && forced == nil) {
							continue
						}
						seen[s.Index] = true
						visit(s, 0, b)
					}
				}
				visit(st.Block(), indexIn(st.Block(), st)+1, nil)
				key := fmt.Sprintf("%s / error stored in %s", m.declName(fn), cellName(cell))
				if hit != nil {
					r.bad(rule, key, m.instrPos(st), "the error stored here can be overwritten (at %s) before it has been examined or used: a failure of this step is silently replaced by the outcome of a later one", m.instrPos(hit))
				} else {
					r.ok(rule, key, m.instrPos(st), "the stored error is examined or used before the variable is assigned again")
				}
			}
		}
	}
	if n < 10 {
		r.undecided(rule, "instance-floor", "-", "only %d error stores found", n)
	}
}

func cellName(v ssa.Value) string {
	switch x := v.(type) {
	case *ssa.Alloc:
		if x.Comment != "" {
			return x.Comment
		}
	case *ssa.FreeVar:
		return x.Name()
	}
	return v.Name()
}

// ---------------------------------------------------------------- R-OPTS-CARRY

// A function that receives an options struct by pointer and hands an options struct of the same
// type on to the function that does the work must hand on the caller's options: the same
// pointer, or a copy that carries every field. A fresh struct with only some fields set silently
// drops the others (e.g. PreserveExpiry).
func (m *Model) ruleOPTSCARRY(r *Results) {
	const rule = "R-OPTS-CARRY"
	n := 0
	for _, fn := range m.Funcs {
		if !m.inPkg(fn) || fn.Parent() != nil || len(fn.Blocks) == 0 {
			continue
		}
		for _, P := range fn.Params {
			pt, ok := P.Type().(*types.Pointer)
			if !ok {
				continue
			}
			named, ok := pt.Elem().(*types.Named)
			if !ok || !strings.HasSuffix(named.Obj().Name(), "Options") {
				continue
			}
			stT, ok := named.Underlying().(*types.Struct)
			if !ok {
				continue
			}
			m.eachCall(fn, func(c ssa.CallInstruction) {
				callee := c.Common().StaticCallee()
				if callee == nil || !m.inPkg(callee) {
					return
				}
				for _, arg := range c.Common().Args {
					if !types.Identical(arg.Type(), P.Type()) {
						continue
					}
					n++
					key := fmt.Sprintf("%s / %s handed to %s", m.declName(fn), P.Name(), m.declName(callee))
					var problems []string
					seen := map[ssa.Value]bool{}
					var leaf func(v ssa.Value)
					leaf = func(v ssa.Value) {
						v = stripConv(v)
						if seen[v] {
							return
						}
						seen[v] = true
						switch x := v.(type) {
						case *ssa.Parameter:
							if x != P {
								problems = append(problems, "a different parameter is passed")
							}
						case *ssa.Phi:
							for _, e := range x.Edges {
								leaf(e)
							}
						case *ssa.Const:
							if x.Value == nil {
								problems = append(problems, "nil is passed instead of the caller's options")
							}
						case *ssa.Alloc:
							// whole-struct copy from *P, or every field copied from P's field
							whole := false
							copied := map[int]bool{}
							for _, ref := range *x.Referrers() {
								switch y := ref.(type) {
								case *ssa.Store:
									if y.Addr == ssa.Value(x) {
										if ld, ok := stripConv(y.Val).(*ssa.UnOp); ok && ld.Op == token.MUL && stripConv(ld.X) == ssa.Value(P) {
											whole = true
										}
									}
								case *ssa.FieldAddr:
									for _, r2 := range *y.Referrers() {
										if st, ok := r2.(*ssa.Store); ok && st.Addr == ssa.Value(y) && m.derivesFromParamField(st.Val, P, y.Field, 0) {
											copied[y.Field] = true
										}
									}
								}
							}
							if !whole {
								var missing []string
								for i := 0; i < stT.NumFields(); i++ {
									if !copied[i] {
										missing = append(missing, stT.Field(i).Name())
									}
								}
								if len(missing) > 0 {
									problems = append(problems, "a fresh "+named.Obj().Name()+" is passed that does not carry the caller's "+strings.Join(missing, ", "))
								}
							}
						case *ssa.UnOp:
							if x.Op == token.MUL {
								if al, ok := x.X.(*ssa.Alloc); ok {
									for _, ref := range *al.Referrers() {
										if st, ok := ref.(*ssa.Store); ok && st.Addr == ssa.Value(al) {
											leaf(st.Val)
										}
									}
									return
								}
							}
							problems = append(problems, "the options passed cannot be traced to the caller's")
						default:
							problems = append(problems, "the options passed cannot be traced to the caller's")
						}
					}
					leaf(arg)
					if len(problems) == 0 {
						r.ok(rule, key, m.instrPos(c), "the caller's options are handed on (same pointer or complete copy)")
					} else {
						r.bad(rule, key, m.instrPos(c), "%s: options the caller set are ignored by the write", strings.Join(uniq(problems), "; "))
					}
				}
			})
		}
	}
	if n < 5 {
		r.undecided(rule, "instance-floor", "-", "only %d forwarded options arguments found", n)
	}
	// What an update callback hands back as a struct (body, xattrs to set, xattrs to delete) is
	// what the write-back is given: the slices and maps among the write-back's arguments are
	// fields of the callback's result, not something computed from them in between.
	for _, lp := range m.rmwLoops() {
		fn := lp.Fn
		var cbRes ssa.Value
		m.eachCall(fn, func(c ssa.CallInstruction) {
			call, ok := c.(*ssa.Call)
			if !ok || c.Common().StaticCallee() != nil || c.Common().IsInvoke() || call.Referrers() == nil {
				return
			}
			if _, isBuiltin := c.Common().Value.(*ssa.Builtin); isBuiltin {
				return
			}
			for _, ref := range *call.Referrers() {
				if ex, ok := ref.(*ssa.Extract); ok {
					if _, isStruct := ex.Type().Underlying().(*types.Struct); isStruct {
						cbRes = ex
					}
				}
			}
		})
		if cbRes == nil {
			continue
		}
		isCbField := func(v ssa.Value) bool {
			v = stripConv(v)
			if f, ok := v.(*ssa.Field); ok {
				return stripConv(f.X) == cbRes
			}
			if ld, ok := v.(*ssa.UnOp); ok && ld.Op == token.MUL {
				if fa, ok := ld.X.(*ssa.FieldAddr); ok {
					if al, ok := fa.X.(*ssa.Alloc); ok {
						for _, st := range cellStores(al) {
							if stripConv(st.Val) == cbRes {
								return true
							}
						}
					}
				}
			}
			return false
		}
		for _, w := range lp.Writes {
			site := w
			if v, ok := lp.Via[w]; ok {
				site = v
			}
			if site.Parent() != fn {
				continue
			}
			usesCb, bad := false, ""
			for _, a := range site.Common().Args {
				switch a.Type().Underlying().(type) {
				case *types.Slice, *types.Map:
				default:
					continue
				}
				seen := map[ssa.Value]bool{}
				var leaf func(v ssa.Value)
				leaf = func(v ssa.Value) {
					v = stripConv(v)
					if seen[v] {
						return
					}
					seen[v] = true
					switch x := v.(type) {
					case *ssa.Phi:
						for _, e := range x.Edges {
							leaf(e)
						}
					case *ssa.Const:
					case *ssa.Call:
						// a helper that is handed a field of the callback's result and returns the same kind of value
						for _, ca := range x.Common().Args {
							if isCbField(ca) && types.Identical(ca.Type(), x.Type()) {
								bad = m.instrPos(x)
							}
						}
					default:
						if isCbField(v) {
							usesCb = true
						}
					}
				}
				leaf(a)
			}
			if usesCb || bad != "" {
				callee := "?"
				if f := site.Common().StaticCallee(); f != nil {
					callee = f.Name()
				}
				r.check(bad == "", rule, m.declName(fn)+" / the callback's result reaches "+callee+" unchanged", m.instrPos(site), "the slices and maps handed to the write-back are fields of the callback's result", "a slice or map field of the callback's result is passed through a helper (at "+bad+") before it is handed to the write-back: what the callback asked for (e.g. the xattrs to delete) can be narrowed, and the call then reports success for a mutation that was applied in part")
			}
		}
	}
	// Nobody but the caller asks for the stored expiry to be kept: the package never sets a
	// preserve-expiry option on its own (it only copies the caller's).
	bad := ""
	for _, fn := range m.Funcs {
		for _, b := range fn.Blocks {
			for _, ins := range b.Instrs {
				st, ok := ins.(*ssa.Store)
				if !ok {
					continue
				}
				fa, ok := st.Addr.(*ssa.FieldAddr)
				if !ok || fieldOf(fa) == nil || fieldOf(fa).Name() != "PreserveExpiry" {
					continue
				}
				if c, ok := st.Val.(*ssa.Const); ok && c.Value != nil && !constant.BoolVal(c.Value) {
					continue
				}
				if _, g, ok := fieldLoad(stripConv(st.Val)); ok && g.Name() == "PreserveExpiry" {
					continue
				}
				bad = m.instrPos(st)
			}
		}
	}
	r.check(bad == "", rule, "preserve-expiry is only ever the caller's choice", "-", "no options struct gets PreserveExpiry from anything but another options struct's PreserveExpiry", "an options struct is given PreserveExpiry by the package itself at "+bad+": the write then keeps the stored expiry although the caller passed one to be set")
}

// derivesFromParamField: v is computed from field `field` of *P (possibly through calls such as append).
func (m *Model) derivesFromParamField(v ssa.Value, P *ssa.Parameter, field int, depth int) bool {
	if depth > 6 {
		return false
	}
	v = stripConv(v)
	switch x := v.(type) {
	case *ssa.UnOp:
		if x.Op == token.MUL {
			if fa, ok := x.X.(*ssa.FieldAddr); ok && fa.Field == field && stripConv(fa.X) == ssa.Value(P) {
				return true
			}
			// a load of a field of the fresh struct itself that was earlier copied (x.f = append(x.f, ..))
			if fa, ok := x.X.(*ssa.FieldAddr); ok && fa.Field == field {
				for _, ref := range *fa.X.Referrers() {
					if fa2, ok := ref.(*ssa.FieldAddr); ok && fa2.Field == field {
						for _, r2 := range *fa2.Referrers() {
							if st, ok := r2.(*ssa.Store); ok && st.Addr == ssa.Value(fa2) && st.Val != ssa.Value(x) && !dependsOn(st.Val, x) && m.derivesFromParamField(st.Val, P, field, depth+1) {
								return true
							}
						}
					}
				}
			}
		}
	case *ssa.Call:
		for _, a := range x.Common().Args {
			if m.derivesFromParamField(a, P, field, depth+1) {
				return true
			}
		}
	case *ssa.Phi:
		for _, e := range x.Edges {
			if m.derivesFromParamField(e, P, field, depth+1) {
				return true
			}
		}
	case *ssa.Slice:
		return m.derivesFromParamField(x.X, P, field, depth+1)
	}
	return false
}

func dependsOn(v, on ssa.Value) bool {
	seen := map[ssa.Value]bool{}
	var rec func(v ssa.Value) bool
	rec = func(v ssa.Value) bool {
		if v == on {
			return true
		}
		if seen[v] {
			return false
		}
		seen[v] = true
		if in, ok := v.(ssa.Instruction); ok {
			for _, op := range in.Operands(nil) {
				if *op != nil && rec(*op) {
					return true
				}
			}
		}
		return false
	}
	return rec(v)
}

// ---------------------------------------------------------------- R-BACKFILL-COND

// Whether the snapshot is taken depends only on what the caller asked for: every branch that
// controls a call on the path from a feed-start function down to the backfill statement is an
// error test or a test of the feed arguments. A condition on stored state (a persisted mark, a
// feed field, a query result) can skip the snapshot although documents at or above the start CAS exist.
func (m *Model) ruleBACKFILLCOND(r *Results) {
	const rule = "R-BACKFILL-COND"
	bs := m.backfillSites()
	if len(bs) != 1 {
		r.undecided(rule, "anchors", "-", "backfill statement unresolved")
		return
	}
	bfFn := bs[0].Fn
	errT := types.Universe.Lookup("error").Type()
	isArgsStruct := func(t types.Type) bool {
		if p, ok := t.(*types.Pointer); ok {
			t = p.Elem()
		}
		return isNamed(t, sgbucketPath, "FeedArguments")
	}
	// stateful: the value derives from a non-builtin call result or from a field of a struct other than the feed arguments
	var stateful func(v ssa.Value, depth int, seen map[ssa.Value]bool) (bool, string)
	stateful = func(v ssa.Value, depth int, seen map[ssa.Value]bool) (bool, string) {
		v = stripConv(v)
		if depth > 8 || seen[v] {
			return false, ""
		}
		seen[v] = true
		switch x := v.(type) {
		case *ssa.Const, *ssa.Parameter, *ssa.Global, *ssa.Lookup, *ssa.TypeAssert, *ssa.Alloc:
			return false, ""
		case *ssa.Extract:
			return stateful(x.Tuple, depth+1, seen)
		case *ssa.Call:
			if _, isB := x.Common().Value.(*ssa.Builtin); isB {
				for _, a := range x.Common().Args {
					if s, w := stateful(a, depth+1, seen); s {
						return s, w
					}
				}
				return false, ""
			}
			name := "a call"
			if f := x.Common().StaticCallee(); f != nil {
				name = "the result of " + f.Name()
			}
			return true, name
		case *ssa.Field:
			if isArgsStruct(x.X.Type()) {
				return false, ""
			}
			return stateful(x.X, depth+1, seen)
		case *ssa.UnOp:
			if x.Op == token.MUL {
				if fa, ok := x.X.(*ssa.FieldAddr); ok {
					if isArgsStruct(fa.X.Type()) {
						return false, ""
					}
					// a field of the arguments reached through the feed object (feed.args.X)
					if inner, ok := stripConv(fa.X).(*ssa.FieldAddr); ok && isArgsStruct(inner.Type()) {
						return false, ""
					}
					return true, "field " + fieldOf(fa).Name()
				}
				if al, ok := x.X.(*ssa.Alloc); ok {
					for _, ref := range *al.Referrers() {
						if st, ok := ref.(*ssa.Store); ok && st.Addr == ssa.Value(al) {
							if s, w := stateful(st.Val, depth+1, seen); s {
								return s, w
							}
						}
					}
				}
				return false, ""
			}
			return stateful(x.X, depth+1, seen)
		case *ssa.BinOp:
			if s, w := stateful(x.X, depth+1, seen); s {
				return s, w
			}
			return stateful(x.Y, depth+1, seen)
		case *ssa.Phi:
			for _, e := range x.Edges {
				if s, w := stateful(e, depth+1, seen); s {
					return s, w
				}
			}
		}
		return false, ""
	}
	n := 0
	visited := map[*ssa.Function]bool{}
	var up func(target *ssa.Function, depth int)
	up = func(target *ssa.Function, depth int) {
		if visited[target] || depth > 4 {
			return
		}
		visited[target] = true
		for _, c := range m.staticCallersOf(target) {
			if _, isGo := c.(*ssa.Go); isGo {
				continue
			}
			F := c.Parent()
			if !m.inPkg(F) {
				continue
			}
			n++
			key := fmt.Sprintf("%s / call of %s", m.declName(F), m.declName(target))
			var problems []string
			for _, ct := range controllingConds(F, c.Block()) {
				if cm := ct.If.Block().Comment; cm == "rangeindex.loop" || cm == "rangeiter.loop" {
					continue // iterating over the collections to start: not a decision about one snapshot
				}
				cd := condOf(ct.If)
				ops := []ssa.Value{cd.X}
				if cd.Y != nil {
					ops = append(ops, cd.Y)
				}
				isErrTest := false
				for _, o := range ops {
					if o != nil && types.Identical(o.Type(), errT) {
						isErrTest = true
					}
				}
				if isErrTest {
					continue
				}
				for _, o := range ops {
					if o == nil {
						continue
					}
					if s, w := stateful(o, 0, map[ssa.Value]bool{}); s {
						problems = append(problems, fmt.Sprintf("the call is taken only under a condition on %s (%s)", w, m.instrPos(ct.If)))
					}
				}
			}
			if len(problems) == 0 {
				r.ok(rule, key, m.instrPos(c), "controlled only by error tests and tests of the feed arguments")
			} else {
				r.bad(rule, key, m.instrPos(c), "%s: the snapshot can be skipped although documents at or above the start CAS exist", strings.Join(uniq(problems), "; "))
			}
			up(F, depth+1)
		}
	}
	up(bfFn, 0)
	if n == 0 {
		r.undecided(rule, "instance-floor", "-", "the backfill function is never called")
	}
}

// ---------------------------------------------------------------- R-VIEW-PARAMS

// Every query option the view engine honours today is still read by the view query path.
var viewParamsHonoured = []string{"MinKey", "MaxKey", "IncludeMinKey", "IncludeMaxKey", "Descending", "Limit", "IncludeDocs"}

func (m *Model) ruleVIEWPARAMS(r *Results) {
	const rule = "R-VIEW-PARAMS"
	var root *ssa.Function
	for _, fn := range m.Funcs {
		if fn.Parent() != nil || !m.inPkg(fn) {
			continue
		}
		has := false
		for _, p := range fn.Params {
			if isPtrToNamed(p.Type(), sgbucketPath, "ViewParams") {
				has = true
			}
		}
		if !has {
			continue
		}
		for _, s := range m.Sites {
			if m.reachableLocal(fn)[s.Fn] || s.Fn == fn {
				root = fn
			}
		}
	}
	if root == nil {
		r.undecided(rule, "anchors", "-", "no function takes *ViewParams and runs SQL")
		return
	}
	read := map[string]bool{}
	var visit func(f *ssa.Function)
	seenF := map[*ssa.Function]bool{}
	visit = func(f *ssa.Function) {
		if seenF[f] {
			return
		}
		seenF[f] = true
		for _, b := range f.Blocks {
			for _, ins := range b.Instrs {
				switch x := ins.(type) {
				case *ssa.FieldAddr:
					if !isPtrToNamed(x.X.Type(), sgbucketPath, "ViewParams") || x.Referrers() == nil {
						continue
					}
					for _, ref := range *x.Referrers() {
						if st, ok := ref.(*ssa.Store); ok && st.Addr == ssa.Value(x) {
							continue // assignment only
						}
						if _, ok := ref.(*ssa.DebugRef); ok {
							continue
						}
						read[fieldOf(x).Name()] = true
					}
				case *ssa.Field:
					if isNamed(x.X.Type(), sgbucketPath, "ViewParams") {
						read[fieldOfField(x).Name()] = true
					}
				}
			}
		}
		for _, an := range f.AnonFuncs {
			visit(an)
		}
	}
	for f := range m.reachableLocal(root) {
		visit(f)
	}
	visit(root)
	for _, name := range viewParamsHonoured {
		r.check(read[name], rule, m.declName(root)+" / option "+name, m.pos(root.Pos()), "the option is read by the view query path", "the view query path no longer reads the option "+name+": queries that set it get rows as if it had its default")
	}
	// the options the library's post-processing honours (multiple keys, reduce, grouping) are
	// applied to every result: the call of the sg-bucket post-processor is on every path that
	// returns without an error
	for _, fn := range m.Funcs {
		if fn.Parent() != nil {
			continue
		}
		m.eachCall(fn, func(c ssa.CallInstruction) {
			g := c.Common().StaticCallee()
			if g == nil || g.Pkg == nil || g.Pkg.Pkg.Path() != sgbucketPath || !strings.HasPrefix(g.Name(), "Process") || g.Signature.Recv() == nil {
				return
			}
			cu := newCut()
			cu.cutBlock(c.Block())
			for _, iff := range allIfs(fn) {
				cd := condOf(iff)
				eq, ok := cd.equalEdge()
				if !ok || !(isNilConst(cd.X) || isNilConst(cd.Y)) {
					continue
				}
				other := cd.X
				if isNilConst(cd.X) {
					other = cd.Y
				}
				if !isErrorType(other.Type()) {
					continue
				}
				for _, sx := range iff.Block().Succs {
					if sx != eq {
						cu.cutEdge(iff.Block(), sx)
					}
				}
			}
			reach := entryReach(fn, cu)
			bad := ""
			for _, ret := range returnsOf(fn) {
				if reach[ret.Block().Index] && !m.mustBeFailureReturn(ret) {
					bad = m.instrPos(ret)
				}
			}
			r.check(bad == "", rule, m.declName(fn)+" / the result is post-processed on every path", m.instrPos(c), "every return without an error lies behind the call of "+g.Name(), "the view query can return (at "+bad+") without having handed the rows to "+g.Name()+", which is where multiple keys, reduce and grouping are applied: a query with `keys` then gets every row of the index")
		})
	}
}

// ---------------------------------------------------------------- R-OPEN-ERR

// The open function cleans up after a failure by deleting the bucket it was building. Once that
// bucket has been handed to the registry (where another opener's handle may already share the
// store) no return may carry an error any more: the cleanup would delete a store that is in use.
func (m *Model) ruleOPENERR(r *Results) {
	const rule = "R-OPEN-ERR"
	a := &m.A
	fn := a.OpenFn
	if fn == nil || a.CloneFn == nil {
		r.undecided(rule, "anchors", "-", "open function / handle copy unresolved")
		return
	}
	errT := types.Universe.Lookup("error").Type()
	var regs []ssa.CallInstruction
	m.eachCall(fn, func(c ssa.CallInstruction) {
		f := c.Common().StaticCallee()
		if f != nil && m.inPkg(f) && m.reachableLocal(f)[a.CloneFn] {
			// the registration of the bucket being built: it is handed the new bucket
			for _, arg := range c.Common().Args {
				if pt, ok := arg.Type().(*types.Pointer); ok && a.BucketType != nil && types.Identical(pt.Elem(), a.BucketType) {
					regs = append(regs, c)
					break
				}
			}
		}
	})
	// is there a deferred cleanup that deletes on error at all?
	deletes := false
	for _, an := range fn.AnonFuncs {
		for g := range m.reachableLocal(an) {
			if g == a.ShutdownFn {
				deletes = true
			}
		}
		m.eachCall(an, func(c ssa.CallInstruction) {
			if f := c.Common().StaticCallee(); f != nil && m.inPkg(f) && m.reachableLocal(f)[a.ShutdownFn] {
				deletes = true
			}
		})
	}
	m.openCleanupOnlyNew(r, rule, fn)
	// outside that cleanup the open function removes nothing: files it finds next to an existing
	// database (the write-ahead log of a process that was killed) are that database's state
	{
		bad := ""
		var visit func(g *ssa.Function, depth int)
		seenFn := map[*ssa.Function]bool{}
		visit = func(g *ssa.Function, depth int) {
			if seenFn[g] || depth > 3 {
				return
			}
			seenFn[g] = true
			m.eachCall(g, func(c ssa.CallInstruction) {
				if _, isDefer := c.(*ssa.Defer); isDefer {
					return
				}
				t := c.Common().StaticCallee()
				if t == nil {
					return
				}
				if t.Pkg != nil && t.Pkg.Pkg.Path() == "os" && (t.Name() == "Remove" || t.Name() == "RemoveAll") {
					bad = m.instrPos(c)
					return
				}
				// helpers that prepare the open (URL, directory, schema): not the registry / handle API
				if m.inPkg(t) && t.Signature.Recv() == nil && len(t.Blocks) > 0 {
					visit(t, depth+1)
				}
			})
		}
		visit(fn, 0)
		pos := m.pos(fn.Pos())
		if bad != "" {
			pos = bad
		}
		r.check(bad == "", rule, m.declName(fn)+" / opening removes no files", pos, "neither the open function nor the helpers that prepare the open call os.Remove / os.RemoveAll", "the open function (or a helper preparing the open) deletes files: what lies next to an existing database - the write-ahead log left by a killed process - holds acknowledged commits, and removing it on open loses them")
	}
	if len(regs) == 0 {
		r.undecided(rule, m.declName(fn)+" / registration", m.pos(fn.Pos()), "the open function does not register the bucket")
		return
	}
	if !deletes {
		r.ok(rule, m.declName(fn)+" / no error after registration", m.pos(fn.Pos()), "the open function has no cleanup that shuts the store down on error")
		return
	}
	key := m.declName(fn) + " / no error after registration"
	var problems []string
	for _, ret := range returnsOf(fn) {
		afterReg := false
		for _, rg := range regs {
			if instrReachable(rg, ret, nil) {
				afterReg = true
			}
		}
		if !afterReg {
			continue
		}
		for _, res := range ret.Results {
			if !types.Identical(res.Type(), errT) || isNilConst(res) {
				continue
			}
			// a load of the error variable: which stores can reach this return with a non-nil value?
			ld, ok := stripConv(res).(*ssa.UnOp)
			if !ok || ld.Op != token.MUL {
				problems = append(problems, fmt.Sprintf("return at %s carries an error value the checker cannot bound", m.instrPos(ret)))
				continue
			}
			cell := ld.X
			c := newCut()
			for _, iff := range allIfs(fn) {
				cd := condOf(iff)
				eq, ok := cd.equalEdge()
				if !ok {
					continue
				}
				isCell := func(v ssa.Value) bool {
					l2, ok := stripConv(v).(*ssa.UnOp)
					return ok && l2.Op == token.MUL && l2.X == cell
				}
				if isNilConst(cd.Y) && isCell(cd.X) || isNilConst(cd.X) && isCell(cd.Y) {
					c.cutEdge(iff.Block(), eq)
				}
			}
			var stores []*ssa.Store
			for _, b := range fn.Blocks {
				for _, ins := range b.Instrs {
					if st, ok := ins.(*ssa.Store); ok && st.Addr == cell && !isNilConst(st.Val) {
						// `return x, err` re-stores the variable's own value into the named result: not a new definition
						if l2, ok := stripConv(st.Val).(*ssa.UnOp); ok && l2.Op == token.MUL && l2.X == cell {
							continue
						}
						stores = append(stores, st)
					}
				}
			}
			for _, st := range stores {
				c2 := newCut()
				for k := range c.edges {
					c2.edges[k] = true
				}
				for _, o := range stores {
					if o != st && o.Block() != st.Block() {
						c2.cutBlock(o.Block())
					}
				}
				if st.Block() == ret.Block() && indexIn(st.Block(), st) < indexIn(ret.Block(), ret) || reachableFromSuccs(st.Block(), c2)[ret.Block().Index] {
					problems = append(problems, fmt.Sprintf("the error stored at %s can be returned at %s, after the bucket was registered", m.instrPos(st), m.instrPos(ret)))
				}
			}
		}
	}
	if len(problems) == 0 {
		r.ok(rule, key, m.instrPos(regs[0]), "every return that follows the registration returns a nil error")
	} else {
		r.bad(rule, key, m.instrPos(regs[0]), "%s: the cleanup-on-error then shuts down and deletes a store that another handle may already be using", strings.Join(uniq(problems), "; "))
	}
}

// deletesFiles: f (transitively, package-local) removes files.
func (m *Model) deletesFiles(f *ssa.Function) bool {
	for g := range m.reachableLocal(f) {
		found := false
		m.eachCall(g, func(c ssa.CallInstruction) {
			if t := c.Common().StaticCallee(); t != nil && t.Pkg != nil && t.Pkg.Pkg.Path() == "os" && (t.Name() == "RemoveAll" || t.Name() == "Remove") {
				found = true
			}
		})
		if found {
			return true
		}
	}
	return false
}

// openCleanupOnlyNew: a cleanup of the open function that deletes the bucket's files runs only
// when the database was created by this very call (schema version 0), never for a bucket that
// existed before and merely failed to open.
func (m *Model) openCleanupOnlyNew(r *Results, rule string, fn *ssa.Function) {
	// cells filled from PRAGMA user_version in the open function
	versCells := map[ssa.Value]bool{}
	var versScans []*scanCall
	for _, sc := range m.scanCalls() {
		if sc.Fn != fn || sc.Site == nil {
			continue
		}
		for _, v := range sc.Site.Variants {
			if st := v.Stmt(); st != nil && st.Kind == sqlp.SPragma && strings.EqualFold(st.PragmaName, "user_version") {
				for _, d := range sc.Dests {
					versCells[d] = true
				}
				versScans = append(versScans, sc)
			}
		}
	}
	// rawCellSound: a deferred function may take "the version cell is 0" for "the database is new"
	// only if it cannot run before the version was read successfully: with the success edges of
	// the read removed, no return of the open function is reachable (otherwise a failed read - the
	// first statement that touches the file - leaves the cell at its zero value)
	rawCellSound := func() bool {
		c := newCut()
		for _, sc := range versScans {
			errV := sc.Call.Value()
			if errV == nil {
				return false
			}
			for _, iff := range allIfs(fn) {
				cd := condOf(iff)
				eq, ok := cd.equalEdge()
				if !ok || !(isNilConst(cd.X) || isNilConst(cd.Y)) {
					continue
				}
				other := cd.X
				if isNilConst(cd.X) {
					other = cd.Y
				}
				rv, _ := m.resolve(other, topFrame(fn))
				if stripConv(other) == ssa.Value(errV) || stripConv(rv) == ssa.Value(errV) {
					c.cutEdge(iff.Block(), eq)
				}
			}
		}
		if len(c.edges) == 0 {
			return false
		}
		reach := entryReach(fn, c)
		for _, ret := range returnsOf(fn) {
			if reach[ret.Block().Index] {
				return false
			}
		}
		return true
	}
	cellOf := func(v ssa.Value, in *ssa.Function) ssa.Value {
		ld, ok := stripConv(v).(*ssa.UnOp)
		if !ok || ld.Op != token.MUL {
			return nil
		}
		switch c := ld.X.(type) {
		case *ssa.Alloc:
			return c
		case *ssa.FreeVar:
			b, _ := m.freeVarBinding(c, nil)
			return b
		}
		return nil
	}
	// isVersZero: the branch is taken exactly when the scanned schema version is 0
	versZeroTaken := func(ct ctrl, in *ssa.Function) bool {
		cd := condOf(ct.If)
		eq, ok := cd.equalEdge()
		if !ok {
			return false
		}
		var other ssa.Value
		switch {
		case isZeroConst(cd.Y):
			other = cd.X
		case isZeroConst(cd.X):
			other = cd.Y
		default:
			return false
		}
		if c := cellOf(other, in); c != nil && versCells[c] && in != fn && !rawCellSound() {
			return false
		} else if c == nil || !versCells[c] {
			// not the scanned cell itself: accept a value whose term is the schema version read through
			// a helper (PRAGMA user_version), as the term engine sees it
			te := m.newTermEval()
			t := te.term(other, ct.If, m.closureFrame(in))
			isVers := false
			for _, alt := range t.alts() {
				switch {
				case alt.Kind == "scan" && strings.Contains(alt.Col, "pragma:user_version"):
					isVers = true
				case isZeroTerm(alt):
				default:
					return false
				}
			}
			if !isVers {
				return false
			}
		}
		taken := ct.If.Block().Succs[1]
		if ct.Branch {
			taken = ct.If.Block().Succs[0]
		}
		return taken == eq
	}
	// isNewFlag: v is (a load of) a bool flag of the open function that is set only where the
	// schema version was found to be 0
	isNewFlag := func(v ssa.Value, in *ssa.Function) bool {
		flag := cellOf(v, in)
		al, ok := flag.(*ssa.Alloc)
		if !ok {
			return false
		}
		onlyUnderZero, anyTrue := true, false
		for _, st := range cellStores(al) {
			if cst, ok := st.Val.(*ssa.Const); ok && cst.Value != nil && !constant.BoolVal(cst.Value) {
				continue
			}
			anyTrue = true
			under := false
			// `isNew = vers == 0`: the flag is assigned the comparison itself
			if pol, exact := versPred(m.newTermEval().term(st.Val, st, m.closureFrame(st.Parent()))); pol == 1 && exact {
				under = true
			}
			// `vers, isNew, err = bucket.openSchema(...)`: the flag is a helper's result that can be true
			// only on the helper's paths through "schema version == 0"
			{
				v := stripConv(st.Val)
				idx := 0
				if ex, ok := v.(*ssa.Extract); ok {
					v, idx = ex.Tuple, ex.Index
				}
				if call, ok := v.(*ssa.Call); ok {
					if h := call.Common().StaticCallee(); h != nil && m.inPkg(h) && len(h.Blocks) > 0 {
						hfr := m.closureFrame(st.Parent()).inline(call, h)
						c := m.versCutIn(h, hfr, true, false)
						reach := entryReach(h, c)
						okAll := len(c.edges) > 0
						for _, ret := range returnsOf(h) {
							if idx >= len(ret.Results) {
								okAll = false
								continue
							}
							var check func(rv ssa.Value, blk *ssa.BasicBlock, depth int)
							check = func(rv ssa.Value, blk *ssa.BasicBlock, depth int) {
								switch x := rv.(type) {
								case *ssa.Const:
									if x.Value != nil && constant.BoolVal(x.Value) && reach[blk.Index] {
										okAll = false
									}
								case *ssa.Phi:
									if depth > 3 {
										okAll = false
										return
									}
									for i, e := range x.Edges {
										check(e, x.Block().Preds[i], depth+1)
									}
								default:
									if reach[blk.Index] {
										okAll = false
									}
								}
							}
							check(ret.Results[idx], ret.Block(), 0)
						}
						if okAll {
							under = true
						}
					}
				}
			}
			for _, ct2 := range controllingConds(st.Parent(), st.Block()) {
				if versZeroTaken(ct2, st.Parent()) {
					under = true
				}
			}
			if !under {
				onlyUnderZero = false
			}
		}
		return anyTrue && onlyUnderZero
	}
	// guarded: the call (in function `in`) runs only when the database is new; isNew tells whether a
	// bare boolean value of `in` stands for "new"
	var guardedNew func(c ssa.CallInstruction, in *ssa.Function, isNew func(ssa.Value) bool) bool
	guardedNew = func(c ssa.CallInstruction, in *ssa.Function, isNew func(ssa.Value) bool) bool {
		for _, ct := range controllingConds(in, c.Block()) {
			if versZeroTaken(ct, in) {
				return true
			}
			cd := condOf(ct.If)
			if cd.Op != token.ILLEGAL || cd.X == nil {
				continue
			}
			if ct.Branch == cd.Neg {
				continue // taken when the flag is false
			}
			if isNew(cd.X) {
				return true
			}
		}
		return false
	}
	n := 0
	var visitCleanup func(in *ssa.Function, isNew func(ssa.Value) bool, depth int)
	visitCleanup = func(in *ssa.Function, isNew func(ssa.Value) bool, depth int) {
		m.eachCall(in, func(c ssa.CallInstruction) {
			callee := c.Common().StaticCallee()
			if callee == nil || !m.inPkg(callee) || !m.deletesFilesVia(c, nil, 0) {
				return
			}
			if guardedNew(c, in, isNew) {
				n++
				r.ok(rule, m.declName(fn)+" / cleanup deletes only a bucket created by this call", m.instrPos(c), "the deleting cleanup runs only when the schema version read by this call was 0 (the database did not exist before)")
				return
			}
			// a cleanup helper that is handed the "new" flag and decides itself
			if depth < 2 && len(callee.Blocks) > 0 {
				newParams := map[*ssa.Parameter]bool{}
				for i, a := range c.Common().Args {
					if i < len(callee.Params) && isNew(a) {
						newParams[callee.Params[i]] = true
					}
				}
				if len(newParams) > 0 {
					visitCleanup(callee, func(v ssa.Value) bool {
						p, ok := stripConv(v).(*ssa.Parameter)
						return ok && newParams[p]
					}, depth+1)
					return
				}
			}
			n++
			r.bad(rule, m.declName(fn)+" / cleanup deletes only a bucket created by this call", m.instrPos(c), "the open function's cleanup-on-error deletes the bucket's files whether or not the bucket existed before this call: a failed open of an existing bucket (e.g. database locked by another process) destroys its data")
		})
	}
	for _, an := range fn.AnonFuncs {
		an := an
		visitCleanup(an, func(v ssa.Value) bool { return isNewFlag(v, an) }, 0)
	}
	if n == 0 {
		r.ok(rule, m.declName(fn)+" / cleanup deletes only a bucket created by this call", m.pos(fn.Pos()), "the open function has no deferred cleanup that deletes files")
	}
}

// ---------------------------------------------------------------- R-FRESH-DECODE

// json.Unmarshal into a non-nil map keeps the entries that are already there. A map that is
// decoded into inside a loop must therefore be a fresh variable in each iteration (or a variable
// declared in the loop body); hoisting it out of the loop makes every iteration see the union of
// the earlier ones.
func (m *Model) ruleFRESHDECODE(r *Results) {
	const rule = "R-FRESH-DECODE"
	n := 0
	for _, fn := range m.Funcs {
		if !m.inPkg(fn) {
			continue
		}
		m.eachCall(fn, func(c ssa.CallInstruction) {
			g := c.Common().StaticCallee()
			if g == nil || g.Pkg == nil || g.Pkg.Pkg.Path() != "encoding/json" || (g.Name() != "Unmarshal" && g.Name() != "Decode") {
				return
			}
			if !inCycle(c.Block()) {
				return
			}
			dst := c.Common().Args[len(c.Common().Args)-1]
			mi, ok := dst.(*ssa.MakeInterface)
			if !ok {
				return
			}
			al, ok := stripConv(mi.X).(*ssa.Alloc)
			if !ok {
				return
			}
			if _, isMap := al.Type().Underlying().(*types.Pointer).Elem().Underlying().(*types.Map); !isMap {
				return
			}
			n++
			key := fmt.Sprintf("%s / decode destination %s", m.declName(fn), cellName(al))
			// fresh: allocated inside the loop, or reset (nil / make) inside the loop before the call
			fresh := inCycle(al.Block())
			if !fresh {
				for _, ref := range *al.Referrers() {
					if st, ok := ref.(*ssa.Store); ok && st.Addr == ssa.Value(al) && inCycle(st.Block()) && (st.Block() == c.Block() && indexIn(st.Block(), st) < indexIn(c.Block(), c) || st.Block() != c.Block() && st.Block().Dominates(c.Block())) {
						fresh = true
					}
				}
			}
			r.check(fresh, rule, key, m.instrPos(c), "the map decoded into is a fresh variable in every iteration", "a map declared outside the loop is decoded into on every iteration: json.Unmarshal merges into a non-nil map, so each iteration also sees the keys of the earlier ones")
		})
	}
	if n == 0 {
		r.info(rule, "instances", "-", "no map is decoded into inside a loop")
	}
}

// ---------------------------------------------------------------- R-WAIT-LOCK

// Waiting (a blocking receive) for a channel that another goroutine closes, while holding a lock
// that that goroutine needs before it gets to the close, is a deadlock just like a lock-order
// cycle: the waiter never releases the lock, the closer never reaches the close.
func (m *Model) ruleWAITLOCK(r *Results) {
	const rule = "R-WAIT-LOCK"
	lm := m.locks()
	chanField := func(v ssa.Value) *types.Var {
		_, f, ok := fieldLoad(stripConv(v))
		if !ok {
			return nil
		}
		if _, isChan := f.Type().Underlying().(*types.Chan); !isChan {
			return nil
		}
		return f
	}
	// closers of each channel field, with the locks their function may take
	closers := map[*types.Var][]*ssa.Function{}
	for _, fn := range m.Funcs {
		m.eachCall(fn, func(c ssa.CallInstruction) {
			if !isBuiltinCall(c, "close") {
				return
			}
			if f := chanField(c.Common().Args[0]); f != nil {
				closers[f] = append(closers[f], fn)
			}
		})
	}
	n := 0
	for _, W := range m.Funcs {
		for _, b := range W.Blocks {
			for _, ins := range b.Instrs {
				recv, ok := ins.(*ssa.UnOp)
				if !ok || recv.Op != token.ARROW {
					continue
				}
				F := chanField(recv.X)
				if F == nil || len(closers[F]) == 0 {
					continue
				}
				n++
				// locks held at the receive: in W itself, and at call sites of the chains that lead to W
				type heldAt struct {
					l     lockID
					where string
				}
				var held []heldAt
				if fl := lm.fns[W]; fl != nil {
					for l := range fl.mustAt[recv] {
						held = append(held, heldAt{l, m.declName(W)})
					}
				}
				target := map[*ssa.Function]bool{W: true}
				for changed := true; changed; {
					changed = false
					for _, X := range m.Funcs {
						if target[X] {
							continue
						}
						for _, e := range m.calleesOf(X) {
							if !e.IsGo && target[e.Callee] {
								target[X] = true
								changed = true
							}
						}
					}
				}
				for X := range target {
					fl := lm.fns[X]
					if fl == nil {
						continue
					}
					for _, e := range m.calleesOf(X) {
						if e.IsGo || !target[e.Callee] {
							continue
						}
						for l := range fl.mustAt[e.Site] {
							held = append(held, heldAt{l, m.declName(X)})
						}
					}
				}
				key := fmt.Sprintf("%s / waits for %s", m.declName(W), F.Name())
				var problems []string
				for _, G := range closers[F] {
					root := G
					for root.Parent() != nil {
						root = root.Parent()
					}
					need := lockset{}
					for l := range lm.acq[G] {
						need[l] = true
					}
					for l := range lm.acq[root] {
						need[l] = true
					}
					for _, h := range held {
						if need[h.l] {
							problems = append(problems, fmt.Sprintf("%s holds %s while the wait is in progress, and %s (which closes the channel) takes %s before it finishes", h.where, h.l, m.declName(root), h.l))
						}
					}
				}
				if len(problems) == 0 {
					r.ok(rule, key, m.instrPos(recv), "no lock that the closing goroutine needs is held during the wait")
				} else {
					r.bad(rule, key, m.instrPos(recv), "%s: neither side can proceed (deadlock)", strings.Join(uniq(problems), "; "))
				}
			}
		}
	}
	if n == 0 {
		r.info(rule, "instances", "-", "no blocking receive on a channel field that the package closes")
	}
	// Waiting for a database connection is waiting too: the per-collection mutex (it guards the
	// view cache) is never held across a statement. A transaction holds the bucket mutex and the
	// connection and may want that mutex; a reader that holds the mutex and wants the connection -
	// the only one of an in-memory bucket - completes the cycle.
	ns := 0
	for _, st := range m.Sites {
		if st.IsSchema || st.Call == nil {
			continue
		}
		for l := range m.heldAt(st.Call) {
			if l.Role == "collection-mutex" {
				ns++
				r.bad(rule, m.declName(st.Fn)+" / no statement under the collection mutex", m.instrPos(st.Call), "a statement is issued while %s is held: the caller waits for a connection with the mutex held, and a transaction that owns the connection (and the bucket mutex) and wants this mutex never gets it - on an in-memory bucket every call on every handle, Close included, then blocks for ever", l)
			}
		}
	}
	if ns == 0 {
		r.ok(rule, "no statement under the collection mutex", "-", "no SQL statement is issued while a collection mutex is held (%d sites)", len(m.Sites))
	}
}

// ---------------------------------------------------------------- R-WRITE-PATH

// An exported mutating entry point (one that calls a document writer) reports success only after
// it has gone through the writer: a success return that bypasses it acknowledges a write that
// was never made (e.g. a "fast path" for an argument value that looks like a no-op).
// Paths on which an error is known to be non-nil are exempt.
func (m *Model) ruleWRITEPATH(r *Results) {
	const rule = "R-WRITE-PATH"
	a := &m.A
	if a.CollectionType == nil || a.Allocator == nil {
		r.undecided(rule, "anchors", "-", "collection type / allocator unresolved")
		return
	}
	errT := types.Universe.Lookup("error").Type()
	n := 0
	for _, fn := range m.Funcs {
		if fn.Parent() != nil || m.methodOwner(fn) != a.CollectionType || len(fn.Blocks) == 0 {
			continue
		}
		if obj := fn.Object(); obj == nil || !obj.Exported() {
			continue
		}
		res := fn.Signature.Results()
		if res.Len() == 0 || !types.Identical(res.At(res.Len()-1).Type(), errT) {
			continue
		}
		var writerBlocks []*ssa.BasicBlock
		m.eachCall(fn, func(c ssa.CallInstruction) {
			callee := c.Common().StaticCallee()
			if callee == nil {
				return
			}
			if callee == a.Allocator || callee == a.TxnRunner || m.isDocWriter(callee) {
				writerBlocks = append(writerBlocks, c.Block())
			}
		})
		if len(writerBlocks) == 0 {
			continue
		}
		n++
		// exempt: edges on which some error value is known to be non-nil
		c := newCut()
		for _, iff := range allIfs(fn) {
			cd := condOf(iff)
			eq, ok := cd.equalEdge()
			if !ok || !(isNilConst(cd.X) || isNilConst(cd.Y)) {
				continue
			}
			other := cd.X
			if isNilConst(cd.X) {
				other = cd.Y
			}
			if !types.Identical(other.Type(), errT) {
				continue
			}
			for _, s := range iff.Block().Succs {
				if s != eq {
					c.cutEdge(iff.Block(), s)
				}
			}
		}
		for _, b := range writerBlocks {
			c.cutBlock(b)
		}
		reach := entryReach(fn, c)
		bad := ""
		for _, ret := range returnsOf(fn) {
			if !reach[ret.Block().Index] {
				continue
			}
			ev := ret.Results[len(ret.Results)-1]
			// a return that certainly carries an error is not a success
			if _, isMI := ev.(*ssa.MakeInterface); isMI {
				continue
			}
			if ld, ok := ev.(*ssa.UnOp); ok {
				if _, isG := ld.X.(*ssa.Global); isG {
					continue
				}
			}
			if call, ok := ev.(*ssa.Call); ok && !isNilConst(ev) {
				_ = call
				continue // the error result of another call (e.g. fmt.Errorf, a validation helper)
			}
			if ex, ok := ev.(*ssa.Extract); ok {
				_ = ex
				// the error of an earlier call returned as is, without a nil test on this path: may be nil only if that call succeeded;
				// accept when the call is not a document read (validation / encoding helpers)
				if callV, ok := ex.Tuple.(*ssa.Call); ok {
					if f := callV.Common().StaticCallee(); f == nil || !m.isReadFn(f) {
						continue
					}
				}
			}
			// the caller's own callback asked for "no change" (sg-bucket's UpdateFunc contract): the
			// return is decided by a test on results of a call of a func-typed parameter
			cancelled := false
			for _, ct := range controllingConds(fn, ret.Block()) {
				cd := condOf(ct.If)
				for _, o := range []ssa.Value{cd.X, cd.Y} {
					if o != nil && m.fromCallbackResult(o, fn, 0, map[ssa.Value]bool{}) {
						cancelled = true
					}
				}
			}
			if cancelled {
				continue
			}
			bad = m.instrPos(ret)
		}
		// ... nor is an error that was found turned into success without the write: an explicit
		// nil error returned on a path that only error edges lead to, and that reached no writer
		if bad == "" {
			cw := newCut()
			for _, b := range writerBlocks {
				cw.cutBlock(b)
			}
			reachW := entryReach(fn, cw)
			for _, ret := range returnsOf(fn) {
				if reach[ret.Block().Index] || !reachW[ret.Block().Index] {
					continue
				}
				ev := ret.Results[len(ret.Results)-1]
				// (a named result spilled into a cell: what this return stored there)
				if ld, ok := ev.(*ssa.UnOp); ok && ld.Op == token.MUL {
					if al, ok := ld.X.(*ssa.Alloc); ok {
						instrs := ret.Block().Instrs
						for i := len(instrs) - 1; i >= 0; i-- {
							if st, ok := instrs[i].(*ssa.Store); ok && st.Addr == ssa.Value(al) {
								ev = st.Val
								break
							}
						}
					}
				}
				if k, ok := ev.(*ssa.Const); !ok || k.Value != nil {
					continue
				}
				cancelled := false
				for _, ct := range controllingConds(fn, ret.Block()) {
					cd := condOf(ct.If)
					for _, o := range []ssa.Value{cd.X, cd.Y} {
						if o != nil && m.fromCallbackResult(o, fn, 0, map[ssa.Value]bool{}) {
							cancelled = true
						}
					}
				}
				if !cancelled {
					bad = m.instrPos(ret)
				}
			}
		}
		key := m.declName(fn) + " / success only after the write"
		r.check(bad == "", rule, key, m.pos(fn.Pos()), "every return that can report success is reached only through the document writer", "the return at "+bad+" can report success on a path that never reaches the document writer: the call is acknowledged although nothing was stored (reads do not see it, no event is delivered)")
	}
	if n < 10 {
		r.undecided(rule, "instance-floor", "-", "only %d exported mutating entry points found", n)
	}
	// ... and the other way round: once the write transaction has committed, the operation does
	// not fail. In the function that runs the allocator (or the runner) no error is made, or taken
	// from another call, on the way from the committed call to a return.
	nc := 0
	for _, fn := range m.Funcs {
		if fn.Parent() != nil || len(fn.Blocks) == 0 || fn == a.Allocator || fn == a.TxnRunner {
			continue
		}
		m.eachCall(fn, func(c ssa.CallInstruction) {
			callee := c.Common().StaticCallee()
			if callee != a.Allocator && callee != a.TxnRunner && callee != a.WithMetaFn {
				return
			}
			if _, isGo := c.(*ssa.Go); isGo || inCycle(c.Block()) {
				return
			}
			commit, ok := c.(*ssa.Call)
			if !ok {
				return
			}
			nc++
			// error values produced after the commit ...
			late := ""
			for _, b := range fn.Blocks {
				for _, ins := range b.Instrs {
					v, ok := ins.(ssa.Value)
					if !ok || !isErrorType(v.Type()) || ins == ssa.Instruction(commit) || !forwardReachable(commit, ins) {
						continue
					}
					switch ins.(type) {
					case *ssa.Call, *ssa.MakeInterface:
					default:
						continue
					}
					// ... that reach a return or the result cell
					if v.Referrers() == nil {
						continue
					}
					for _, u := range *v.Referrers() {
						switch x := u.(type) {
						case *ssa.Return:
							late = m.instrPos(ins)
						case *ssa.Store:
							if al, ok := x.Addr.(*ssa.Alloc); ok && x.Val == v {
								res := fn.Signature.Results()
								for ri := 0; ri < res.Len(); ri++ {
									if res.At(ri).Name() != "" && res.At(ri).Name() == al.Comment && isErrorType(res.At(ri).Type()) {
										late = m.instrPos(ins)
									}
								}
							}
						case *ssa.Phi:
							if x.Referrers() != nil {
								for _, u2 := range *x.Referrers() {
									if _, isRet := u2.(*ssa.Return); isRet {
										late = m.instrPos(ins)
									}
								}
							}
						}
					}
				}
			}
			r.check(late == "", rule, m.declName(fn)+" / no failure after the commit", m.instrPos(c), "no error is produced between the committed transaction and the return", "an error made after the transaction has committed (at "+late+") is returned to the caller: the call reports a failure although the document - body, CAS, expiry - has changed and the event was posted")
		})
	}
	r.ok(rule, "commits", "-", "%d call(s) of the transaction runner / allocator outside loops", nc)
}

// fromCallbackResult: the value is computed from a result of calling one of fn's func-typed parameters.
func (m *Model) fromCallbackResult(v ssa.Value, fn *ssa.Function, depth int, seen map[ssa.Value]bool) bool {
	v = stripConv(v)
	if depth > 8 || seen[v] {
		return false
	}
	seen[v] = true
	switch x := v.(type) {
	case *ssa.Extract:
		return m.fromCallbackResult(x.Tuple, fn, depth+1, seen)
	case *ssa.Call:
		if x.Common().StaticCallee() == nil && !x.Common().IsInvoke() {
			if p, ok := stripConv(x.Common().Value).(*ssa.Parameter); ok && p.Parent() == fn {
				return true
			}
		}
		if bi, ok := x.Common().Value.(*ssa.Builtin); ok && bi.Name() == "len" {
			return m.fromCallbackResult(x.Common().Args[0], fn, depth+1, seen)
		}
	case *ssa.BinOp:
		return m.fromCallbackResult(x.X, fn, depth+1, seen) || m.fromCallbackResult(x.Y, fn, depth+1, seen)
	case *ssa.Phi:
		for _, e := range x.Edges {
			if m.fromCallbackResult(e, fn, depth+1, seen) {
				return true
			}
		}
	case *ssa.Field:
		return m.fromCallbackResult(x.X, fn, depth+1, seen)
	case *ssa.UnOp:
		if x.Op == token.MUL {
			switch a := x.X.(type) {
			case *ssa.Alloc:
				for _, st := range cellStores(a) {
					if m.fromCallbackResult(st.Val, fn, depth+1, seen) {
						return true
					}
				}
			case *ssa.FieldAddr:
				// a field of a struct the callback returned (updatedDoc.Doc ...)
				if al, ok := stripConv(a.X).(*ssa.Alloc); ok {
					for _, st := range cellStores(al) {
						if m.fromCallbackResult(st.Val, fn, depth+1, seen) {
							return true
						}
					}
				}
			}
			return false
		}
		return m.fromCallbackResult(x.X, fn, depth+1, seen)
	}
	return false
}

// ---------------------------------------------------------------- R-FILTER-RESULT

// A helper that parses a raw JSON map, lets a callback edit it, and returns the re-encoded map
// must not hand back its *input* on a path that ran the callback: when the callback removed
// every entry the result is "nothing", not "everything as it was".
func (m *Model) ruleFILTERRESULT(r *Results) {
	const rule = "R-FILTER-RESULT"
	n := 0
	byteSlice := func(t types.Type) bool {
		sl, ok := t.Underlying().(*types.Slice)
		return ok && types.Identical(sl.Elem(), types.Typ[types.Byte])
	}
	for _, fn := range m.Funcs {
		if !m.inPkg(fn) || fn.Parent() != nil || len(fn.Blocks) == 0 || fn.Signature.Results().Len() < 1 || !byteSlice(fn.Signature.Results().At(0).Type()) {
			continue
		}
		var P *ssa.Parameter
		var CB *ssa.Parameter
		for _, p := range fn.Params {
			if byteSlice(p.Type()) {
				P = p
			}
			if _, ok := p.Type().Underlying().(*types.Signature); ok {
				CB = p
			}
		}
		if P == nil || CB == nil {
			continue
		}
		var cbCall ssa.CallInstruction
		m.eachCall(fn, func(c ssa.CallInstruction) {
			if stripConv(c.Common().Value) == ssa.Value(CB) {
				cbCall = c
			}
		})
		if cbCall == nil {
			continue
		}
		n++
		after := reachableFrom(cbCall.Block(), nil)
		bad := ""
		var check func(v ssa.Value, viaBlock *ssa.BasicBlock, depth int)
		check = func(v ssa.Value, viaBlock *ssa.BasicBlock, depth int) {
			v = stripConv(v)
			if depth > 5 {
				return
			}
			if phi, ok := v.(*ssa.Phi); ok {
				for i, e := range phi.Edges {
					check(e, phi.Block().Preds[i], depth+1)
				}
				return
			}
			if v == ssa.Value(P) && viaBlock != nil && after[viaBlock.Index] && (viaBlock == cbCall.Block() || cbCall.Block().Dominates(viaBlock)) {
				bad = m.instrPos(viaBlock.Instrs[len(viaBlock.Instrs)-1])
			}
		}
		for _, ret := range returnsOf(fn) {
			check(ret.Results[0], ret.Block(), 0)
		}
		// ... and "nothing" really is nothing: when the callback left the map empty the result is nil,
		// not the encoding of an empty map (the column would then be non-NULL for a document without xattrs)
		{
			hasNilAlt, lenTest := false, false
			var scan func(v ssa.Value, depth int)
			scan = func(v ssa.Value, depth int) {
				v = stripConv(v)
				if depth > 5 {
					return
				}
				if phi, ok := v.(*ssa.Phi); ok {
					for _, e := range phi.Edges {
						scan(e, depth+1)
					}
					return
				}
				if c, ok := v.(*ssa.Const); ok && c.Value == nil {
					hasNilAlt = true
				}
			}
			for _, ret := range returnsOf(fn) {
				if after[ret.Block().Index] {
					scan(ret.Results[0], 0)
				}
			}
			for _, iff := range allIfs(fn) {
				if !after[iff.Block().Index] {
					continue
				}
				cd := condOf(iff)
				for _, o := range []ssa.Value{cd.X, cd.Y} {
					if o == nil {
						continue
					}
					if call, ok := stripConv(o).(*ssa.Call); ok {
						if bi, ok := call.Common().Value.(*ssa.Builtin); ok && bi.Name() == "len" {
							if _, isMap := call.Common().Args[0].Type().Underlying().(*types.Map); isMap {
								lenTest = true
							}
						}
					}
				}
			}
			r.check(hasNilAlt && lenTest, rule, m.declName(fn)+" / an emptied map is returned as nothing", m.pos(fn.Pos()), "after the callback the helper tests the map's length and can return nil", "after the callback the helper re-encodes the map whatever its size: a map the callback emptied comes back as `{}`, the xattrs column is then non-NULL for a document without xattrs, and statements that test `xattrs NOT NULL` (the view indexer's selection of current documents) treat a deleted document as present")
		}
		r.check(bad == "", rule, m.declName(fn)+" / result after the callback is the re-encoded map", m.pos(fn.Pos()), "after the callback ran, the helper returns the re-encoded map (or nothing), never its input", "on a path that ran the callback (leaving "+bad+") the helper returns its unmodified input: when the callback removed every entry, the caller gets all entries back and writes them")
	}
	if n == 0 {
		r.info(rule, "instances", "-", "no parse-edit-reencode helper found")
	}
}

// ---------------------------------------------------------------- R-XATTR-ROUNDTRIP

// Stored xattrs that are decoded, edited and always re-encoded into the same place must be
// decoded whenever they exist: a decode that is skipped under some other condition makes the
// unconditional re-encode wipe them.
func (m *Model) ruleXATTRROUNDTRIP(r *Results) {
	const rule = "R-XATTR-ROUNDTRIP"
	n := 0
	isJSON := func(c ssa.CallInstruction, name string) bool {
		g := c.Common().StaticCallee()
		return g != nil && g.Pkg != nil && g.Pkg.Pkg.Path() == "encoding/json" && g.Name() == name
	}
	sameLoc := func(a, b ssa.Value) bool {
		a, b = stripConv(a), stripConv(b)
		if a == b {
			return true
		}
		fa, ok1 := a.(*ssa.FieldAddr)
		fb, ok2 := b.(*ssa.FieldAddr)
		if !ok1 || !ok2 || fa.Field != fb.Field {
			return false
		}
		xa, xb := stripConv(fa.X), stripConv(fb.X)
		if xa == xb {
			return true
		}
		la, ok1 := xa.(*ssa.UnOp)
		lb, ok2 := xb.(*ssa.UnOp)
		return ok1 && ok2 && la.Op == token.MUL && lb.Op == token.MUL && la.X == lb.X
	}
	for _, fn := range m.Funcs {
		if !m.inPkg(fn) {
			continue
		}
		var decs, encs []ssa.CallInstruction
		m.eachCall(fn, func(c ssa.CallInstruction) {
			if isJSON(c, "Unmarshal") {
				decs = append(decs, c)
			}
			if isJSON(c, "Marshal") {
				encs = append(encs, c)
			}
		})
		for _, dec := range decs {
			// source location and destination map cell of the decode
			src, ok := stripConv(dec.Common().Args[0]).(*ssa.UnOp)
			if !ok || src.Op != token.MUL {
				continue
			}
			mi, ok := dec.Common().Args[1].(*ssa.MakeInterface)
			if !ok {
				continue
			}
			cell, ok := stripConv(mi.X).(*ssa.Alloc)
			if !ok {
				continue
			}
			// an encode of that map whose result is stored back where the source came from
			var enc ssa.CallInstruction
			for _, e := range encs {
				emi, ok := e.Common().Args[0].(*ssa.MakeInterface)
				if !ok {
					continue
				}
				ld, ok := stripConv(emi.X).(*ssa.UnOp)
				if !ok || ld.Op != token.MUL || ld.X != ssa.Value(cell) {
					continue
				}
				if v := e.Value(); v != nil && v.Referrers() != nil {
					for _, ref := range *v.Referrers() {
						if ex, ok := ref.(*ssa.Extract); ok && ex.Index == 0 && ex.Referrers() != nil {
							for _, r2 := range *ex.Referrers() {
								if st, ok := r2.(*ssa.Store); ok && sameLoc(st.Addr, src.X) {
									enc = e
								}
							}
						}
					}
				}
			}
			if enc == nil {
				continue
			}
			n++
			// remove the decode itself and every edge on which the stored value is known to be absent:
			// if the re-encode can still be reached, some path skips the decode although the value may exist
			c := newCut()
			c.cutBlock(dec.Block())
			isSrc := func(v ssa.Value) bool {
				v = stripConv(v)
				if call, ok := v.(*ssa.Call); ok {
					if bi, ok := call.Common().Value.(*ssa.Builtin); ok && bi.Name() == "len" {
						v = stripConv(call.Common().Args[0])
					}
				}
				ld, ok := v.(*ssa.UnOp)
				return ok && ld.Op == token.MUL && sameLoc(ld.X, src.X)
			}
			for _, iff := range allIfs(fn) {
				cd := condOf(iff)
				if cd.Y == nil {
					continue
				}
				switch {
				case isSrc(cd.X) && (isNilConst(cd.Y) || isZeroConst(cd.Y)):
					switch cd.Op {
					case token.EQL, token.LEQ:
						c.cutEdge(iff.Block(), cd.succWhen(true))
					case token.NEQ, token.GTR:
						c.cutEdge(iff.Block(), cd.succWhen(false))
					}
				case isSrc(cd.Y) && isNilConst(cd.X):
					if eq, ok := cd.equalEdge(); ok {
						c.cutEdge(iff.Block(), eq)
					}
				}
			}
			bad := ""
			if entryReach(fn, c)[enc.Block().Index] {
				bad = m.instrPos(enc)
			}
			r.check(bad == "", rule, m.declName(fn)+" / stored xattrs decoded whenever they exist", m.instrPos(dec), "the decode depends only on the stored value being present; the re-encode then writes back what was decoded plus the edits", "the re-encode at "+bad+" can be reached on a path that skipped the decode although the stored value may exist (the decode depends on more than the value being present): the stored xattrs are then replaced by an empty map")
		}
	}
	if n == 0 {
		r.info(rule, "instances", "-", "no decode / edit / re-encode round trip found")
	}
}

// ---------------------------------------------------------------- R-LASTID

// LastInsertId is meaningful only after an INSERT that inserted: after `ON CONFLICT DO NOTHING`
// (or DO UPDATE / OR IGNORE) it returns the rowid of some earlier, unrelated insert on the
// connection. Every LastInsertId must therefore follow a plain INSERT.
func (m *Model) ruleLASTID(r *Results) {
	const rule = "R-LASTID"
	n := 0
	for _, fn := range m.Funcs {
		m.eachCall(fn, func(c ssa.CallInstruction) {
			if !c.Common().IsInvoke() || c.Common().Method.Name() != "LastInsertId" {
				return
			}
			n++
			key := m.declName(fn) + " / LastInsertId follows a plain INSERT"
			res, _ := m.resolve(c.Common().Value, topFrame(fn))
			var site *SQLSite
			if ex, ok := res.(*ssa.Extract); ok {
				site = m.siteOfCallValue(ex.Tuple)
			}
			if site == nil {
				r.undecided(rule, key, m.instrPos(c), "cannot tell which statement's result this is")
				return
			}
			bad := ""
			for _, v := range site.Variants {
				st := v.Stmt()
				if st == nil || st.Kind != sqlp.SInsert {
					bad = "the statement is not a single INSERT"
					continue
				}
				if st.Conflict != nil {
					bad = "the INSERT has an ON CONFLICT clause (" + st.Shape() + ")"
				}
				if strings.Contains(strings.ToUpper(v.SQL), "OR IGNORE") || strings.Contains(strings.ToUpper(v.SQL), "OR REPLACE") {
					bad = "the INSERT has a conflict-resolution clause"
				}
			}
			r.check(bad == "", rule, key, m.instrPos(c), "the id is that of the row this statement inserted", bad+": when no row is inserted LastInsertId returns the rowid of an earlier insert on the connection, which is then used as this row's id (e.g. as a collection id: operations land in another collection)")
		})
	}
	if n == 0 {
		r.info(rule, "instances", "-", "LastInsertId is not used")
	}
}

// ---------------------------------------------------------------- R-VIEW-STALE

// A view query brings the index up to date unless the caller asked for a stale result: the
// synchronous update may be skipped only for the documented values of "stale" (true, "ok",
// "updateAfter"), i.e. it is reached on the NOT-equal edge of every test of that parameter. An
// allow-list (`case nil, false:`) silently treats every other spelling as "stale is fine".
func (m *Model) ruleVIEWSTALE(r *Results) {
	const rule = "R-VIEW-STALE"
	// the index updater: the function containing the transaction closure that writes views.lastCas
	var updater *ssa.Function
	for _, s := range m.Sites {
		for _, v := range s.Variants {
			if st := v.Stmt(); st != nil && st.Kind == sqlp.SUpdate && lower(st.Table) == "views" {
				f := s.Fn
				for f.Parent() != nil {
					f = f.Parent()
				}
				for _, tc := range m.txnClosures() {
					if m.reachableLocal(tc.Fn)[s.Fn] || tc.Fn == s.Fn {
						g := tc.Fn
						for g.Parent() != nil {
							g = g.Parent()
						}
						updater = g
					}
				}
				_ = f
			}
		}
	}
	if updater == nil {
		r.undecided(rule, "anchors", "-", "view index updater unresolved")
		return
	}
	fromStaleDirect := func(v ssa.Value) bool { return false }
	var fromStale func(v ssa.Value, depth int, seen map[ssa.Value]bool) bool
	fromStale = func(v ssa.Value, depth int, seen map[ssa.Value]bool) bool {
		v = stripConv(v)
		if depth > 8 || seen[v] {
			return false
		}
		seen[v] = true
		switch x := v.(type) {
		case *ssa.Lookup:
			if c, ok := stripConv(x.Index).(*ssa.Const); ok && c.Value != nil && c.Value.Kind() == constant.String && constant.StringVal(c.Value) == "stale" {
				return true
			}
		case *ssa.Extract:
			return fromStale(x.Tuple, depth+1, seen)
		case *ssa.Phi:
			for _, e := range x.Edges {
				if fromStale(e, depth+1, seen) {
					return true
				}
			}
		case *ssa.TypeAssert:
			return fromStale(x.X, depth+1, seen)
		case *ssa.UnOp:
			if x.Op == token.MUL {
				if al, ok := x.X.(*ssa.Alloc); ok {
					for _, st := range cellStores(al) {
						if fromStale(st.Val, depth+1, seen) {
							return true
						}
					}
				}
			}
		case *ssa.Parameter:
			// handed down from callers that all pass the stale value
			f := x.Parent()
			idx := -1
			for i, q := range f.Params {
				if q == x {
					idx = i
				}
			}
			callers := m.staticCallersOf(f)
			if idx < 0 || len(callers) == 0 {
				return false
			}
			for _, cl := range callers {
				if idx >= len(cl.Common().Args) || !fromStale(cl.Common().Args[idx], depth+1, seen) {
					return false
				}
			}
			return true
		case *ssa.Call:
			// a getter that hands the parameter's value back (not a classifier returning constants)
			if callee := x.Common().StaticCallee(); callee != nil && m.inPkg(callee) && len(callee.Blocks) > 0 {
				any := false
				for _, ret := range returnsOf(callee) {
					for _, res := range ret.Results {
						if k, ok := stripConv(res).(*ssa.Const); ok && k.Value == nil {
							continue // "absent"
						}
						if !fromStale(res, depth+1, seen) {
							return false
						}
						any = true
					}
				}
				return any
			}
		}
		return false
	}
	fromStaleDirect = func(v ssa.Value) bool { return fromStale(v, 0, map[ssa.Value]bool{}) }
	// The stale parameter is only ever compared with constants, so its effect is decided by a few
	// abstract values: absent (nil), the three documented ones, and "anything else".
	type staleVal struct {
		name  string
		isNil bool
		c     constant.Value // nil for "anything else"
	}
	vals := []staleVal{
		{"<absent>", true, nil},
		{"<any other value, e.g. the string \"false\">", false, nil},
		{"true", false, constant.MakeBool(true)},
		{"\"ok\"", false, constant.MakeString("ok")},
		{"\"updateAfter\"", false, constant.MakeString("updateAfter")},
	}
	matches := func(a staleVal, k *ssa.Const) bool {
		if k.Value == nil {
			return a.isNil
		}
		if a.c == nil || a.c.Kind() != k.Value.Kind() {
			return false
		}
		return constant.Compare(a.c, token.EQL, k.Value)
	}
	var cutFor func(f *ssa.Function, a staleVal, depth int) (*cut, int)
	var helperResults func(call *ssa.Call, a staleVal, depth int) []*ssa.Const
	cutFor = func(f *ssa.Function, a staleVal, depth int) (*cut, int) {
		c := newCut()
		decided := 0
		for _, d := range m.decisions(f, topFrame(f)) {
			iff := d.If
			cd := d.C
			if cd.Y == nil {
				// a phi edge that carries a constant (`a || b`: true from a's true edge)
				if d.Pred != nil && cd.X != nil {
					if k, ok := stripConv(cd.X).(*ssa.Const); ok && k.Value != nil && k.Value.Kind() == constant.Bool {
						d.cutSucc(c, cd.succWhen(!constant.BoolVal(k.Value)))
					}
				}
				continue
			}
			eq, ok := cd.equalEdge()
			if !ok {
				continue
			}
			x, y := stripConv(cd.X), stripConv(cd.Y)
			var k *ssa.Const
			var other ssa.Value
			if kc, ok := y.(*ssa.Const); ok {
				k, other = kc, x
			} else if kc, ok := x.(*ssa.Const); ok {
				k, other = kc, y
			} else {
				continue
			}
			known, equal := false, false
			if fromStaleDirect(other) {
				known, equal = true, matches(a, k)
			} else if call, ok := other.(*ssa.Call); ok && depth < 2 {
				if rs := helperResults(call, a, depth); len(rs) == 1 && rs[0].Value != nil && k.Value != nil {
					known, equal = true, constant.Compare(rs[0].Value, token.EQL, k.Value)
				}
			}
			if !known {
				continue
			}
			decided++
			for _, sc := range iff.Block().Succs {
				if (sc == eq) != equal {
					d.cutSucc(c, sc)
				}
			}
		}
		return c, decided
	}
	helperResults = func(call *ssa.Call, a staleVal, depth int) []*ssa.Const {
		h := call.Common().StaticCallee()
		if h == nil || !m.inPkg(h) || len(h.Blocks) == 0 || h.Signature.Results().Len() != 1 {
			return nil
		}
		c, decided := cutFor(h, a, depth+1)
		if decided == 0 {
			return nil
		}
		reach := entryReach(h, c)
		var out []*ssa.Const
		for _, ret := range returnsOf(h) {
			if !reach[ret.Block().Index] {
				continue
			}
			k, ok := stripConv(ret.Results[0]).(*ssa.Const)
			if !ok {
				return nil
			}
			dup := false
			for _, o := range out {
				if o.Value != nil && k.Value != nil && constant.Compare(o.Value, token.EQL, k.Value) {
					dup = true
				}
			}
			if !dup {
				out = append(out, k)
			}
		}
		return out
	}
	n := 0
	for _, fn := range m.Funcs {
		if !m.inPkg(fn) || fn.Parent() != nil {
			continue
		}
		m.eachCall(fn, func(c ssa.CallInstruction) {
			if c.Common().StaticCallee() != updater {
				return
			}
			if _, isGo := c.(*ssa.Go); isGo {
				return
			}
			reach := map[string]bool{}
			decidedAny := false
			for _, a := range vals {
				ct, d := cutFor(fn, a, 0)
				if d > 0 {
					decidedAny = true
				}
				reach[a.name] = entryReach(fn, ct)[c.Block().Index]
			}
			if !decidedAny {
				return
			}
			n++
			var problems []string
			for _, a := range vals[:2] {
				if !reach[a.name] {
					problems = append(problems, "for stale = "+a.name+" the index is not brought up to date before the query")
				}
			}
			for _, a := range vals[2:] {
				if reach[a.name] {
					problems = append(problems, "for stale = "+a.name+" the index is updated synchronously although a stale result was asked for")
				}
			}
			// whether the index is out of date is decided from what the database says (the view's
			// mark and the collection's, both read from their rows), not from a copy some handle keeps
			for _, iff := range allIfs(fn) {
				s0, s1 := iff.Block().Succs[0], iff.Block().Succs[1]
				r0 := s0 == c.Block() || reachableFrom(s0, nil)[c.Block().Index]
				r1 := s1 == c.Block() || reachableFrom(s1, nil)[c.Block().Index]
				if r0 == r1 {
					continue
				}
				bo, ok := stripConv(iff.Cond).(*ssa.BinOp)
				if !ok || (bo.Op != token.EQL && bo.Op != token.NEQ) {
					continue
				}
				isInt := func(v ssa.Value) bool {
					b, ok := v.Type().Underlying().(*types.Basic)
					return ok && b.Info()&types.IsInteger != 0
				}
				if _, isK := bo.X.(*ssa.Const); isK || !isInt(bo.X) {
					continue
				}
				if _, isK := bo.Y.(*ssa.Const); isK {
					continue
				}
				why := ""
				for _, op := range []ssa.Value{bo.X, bo.Y} {
					if w := m.notARowRead(op, 0); w != "" {
						why = w
					}
				}
				r.check(why == "", rule, m.declName(fn)+" / whether the index is out of date is decided from the database", m.instrPos(iff), "both marks compared before the update are read from rows", "the comparison that lets the query skip the index update uses a value that is not read from the database ("+why+"): a write made through another handle (or below that copy) is not seen, and the query is served from an index that misses it")
			}
			r.check(len(problems) == 0, rule, m.declName(fn)+" / index updated unless a stale result was asked for", m.instrPos(c), "the synchronous index update is skipped exactly for stale = true, \"ok\" and \"updateAfter\"", strings.Join(problems, "; ")+": a query that did not ask for a stale result is served from an index that misses recent writes")
		})
	}
	if n == 0 {
		r.undecided(rule, "instances", "-", "no caller of the index updater tests the stale parameter")
	}
}

// deletesFilesVia: can this call end up removing files? Like deletesFiles(callee), but boolean
// arguments that are constants at the call (shutDown(ctx, false)) prune the branches of the callee
// that are not taken for them, transitively.
func (m *Model) deletesFilesVia(call ssa.CallInstruction, env map[*ssa.Parameter]bool, depth int) bool {
	f := call.Common().StaticCallee()
	if f == nil {
		return false
	}
	if f.Pkg != nil && f.Pkg.Pkg.Path() == "os" && (f.Name() == "RemoveAll" || f.Name() == "Remove") {
		return true
	}
	if !m.inPkg(f) || f.Blocks == nil {
		return false
	}
	if depth > 6 {
		return m.deletesFiles(f)
	}
	known := map[*ssa.Parameter]bool{}
	for i, a := range call.Common().Args {
		if i >= len(f.Params) {
			break
		}
		a = stripConv(a)
		if k, ok := a.(*ssa.Const); ok && k.Value != nil && k.Value.Kind() == constant.Bool {
			known[f.Params[i]] = constant.BoolVal(k.Value)
		} else if p, ok := a.(*ssa.Parameter); ok {
			if v, have := env[p]; have {
				known[f.Params[i]] = v
			}
		}
	}
	c := newCut()
	for _, iff := range allIfs(f) {
		cd := condOf(iff)
		if cd.Op != token.ILLEGAL || cd.X == nil {
			continue
		}
		if p, ok := stripConv(cd.X).(*ssa.Parameter); ok {
			if v, have := known[p]; have {
				c.cutEdge(iff.Block(), cd.succWhen(!v))
			}
		}
	}
	reach := entryReach(f, c)
	found := false
	var visit func(g *ssa.Function)
	visit = func(g *ssa.Function) {
		m.eachCall(g, func(c2 ssa.CallInstruction) {
			if found || (g == f && !reach[c2.Block().Index]) {
				return
			}
			if g != f {
				// inside a closure of f: no pruning
				if t := c2.Common().StaticCallee(); t != nil && (m.inPkg(t) && m.deletesFiles(t) || t.Pkg != nil && t.Pkg.Pkg.Path() == "os" && (t.Name() == "RemoveAll" || t.Name() == "Remove")) {
					found = true
				}
				return
			}
			if m.deletesFilesVia(c2, known, depth+1) {
				found = true
			}
		})
		for _, an := range g.AnonFuncs {
			visit(an)
		}
	}
	visit(f)
	return found
}

// lockOpBetween: a lock acquisition or release that can execute after `from` and before `to`
// (both in the same function).
func (m *Model) lockOpBetween(from, to ssa.Instruction) ssa.Instruction {
	fb, tb := from.Block(), to.Block()
	fromReach := reachableFrom(fb, nil)
	var found ssa.Instruction
	for _, b := range fb.Parent().Blocks {
		for i, ins := range b.Instrs {
			c, ok := ins.(ssa.CallInstruction)
			if !ok {
				continue
			}
			op, ok := m.lockOpOf(c)
			if !ok || op.Deferred {
				continue
			}
			switch {
			case b == fb && b == tb && !inCycle(b):
				if i > indexIn(b, from) && i < indexIn(b, to) {
					found = ins
				}
			case b == fb:
				if i > indexIn(b, from) && reachableFromSuccs(b, newCut())[tb.Index] {
					found = ins
				}
			case b == tb:
				if i < indexIn(b, to) && fromReach[b.Index] {
					found = ins
				}
			default:
				if fromReach[b.Index] && reachableFrom(b, nil)[tb.Index] {
					found = ins
				}
			}
		}
	}
	return found
}

// notARowRead explains why v is not known to be a value read from a row: v must be the result
// of a package function all of whose successful returns give back a scan destination, a field
// that some scan fills, or a local variable a scan fills. "" when it is.
func (m *Model) notARowRead(v ssa.Value, depth int) string {
	v = stripConv(v)
	if depth > 3 {
		return "too deep to follow at " + m.pos(v.Pos())
	}
	isDest := func(cell ssa.Value) bool {
		for _, sc := range m.scanCalls() {
			for _, d := range sc.Dests {
				d = stripConv(d)
				if d == cell {
					return true
				}
				fa, ok1 := d.(*ssa.FieldAddr)
				fc, ok2 := cell.(*ssa.FieldAddr)
				if ok1 && ok2 && fieldOf(fa) == fieldOf(fc) {
					return true
				}
			}
		}
		return false
	}
	switch x := v.(type) {
	case *ssa.UnOp:
		if x.Op == token.MUL && isDest(stripConv(x.X)) {
			return ""
		}
	case *ssa.Extract:
		call, ok := x.Tuple.(*ssa.Call)
		if !ok {
			break
		}
		f := call.Common().StaticCallee()
		if f == nil || !m.inPkg(f) || len(f.Blocks) == 0 {
			break
		}
		for _, ret := range returnsOf(f) {
			if m.mustBeFailureReturn(ret) || x.Index >= len(ret.Results) {
				continue
			}
			if w := m.notARowRead(ret.Results[x.Index], depth+1); w != "" {
				return w
			}
		}
		return ""
	case *ssa.Phi:
		for _, e := range x.Edges {
			if w := m.notARowRead(e, depth+1); w != "" {
				return w
			}
		}
		return ""
	}
	return "the value at " + m.pos(v.Pos())
}
