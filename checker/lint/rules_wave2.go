package lint

import (
	"fmt"
	"go/token"
	"go/types"
	"strconv"
	"strings"

	"golang.org/x/tools/go/ssa"

	"rosmarlint/sqlp"
)

// ---------------------------------------------------------------- R-READ-ONCE

// A function that returns a document read (CAS / BucketDocument) outside a transaction must
// obtain it from ONE statement: two pool-handle SELECTs on documents can straddle a commit
// and return a body of one version with the xattrs (or CAS) of another.
func (m *Model) ruleREADONCE(r *Results) {
	const rule = "R-READ-ONCE"
	m.sitesHealthy(r, rule)
	pool := map[*ssa.Function]bool{}
	for _, f := range m.A.PoolFns {
		pool[f] = true
	}
	inTxn := m.inTxnExtent()
	n := 0
	for _, fn := range m.Funcs {
		if fn.Parent() != nil || fn.Pkg != m.SSA || !m.isReadFn(fn) {
			continue
		}
		if _, isIn := inTxn[fn]; isIn {
			// helpers that also run inside transactions are checked in their pool-calling callers
		}
		// does fn itself obtain the pool? (otherwise it is a handle-taking helper, atomic in its caller's context)
		obtainsPool := false
		for g := range m.reachableLocal(fn) {
			if g == m.A.TxnRunner {
				continue
			}
			m.eachCall(g, func(c ssa.CallInstruction) {
				if callee := c.Common().StaticCallee(); callee != nil && pool[callee] {
					obtainsPool = true
				}
			})
		}
		if !obtainsPool || m.reachesRunner(fn, map[*ssa.Function]int{}) {
			continue
		}
		// statements on documents reachable from fn (static calls), with the instruction in fn that leads to each
		type hit struct {
			in   ssa.Instruction
			site *SQLSite
		}
		var hits []hit
		for _, s := range m.Sites {
			if s.Method == "Exec" {
				continue
			}
			reads := false
			for _, v := range s.Variants {
				if st := v.Stmt(); st != nil && st.Kind == sqlp.SSelect {
					for _, t := range st.Tables() {
						if t == "documents" {
							reads = true
						}
					}
				}
			}
			if !reads {
				continue
			}
			if s.Fn == fn {
				hits = append(hits, hit{s.Call, s})
				continue
			}
			m.eachCall(fn, func(c ssa.CallInstruction) {
				if callee := c.Common().StaticCallee(); callee != nil && m.inPkg(callee) && m.reachableLocal(callee)[s.Fn] {
					hits = append(hits, hit{c, s})
				}
			})
		}
		if len(hits) == 0 {
			continue
		}
		n++
		key := m.declName(fn) + " / one statement per read"
		bad := ""
		for i := range hits {
			for j := range hits {
				if i == j {
					continue
				}
				a, b := hits[i], hits[j]
				if a.in == b.in && a.site == b.site {
					continue
				}
				if a.in == b.in || instrReachable(a.in, b.in, nil) {
					bad = fmt.Sprintf("%s and then %s", m.instrPos(a.site.Call), m.instrPos(b.site.Call))
				}
			}
		}
		r.check(bad == "", rule, key, m.pos(fn.Pos()), "the document is read by a single statement", "a read outside any transaction is assembled from two statements on documents ("+bad+"): a commit between them yields the body/CAS of one version with the xattrs of another, and a read-modify-write loop then stores a result computed from a version that never existed")
	}
	if n < 3 {
		r.undecided(rule, "instance-floor", "-", "only %d read functions found", n)
	}
}

// ---------------------------------------------------------------- R-POST-ORDER

// In the post function nothing that can block on a lock happens before the fan-out.
func (m *Model) rulePOSTORDER(r *Results) {
	const rule = "R-POST-ORDER"
	a := &m.A
	if a.PostFn == nil || a.FanoutFn == nil {
		r.undecided(rule, "anchors", "-", "post / fan-out unresolved")
		return
	}
	lm := m.locks()
	var fan ssa.CallInstruction
	m.eachCall(a.PostFn, func(c ssa.CallInstruction) {
		if c.Common().StaticCallee() == a.FanoutFn {
			fan = c
		}
	})
	if fan == nil {
		r.undecided(rule, "fan-out call", m.pos(a.PostFn.Pos()), "the post function does not call the fan-out")
		return
	}
	var blockers []string
	for _, e := range m.calleesOf(a.PostFn) {
		if e.Site == fan || e.IsGo || !instrReachable(e.Site, fan, nil) {
			continue
		}
		for l := range lm.acq[e.Callee] {
			blockers = append(blockers, fmt.Sprintf("%s (may take %s, %s)", m.declName(e.Callee), l, m.instrPos(e.Site)))
		}
	}
	r.check(len(blockers) == 0, rule, m.declName(a.PostFn)+" / enqueue first", m.instrPos(fan), "the event is enqueued before anything that can wait for a lock", "before enqueueing the event the post function calls "+strings.Join(uniq(blockers), ", ")+": while it waits there, later commits enqueue their events first, so feeds receive events out of CAS order")
}

// ---------------------------------------------------------------- R-FEEDMAP-WRITERS

// The only updates of a registry entry are the registration append (old entry + one new feed).
func (m *Model) ruleFEEDWRITERS(r *Results) {
	const rule = "R-FEEDMAP-WRITERS"
	a := &m.A
	if a.FeedsField == nil {
		r.undecided(rule, "anchors", "-", "feed registry unresolved")
		return
	}
	n := 0
	for _, fn := range m.Funcs {
		for _, b := range fn.Blocks {
			for _, ins := range b.Instrs {
				mu, ok := ins.(*ssa.MapUpdate)
				if !ok {
					continue
				}
				ld, ok := mu.Map.(*ssa.UnOp)
				if !ok {
					continue
				}
				fa, ok := ld.X.(*ssa.FieldAddr)
				if !ok || fieldOf(fa) != a.FeedsField {
					continue
				}
				n++
				// value must be append(<lookup of the same map>, <one element>)
				good := false
				if call, ok := stripConv(mu.Value).(*ssa.Call); ok && isBuiltinCall(call, "append") && len(call.Common().Args) == 2 {
					base := stripConv(call.Common().Args[0])
					if lk, ok := base.(*ssa.Lookup); ok {
						if l2, ok := lk.X.(*ssa.UnOp); ok {
							if fa2, ok := l2.X.(*ssa.FieldAddr); ok && fieldOf(fa2) == a.FeedsField {
								// appended slice: a fresh varargs pack of one element
								if sl, ok := call.Common().Args[1].(*ssa.Slice); ok {
									if vals, dyn := varargValues(sl); !dyn && len(vals) == 1 {
										good = true
									}
								}
							}
						}
					}
				}
				r.check(good, rule, m.declName(fn)+" / registry entry update", m.instrPos(mu), "registration appends one feed to the collection's entry", "a feed-registry entry is rewritten by something other than appending one new feed (e.g. removing an element in place): the slice a concurrent fan-out is iterating shares its backing array, so events are skipped for one feed and delivered twice to another")
			}
		}
	}
	if n == 0 {
		r.undecided(rule, "registration", "-", "no update of the feed registry found")
	}
}

// ---------------------------------------------------------------- R-LOOPVAR

// goVersionBefore122 reads the language version from go.mod.
func (m *Model) goVersionBefore122() bool {
	if m.Pkg.Module == nil || m.Pkg.Module.GoVersion == "" {
		return true
	}
	parts := strings.Split(m.Pkg.Module.GoVersion, ".")
	if len(parts) < 2 {
		return true
	}
	maj, _ := strconv.Atoi(parts[0])
	min, _ := strconv.Atoi(parts[1])
	return maj < 1 || maj == 1 && min < 22
}

// With per-loop (pre-1.22) variable semantics, a goroutine or deferred closure started in a
// loop must not capture the loop variable: every instance sees the last value.
func (m *Model) ruleLOOPVAR(r *Results) {
	const rule = "R-LOOPVAR"
	if !m.goVersionBefore122() {
		r.ok(rule, "language version", "go.mod", "go >= 1.22: loop variables are per-iteration")
		return
	}
	n := 0
	for _, fn := range m.Funcs {
		for _, b := range fn.Blocks {
			for _, ins := range b.Instrs {
				g, ok := ins.(*ssa.Go)
				if !ok || !inCycle(b) {
					continue
				}
				mc, ok := g.Common().Value.(*ssa.MakeClosure)
				if !ok {
					continue
				}
				n++
				var captured []string
				for _, bnd := range mc.Bindings {
					al, ok := bnd.(*ssa.Alloc)
					if !ok {
						continue
					}
					// allocated outside the loop but assigned inside it: a loop-carried variable
					if inCycle(al.Block()) && reachableFrom(al.Block(), nil)[b.Index] && reachableFrom(b, nil)[al.Block().Index] {
						continue // allocated per iteration
					}
					storedInLoop := false
					for _, ref := range *al.Referrers() {
						if st, ok := ref.(*ssa.Store); ok && st.Addr == al && inCycle(st.Block()) && reachableFrom(st.Block(), nil)[b.Index] && reachableFrom(b, nil)[st.Block().Index] {
							storedInLoop = true
						}
					}
					if storedInLoop {
						captured = append(captured, al.Comment)
					}
				}
				r.check(len(captured) == 0, rule, m.declName(fn)+" / goroutine started in a loop", m.instrPos(g), "the goroutine captures only per-iteration variables", fmt.Sprintf("a goroutine started inside a loop captures the loop variable(s) %v by reference (go.mod declares go %s, i.e. one variable for the whole loop): every goroutine sees the last value", captured, m.goVersionString()))
			}
		}
	}
	r.ok(rule, "inventory", "-", "%d goroutine(s) started inside loops", n)
}

// ---------------------------------------------------------------- R-FEED-START

// Every feed that is started is either registered for live events or given its end marker.
func (m *Model) ruleFEEDSTART(r *Results) {
	const rule = "R-FEED-START"
	a := &m.A
	loopFn, _, _ := m.feedLoopFn()
	if loopFn == nil || a.FeedsField == nil {
		r.undecided(rule, "anchors", "-", "feed loop / registry unresolved")
		return
	}
	n := 0
	for _, fn := range m.Funcs {
		if fn.Parent() != nil {
			continue
		}
		var goRun ssa.CallInstruction
		m.eachCall(fn, func(c ssa.CallInstruction) {
			if _, isGo := c.(*ssa.Go); isGo {
				for _, t := range m.funcTargets(c.Common().Value) {
					if t == loopFn {
						goRun = c
					}
				}
				if c.Common().StaticCallee() == loopFn {
					goRun = c
				}
			}
		})
		if goRun == nil {
			continue
		}
		n++
		// blocks that register the feed or push the nil end marker (directly or through a helper)
		c := newCut()
		registersOrEnds := func(f *ssa.Function, ins ssa.Instruction) bool {
			if mu, ok := ins.(*ssa.MapUpdate); ok {
				if ld, ok := mu.Map.(*ssa.UnOp); ok {
					if fa, ok := ld.X.(*ssa.FieldAddr); ok && fieldOf(fa) == a.FeedsField {
						return true
					}
				}
			}
			if call, ok := ins.(ssa.CallInstruction); ok {
				if callee := call.Common().StaticCallee(); callee != nil && m.isQueueMethod(callee, "push") {
					args := call.Common().Args
					if len(args) > 0 && isNilConst(stripConv(args[len(args)-1])) {
						return true
					}
				}
			}
			return false
		}
		for _, b := range fn.Blocks {
			for _, ins := range b.Instrs {
				if registersOrEnds(fn, ins) {
					c.cutBlock(b)
				}
				if call, ok := ins.(ssa.CallInstruction); ok {
					if callee := call.Common().StaticCallee(); callee != nil && m.inPkg(callee) && callee != loopFn {
						if _, isGo := call.(*ssa.Go); isGo {
							continue
						}
						for g := range m.reachableLocal(callee) {
							for _, gb := range g.Blocks {
								for _, gi := range gb.Instrs {
									if registersOrEnds(g, gi) {
										// only if unconditional in the helper
										if gb == g.Blocks[0] || func() bool {
											for _, ret := range returnsOf(g) {
												if !(gb == ret.Block() || gb.Dominates(ret.Block())) {
													return false
												}
											}
											return true
										}() {
											c.cutBlock(b)
										}
									}
								}
							}
						}
					}
				}
			}
		}
		r.check(!entryReach(fn, c)[goRun.Block().Index], rule, m.declName(fn)+" / started feed can end", m.instrPos(goRun), "on every path a started feed is either registered for live events or has its end marker queued", "a feed's goroutine can be started without the feed being registered for live events and without an end marker in its queue: it blocks forever, its done channel never closes, and shutdown cannot reach it")
	}
	if n == 0 {
		r.undecided(rule, "feed start", "-", "no function starts the feed loop in a goroutine")
	}
}

// ---------------------------------------------------------------- R-TIMER

// The expiry manager keeps a single pending timer: a new one is created only when none is held.
func (m *Model) ruleTIMER(r *Results) {
	const rule = "R-TIMER"
	n := 0
	for _, fn := range m.Funcs {
		m.eachCall(fn, func(c ssa.CallInstruction) {
			callee := c.Common().StaticCallee()
			if callee == nil || callee.Pkg == nil || callee.Pkg.Pkg.Path() != "time" || callee.Name() != "AfterFunc" {
				return
			}
			// stored into a *time.Timer field?
			var tf *types.Var
			if v := c.Value(); v != nil && v.Referrers() != nil {
				for _, ref := range *v.Referrers() {
					if st, ok := ref.(*ssa.Store); ok {
						if fa, ok := st.Addr.(*ssa.FieldAddr); ok {
							tf = fieldOf(fa)
						}
					}
				}
			}
			if tf == nil {
				return
			}
			n++
			guarded := false
			for _, ct := range controllingConds(fn, c.Block()) {
				cd := condOf(ct.If)
				eq, ok := cd.equalEdge()
				if !ok || !(isNilConst(cd.X) || isNilConst(cd.Y)) {
					continue
				}
				other := cd.X
				if isNilConst(cd.X) {
					other = cd.Y
				}
				if _, f, ok := fieldLoad(other); ok && f == tf {
					taken := ct.If.Block().Succs[0]
					if !ct.Branch {
						taken = ct.If.Block().Succs[1]
					}
					if taken == eq {
						guarded = true
					}
				}
			}
			r.check(guarded, rule, m.declName(fn)+" / new timer only when none is held", m.instrPos(c), "a timer is created only when the manager holds none (otherwise the held one is reset)", "a new timer is created although one may be pending: the old one is forgotten, stop() cannot cancel it, and it fires after the store has been shut down (a callback against a closed database)")
		})
	}
	if n == 0 {
		r.undecided(rule, "timer creation", "-", "no time.AfterFunc whose result is kept in a field")
	}
	_ = token.ADD
}

func (m *Model) goVersionString() string {
	if m.Pkg.Module == nil {
		return "<unknown>"
	}
	return m.Pkg.Module.GoVersion
}
