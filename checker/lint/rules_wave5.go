package lint

import (
	"go/constant"
	"fmt"
	"go/ast"
	"go/token"
	"go/types"
	"sort"
	"strings"

	"golang.org/x/tools/go/ssa"

	"rosmarlint/sqlp"
)

// ---------------------------------------------------------------- R-UNIQUE-LOOKUP

// A single-row read (QueryRow ... Scan) takes whichever row the engine happens to produce first.
// It therefore has to pin the row down: for every table it selects from that has a key (a UNIQUE
// constraint or an integer primary key), every column of one of the table's keys must be equated,
// in WHERE or ON, to a parameter, a literal, or a column of a table that is itself pinned down.
// Aggregates (min/max/count/...) and tables without any key (the singleton bucket row) are exempt.
// Dropping one conjunct of such a lookup (the scope of a collection, the design document of a
// view) compiles, and passes every test that uses one scope / one design document.
func (m *Model) ruleUNIQUELOOKUP(r *Results) {
	const rule = "R-UNIQUE-LOOKUP"
	m.sitesHealthy(r, rule)
	n := 0
	for _, s := range m.Sites {
		if !strings.HasPrefix(s.Method, "QueryRow") || s.IsSchema || s.Holes > 0 {
			continue
		}
		for _, v := range s.Variants {
			st := v.Stmt()
			if st == nil || st.Kind != sqlp.SSelect || st.Select == nil {
				continue
			}
			sel := st.Select
			if len(sel.From) == 0 || selectIsAggregate(sel) {
				continue
			}
			key := s.key(m, v) + " / row pinned down by a key"
			pos := m.instrPos(s.Call)
			// keys per referenced table
			type tref struct {
				ref  string
				keys [][]string
			}
			var trefs []tref
			opaque := false
			for i := range sel.From {
				f := &sel.From[i]
				if f.Sub != nil {
					opaque = true
					continue
				}
				t := m.Schema.Table(f.Name)
				if t == nil {
					opaque = true
					continue
				}
				var keys [][]string
				for _, u := range t.Uniques {
					var k []string
					for _, c := range u {
						k = append(k, lower(c))
					}
					keys = append(keys, k)
				}
				for _, cn := range t.Order {
					if cd := t.Columns[lower(cn)]; cd != nil && cd.PrimaryKey {
						keys = append(keys, []string{lower(cn)})
					}
				}
				trefs = append(trefs, tref{lower(f.RefName()), keys})
			}
			if opaque {
				r.info(rule, key, pos, "selects from a sub-select or an unknown table: not decided")
				continue
			}
			var conj []*sqlp.Expr
			conj = append(conj, sqlp.Conjuncts(sel.Where)...)
			for i := range sel.From {
				conj = append(conj, sqlp.Conjuncts(sel.From[i].On)...)
			}
			// column -> what it is equated to
			type eq struct {
				fixed bool   // parameter or literal
				tab   string // or a column of this table reference
			}
			eqs := map[string][]eq{} // "ref.col"
			owner := func(c *sqlp.Expr) string {
				if c.Table != "" {
					return lower(c.Table)
				}
				// unqualified: the one table that has such a column
				found := ""
				for i := range sel.From {
					if t := m.Schema.Table(sel.From[i].Name); t != nil && t.Columns[lower(c.Name)] != nil {
						if found != "" {
							return ""
						}
						found = lower(sel.From[i].RefName())
					}
				}
				return found
			}
			for _, c := range conj {
				if c.Kind != sqlp.EBinary || (c.Op != "=" && c.Op != "==" && c.Op != "IS") {
					continue
				}
				a, b := c.Args[0], c.Args[1]
				for k := 0; k < 2; k++ {
					if a.Kind == sqlp.EColumn {
						o := owner(a)
						if o != "" {
							id := o + "." + lower(a.Name)
							switch b.Kind {
							case sqlp.EParam, sqlp.ELit:
								eqs[id] = append(eqs[id], eq{fixed: true})
							case sqlp.EColumn:
								if ob := owner(b); ob != "" && ob != o {
									eqs[id] = append(eqs[id], eq{tab: ob})
								}
							}
						}
					}
					a, b = b, a
				}
			}
			pinned := map[string]bool{}
			for changed := true; changed; {
				changed = false
				for _, tr := range trefs {
					if pinned[tr.ref] {
						continue
					}
					if len(tr.keys) == 0 {
						pinned[tr.ref] = true // no key at all (singleton table): nothing to pin down
						changed = true
						continue
					}
					for _, k := range tr.keys {
						all := true
						for _, col := range k {
							ok := false
							for _, e := range eqs[tr.ref+"."+col] {
								if e.fixed || pinned[e.tab] {
									ok = true
								}
							}
							if !ok {
								all = false
							}
						}
						if all {
							pinned[tr.ref] = true
							changed = true
							break
						}
					}
				}
			}
			var loose []string
			for _, tr := range trefs {
				if !pinned[tr.ref] {
					var ks []string
					for _, k := range tr.keys {
						ks = append(ks, "("+strings.Join(k, ",")+")")
					}
					loose = append(loose, fmt.Sprintf("%s [keys %s]", tr.ref, strings.Join(ks, " ")))
				}
			}
			sort.Strings(loose)
			n++
			if sel.Limit != nil && len(sel.OrderBy) > 0 {
				r.ok(rule, key, pos, "an ordered LIMIT query chooses its row deliberately")
				continue
			}
			r.check(len(loose) == 0, rule, key, pos, "every table of the single-row read is pinned down by one of its keys", "the single-row read does not constrain a whole key of "+strings.Join(loose, "; ")+": several rows can match (the same collection name in two scopes, the same view name in two design documents, the same key in two collections) and the one returned is arbitrary")
		}
	}
	r.floor(rule, 15)
	_ = n
}

func selectIsAggregate(sel *sqlp.Select) bool {
	if len(sel.GroupBy) > 0 {
		return false
	}
	agg := false
	for _, c := range sel.Cols {
		if c.Expr != nil && c.Expr.Kind == sqlp.EFunc {
			switch strings.ToLower(c.Expr.Name) {
			case "min", "max", "count", "sum", "total", "avg", "group_concat":
				agg = true
			}
		}
	}
	return agg
}

// ---------------------------------------------------------------- R-READ-CAS

// A read helper that hands out documents.cas as one of its results hands it out whenever a row
// was read, whatever else it reports about the row (a tombstone is reported as missing *with*
// its CAS). The read-modify-write loops take their expected CAS from these helpers: a helper
// that returns 0 for a tombstone turns the loop's write-back into an insert-style write, which
// no longer notices that the tombstone it read was replaced, and which follows the insert
// statement's rules (xattrs dropped, flags of a new document) instead of the update's.
func (m *Model) ruleREADCAS(r *Results) {
	const rule = "R-READ-CAS"
	n := 0
	// the read helpers of the read-modify-write loops (a reader inside a transaction returns its
	// CAS to code that runs under the same lock and only on success)
	loopReaders := map[*ssa.Function]bool{}
	for _, lp := range m.rmwLoops() {
		for _, rd := range lp.Reads {
			if callee := rd.Common().StaticCallee(); callee != nil {
				for g := range m.reachableLocal(callee) {
					loopReaders[g] = true
				}
			}
		}
	}
	casReaders := map[*ssa.Function]int{} // helper -> index of the result that is the row's CAS
	casFields := map[*ssa.Function]int{}  // ... and, when that result is a row struct, the field holding it
	for _, sc := range m.scanCalls() {
		fn := sc.Fn
		if sc.Site == nil || sc.Dests == nil || fn.Parent() != nil || !loopReaders[fn] {
			continue
		}
		casIdx := -1
		for _, v := range sc.Site.Variants {
			st := v.Stmt()
			if st == nil || st.Select == nil || len(st.Select.From) != 1 || lower(st.Select.From[0].Name) != "documents" {
				continue
			}
			for i, c := range st.Select.Cols {
				if isCol(c.Expr, "cas") && i < len(sc.Dests) {
					casIdx = i
				}
			}
		}
		if casIdx < 0 {
			continue
		}
		cell := stripConv(sc.Dests[casIdx])
		// the CAS may be scanned into a field of a local row struct that is returned as a whole
		var rowObj ssa.Value
		rowField := -1
		if fa, isFA := cell.(*ssa.FieldAddr); isFA {
			if al, isAl := stripConv(fa.X).(*ssa.Alloc); isAl {
				rowObj, rowField = al, fa.Field
			}
		}
		isLoad := func(v ssa.Value) bool {
			ld, ok := stripConv(v).(*ssa.UnOp)
			if !ok || ld.Op != token.MUL {
				return false
			}
			return sameCell(ld.X, cell) || (rowObj != nil && stripConv(ld.X) == rowObj)
		}
		resIdx := -1
		for _, ret := range returnsOf(fn) {
			for j, rv := range ret.Results {
				if isLoad(rv) {
					resIdx = j
				}
			}
		}
		if resIdx < 0 {
			continue
		}
		// leave the scan through its success edge
		c := newCut()
		blk := sc.Call.Block()
		if iff, ok := blk.Instrs[len(blk.Instrs)-1].(*ssa.If); ok {
			cd := condOf(iff)
			if eq, ok := cd.equalEdge(); ok && (isNilConst(cd.X) || isNilConst(cd.Y)) {
				for _, s := range blk.Succs {
					if s != eq {
						c.cutEdge(blk, s)
					}
				}
			}
		}
		if len(c.edges) == 0 {
			// the scan's error is handed straight to the caller together with the row (`err = scan(..);
			// return r, err`): every return behind the scan is then "after a successful scan" as well
			if _, isRet := blk.Instrs[len(blk.Instrs)-1].(*ssa.Return); !isRet {
				r.undecided(rule, m.declName(fn)+" / returns the row's CAS whenever a row was read", m.instrPos(sc.Call), "the scan's error is not tested right after the scan")
				continue
			}
		}
		reach := reachableFromSuccs(blk, c)
		if _, isRet := blk.Instrs[len(blk.Instrs)-1].(*ssa.Return); isRet {
			reach[blk.Index] = true
		}
		n++
		bad := ""
		for _, ret := range returnsOf(fn) {
			if !reach[ret.Block().Index] {
				continue
			}
			if !isLoad(ret.Results[resIdx]) && !madeNotMissing(ret) {
				bad = m.instrPos(ret)
			}
		}
		// ... and the scanned cell is not overwritten on the way (`return nil, 0, 0, err` stores
		// into the named results before they are loaded for the return)
		for _, b := range fn.Blocks {
			if !reach[b.Index] {
				continue
			}
			for _, ins := range b.Instrs {
				if st, ok := ins.(*ssa.Store); ok && sameCell(st.Addr, cell) && !isLoad(st.Val) {
					bad = m.instrPos(st) // (`return cas, ...` re-stores the cell's own value: not an overwrite)
				}
			}
		}
		pos := m.instrPos(sc.Call)
		if bad != "" {
			pos = bad
		}
		if bad == "" {
			casReaders[fn] = resIdx
			if rowObj != nil {
				casFields[fn] = rowField
			}
		}
		r.check(bad == "", rule, m.declName(fn)+" / returns the row's CAS whenever a row was read", pos, "every return after a successful scan returns the scanned CAS", "a return that follows a successful scan of the row does not return the row's CAS (e.g. 0 for a tombstone): the read-modify-write loops built on this helper then write back with a CAS that does not identify the version they read")
	}
	// wrappers: a reader of the loops that hands on the CAS of such a helper hands it on from every
	// return behind the call - the helper reports a tombstone as "missing" WITH its CAS, and a
	// wrapper that answers 0 whenever there is an error takes that away again
	for round := 0; round < 3; round++ {
		for w := range loopReaders {
			if _, done := casReaders[w]; done || w.Parent() != nil || w.Blocks == nil {
				continue
			}
			m.eachCall(w, func(c ssa.CallInstruction) {
				h := c.Common().StaticCallee()
				idx, ok := casReaders[h]
				if !ok || c.Value() == nil || c.Value().Referrers() == nil {
					return
				}
				var ex ssa.Value
				for _, ref := range *c.Value().Referrers() {
					if e, ok := ref.(*ssa.Extract); ok && e.Index == idx {
						ex = e
					}
				}
				if ex == nil {
					return
				}
				fld, isRow := casFields[h]
				isCas := func(v ssa.Value) bool {
					v = stripConv(v)
					if !isRow {
						return v == ex
					}
					// the row struct itself, or its CAS field
					if v == ex {
						return true
					}
					f, ok := v.(*ssa.Field)
					return ok && f.Field == fld && stripConv(f.X) == ex
				}
				wIdx := -1
				wholeRow := false
				for _, ret := range returnsOf(w) {
					for j, rv := range ret.Results {
						if isCas(rv) {
							wIdx = j
							wholeRow = isRow && stripConv(rv) == ex
						}
					}
				}
				if wIdx < 0 {
					return
				}
				reach := reachableFromSuccs(c.Block(), newCut())
				reach[c.Block().Index] = true
				bad := ""
				for _, ret := range returnsOf(w) {
					if reach[ret.Block().Index] && !isCas(ret.Results[wIdx]) && !madeNotMissing(ret) {
						bad = m.instrPos(ret)
					}
				}
				if bad != "" && m.resultUsedOnlyOnSuccess(w, wIdx) {
					// (an unexported wrapper whose callers look at the CAS only where it reported no error)
					bad = ""
				}
				pos := m.instrPos(c)
				if bad != "" {
					pos = bad
				} else {
					casReaders[w] = wIdx
					if wholeRow {
						casFields[w] = fld
					}
				}
				n++
				r.check(bad == "", rule, m.declName(w)+" / hands on the CAS "+h.Name()+" read", pos, "every return behind the call returns the helper's CAS result", "a return behind the call of "+h.Name()+" does not hand on the CAS it read (e.g. `return 0, err`): for a tombstone the helper reports 'missing' together with the tombstone's CAS, which a CAS-guarded sub-document write or update on a deleted document needs in order to be honoured")
			})
		}
	}
	r.floor(rule, 1)
}

// ---------------------------------------------------------------- shared helpers

// naturalLoop: the innermost loop that contains blk: its header and its blocks (nil if none).
func naturalLoop(blk *ssa.BasicBlock) (*ssa.BasicBlock, map[*ssa.BasicBlock]bool) {
	fn := blk.Parent()
	var best *ssa.BasicBlock
	var bestSet map[*ssa.BasicBlock]bool
	for _, h := range fn.Blocks {
		if !(h == blk || h.Dominates(blk)) {
			continue
		}
		in := map[*ssa.BasicBlock]bool{h: true}
		var back func(b *ssa.BasicBlock)
		back = func(b *ssa.BasicBlock) {
			if in[b] {
				return
			}
			in[b] = true
			for _, p := range b.Preds {
				back(p)
			}
		}
		has := false
		for _, p := range h.Preds {
			if h.Dominates(p) {
				has = true
				back(p)
			}
		}
		if !has || !in[blk] {
			continue
		}
		if best == nil || best.Dominates(h) {
			best, bestSet = h, in
		}
	}
	return best, bestSet
}

// escapesViaSet: walking up the callers of f (static, VTA and lexical edges) without passing
// through one of `through`, the first exported function reached (or, unless deadOK, the first
// function nobody calls). nil if every call chain passes through the set.
func (m *Model) escapesViaSet(f *ssa.Function, through map[*ssa.Function]bool, deadOK bool, seen map[*ssa.Function]bool) *ssa.Function {
	if through[f] || seen[f] {
		return nil
	}
	seen[f] = true
	if ast.IsExported(f.Name()) && f.Parent() == nil {
		return f
	}
	callers := m.hybridCallersOf(f)
	if len(callers) == 0 {
		if deadOK {
			return nil
		}
		return f
	}
	for _, cl := range callers {
		g := cl.Site.Parent()
		for g.Parent() != nil {
			g = g.Parent()
		}
		if bad := m.escapesViaSet(g, through, deadOK, seen); bad != nil {
			return bad
		}
	}
	return nil
}

// errorEdgesCut cuts, in fn, the edge taken when an error value is non-nil (every `if err != nil`).
func errorEdgesCut(fn *ssa.Function, c *cut) {
	errT := types.Universe.Lookup("error").Type()
	for _, iff := range allIfs(fn) {
		cd := condOf(iff)
		eq, ok := cd.equalEdge()
		if !ok || !(isNilConst(cd.X) || isNilConst(cd.Y)) {
			continue
		}
		other := cd.X
		if isNilConst(cd.X) {
			other = cd.Y
		}
		if !types.Identical(other.Type(), errT) {
			continue
		}
		for _, s := range iff.Block().Succs {
			if s != eq {
				c.cutEdge(iff.Block(), s)
			}
		}
	}
}

// rowCanBeSkipped: after a successful Scan of a row, can the row loop come round to the next
// rows.Next() without passing one of the sink blocks and without an error having been seen?
func (m *Model) rowCanBeSkipped(sc *scanCall, sinks []*ssa.BasicBlock) bool {
	fn := sc.Fn
	c := newCut()
	for _, b := range sinks {
		c.cutBlock(b)
	}
	errorEdgesCut(fn, c)
	reach := reachableFromSuccs(sc.Call.Block(), c)
	skipped := false
	m.eachCall(fn, func(cl ssa.CallInstruction) {
		if isMethodCall(cl.Common(), "database/sql", "Rows", "Next") && reach[cl.Block().Index] && !c.blocks[cl.Block().Index] {
			skipped = true
		}
	})
	return skipped
}

// ---------------------------------------------------------------- R-FEED-DELIVER

// The feed's delivery loop hands every event it pulls to the callback: there is no way round
// from the pull to the next pull that does not pass the callback (the nil event that ends the
// feed leaves the loop). A "skip what was already delivered" test on the consumer side drops
// mutations whenever events are enqueued out of CAS order.
func (m *Model) ruleFEEDDELIVER(r *Results) {
	const rule = "R-FEED-DELIVER"
	fn, pull, cb := m.feedLoopFn()
	if fn == nil {
		r.undecided(rule, "feed loop", "-", "no function pulls from the queue in a loop and calls a callback")
		return
	}
	c := newCut()
	c.cutBlock(cb.Block())
	round := pull.Block() != cb.Block() && reachableFromSuccs(pull.Block(), c)[pull.Block().Index]
	// ... and the loop is left only because the queue yielded nil (closed, or the end marker of a
	// dump): any other exit condition - a flag of the handle the feed was started through, a
	// counter - ends the feed for reasons that are not the feed's
	if _, loop := naturalLoop(pull.Block()); loop != nil {
		badExit := ""
		for b := range loop {
			if len(b.Succs) < 2 {
				continue
			}
			leaves := false
			for _, sc := range b.Succs {
				if !loop[sc] {
					leaves = true
				}
			}
			if !leaves {
				continue
			}
			iff, ok := b.Instrs[len(b.Instrs)-1].(*ssa.If)
			if !ok {
				continue
			}
			cd := condOf(iff)
			okExit := false
			if _, isEq := cd.equalEdge(); isEq && (isNilConst(cd.X) || isNilConst(cd.Y)) {
				other := cd.X
				if isNilConst(cd.X) {
					other = cd.Y
				}
				okExit = m.pulledValue(other)
			}
			if !okExit {
				badExit = m.instrPos(iff)
			}
		}
		pos := m.instrPos(pull)
		if badExit != "" {
			pos = badExit
		}
		r.check(badExit == "", rule, "<feed-loop> / left only when the queue yields nil", pos, "every exit of the delivery loop tests the pulled event against nil", "the delivery loop has an exit that is not 'the queue yielded nil' (at "+badExit+"): the feed then ends - its done channel closes - on a condition such as the closed flag of the handle it was started through, although its terminator is open and the store is still in use through other handles")
	}
	r.check(!round, rule, "<feed-loop> / every pulled event is delivered", m.instrPos(pull), "no path from the pull back to the pull avoids the callback", "the delivery loop can go round from one pull to the next without calling the callback: an event taken off the queue is dropped (for example by a consumer-side 'already delivered' test, which is wrong whenever events are enqueued out of CAS order)")
}

// ---------------------------------------------------------------- R-POST-ALWAYS

// The post function fans every event out: the call that reaches the fan-out lies on every path
// through it, and the fan-out loop visits every registered feed (it has no exit but the end of
// the registry slice). A "nobody is listening" shortcut keyed on per-handle state, or a break
// on the first closed queue, loses events for the other handles' / the later feeds.
func (m *Model) rulePOSTALWAYS(r *Results) {
	const rule = "R-POST-ALWAYS"
	a := &m.A
	if a.PostFn == nil || a.FanoutFn == nil {
		r.undecided(rule, "anchors", "-", "post / fan-out function unresolved")
		return
	}
	var through []*ssa.BasicBlock
	var first ssa.CallInstruction
	m.eachCall(a.PostFn, func(c ssa.CallInstruction) {
		if callee := c.Common().StaticCallee(); callee != nil && m.inPkg(callee) && (callee == a.FanoutFn || m.reachableLocal(callee)[a.FanoutFn]) {
			through = append(through, c.Block())
			if first == nil {
				first = c
			}
		}
	})
	if a.PostFn == a.FanoutFn {
		r.ok(rule, "<post-event> / fan-out on every path", m.pos(a.PostFn.Pos()), "the post function is the fan-out")
	} else if first == nil {
		r.bad(rule, "<post-event> / fan-out on every path", m.pos(a.PostFn.Pos()), "the post function never reaches the fan-out")
	} else {
		ok, ret := mustPassThrough(a.PostFn, through, nil)
		pos := m.instrPos(first)
		if !ok && ret != nil {
			pos = m.instrPos(ret)
		}
		r.check(ok, rule, "<post-event> / fan-out on every path", pos, "every path through the post function reaches the fan-out", "the post function can return without fanning the event out (a 'nobody is listening' shortcut): state kept per handle or per collection object does not know about feeds started through another handle, so their events are lost")
	}
	// the fan-out loop visits every feed
	n := 0
	m.eachCall(a.FanoutFn, func(c ssa.CallInstruction) {
		callee := c.Common().StaticCallee()
		if callee == nil || !m.inPkg(callee) {
			return
		}
		// a push, or a helper of the feed that pushes
		pushes := false
		for g := range m.reachableLocal(callee) {
			if m.isQueueMethod(g, "push") {
				pushes = true
			}
		}
		if !pushes {
			return
		}
		hdr, loop := naturalLoop(c.Block())
		if hdr == nil {
			return
		}
		n++
		okLoop := true
		for b := range loop {
			if b == hdr {
				continue
			}
			for _, s := range b.Succs {
				if !loop[s] {
					okLoop = false
				}
			}
			if len(b.Succs) == 0 {
				okLoop = false
			}
		}
		r.check(okLoop, rule, "<fan-out> / loop visits every feed", m.instrPos(c), "the fan-out loop is left only when the registry slice is exhausted", "the fan-out loop can be left early (break / return in its body): the feeds registered after the one that triggered it never receive the event")
	})
	if n == 0 {
		r.undecided(rule, "<fan-out> / loop visits every feed", m.pos(a.FanoutFn.Pos()), "no push inside a loop in the fan-out function")
	}
	// the feeds an event goes to are the store-wide registry's, whatever the state of the handle the
	// writer used: on the post path the registry lookup is not controlled by the handle's closed
	// flag, and a helper that yields the list yields the lookup's result on every return
	if a.FeedsField != nil {
		nl := 0
		ext := m.reachableLocal(a.PostFn)
		ext[a.FanoutFn] = true
		for g := range m.reachableLocal(a.FanoutFn) {
			ext[g] = true
		}
		for g := range ext {
			for _, b := range g.Blocks {
				for _, ins := range b.Instrs {
					lk, ok := ins.(*ssa.Lookup)
					if !ok {
						continue
					}
					_, f, isFL := fieldLoad(lk.X)
					if !isFL || f != a.FeedsField {
						continue
					}
					nl++
					bad := ""
					for _, ct := range controllingConds(g, b) {
						if _, cf, ok := fieldLoad(stripConv(ct.If.Cond)); ok && a.ClosedField != nil && cf == a.ClosedField {
							bad = "the lookup is controlled by the handle's closed flag (" + m.instrPos(ct.If) + ")"
						}
					}
					// returned by this function? then on every return
					returnsIt := false
					for _, ret := range returnsOf(g) {
						for _, rv := range ret.Results {
							if stripConv(rv) == ssa.Value(lk) {
								returnsIt = true
							}
						}
					}
					if returnsIt {
						for _, ret := range returnsOf(g) {
							for j, rv := range ret.Results {
								if types.Identical(rv.Type(), lk.Type()) && stripConv(rv) != ssa.Value(lk) {
									_ = j
									bad = "a return of the helper that yields the feed list does not yield the registry's entry (" + m.instrPos(ret) + ")"
								}
							}
						}
					}
					r.check(bad == "", rule, m.declName(g)+" / recipients are the registry's, whatever the handle's state", m.instrPos(lk), "the registry lookup on the post path does not depend on the handle", bad+": a write that commits just before its own handle is closed is delivered to no feed, although the feeds belong to the store and other handles are still open")
				}
			}
		}
		if nl == 0 {
			r.undecided(rule, "<fan-out> / registry lookup", "-", "no lookup of the feed registry on the post path")
		}
	}
}

// ---------------------------------------------------------------- R-FEED-STOPPERS

// Feeds found in the store-wide registry are closed only on behalf of the whole store or of a
// dropped collection: every call chain to a function that closes the feeds it finds in the
// registry passes through the shutdown routine or through the function that deletes the
// collection's row. Reaching it from a handle's Close ends feeds that other handles started.
func (m *Model) ruleFEEDSTOPPERS(r *Results) {
	const rule = "R-FEED-STOPPERS"
	a := &m.A
	if a.FeedsField == nil || a.ShutdownFn == nil {
		r.undecided(rule, "anchors", "-", "feed registry / shutdown routine unresolved")
		return
	}
	allowed := map[*ssa.Function]bool{a.ShutdownFn: true}
	for _, s := range m.Sites {
		for _, v := range s.Variants {
			if st := v.Stmt(); st != nil && st.Kind == sqlp.SDelete && lower(st.Table) == "collections" {
				f := s.Fn
				for f.Parent() != nil {
					f = f.Parent()
				}
				allowed[f] = true
			}
		}
	}
	n := 0
	for _, fn := range m.Funcs {
		if fn.Parent() != nil {
			continue
		}
		// ranges over the registry (or an element of it) and closes what it finds
		readsReg := false
		for _, b := range fn.Blocks {
			for _, ins := range b.Instrs {
				if fa, ok := ins.(*ssa.FieldAddr); ok && fieldOf(fa) == a.FeedsField {
					readsReg = true
				}
			}
		}
		if !readsReg {
			continue
		}
		var closer ssa.CallInstruction
		m.eachCall(fn, func(c ssa.CallInstruction) {
			callee := c.Common().StaticCallee()
			if callee == nil || !m.inPkg(callee) || !inCycle(c.Block()) {
				return
			}
			for g := range m.reachableLocal(callee) {
				if m.isQueueMethod(g, "close") {
					closer = c
				}
			}
		})
		if closer == nil {
			continue
		}
		n++
		bad := m.escapesViaSet(fn, allowed, true, map[*ssa.Function]bool{})
		who := fn
		if bad != nil {
			who = bad
		}
		key := m.declName(fn) + " / closes registered feeds only for the store or a dropped collection"
		if bad != nil {
			key = m.declName(fn) + " / reached from " + m.declName(who)
		}
		r.check(bad == nil, rule, key, m.instrPos(closer), "every call chain passes through the shutdown routine or the collection drop", "the feeds found in the store-wide registry are closed on a call chain that starts at "+m.declName(who)+" and passes neither the shutdown routine nor the collection drop: feeds started through other, still open handles are ended")
	}
	if n == 0 {
		r.undecided(rule, "feed stoppers", "-", "no function closes the feeds it finds in the registry")
	}
}

// ---------------------------------------------------------------- R-MEMURL

// The bucket URL's "mode=memory" decides whether a bucket has files. Every function that touches
// the file system on behalf of a bucket URL (the opener creating the directory, the deleter
// removing the database) does so only on paths on which the PARSED url's mode parameter was
// compared with "memory" and found different. An opener that classifies by another test (say,
// the literal spellings helper) creates files for URLs the deleter regards as in-memory.
func (m *Model) ruleMEMURL(r *Results) {
	const rule = "R-MEMURL"
	n := 0
	// modeCut: in g, the edges on which the parsed URL's mode parameter differs from "memory"
	var modeCut func(g *ssa.Function) *cut
	// classifier: result idx of helper h is a boolean that has one constant value on every return
	// h reaches without having found the mode different from "memory"; +1: that value is true
	// ("true may mean memory, false means not memory"), -1: it is false
	classifier := func(h *ssa.Function, idx int) int {
		if h == nil || !m.inPkg(h) || h.Blocks == nil || !m.usesURLModeDirect(h) {
			return 0
		}
		hc := modeCut(h)
		if len(hc.edges) == 0 {
			return 0
		}
		reach := entryReach(h, hc)
		pol := 0
		for _, ret := range returnsOf(h) {
			if !reach[ret.Block().Index] || idx >= len(ret.Results) {
				continue
			}
			k, ok := stripConv(ret.Results[idx]).(*ssa.Const)
			if !ok || k.Value == nil || k.Value.Kind() != constant.Bool {
				return 0
			}
			p := -1
			if constant.BoolVal(k.Value) {
				p = 1
			}
			if pol != 0 && pol != p {
				return 0
			}
			pol = p
		}
		return pol
	}
	modeCut = func(g *ssa.Function) *cut {
		c := newCut()
		for _, d := range m.decisions(g, topFrame(g)) {
			cd := d.C
			// a predicate helper (`isMemoryMode(u)`), possibly kept in a local first
			if cd.Op == token.ILLEGAL && cd.X != nil {
				rv, _ := m.resolve(cd.X, topFrame(g))
				if ex, ok := stripConv(rv).(*ssa.Extract); ok {
					if call, ok := ex.Tuple.(*ssa.Call); ok {
						if pol := classifier(call.Common().StaticCallee(), ex.Index); pol != 0 {
							d.cutSucc(c, cd.succWhen(pol != 1))
						}
					}
					continue
				}
				if call, ok := stripConv(rv).(*ssa.Call); ok {
					if pol := m.modePredicate(call.Common().StaticCallee()); pol != 0 {
						// pol=+1: true means "memory"
						d.cutSucc(c, cd.succWhen(pol != 1))
					}
				}
				continue
			}
			if cd.Op != token.EQL && cd.Op != token.NEQ {
				continue
			}
			var other ssa.Value
			if s, ok := constString(cd.X); ok && s == "memory" {
				other = cd.Y
			} else if s, ok := constString(cd.Y); ok && s == "memory" {
				other = cd.X
			}
			if other == nil || !isURLModeGet(other) {
				continue
			}
			d.cutNotEqual(c)
		}
		return c
	}
	// check: the call `site` (a file-system operation, or a call of a helper that performs one)
	// in function g. If g itself looks at the URL's mode, the site must be guarded there;
	// otherwise g is a helper and the obligation moves to g's callers.
	var check func(g *ssa.Function, site ssa.CallInstruction, op string, depth int, seen map[*ssa.Function]bool)
	check = func(g *ssa.Function, site ssa.CallInstruction, op string, depth int, seen map[*ssa.Function]bool) {
		for g.Parent() != nil {
			g = g.Parent()
		}
		if m.usesURLMode(g) {
			c := modeCut(g)
			n++
			r.check(len(c.edges) > 0 && !entryReach(g, c)[site.Block().Index], rule, m.declName(g)+" / "+op+" only for a URL whose mode is not memory", m.instrPos(site), "reached only after the parsed URL's mode parameter was found different from \"memory\"", "the bucket's directory or database file is created/removed on a path that has not compared the parsed URL's mode parameter with \"memory\": openers and deleters then disagree about which URLs have files (data that survives CloseAndDelete, or files created for an in-memory bucket)")
			return
		}
		if depth >= 3 || seen[g] {
			return
		}
		seen[g] = true
		callers := m.staticCallersOf(g)
		if len(callers) == 0 && ast.IsExported(g.Name()) {
			n++
			r.bad(rule, m.declName(g)+" / "+op+" only for a URL whose mode is not memory", m.instrPos(site), "an exported function performs the file-system operation without looking at the URL's mode parameter")
			return
		}
		for _, cl := range callers {
			check(cl.Parent(), cl, op, depth+1, seen)
		}
	}
	for _, fn := range m.Funcs {
		if !m.inPkg(fn) {
			continue
		}
		m.eachCall(fn, func(c ssa.CallInstruction) {
			if callee := c.Common().StaticCallee(); callee != nil && isFsMutator(callee) {
				check(fn, c, callee.Name(), 0, map[*ssa.Function]bool{})
			}
		})
	}
	if n < 2 {
		r.undecided(rule, "instance-floor", "-", "only %d file-system operations on bucket URLs found; the opener and the deleter were confirmed by hand", n)
	}
}

func isFsMutator(f *ssa.Function) bool {
	if f.Pkg == nil || f.Pkg.Pkg.Path() != "os" {
		return false
	}
	switch f.Name() {
	case "Mkdir", "MkdirAll", "Remove", "RemoveAll":
		return true
	}
	return false
}

// isURLModeGet: v is (url.Values).Get(_, "mode").
func isURLModeGet(v ssa.Value) bool {
	call, ok := stripConv(v).(*ssa.Call)
	if !ok {
		return false
	}
	f := call.Common().StaticCallee()
	if f == nil || f.Name() != "Get" || f.Signature.Recv() == nil || !isNamed(f.Signature.Recv().Type(), "net/url", "Values") {
		return false
	}
	args := call.Common().Args
	s, ok := constString(args[len(args)-1])
	return ok && s == "mode"
}

func (m *Model) usesURLMode(fn *ssa.Function) bool {
	found := m.usesURLModeDirect(fn)
	for _, b := range fn.Blocks {
		for _, ins := range b.Instrs {
			// a classifier helper that looks at the mode and hands back a flag among its results
			if c, ok := ins.(*ssa.Call); ok {
				if h := c.Common().StaticCallee(); h != nil && m.inPkg(h) && h.Blocks != nil && h.Signature.Results().Len() > 1 && m.usesURLModeDirect(h) {
					for i := 0; i < h.Signature.Results().Len(); i++ {
						if b, ok := h.Signature.Results().At(i).Type().Underlying().(*types.Basic); ok && b.Kind() == types.Bool {
							found = true
						}
					}
				}
			}
		}
	}
	return found
}

func (m *Model) usesURLModeDirect(fn *ssa.Function) bool {
	found := false
	for _, b := range fn.Blocks {
		for _, ins := range b.Instrs {
			if v, ok := ins.(ssa.Value); ok && isURLModeGet(v) {
				found = true
			}
			if c, ok := ins.(*ssa.Call); ok && m.modePredicate(c.Common().StaticCallee()) != 0 {
				found = true
			}
		}
	}
	return found
}

// modePredicate: h is a package function whose only result says whether the parsed URL's mode
// parameter is "memory" (+1) or is not (-1); 0 otherwise.
func (m *Model) modePredicate(h *ssa.Function) int {
	if h == nil || !m.inPkg(h) || h.Blocks == nil || h.Signature.Results().Len() != 1 {
		return 0
	}
	rets := returnsOf(h)
	if len(rets) != 1 {
		return 0
	}
	bo, ok := stripConv(rets[0].Results[0]).(*ssa.BinOp)
	if !ok || (bo.Op != token.EQL && bo.Op != token.NEQ) {
		return 0
	}
	var other ssa.Value
	if s, ok := constString(bo.X); ok && s == "memory" {
		other = bo.Y
	} else if s, ok := constString(bo.Y); ok && s == "memory" {
		other = bo.X
	}
	if other == nil || !isURLModeGet(other) {
		return 0
	}
	if bo.Op == token.EQL {
		return 1
	}
	return -1
}

// ---------------------------------------------------------------- R-KEEP-NEEDS-ROW

// An option that says "keep what the row has" (PreserveExpiry and the like) can only be honoured
// where a row was read: a load of a Scan destination that is controlled by a test of an options
// field must not be reachable through the Scan's failure edge. On the "no such row" path the
// destination still holds its zero value, and using it there silently replaces what the caller
// supplied (an insert with PreserveExpiry stores expiry 0).
func (m *Model) ruleKEEPNEEDSROW(r *Results) {
	const rule = "R-KEEP-NEEDS-ROW"
	isOptField := func(v ssa.Value) bool {
		ld, ok := stripConv(v).(*ssa.UnOp)
		if !ok || ld.Op != token.MUL {
			return false
		}
		fa, ok := ld.X.(*ssa.FieldAddr)
		if !ok {
			return false
		}
		pt, ok := fa.X.Type().Underlying().(*types.Pointer)
		if !ok {
			return false
		}
		named, ok := pt.Elem().(*types.Named)
		// the caller's options (a pointer parameter of an exported options type), not a local flag struct
		return ok && strings.HasSuffix(named.Obj().Name(), "Options") && named.Obj().Exported()
	}
	n := 0
	for _, sc := range m.scanCalls() {
		fn := sc.Fn
		if sc.Dests == nil || sc.Site == nil {
			continue
		}
		blk := sc.Call.Block()
		iff, ok := blk.Instrs[len(blk.Instrs)-1].(*ssa.If)
		if !ok {
			continue
		}
		cd := condOf(iff)
		eq, ok := cd.equalEdge()
		if !ok || !(isNilConst(cd.X) || isNilConst(cd.Y)) {
			continue
		}
		c := newCut()
		c.cutEdge(blk, eq) // leave through the failure edge only
		reachF := reachableFromSuccs(blk, c)
		for di, d := range sc.Dests {
			al, ok := d.(*ssa.Alloc)
			if !ok || al.Referrers() == nil {
				continue
			}
			colName := al.Comment
			for _, v := range sc.Site.Variants {
				if st := v.Stmt(); st != nil && st.Select != nil && di < len(st.Select.Cols) && st.Select.Cols[di].Expr != nil {
					colName = "column " + st.Select.Cols[di].Expr.String()
				}
			}
			for _, ref := range *al.Referrers() {
				ld, ok := ref.(*ssa.UnOp)
				if !ok || ld.Op != token.MUL || ld.Parent() != fn {
					continue
				}
				optTest := ""
				for _, ct := range controllingConds(fn, ld.Block()) {
					cc := condOf(ct.If)
					if cc.Op == token.ILLEGAL && cc.X != nil && isOptField(cc.X) {
						optTest = m.instrPos(ct.If)
					}
				}
				if optTest == "" {
					continue
				}
				n++
				r.check(!reachF[ld.Block().Index], rule, m.declName(fn)+" / "+colName+" kept only where a row was read", m.instrPos(ld), "the option-controlled use of the row's value is unreachable when the row could not be read", "the value of "+colName+" that the Scan would have filled is used under an option test (at "+optTest+") on a path on which the Scan failed (no such row): the variable still holds its zero value there and silently replaces what the caller supplied")
			}
		}
	}
	if n == 0 {
		r.info(rule, "instances", "-", "no option-controlled use of a Scan destination in the function that scans it (the shape this rule recognises); nothing to decide")
	}
}

// ---------------------------------------------------------------- R-XATTR-VALIDATE

// The combined body+xattr writer validates every xattr value the caller supplied (it decodes the
// JSON) before it enters the transaction, and whether it does so depends only on the value itself
// (nil = delete this xattr) - not on options. The transaction later re-encodes the xattr map and
// discards the encoder's error on the strength of that validation: a value that was let through
// undecoded makes the encoder fail, and the row's xattrs are then stored as NULL while the write
// reports success.
func (m *Model) ruleXATTRVALIDATE(r *Results) {
	const rule = "R-XATTR-VALIDATE"
	n := 0
	reachesDecode := func(f *ssa.Function) bool {
		for g := range m.reachableLocal(f) {
			found := false
			m.eachCall(g, func(c ssa.CallInstruction) {
				if t := c.Common().StaticCallee(); t != nil && t.Pkg != nil && t.Pkg.Pkg.Path() == "encoding/json" && (t.Name() == "Unmarshal" || t.Name() == "Valid") {
					found = true
				}
			})
			if found {
				return true
			}
		}
		return false
	}
	for _, fn := range m.Funcs {
		if fn.Parent() != nil || !m.inPkg(fn) {
			continue
		}
		for _, P := range fn.Params {
			mp, ok := P.Type().Underlying().(*types.Map)
			if !ok {
				continue
			}
			named, ok := mp.Elem().(*types.Named)
			if !ok || named.Obj().Pkg() != m.SSA.Pkg {
				continue
			}
			if _, isStruct := named.Underlying().(*types.Struct); !isStruct {
				continue
			}
			// the range over P
			var rng *ssa.Range
			for _, b := range fn.Blocks {
				for _, ins := range b.Instrs {
					rg, ok := ins.(*ssa.Range)
					if !ok {
						continue
					}
					x := stripConv(rg.X)
					if ld, isLd := x.(*ssa.UnOp); isLd && ld.Op == token.MUL {
						// a parameter captured by a closure lives in a cell that is stored once, on entry
						if al, isAl := ld.X.(*ssa.Alloc); isAl {
							for _, ref := range *al.Referrers() {
								if st, isSt := ref.(*ssa.Store); isSt && st.Addr == ssa.Value(al) && st.Block() == fn.Blocks[0] {
									x = stripConv(st.Val)
								}
							}
						}
					}
					if x == ssa.Value(P) {
						rng = rg
					}
				}
			}
			if rng == nil {
				continue
			}
			var next *ssa.Next
			for _, ref := range *rng.Referrers() {
				if nx, ok := ref.(*ssa.Next); ok {
					next = nx
				}
			}
			if next == nil {
				continue
			}
			_, loop := naturalLoop(next.Block())
			if loop == nil {
				continue
			}
			var decode ssa.CallInstruction
			for b := range loop {
				for _, ins := range b.Instrs {
					if c, ok := ins.(ssa.CallInstruction); ok {
						if callee := c.Common().StaticCallee(); callee != nil && m.inPkg(callee) && reachesDecode(callee) {
							decode = c
						}
					}
				}
			}
			if decode == nil {
				continue // a loop over the values that is not the validating one
			}
			n++
			key := m.declName(fn) + " / every supplied xattr value is decoded before the transaction"
			bad := ""
			for _, ct := range controllingConds(fn, decode.Block()) {
				if !loop[ct.If.Block()] || ct.If.Block() == next.Block() {
					continue
				}
				cd := condOf(ct.If)
				okCond := false
				for _, o := range []ssa.Value{cd.X, cd.Y} {
					if o == nil {
						continue
					}
					v := stripConv(o)
					if types.Identical(v.Type(), types.Universe.Lookup("error").Type()) {
						okCond = true
					}
					if call, isCall := v.(*ssa.Call); isCall {
						if callee := call.Common().StaticCallee(); callee != nil && m.methodOwnerNamed(callee) == named {
							okCond = true // a predicate of the value itself (isNil)
						}
					}
					if ex, isEx := v.(*ssa.Extract); isEx && ex.Tuple == ssa.Value(next) {
						okCond = true
					}
				}
				if !okCond {
					bad = m.instrPos(ct.If)
				}
			}
			// the validating loop precedes every CAS-allocating transaction the function (or what it calls) enters
			before := true
			m.eachCall(fn, func(c ssa.CallInstruction) {
				callee := c.Common().StaticCallee()
				if callee == nil || !m.inPkg(callee) {
					return
				}
				if callee == m.A.Allocator || m.reachableLocal(callee)[m.A.Allocator] {
					if !next.Block().Dominates(c.Block()) {
						before = false
					}
				}
			})
			pos := m.instrPos(decode)
			if bad != "" {
				pos = bad
			}
			r.check(bad == "" && before, rule, key, pos, "decoding depends only on the value itself and precedes the transaction", "whether a supplied xattr value is decoded (validated) depends on something other than the value (an option, at "+bad+"), or happens after the transaction began: an invalid value can reach the transaction, where the re-encoding error is discarded and the row's xattrs are stored as NULL while the write reports success")
		}
	}
	// removing an xattr that is not there fails, whatever else the write does: in a loop over the
	// requested changes, the "not found" edge of the lookup whose "found" edge deletes the entry
	// reaches neither the next iteration nor a return that can report success
	nr := 0
	for _, fn := range m.Funcs {
		if !m.inPkg(fn) {
			continue
		}
		for _, b := range fn.Blocks {
			for _, ins := range b.Instrs {
				lk, ok := ins.(*ssa.Lookup)
				if !ok || !lk.CommaOk || lk.Referrers() == nil {
					continue
				}
				// the key is the key of an enclosing range loop (here, or in the caller that hands it
				// to this helper)
				isRangeKey := func(v ssa.Value) (*ssa.Extract, bool) {
					kx, ok := stripConv(v).(*ssa.Extract)
					if !ok {
						return nil, false
					}
					_, isNext := kx.Tuple.(*ssa.Next)
					return kx, isNext
				}
				kx, ok := isRangeKey(lk.Index)
				if !ok {
					if p, isP := stripConv(lk.Index).(*ssa.Parameter); isP {
						for i, q := range fn.Params {
							if q != p {
								continue
							}
							for _, cl := range m.staticCallersOf(fn) {
								if i < len(cl.Common().Args) {
									if _, isK := isRangeKey(cl.Common().Args[i]); isK {
										ok = true
									}
								}
							}
						}
					}
					if !ok {
						continue
					}
					kx = nil
				}
				for _, ref := range *lk.Referrers() {
					ex, ok := ref.(*ssa.Extract)
					if !ok || ex.Index != 1 || ex.Referrers() == nil {
						continue
					}
					for _, r2 := range *ex.Referrers() {
						iff, ok := r2.(*ssa.If)
						if !ok {
							continue
						}
						cd := condOf(iff)
						foundSucc, missSucc := cd.succWhen(true), cd.succWhen(false)
						deletes := false
						for _, in2 := range foundSucc.Instrs {
							if c, ok := in2.(*ssa.Call); ok {
								if bi, ok := c.Common().Value.(*ssa.Builtin); ok && bi.Name() == "delete" && len(c.Common().Args) == 2 && sameMapValue(c.Common().Args[0], lk.X) {
									deletes = true
								}
							}
						}
						if !deletes {
							continue
						}
						nr++
						bad := ""
						reach := reachableFrom(missSucc, newCut())
						for _, b2 := range fn.Blocks {
							if !reach[b2.Index] {
								continue
							}
							for _, in2 := range b2.Instrs {
								switch y := in2.(type) {
								case *ssa.Next:
									if kx != nil && y == kx.Tuple {
										bad = "the next iteration"
									}
								case *ssa.Return:
									if bad == "" && !m.mustBeFailureReturn(y) {
										bad = "a return that can report success (" + m.instrPos(y) + ")"
									}
								}
							}
						}
						r.check(bad == "", rule, m.declName(fn)+" / removing an entry that is not there fails", m.instrPos(iff), "from the not-found edge only failing returns are reachable", "when the entry to be removed is not there the loop can go on to "+bad+": the rest of the write is applied and reported as a success although part of what was asked for could not be done (a combined write is all-or-nothing)")
					}
				}
			}
		}
	}
	if nr < 1 {
		r.undecided(rule, "removal loop", "-", "no loop that removes requested entries after looking them up was found")
	}
	r.floor(rule, 1)
	_ = n
}

// methodOwnerNamed: the named type a method is declared on (pointer or value receiver).
func (m *Model) methodOwnerNamed(fn *ssa.Function) *types.Named {
	recv := fn.Signature.Recv()
	if recv == nil {
		return nil
	}
	t := recv.Type()
	if pt, ok := t.(*types.Pointer); ok {
		t = pt.Elem()
	}
	named, _ := t.(*types.Named)
	return named
}

// ---------------------------------------------------------------- R-ERR-DROPPED

// An error that a call returned and that the function only ever compares with nil is reported
// nowhere. That is harmless when the "non-nil" branch returns some other error or goes on with
// other work (a deliberate "ignore"), but when a return that may report success follows it
// immediately - nothing at all is done about the failure - the failure is swallowed: the
// classic case is `if x, err := f(); err == nil { ... }; return` in a function whose named result
// is also called err - the inner err shadows it, and the bare return hands back the outer one,
// which is nil.
func (m *Model) ruleERRDROPPED(r *Results) {
	const rule = "R-ERR-DROPPED"
	errT := types.Universe.Lookup("error").Type()
	n := 0
	for _, fn := range m.Funcs {
		if !m.inPkg(fn) || len(fn.Blocks) == 0 {
			continue
		}
		res := fn.Signature.Results()
		if res.Len() == 0 || !types.Identical(res.At(res.Len()-1).Type(), errT) {
			continue
		}
		for _, b := range fn.Blocks {
			for _, ins := range b.Instrs {
				v, ok := ins.(ssa.Value)
				if !ok {
					continue
				}
				switch x := v.(type) {
				case *ssa.Call:
				case *ssa.Extract:
					if _, isCall := x.Tuple.(*ssa.Call); !isCall {
						continue
					}
				default:
					continue
				}
				if !types.Identical(v.Type(), errT) {
					continue
				}
				refs := v.Referrers()
				if refs == nil {
					continue
				}
				var tests []*ssa.If
				onlyTested := true
				for _, ref := range *refs {
					switch y := ref.(type) {
					case *ssa.DebugRef:
					case *ssa.BinOp:
						if (y.Op == token.EQL || y.Op == token.NEQ) && (isNilConst(y.X) || isNilConst(y.Y)) {
							for _, r2 := range *y.Referrers() {
								if iff, isIf := r2.(*ssa.If); isIf {
									tests = append(tests, iff)
								} else if _, isDbg := r2.(*ssa.DebugRef); !isDbg {
									onlyTested = false // the comparison's outcome is kept / combined: not decided here
								}
							}
						} else {
							onlyTested = false
						}
					default:
						onlyTested = false
					}
				}
				if !onlyTested || len(tests) == 0 {
					continue
				}
				n++
				bad := ""
				for _, iff := range tests {
					cd := condOf(iff)
					eq, ok := cd.equalEdge()
					if !ok || inCycle(iff.Block()) {
						continue // per-item best effort inside a loop is a deliberate "ignore"
					}
					for _, s := range iff.Block().Succs {
						if s == eq {
							continue
						}
						// ... and nothing at all is done about it: a return is reached without any
						// further call (a branch that goes on with other work has decided to ignore
						// the failure; that is not judged here)
						c := newCut()
						for _, bb := range fn.Blocks {
							for _, in2 := range bb.Instrs {
								if _, isCall := in2.(ssa.CallInstruction); isCall {
									c.cutBlock(bb)
								}
							}
						}
						reach := reachableFrom(s, c)
						for _, ret := range returnsOf(fn) {
							if reach[ret.Block().Index] && !m.mustBeFailureReturn(ret) {
								bad = m.instrPos(ret)
							}
						}
					}
				}
				callee := "a call"
				var cc *ssa.CallCommon
				switch x := v.(type) {
				case *ssa.Call:
					cc = x.Common()
				case *ssa.Extract:
					cc = x.Tuple.(*ssa.Call).Common()
				}
				if f := cc.StaticCallee(); f != nil {
					callee = f.Name()
				} else if cc.IsInvoke() {
					callee = cc.Method.Name()
				}
				pos := m.instrPos(ins)
				if bad != "" {
					pos = bad
				}
				r.check(bad == "", rule, m.declName(fn)+" / error of "+callee+" is reported when it is non-nil", pos, "the error is only compared with nil, and every return reachable from its non-nil branch reports a failure", "the error returned by "+callee+" is only ever compared with nil, and from the branch on which it is non-nil the function can reach a return that may report success (e.g. a bare return of a named result that the inner variable shadows): the failure is swallowed")
			}
		}
	}
	// a pointer that came back together with an error is not wrapped into an interface result on
	// the branch where that error was found non-nil: the caller's `!= nil` test passes on the typed
	// nil and the first method call panics
	for _, fn := range m.Funcs {
		if !m.inPkg(fn) || fn.Blocks == nil {
			continue
		}
		for _, ret := range returnsOf(fn) {
			for j, rv := range ret.Results {
				mi, ok := rv.(*ssa.MakeInterface)
				if !ok || isErrorType(fn.Signature.Results().At(j).Type()) {
					continue
				}
				if _, isPtr := mi.X.Type().Underlying().(*types.Pointer); !isPtr {
					continue
				}
				ex, ok := mi.X.(*ssa.Extract)
				if !ok {
					continue
				}
				call, ok := ex.Tuple.(*ssa.Call)
				if !ok {
					continue
				}
				errV := writeErrValue(call)
				if errV == nil {
					continue
				}
				c := newCut()
				for _, iff := range allIfs(fn) {
					cd := condOf(iff)
					eq, ok := cd.equalEdge()
					if !ok || !(isNilConst(cd.X) || isNilConst(cd.Y)) {
						continue
					}
					other := cd.X
					if isNilConst(cd.X) {
						other = cd.Y
					}
					if stripConv(other) == errV {
						c.cutEdge(iff.Block(), eq)
					}
				}
				if len(c.edges) == 0 {
					continue // the error is never looked at: nothing to contradict
				}
				n++
				okR := !reachableFromSuccs(call.Block(), c)[ret.Block().Index]
				name := "?"
				if f := call.Common().StaticCallee(); f != nil {
					name = f.Name()
				}
				r.check(okR, rule, m.declName(fn)+" / result of "+name+" is handed out as an interface only when its error is nil", m.instrPos(ret), "the return is reachable only through the branch on which the error was nil", "the pointer returned by "+name+" is converted to an interface result on a path where its error was found non-nil (the error branch falls through): the caller receives a non-nil interface holding a nil pointer, its nil test passes and the first method call panics")
			}
		}
	}
	if n == 0 {
		r.info(rule, "instances", "-", "no error value is only compared with nil")
	}
	// A pointer that comes with an error nobody looks at may be nil: it is not dereferenced.
	nd := 0
	for _, fn := range m.Funcs {
		m.eachCall(fn, func(c ssa.CallInstruction) {
			call, ok := c.(*ssa.Call)
			if !ok || call.Referrers() == nil {
				return
			}
			g := call.Common().StaticCallee()
			if g == nil || !m.inPkg(g) {
				return
			}
			tup, ok := call.Type().(*types.Tuple)
			if !ok || tup.Len() < 2 || !isErrorType(tup.At(tup.Len()-1).Type()) {
				return
			}
			var errEx *ssa.Extract
			var ptrs []*ssa.Extract
			for _, ref := range *call.Referrers() {
				ex, ok := ref.(*ssa.Extract)
				if !ok {
					continue
				}
				if ex.Index == tup.Len()-1 {
					errEx = ex
				} else if _, isPtr := ex.Type().Underlying().(*types.Pointer); isPtr {
					ptrs = append(ptrs, ex)
				}
			}
			if errEx != nil && errEx.Referrers() != nil && len(*errEx.Referrers()) > 0 {
				return // the error is looked at
			}
			for _, p := range ptrs {
				if p.Referrers() == nil {
					continue
				}
				deref := ""
				for _, u := range *p.Referrers() {
					switch x := u.(type) {
					case *ssa.FieldAddr:
						if x.X == ssa.Value(p) {
							deref = m.instrPos(x)
						}
					case *ssa.UnOp:
						if x.Op == token.MUL && x.X == ssa.Value(p) {
							deref = m.instrPos(x)
						}
					}
				}
				nd++
				r.check(deref == "", rule, m.declName(fn)+" / pointer from "+g.Name()+" is not dereferenced while its error is ignored", m.instrPos(call), "", "the error returned by "+g.Name()+" is discarded and the pointer that came with it is dereferenced at "+deref+": when the call fails (a closed bucket fails every call) the pointer is nil, and in a goroutine of the library that is a panic nobody can recover")
			}
		})
	}
	r.ok(rule, "pointers with an ignored error", "-", "%d pointer result(s) whose error is discarded", nd)
}

// ---------------------------------------------------------------- R-NIL-ROW

// The handle a reader gets from db() may be the stub of a closed bucket, whose QueryRow returns
// a nil *sql.Row. The package's scan helper turns that into the bucket-closed error; calling
// (*sql.Row).Scan directly on such a row is a nil-pointer panic in the caller's goroutine when a
// Close lands between two reads.
func (m *Model) ruleNILROW(r *Results) {
	const rule = "R-NIL-ROW"
	n := 0
	for _, sc := range m.scanCalls() {
		cc := sc.Call.Common()
		if !isMethodCall(cc, "database/sql", "Row", "Scan") || sc.Fn == m.A.ScanHelper {
			continue
		}
		n++
		key := m.declName(sc.Fn) + " / row of a handle that may be closed is scanned through the nil-safe helper"
		if sc.Site == nil {
			r.check(false, rule, key, m.instrPos(sc.Call), "", "(*sql.Row).Scan is called directly on a row whose origin the checker cannot see: if it can come from the closed-bucket stub it is nil")
			continue
		}
		r.check(!sc.Site.Classes[HClosed] && !sc.Site.Classes[HUnknown], rule, key, m.instrPos(sc.Call), "the row comes from a handle that is never the closed-bucket stub ("+classList(sc.Site)+")", "(*sql.Row).Scan is called directly on a row from a handle that may be the closed-bucket stub ("+classList(sc.Site)+"), whose QueryRow returns nil: a Close that lands before this read makes it a nil-pointer panic instead of a bucket-closed error")
	}
	if n == 0 {
		r.info(rule, "instances", "-", "no direct (*sql.Row).Scan outside the scan helper")
	}
	// A result set obtained together with an error is nil when the error is not: no method of it
	// is called (or deferred) where the error may be non-nil.
	nq := 0
	for _, fn := range m.Funcs {
		m.eachCall(fn, func(c ssa.CallInstruction) {
			call, ok := c.(*ssa.Call)
			if !ok {
				return
			}
			tup, ok := call.Type().(*types.Tuple)
			if !ok || tup.Len() != 2 || !isErrorType(tup.At(1).Type()) {
				return
			}
			pt, ok := tup.At(0).Type().(*types.Pointer)
			if !ok || !isNamed(pt.Elem(), "database/sql", "Rows") {
				return
			}
			var rowsV, errV ssa.Value
			for _, ref := range *call.Referrers() {
				if ex, ok := ref.(*ssa.Extract); ok {
					if ex.Index == 0 {
						rowsV = ex
					} else {
						errV = ex
					}
				}
			}
			if rowsV == nil {
				return
			}
			nq++
			key := m.declName(fn) + " / result set used only where the query succeeded"
			// values that are the result set: the extract, and loads of a variable it is kept in
			isRows := map[ssa.Value]bool{rowsV: true}
			isErr := map[ssa.Value]bool{}
			if errV != nil {
				isErr[errV] = true
			}
			for _, pair := range []struct {
				v   ssa.Value
				set map[ssa.Value]bool
			}{{rowsV, isRows}, {errV, isErr}} {
				if pair.v == nil {
					continue
				}
				for _, ref := range *pair.v.Referrers() {
					if st, ok := ref.(*ssa.Store); ok && st.Val == pair.v {
						if al, ok := st.Addr.(*ssa.Alloc); ok {
							for _, ld := range loadsReachedBy(st, al) {
								pair.set[ld] = true
							}
						}
					}
				}
			}
			cu := newCut()
			for _, iff := range allIfs(fn) {
				bo, ok := stripConv(iff.Cond).(*ssa.BinOp)
				if !ok || (bo.Op != token.EQL && bo.Op != token.NEQ) {
					continue
				}
				if !(isErr[stripConv(bo.X)] && isNilConst(bo.Y) || isErr[stripConv(bo.Y)] && isNilConst(bo.X)) {
					continue
				}
				// cut the edge on which the error is nil
				if bo.Op == token.EQL {
					cu.cutEdge(iff.Block(), iff.Block().Succs[0])
				} else {
					cu.cutEdge(iff.Block(), iff.Block().Succs[1])
				}
			}
			reach := reachableFromSuccs(call.Block(), cu)
			bad := ""
			for _, b := range fn.Blocks {
				for i, ins := range b.Instrs {
					u, ok := ins.(ssa.CallInstruction)
					if !ok || u.Common().IsInvoke() || len(u.Common().Args) == 0 || !isRows[stripConv(u.Common().Args[0])] {
						continue
					}
					if f := u.Common().StaticCallee(); f == nil || f.Signature.Recv() == nil {
						continue
					}
					if b == call.Block() && i > indexIn(b, call) || reach[b.Index] {
						bad = m.instrPos(u)
					}
				}
			}
			// the row loop is left only when the rows are exhausted (which closes the result set), by
			// leaving the function, or through a Close: a `break` that carries on with the result set
			// still open keeps its connection - the only one of an in-memory bucket - and the next
			// statement of the same function waits for it for ever, with the caller's locks held
			{
				var nextBlk *ssa.BasicBlock
				closes := map[*ssa.BasicBlock]bool{}
				for _, b := range fn.Blocks {
					for _, ins := range b.Instrs {
						u, ok := ins.(ssa.CallInstruction)
						if !ok || u.Common().IsInvoke() || len(u.Common().Args) == 0 || !isRows[stripConv(u.Common().Args[0])] {
							continue
						}
						if f := u.Common().StaticCallee(); f != nil {
							if f.Name() == "Next" && inCycle(b) {
								nextBlk = b
							}
							if f.Name() == "Close" {
								closes[b] = true
							}
						}
					}
				}
				if nextBlk != nil {
					leak := ""
					for _, x := range fn.Blocks {
						if x == nextBlk || !sameCycle(x, nextBlk) {
							continue
						}
						for _, sx := range x.Succs {
							if sameCycle(sx, nextBlk) || closes[sx] || closes[x] {
								continue
							}
							last := sx.Instrs[len(sx.Instrs)-1]
							if _, isRet := last.(*ssa.Return); isRet {
								continue
							}
							if _, isPanic := last.(*ssa.Panic); isPanic {
								continue
							}
							leak = m.pos(x.Instrs[len(x.Instrs)-1].Pos())
						}
					}
					r.check(leak == "", rule, m.declName(fn)+" / the row loop is left with the result set exhausted or closed", m.instrPos(call), "the loop over the rows is left through Next() == false, by returning, or through Close", "the loop over the rows can be left from its middle (near "+leak+") with the result set still open while the function carries on: the connection stays checked out, and on an in-memory bucket (one connection) the next statement blocks for ever with the caller's locks held")
				}
			}
			r.check(bad == "", rule, key, m.instrPos(call), "every method call on the result set lies behind the test that the query's error is nil", "a method of the result set is called (or deferred) at "+bad+" where the query may have failed: the result set is nil then (a closed bucket's handle fails every query), and the call is a nil-pointer panic instead of the error")
		})
	}
	r.ok(rule, "queries", "-", "%d multi-row query call(s)", nq)
}

// sameMapValue: the same SSA value, or two loads of the same variable.
func sameMapValue(a, b ssa.Value) bool {
	a, b = stripConv(a), stripConv(b)
	if a == b {
		return true
	}
	la, ok1 := a.(*ssa.UnOp)
	lb, ok2 := b.(*ssa.UnOp)
	return ok1 && ok2 && la.Op == token.MUL && lb.Op == token.MUL && la.X == lb.X
}

// madeNotMissing: the return reports an error that is made on the spot and is not the
// missing-key error (unreadable xattrs, a decoding failure): nobody continues with the CAS then.
func madeNotMissing(ret *ssa.Return) bool {
	if len(ret.Results) == 0 {
		return false
	}
	return errMadeNotMissing(ret.Results[len(ret.Results)-1], 0)
}

func errMadeNotMissing(ev ssa.Value, depth int) bool {
	if ev == nil || !isErrorType(ev.Type()) || depth > 3 {
		return false
	}
	switch x := ev.(type) {
	case *ssa.MakeInterface:
		return !isNamed(x.X.Type(), sgbucketPath, "MissingError")
	case *ssa.Call:
		if f := x.Common().StaticCallee(); f != nil && f.Pkg != nil && (f.Pkg.Pkg.Path() == "fmt" || f.Pkg.Pkg.Path() == "errors") {
			return true
		}
		if f := x.Common().StaticCallee(); f != nil {
			return helperErrsNotMissing(x, f.Signature.Results().Len()-1, depth)
		}
	case *ssa.Extract:
		if call, ok := x.Tuple.(*ssa.Call); ok {
			return helperErrsNotMissing(call, x.Index, depth)
		}
	}
	return false
}

// helperErrsNotMissing: every error the (pure, row-independent) helper can return at index idx is
// nil or made on the spot and not the missing-key error.
func helperErrsNotMissing(call *ssa.Call, idx int, depth int) bool {
	f := call.Common().StaticCallee()
	if f == nil || f.Blocks == nil || f.Pkg == nil || idx < 0 {
		return false
	}
	rets := returnsOf(f)
	for _, ret := range rets {
		if idx >= len(ret.Results) {
			return false
		}
		rv := ret.Results[idx]
		if c, ok := rv.(*ssa.Const); ok && c.Value == nil {
			continue
		}
		if !errMadeNotMissing(rv, depth+1) {
			return false
		}
	}
	return len(rets) > 0
}

// loadsReachedBy: the loads of cell that see the value written by st (no other store to the
// cell in this function lies between).
func loadsReachedBy(st *ssa.Store, cell ssa.Value) []ssa.Value {
	var out []ssa.Value
	seen := map[int]bool{}
	var walk func(b *ssa.BasicBlock, from int)
	walk = func(b *ssa.BasicBlock, from int) {
		for _, ins := range b.Instrs[from:] {
			switch x := ins.(type) {
			case *ssa.Store:
				if x.Addr == cell {
					return
				}
			case *ssa.UnOp:
				if x.Op == token.MUL && x.X == cell {
					out = append(out, x)
				}
			}
		}
		for _, s := range b.Succs {
			if !seen[s.Index] {
				seen[s.Index] = true
				walk(s, 0)
			}
		}
	}
	walk(st.Block(), indexIn(st.Block(), st)+1)
	return out
}

// resultUsedOnlyOnSuccess: w is unexported, has static callers only, and each of them uses
// result idx of w only where the error w returned with it was found nil.
func (m *Model) resultUsedOnlyOnSuccess(w *ssa.Function, idx int) bool {
	if obj := w.Object(); obj == nil || obj.Exported() {
		return false
	}
	callers := m.staticCallersOf(w)
	if len(callers) == 0 || len(m.hybridCallersOf(w)) > len(callers) {
		return false // (also called through a function value or an interface)
	}
	for _, cl := range callers {
		call, ok := cl.(*ssa.Call)
		if !ok || call.Referrers() == nil {
			return false
		}
		herr := writeErrValue(call)
		var res *ssa.Extract
		for _, ref := range *call.Referrers() {
			if ex, ok := ref.(*ssa.Extract); ok && ex.Index == idx {
				res = ex
			}
		}
		if res == nil || res.Referrers() == nil || len(*res.Referrers()) == 0 {
			continue
		}
		if herr == nil {
			return false
		}
		fn := call.Parent()
		c := newCut()
		for _, iff := range allIfs(fn) {
			cd := condOf(iff)
			eq, ok := cd.equalEdge()
			if ok && (isNilConst(cd.Y) && stripConv(cd.X) == herr || isNilConst(cd.X) && stripConv(cd.Y) == herr) {
				c.cutEdge(iff.Block(), eq)
			}
		}
		if len(c.edges) == 0 {
			return false
		}
		reach := reachableFromSuccs(call.Block(), c)
		for _, use := range *res.Referrers() {
			if use.Block() == call.Block() || reach[use.Block().Index] {
				return false
			}
		}
	}
	return true
}
