package lint

import (
	"encoding/json"
	"fmt"
	"os"
	"path/filepath"
	"runtime/debug"
	"sort"
	"strings"
	"time"
)

type RuleDef struct {
	Name string
	Fn   func(*Model, *Results)
	Doc  string
}

func (m *Model) runRule(rd RuleDef) (res *Results) {
	res = NewResults()
	defer func() {
		if p := recover(); p != nil {
			res.undecided(rd.Name, "checker panic", "-", "rule implementation panicked (treated as undecided, never as a pass): %v\n%s", p, firstLines(string(debug.Stack()), 12))
		}
	}()
	rd.Fn(m, res)
	return res
}

func firstLines(s string, n int) string {
	lines := strings.Split(s, "\n")
	if len(lines) > n {
		lines = lines[:n]
	}
	return strings.Join(lines, "\n")
}

func findRule(name string) (RuleDef, bool) {
	for _, rd := range ruleTable {
		if rd.Name == name {
			return rd, true
		}
	}
	return RuleDef{}, false
}

type violationRecord struct {
	Property string `json:"property"`
	Rule     string `json:"rule"`
	Key      string `json:"key"`
	Pos      string `json:"pos"`
	Status   string `json:"status"`
	Msg      string `json:"msg"`
	Repo     string `json:"repo"`
	Replay   string `json:"replay_cmd"`
	RuleDoc  string `json:"rule_doc"`
}

func runChecks(m *Model, o Options) int {
	if o.Explain != "" {
		return explain(m, o)
	}
	props := []string{o.Prop}
	if o.Prop == "all" || o.Prop == "" {
		props = sortedKeys(propTable)
	}
	known, err := LoadKnown(o.KnownFile)
	if err != nil {
		fmt.Fprintln(os.Stderr, "rosmarlint:", err)
		return 2
	}
	cache := map[string]*Results{}
	exit := 0
	if o.Prop == "rules" {
		var all []string
		for _, rd := range ruleTable {
			all = append(all, rd.Name)
		}
		propTable["rules"] = PropDef{Title: "every implemented rule (debug)", Rules: all, Explanation: "debug", NotDecided: "debug"}
		props = []string{"rules"}
	}
	for _, p := range props {
		pd, ok := propTable[p]
		if !ok {
			fmt.Fprintf(os.Stderr, "rosmarlint: no check is registered for property %s\n", p)
			return 2
		}
		start := time.Now()
		if code := runProperty(m, o, p, pd, known, cache, start); code != 0 {
			exit = code
		}
	}
	return exit
}

func runProperty(m *Model, o Options, prop string, pd PropDef, known *KnownFile, cache map[string]*Results, start time.Time) int {
	fmt.Printf("== property %s (%s tier): %s\n", prop, o.Tier, pd.Title)
	var obls []*Obligation
	perRule := map[string]map[string]int{}
	for _, rn := range pd.Rules {
		rd, ok := findRule(rn)
		if !ok {
			fmt.Fprintf(os.Stderr, "rosmarlint: property %s names unknown rule %s\n", prop, rn)
			return 2
		}
		res, ok := cache[rn]
		if !ok {
			res = m.runRule(rd)
			cache[rn] = res
		}
		c := map[string]int{}
		kept := res.Obls
		if eps, scoped := pd.Scope[rn]; scoped {
			kept = nil
			names := m.scopeNames(eps)
			for _, ob := range res.Obls {
				in := strings.Contains(ob.Key, "instance-floor") || strings.Contains(ob.Key, "checker panic") || strings.Contains(ob.Key, "anchors")
				for _, n := range names {
					if strings.Contains(ob.Key, n) {
						in = true
					}
				}
				if in {
					kept = append(kept, ob)
				}
			}
		}
		if _, scoped := pd.Scope[rn]; scoped && len(kept) == 0 {
			kept = append(kept, &Obligation{Rule: rn, Key: rn + " / scope matched nothing", Pos: "-", Status: Undecided, St: Undecided.String(), Msg: "no obligation of this rule concerns the functions reachable from " + strings.Join(pd.Scope[rn], ", ") + ": the rule no longer recognises the code this property is about"})
		}
		for _, ob := range kept {
			c[ob.Status.String()]++
		}
		perRule[rn] = c
		obls = append(obls, kept...)
		fmt.Printf("   %-16s obligations=%d ok=%d violation=%d undecided=%d\n", rn, c["ok"]+c["VIOLATION"]+c["UNDECIDED"], c["ok"], c["VIOLATION"], c["UNDECIDED"])
	}
	// anchors that could not be resolved fail every property that runs any rule
	var anchorProblems []string
	for _, k := range sortedKeys(m.A.Problems) {
		anchorProblems = append(anchorProblems, k+": "+m.A.Problems[k])
	}

	violDir := ""
	if o.EvidenceDir != "" {
		violDir = filepath.Join(o.EvidenceDir, "violations")
		_ = os.MkdirAll(violDir, 0o755)
		old, _ := filepath.Glob(filepath.Join(violDir, prop+"-*.json"))
		for _, f := range old {
			_ = os.Remove(f)
		}
	}
	nViol := 0
	var knownMatched []map[string]string
	total, discharged := 0, 0
	distinct := map[string]bool{}
	var samples []any
	for _, ob := range obls {
		if ob.Status == Info {
			continue
		}
		total++
		distinct[ob.Key] = true
		if ob.Status == OK {
			discharged++
			continue
		}
		if ob.Status == Violation {
			if k := known.match(prop, ob.Key); k != nil {
				fmt.Printf("KNOWN-FINDING: property=%s %s -- %s [%s]\n", prop, ob.Key, k.What, ob.Pos)
				knownMatched = append(knownMatched, map[string]string{"key": ob.Key, "what": k.What, "pos": ob.Pos, "msg": ob.Msg})
				continue
			}
		}
		nViol++
		rd, _ := findRule(ob.Rule)
		fmt.Printf("%s: %s: %s\n   %s\n   rule %s: %s\n", ob.Pos, ob.Status, ob.Key, indent(ob.Msg, "   "), ob.Rule, rd.Doc)
		path := "-"
		if violDir != "" {
			path = filepath.Join(violDir, fmt.Sprintf("%s-%d.json", prop, nViol))
			rec := violationRecord{Property: prop, Rule: ob.Rule, Key: ob.Key, Pos: ob.Pos, Status: ob.Status.String(), Msg: ob.Msg, Repo: m.RepoDir,
				Replay: fmt.Sprintf("/verif/bin/check --explain %s", path), RuleDoc: rd.Doc}
			b, _ := json.MarshalIndent(rec, "", " ")
			_ = os.WriteFile(path, b, 0o644)
		}
		fmt.Printf("VIOLATION property=%s replay=%s\n", prop, path)
	}
	sort.SliceStable(obls, func(i, j int) bool { return obls[i].Key < obls[j].Key })
	if os.Getenv("RL_LIST") != "" {
		for _, ob := range obls {
			fmt.Printf("LIST %s | %s | %s | %s\n", ob.St, ob.Key, ob.Pos, ob.Msg)
		}
	}
	for _, ob := range obls {
		if ob.Status != Info && len(samples) < 14 {
			samples = append(samples, map[string]string{"obligation": ob.Key, "at": ob.Pos, "status": ob.St, "finding": ob.Msg})
		}
	}
	wall := time.Since(start).Seconds() + m.LoadSeconds
	fmt.Printf("   %s: %d obligations, %d discharged, %d known finding(s), %d unlisted violation(s)/undecided\n", prop, total, discharged, len(knownMatched), nViol)

	if o.EvidenceDir != "" {
		if len(samples) == 0 {
			samples = append(samples, "no obligations were generated")
		}
		ruleDocs := map[string]string{}
		for _, rn := range pd.Rules {
			rd, _ := findRule(rn)
			ruleDocs[rn] = rd.Doc
		}
		ev := Evidence{
			PropertyID: prop, Tier: o.Tier, Seed: 0, Level: "other",
			Coverage: map[string]any{
				"explanation":         pd.Explanation,
				"not_decided":         pd.NotDecided,
				"obligations":         total,
				"discharged":          discharged,
				"evaluations":         total,
				"distinct_nontrivial": len(distinct),
				"rule":                "one evaluation = one rule instance (rule / function / construct) checked on the current source of " + m.RepoDir + "; instances are distinct by key; trivial (informational) records are not counted",
				"samples":             samples,
				"rules":               perRule,
				"rule_docs":           ruleDocs,
				"known_findings":      knownMatched,
				"anchors":             m.AnchorReport(),
				"analysed":            m.Stats,
				"call_graph":          map[bool]string{true: "CHA", false: "VTA (initial graph CHA)"}[o.UseCHA],
				"exhaustive":          true,
				"checker_cmd":         "rosmarlint -repo " + m.RepoDir + " -prop " + prop + " -tier " + o.Tier,
				"trusted_base":        []string{"go/types and go/ssa (golang.org/x/tools v0.29.0)", "SQLite semantics of the parsed statement subset", "database/sql: a Tx is bound to one connection", "sync.Mutex"},
				"unresolved_anchors":  anchorProblems,
			},
			Assumptions: []string{
				"locks are identified by (struct type, field); instances are merged",
				"values are compared by syntactic term equality after stripping conversions; no arithmetic reasoning beyond +1",
				"a static pass decides the structural clauses listed in 'explanation'; the behaviours listed in 'not_decided' are not decided",
			},
			WallS: wall, Violations: nViol,
		}
		if o.Extra != "" {
			if xb, err := os.ReadFile(o.Extra); err == nil {
				var extra map[string]any
				if json.Unmarshal(xb, &extra) == nil {
					ev.Coverage["thorough_extras"] = extra
				}
			}
		}
		b, _ := json.MarshalIndent(ev, "", " ")
		if err := os.WriteFile(filepath.Join(o.EvidenceDir, prop+".json"), b, 0o644); err != nil {
			fmt.Fprintln(os.Stderr, "rosmarlint: cannot write evidence:", err)
			return 2
		}
	}
	if nViol > 0 {
		return 1
	}
	return 0
}

func explain(m *Model, o Options) int {
	b, err := os.ReadFile(o.Explain)
	if err != nil {
		fmt.Fprintln(os.Stderr, err)
		return 2
	}
	var rec violationRecord
	if err := json.Unmarshal(b, &rec); err != nil {
		fmt.Fprintln(os.Stderr, err)
		return 2
	}
	rd, ok := findRule(rec.Rule)
	if !ok {
		fmt.Fprintf(os.Stderr, "unknown rule %s\n", rec.Rule)
		return 2
	}
	res := m.runRule(rd)
	fmt.Printf("rule %s: %s\n", rd.Name, rd.Doc)
	found := false
	for _, ob := range res.Obls {
		if ob.Key == rec.Key {
			found = true
			fmt.Printf("%s: %s: %s\n   %s\n", ob.Pos, ob.Status, ob.Key, indent(ob.Msg, "   "))
			if ob.Status == Violation || ob.Status == Undecided {
				fmt.Printf("VIOLATION property=%s replay=%s\n", rec.Property, o.Explain)
				return 1
			}
		}
	}
	if !found {
		fmt.Printf("obligation %q no longer exists on the current tree (recorded at %s: %s)\n", rec.Key, rec.Pos, rec.Msg)
	}
	return 0
}

// scopeNames: display names of the functions reachable from the named entry points.
func (m *Model) scopeNames(entryPoints []string) []string {
	var out []string
	if m.A.CollectionType == nil {
		return out
	}
	for _, ep := range entryPoints {
		fn := m.lookupMethod(m.A.CollectionType.Obj().Name(), ep)
		if fn == nil {
			continue
		}
		out = append(out, ep+" ")
		for f := range m.reachableLocal(fn) {
			out = append(out, m.declName(f)+" ")
		}
	}
	return out
}
