package lint

import (
	"golang.org/x/tools/go/ssa"
)

// scanCall is one call that copies the columns of a result row into Go locations.
type scanCall struct {
	Call     ssa.CallInstruction
	Fn       *ssa.Function
	Site     *SQLSite    // the Query/QueryRow site the row comes from (nil if unknown)
	Dests    []ssa.Value // destination addresses, in column order (nil if dynamic)
	RawDests []ssa.Value // the same as passed to Scan (conversions such as (*sql.RawBytes)(&x) not stripped)
	Row      ssa.Value   // the *sql.Row / *sql.Rows value that is scanned
}

func (m *Model) siteOfCallValue(v ssa.Value) *SQLSite {
	for _, s := range m.Sites {
		if cv := s.Call.Value(); cv != nil && ssa.Value(cv) == v {
			return s
		}
	}
	return nil
}

// rowSource resolves a *sql.Row / *sql.Rows value to the site that produced it.
func (m *Model) rowSource(v ssa.Value, fr *frame) *SQLSite {
	rv, _ := m.resolve(v, fr)
	switch x := rv.(type) {
	case *ssa.Call:
		return m.siteOfCallValue(x)
	case *ssa.Extract:
		return m.siteOfCallValue(x.Tuple)
	case *ssa.Parameter:
		// a scan helper: the rows come from its callers, which must agree
		fn := x.Parent()
		idx := -1
		for i, p := range fn.Params {
			if p == x {
				idx = i
			}
		}
		if idx < 0 || !m.inPkg(fn) {
			return nil
		}
		var site *SQLSite
		for _, c := range m.staticCallersOf(fn) {
			args := c.Common().Args
			if idx >= len(args) {
				return nil
			}
			s := m.rowSource(args[idx], topFrame(c.Parent()))
			if s == nil || (site != nil && s != site) {
				return nil
			}
			site = s
		}
		return site
	}
	return nil
}

var scanCache = map[*Model][]*scanCall{}

func (m *Model) scanCalls() []*scanCall {
	if sc, ok := scanCache[m]; ok {
		return sc
	}
	var out []*scanCall
	for _, fn := range m.Funcs {
		if fn == m.A.ScanHelper {
			continue
		}
		for _, b := range fn.Blocks {
			for _, in := range b.Instrs {
				call, ok := in.(ssa.CallInstruction)
				if !ok {
					continue
				}
				cc := call.Common()
				var rowV, argsV ssa.Value
				switch {
				case m.A.ScanHelper != nil && cc.StaticCallee() == m.A.ScanHelper && len(cc.Args) == 2:
					rowV, argsV = cc.Args[0], cc.Args[1]
				case isMethodCall(cc, "database/sql", "Row", "Scan") || isMethodCall(cc, "database/sql", "Rows", "Scan"):
					if len(cc.Args) == 2 {
						rowV, argsV = cc.Args[0], cc.Args[1]
					}
				}
				if rowV == nil {
					continue
				}
				sc := &scanCall{Call: call, Fn: fn, Row: rowV}
				sc.Site = m.rowSource(rowV, topFrame(fn))
				if vals, dyn := varargValues(argsV); !dyn {
					for _, v := range vals {
						sc.Dests = append(sc.Dests, stripConv(v))
						sc.RawDests = append(sc.RawDests, v)
					}
				}
				out = append(out, sc)
			}
		}
	}
	scanCache[m] = out
	return out
}

// scansOfSite returns the scan calls fed by a site.
func (m *Model) scansOfSite(s *SQLSite) []*scanCall {
	var out []*scanCall
	for _, sc := range m.scanCalls() {
		if sc.Site == s {
			out = append(out, sc)
		}
	}
	return out
}
