package lint

import (
	"fmt"
	"go/ast"
	"go/constant"
	"go/token"
	"go/types"
	"sort"
	"strings"

	"golang.org/x/tools/go/ssa"

	"rosmarlint/sqlp"
)

type HandleClass int

const (
	HUnknown HandleClass = iota
	HTxn                 // *sql.Tx
	HPool                // *sql.DB / pool accessor result
	HClosed              // the closedDB stub
)

func (h HandleClass) String() string {
	return [...]string{"unknown", "txn", "pool", "closed-stub"}[h]
}

// Variant is one concrete statement text a site may execute.
type Variant struct {
	SQL   string
	Stmts []*sqlp.Stmt
	Err   error
}

// Stmt returns the single statement of a (non-script) variant.
func (v *Variant) Stmt() *sqlp.Stmt {
	if len(v.Stmts) == 1 {
		return v.Stmts[0]
	}
	return nil
}

type Binding struct {
	V  ssa.Value
	Fr *frame
}

// SQLSite is one call of Exec/Query/QueryRow.
type SQLSite struct {
	Call      ssa.CallInstruction
	Fn        *ssa.Function
	Method    string
	Recv      ssa.Value
	Classes   map[HandleClass]bool // what the receiver may be, over all callers
	Variants  []*Variant
	Undecided string

	Positional  []ssa.Value        // positional arguments (index 0 = ?1)
	Named       map[string]Binding // named arguments ($X / @x), incl. synthetic ones
	DynamicArgs bool
	Holes       int
	FormatHoles int // caller text interpolated into a Sprintf format string
	XformHoles  int // text that went through a function outside the package before it reached the statement
	XformBy     string
	IsSchema    bool              // executes the embedded schema script
	textFr      *frame            // rehomed sites whose text is computed inside the helper: the helper's frame at this call
	evalFrame   *frame            // when set, positional bindings are evaluated in this calling context
	posVia      map[int]*ssa.Call // positional arguments that an accessor of the package packed into the slice
	posFr       map[int]*frame    // positional arguments with a frame of their own (statement helpers, see rehome)
	Helper      *ssa.Function     // for a re-homed site: the helper that actually executes the statement
	Text        ssa.Value         // for a re-homed site: the statement text handed to the helper at this call
}

// textArg: the value that holds the statement text at the site's call.
// textFrame: the frame in which textArg() is folded when the site is looked at from K.
func (s *SQLSite) textFrame(K *ssa.Function) *frame {
	if s.textFr != nil && s.textFr.caller != nil && s.textFr.caller.fn == K {
		return s.textFr
	}
	return topFrame(K)
}

func (s *SQLSite) textArg() ssa.Value {
	if s.Text != nil {
		return s.Text
	}
	args := s.Call.Common().Args
	if s.Call.Common().IsInvoke() {
		return args[0]
	}
	return args[1]
}

func (s *SQLSite) key(m *Model, v *Variant) string {
	shape := "?"
	if st := v.Stmt(); st != nil {
		shape = st.Shape()
	} else if len(v.Stmts) > 1 {
		shape = fmt.Sprintf("script(%d statements)", len(v.Stmts))
	}
	return m.declName(s.Fn) + " / " + shape
}

// bindingFor returns the Go value bound to a statement parameter.
func (s *SQLSite) bindingFor(p *sqlp.Expr) (Binding, bool) {
	if p == nil || p.Kind != sqlp.EParam {
		return Binding{}, false
	}
	if p.Name != "" && p.Name[0] != '?' {
		// named: match ignoring the prefix character
		if b, ok := s.Named[p.Name]; ok {
			return b, true
		}
		if b, ok := s.Named[p.Name[1:]]; ok {
			return b, true
		}
		return Binding{}, false
	}
	if p.Param >= 1 && p.Param <= len(s.Positional) {
		fr := topFrame(s.Fn)
		if s.evalFrame != nil {
			fr = s.evalFrame
		}
		if via := s.posVia[p.Param-1]; via != nil {
			fr = fr.inline(via, via.Common().StaticCallee())
		}
		if pf := s.posFr[p.Param-1]; pf != nil {
			fr = rerootFrame(pf, fr)
		}
		return Binding{V: s.Positional[p.Param-1], Fr: fr}, true
	}
	return Binding{}, false
}

func sqlMethodOf(c *ssa.CallCommon, q *types.Named) (method string, recv ssa.Value, args []ssa.Value, ok bool) {
	for _, name := range []string{"Exec", "Query", "QueryRow", "ExecContext", "QueryContext", "QueryRowContext", "Prepare"} {
		for _, typ := range []string{"Tx", "DB", "Conn", "Stmt"} {
			if !c.IsInvoke() && isMethodCall(c, "database/sql", typ, name) {
				return name, c.Args[0], c.Args[1:], true
			}
		}
		if c.IsInvoke() && c.Method.Name() == name {
			if n, isN := c.Value.Type().(*types.Named); isN && (n == q) {
				return name, c.Value, c.Args, true
			}
		}
	}
	return "", nil, nil, false
}

func (m *Model) collectSites() {
	for _, fn := range m.Funcs {
		// skip the closed-DB stub's own methods (they call nothing)
		for _, b := range fn.Blocks {
			for _, in := range b.Instrs {
				call, ok := in.(ssa.CallInstruction)
				if !ok {
					continue
				}
				method, recv, args, ok := sqlMethodOf(call.Common(), m.A.Queryable)
				if !ok {
					continue
				}
				if strings.HasSuffix(method, "Context") && len(args) > 0 {
					args = args[1:]
					method = strings.TrimSuffix(method, "Context")
				}
				site := &SQLSite{Call: call, Fn: fn, Method: method, Recv: recv, Named: map[string]Binding{}}
				m.foldSite(site, args)
				site.Classes = map[HandleClass]bool{}
				m.classifyHandle(recv, topFrame(fn), site.Classes, map[ssa.Value]bool{}, 0)
				if clones := m.rehome(site, args); clones != nil {
					m.Sites = append(m.Sites, clones...)
					continue
				}
				m.Sites = append(m.Sites, site)
			}
		}
	}
	sort.SliceStable(m.Sites, func(i, j int) bool { return m.Sites[i].Call.Pos() < m.Sites[j].Call.Pos() })
	m.Stats["sql_sites"] = len(m.Sites)
	nv := 0
	for _, s := range m.Sites {
		nv += len(s.Variants)
	}
	m.Stats["sql_variants"] = nv
}

func (m *Model) foldSite(site *SQLSite, args []ssa.Value) {
	if len(args) == 0 {
		site.Undecided = "call has no query argument"
		return
	}
	fr := topFrame(site.Fn)
	ev := newStrEval(m)
	texts, ok := ev.eval(args[0], fr)
	if !ok {
		site.Undecided = "cannot bound the statement text: " + strings.Join(ev.why, "; ")
		return
	}
	site.Holes = ev.holes
	site.FormatHoles = ev.fmtHoles
	site.XformHoles, site.XformBy = ev.xformHoles, ev.xformBy
	for name, b := range ev.synth {
		site.Named[name] = Binding{V: b.v, Fr: b.fr}
	}
	// is it the embedded schema script? (a load of a package-level string variable with go:embed)
	if ld, ok := stripConv(args[0]).(*ssa.UnOp); ok {
		if _, isG := ld.X.(*ssa.Global); isG {
			site.IsSchema = true
			for _, st := range m.Schema.Stmts {
				_ = st
			}
			site.Variants = []*Variant{{SQL: "<embedded schema script>", Stmts: m.Schema.Stmts}}
		}
	}
	if !site.IsSchema {
		for _, t := range texts {
			v := &Variant{SQL: t}
			v.Stmts, v.Err = sqlp.ParseScript(t)
			site.Variants = append(site.Variants, v)
		}
	}
	// arguments
	if len(args) > 1 {
		vals, dyn := varargValues(args[1])
		var via *ssa.Call
		if dyn {
			// `q.Exec(stmt, c.ddocArgs(name)...)`: the slice is built by a straight-line accessor
			if call, ok := stripConv(args[1]).(*ssa.Call); ok {
				if rv, _ := m.accessorResultX(call, 0, topFrame(site.Fn), true); rv != nil {
					if v2, d2 := varargValues(rv); !d2 {
						vals, dyn, via = v2, false, call
						fr = topFrame(site.Fn).inline(call, call.Common().StaticCallee())
					}
				}
			}
		}
		if dyn {
			// ... or by a packing helper with a copy loop (`c.docBindings(key, more...)`)
			if elems, ok := m.sliceElems(args[1], topFrame(site.Fn), 0); ok {
				site.posFr = map[int]*frame{}
				for _, el := range elems {
					sv := stripConv(el.V)
					if call, isCall := sv.(*ssa.Call); isCall {
						if f := call.Common().StaticCallee(); f != nil && f.Pkg != nil && f.Pkg.Pkg.Path() == "database/sql" && f.Name() == "Named" {
							if cst, isC := call.Common().Args[0].(*ssa.Const); isC && cst.Value != nil && cst.Value.Kind() == constant.String {
								site.Named[constant.StringVal(cst.Value)] = Binding{V: call.Common().Args[1], Fr: el.Fr}
								site.Positional = append(site.Positional, nil)
								continue
							}
						}
					}
					site.posFr[len(site.Positional)] = el.Fr
					site.Positional = append(site.Positional, el.V)
				}
				return
			}
		}
		if dyn {
			site.DynamicArgs = true
			// named arguments created anywhere in the enclosing declared function
			m.collectNamedArgs(rootOf(site.Fn), site)
			// positional arguments: the stable prefix of a slice that is only ever extended by append
			for _, v := range m.prefixArgs(args[1], site.Fn) {
				sv := stripConv(v)
				if call, ok := sv.(*ssa.Call); ok {
					if f := call.Common().StaticCallee(); f != nil && f.Pkg != nil && f.Pkg.Pkg.Path() == "database/sql" && f.Name() == "Named" {
						site.Positional = append(site.Positional, nil)
						continue
					}
				}
				site.Positional = append(site.Positional, v)
			}
		} else {
			for _, v := range vals {
				sv := stripConv(v)
				if call, ok := sv.(*ssa.Call); ok {
					if f := call.Common().StaticCallee(); f != nil && f.Pkg != nil && f.Pkg.Pkg.Path() == "database/sql" && f.Name() == "Named" {
						if c, ok := call.Common().Args[0].(*ssa.Const); ok && c.Value != nil && c.Value.Kind() == constant.String {
							site.Named[constant.StringVal(c.Value)] = Binding{V: call.Common().Args[1], Fr: fr}
							site.Positional = append(site.Positional, nil)
							continue
						}
					}
				}
				if via != nil {
					if site.posVia == nil {
						site.posVia = map[int]*ssa.Call{}
					}
					site.posVia[len(site.Positional)] = via
				}
				site.Positional = append(site.Positional, v)
			}
		}
	}
}

func (m *Model) collectNamedArgs(root *ssa.Function, site *SQLSite) {
	var visit func(fn *ssa.Function)
	visit = func(fn *ssa.Function) {
		for _, b := range fn.Blocks {
			for _, in := range b.Instrs {
				if call, ok := in.(*ssa.Call); ok {
					if f := call.Common().StaticCallee(); f != nil && f.Pkg != nil && f.Pkg.Pkg.Path() == "database/sql" && f.Name() == "Named" {
						if c, ok := call.Common().Args[0].(*ssa.Const); ok && c.Value != nil && c.Value.Kind() == constant.String {
							name := constant.StringVal(c.Value)
							if _, dup := site.Named[name]; dup {
								site.Named[name] = Binding{} // ambiguous
							} else {
								site.Named[name] = Binding{V: call.Common().Args[1], Fr: topFrame(fn)}
							}
						}
					}
				}
			}
		}
		for _, an := range fn.AnonFuncs {
			visit(an)
		}
	}
	visit(root)
}

// classifyHandle determines what a DB-handle-valued expression may be: the transaction,
// the connection pool, or the closed stub. Parameters are classified through all callers.
func (m *Model) classifyHandle(v ssa.Value, fr *frame, out map[HandleClass]bool, seen map[ssa.Value]bool, depth int) {
	if depth > 6 || seen[v] {
		return
	}
	seen[v] = true
	v = stripConvKeepIface(v)
	t := v.Type()
	if isPtrToNamed(t, "database/sql", "Tx") {
		out[HTxn] = true
		return
	}
	if isPtrToNamed(t, "database/sql", "DB") {
		out[HPool] = true
		return
	}
	if n, ok := t.(*types.Named); ok && n.Obj().Pkg() == m.SSA.Pkg && n != m.A.Queryable {
		if _, isStruct := n.Underlying().(*types.Struct); isStruct {
			out[HClosed] = true
			return
		}
	}
	switch x := v.(type) {
	case *ssa.MakeInterface:
		m.classifyHandle(x.X, fr, out, seen, depth+1)
	case *ssa.Phi:
		for _, e := range x.Edges {
			m.classifyHandle(e, fr, out, seen, depth+1)
		}
	case *ssa.Parameter:
		// all call sites of the enclosing function
		fn := x.Parent()
		idx := -1
		for i, p := range fn.Params {
			if p == x {
				idx = i
			}
		}
		node := m.CG.Nodes[fn]
		if node == nil || idx < 0 || len(node.In) == 0 {
			out[HUnknown] = true
			return
		}
		for _, e := range node.In {
			if e.Site == nil {
				continue
			}
			args := e.Site.Common().Args
			if e.Site.Common().IsInvoke() {
				// receiver is not in Args for interface calls
				if idx == 0 {
					out[HUnknown] = true
					continue
				}
				if idx-1 < len(args) {
					m.classifyHandle(args[idx-1], topFrame(e.Caller.Func), out, seen, depth+1)
				}
				continue
			}
			if idx < len(args) {
				m.classifyHandle(args[idx], topFrame(e.Caller.Func), out, seen, depth+1)
			}
		}
	case *ssa.Call:
		callee := x.Common().StaticCallee()
		if callee == nil || !m.inPkg(callee) {
			out[HUnknown] = true
			return
		}
		for _, b := range callee.Blocks {
			for _, in := range b.Instrs {
				if ret, ok := in.(*ssa.Return); ok && len(ret.Results) > 0 {
					m.classifyHandle(ret.Results[0], topFrame(callee), out, seen, depth+1)
				}
			}
		}
	case *ssa.UnOp:
		// load of a field / cell holding a handle
		if isPtrToNamed(x.Type(), "database/sql", "DB") {
			out[HPool] = true
		} else if al, ok := x.X.(*ssa.Alloc); ok {
			// a local cell (e.g. a result spilled because of a defer): follow its stores
			n := 0
			for _, st := range cellStores(al) {
				// (stores made by closures that capture the cell included, e.g. the body handed to a lock helper)
				n++
				sfr := fr
				if st.Parent() != al.Parent() {
					sfr = m.closureFrame(st.Parent())
				}
				if c, isC := st.Val.(*ssa.Const); isC && c.Value == nil {
					continue // the zero value before the assignment
				}
				m.classifyHandle(st.Val, sfr, out, seen, depth+1)
			}
			if n == 0 {
				out[HUnknown] = true
			}
		} else if fv, ok := x.X.(*ssa.FreeVar); ok {
			if bind, pfr := m.freeVarBinding(fv, fr); bind != nil {
				if al, ok := bind.(*ssa.Alloc); ok {
					if st := singleStore(al); st != nil {
						m.classifyHandle(st.Val, pfr, out, seen, depth+1)
						return
					}
				}
			}
			out[HUnknown] = true
		} else {
			out[HUnknown] = true
		}
	default:
		out[HUnknown] = true
	}
}

func stripConvKeepIface(v ssa.Value) ssa.Value {
	for {
		switch x := v.(type) {
		case *ssa.ChangeType:
			v = x.X
		case *ssa.ChangeInterface:
			v = x.X
		default:
			return v
		}
	}
}

// ---- statement helpers used by many rules ----

// WriteInfo describes what a DML statement assigns.
type WriteInfo struct {
	Table      string
	Kind       sqlp.StmtKind
	Insert     map[string]*sqlp.Expr // column -> value (INSERT)
	Update     map[string]*sqlp.Expr // column -> value (UPDATE or ON CONFLICT DO UPDATE)
	Where      []*sqlp.Expr          // conjuncts of the UPDATE/DELETE WHERE or the conflict WHERE
	HasUpsert  bool
	ConflictOn []string
}

func writeInfo(st *sqlp.Stmt) *WriteInfo {
	switch st.Kind {
	case sqlp.SInsert:
		w := &WriteInfo{Table: strings.ToLower(st.Table), Kind: st.Kind, Insert: map[string]*sqlp.Expr{}}
		if len(st.Values) > 0 {
			for i, c := range st.Cols {
				if i < len(st.Values[0]) {
					w.Insert[strings.ToLower(c)] = st.Values[0][i]
				}
			}
		}
		if st.Conflict != nil && !st.Conflict.DoNothing {
			w.HasUpsert = true
			w.Update = map[string]*sqlp.Expr{}
			for _, a := range st.Conflict.Set {
				w.Update[strings.ToLower(a.Col)] = a.Expr
			}
			w.Where = sqlp.Conjuncts(st.Conflict.Where)
			w.ConflictOn = st.Conflict.Target
		}
		return w
	case sqlp.SUpdate:
		w := &WriteInfo{Table: strings.ToLower(st.Table), Kind: st.Kind, Update: map[string]*sqlp.Expr{}}
		for _, a := range st.Set {
			w.Update[strings.ToLower(a.Col)] = a.Expr
		}
		w.Where = sqlp.Conjuncts(st.Where)
		return w
	case sqlp.SDelete:
		return &WriteInfo{Table: strings.ToLower(st.Table), Kind: st.Kind, Where: sqlp.Conjuncts(st.Where)}
	}
	return nil
}

func isDML(st *sqlp.Stmt) bool {
	return st.Kind == sqlp.SInsert || st.Kind == sqlp.SUpdate || st.Kind == sqlp.SDelete
}

func isNullLit(e *sqlp.Expr) bool {
	return e != nil && e.Kind == sqlp.ELit && strings.EqualFold(e.Text, "NULL")
}

func litInt(e *sqlp.Expr) (int, bool) {
	if e == nil || e.Kind != sqlp.ELit {
		return 0, false
	}
	switch strings.ToUpper(e.Text) {
	case "TRUE":
		return 1, true
	case "FALSE":
		return 0, true
	}
	n := 0
	if _, err := fmt.Sscanf(e.Text, "%d", &n); err == nil && fmt.Sprint(n) == e.Text {
		return n, true
	}
	return 0, false
}

func isCol(e *sqlp.Expr, name string) bool {
	return e != nil && e.Kind == sqlp.EColumn && strings.EqualFold(e.Name, name)
}

// colEqParam matches "col = ?N" (either orientation) and returns the parameter.
func colEqParam(e *sqlp.Expr, col string) *sqlp.Expr {
	if e == nil || e.Kind != sqlp.EBinary || e.Op != "=" {
		return nil
	}
	if isCol(e.Args[0], col) && e.Args[1].Kind == sqlp.EParam {
		return e.Args[1]
	}
	if isCol(e.Args[1], col) && e.Args[0].Kind == sqlp.EParam {
		return e.Args[0]
	}
	return nil
}

// noBodyTest recognises the spellings of "this row has no body": tombstone (truthy),
// tombstone != 0, tombstone = 1, tombstone > 0, value IS NULL.
func noBodyTest(e *sqlp.Expr) bool {
	if e == nil {
		return false
	}
	switch e.Kind {
	case sqlp.EColumn:
		return strings.EqualFold(e.Name, "tombstone")
	case sqlp.EIsNull:
		return !e.Not && isCol(e.Args[0], "value")
	case sqlp.EBinary:
		l, r := e.Args[0], e.Args[1]
		if isCol(r, "tombstone") {
			l, r = r, l
		}
		if !isCol(l, "tombstone") {
			return false
		}
		n, ok := litInt(r)
		if !ok {
			return false
		}
		switch e.Op {
		case "!=", ">":
			return n == 0
		case "=", "IS", ">=":
			return n == 1
		}
	}
	return false
}

// hasBodyTest recognises "this row has a body": value NOT NULL, tombstone = 0, NOT tombstone...
func hasBodyTest(e *sqlp.Expr) bool {
	if e == nil {
		return false
	}
	switch e.Kind {
	case sqlp.EIsNull:
		return e.Not && isCol(e.Args[0], "value")
	case sqlp.EUnary:
		return e.Op == "NOT" && noBodyTest(e.Args[0])
	case sqlp.EBinary:
		l, r := e.Args[0], e.Args[1]
		if isCol(r, "tombstone") {
			l, r = r, l
		}
		if !isCol(l, "tombstone") {
			return false
		}
		n, ok := litInt(r)
		if !ok {
			return false
		}
		switch e.Op {
		case "=", "IS":
			return n == 0
		case "!=", "<":
			return n == 1
		}
	}
	return false
}

// prefixArgs: v is a load of a slice location (a local cell, or a field of a local struct) that
// is initialised once from a literal and otherwise only extended by append (here or in
// package-local functions the struct is handed to): the literal's elements are the arguments
// bound to the first placeholders on every path.
func (m *Model) prefixArgs(v ssa.Value, fn *ssa.Function) []ssa.Value {
	ld, ok := stripConv(v).(*ssa.UnOp)
	if !ok || ld.Op != token.MUL {
		return nil
	}
	var base ssa.Value
	field := -1
	switch a := ld.X.(type) {
	case *ssa.Alloc:
		base = a
	case *ssa.FieldAddr:
		b, ok := stripConv(a.X).(*ssa.Alloc)
		if !ok {
			return nil
		}
		base, field = b, a.Field
	default:
		return nil
	}
	var initial []ssa.Value
	nInit, bad := 0, false
	var visit func(f *ssa.Function, obj ssa.Value, depth int)
	visit = func(f *ssa.Function, obj ssa.Value, depth int) {
		isLoc := func(addr ssa.Value) bool {
			if field < 0 {
				return addr == obj
			}
			fa, ok := addr.(*ssa.FieldAddr)
			return ok && fa.Field == field && stripConv(fa.X) == obj
		}
		for _, b := range f.Blocks {
			for _, ins := range b.Instrs {
				switch x := ins.(type) {
				case *ssa.Store:
					if !isLoc(x.Addr) {
						continue
					}
					val := stripConv(x.Val)
					if call, ok := val.(*ssa.Call); ok {
						if bi, ok := call.Common().Value.(*ssa.Builtin); ok && bi.Name() == "append" {
							if l2, ok := stripConv(call.Common().Args[0]).(*ssa.UnOp); ok && l2.Op == token.MUL && isLoc(l2.X) {
								continue // extended at the end
							}
						}
						bad = true
						continue
					}
					if vals, dyn := varargValues(val); !dyn {
						initial = vals
						nInit++
						continue
					}
					bad = true
				case ssa.CallInstruction:
					if field < 0 || depth > 2 {
						continue
					}
					for ai, a := range x.Common().Args {
						if stripConv(a) != obj {
							continue
						}
						callee := x.Common().StaticCallee()
						if callee == nil || !m.inPkg(callee) || len(callee.Blocks) == 0 || ai >= len(callee.Params) {
							bad = true
							continue
						}
						visit(callee, callee.Params[ai], depth+1)
					}
				}
			}
		}
		for _, an := range f.AnonFuncs {
			_ = an
		}
	}
	visit(fn, base, 0)
	if bad || nInit != 1 {
		return nil
	}
	return initial
}

// rerootFrame rebuilds frame chain pf (rooted at topFrame(G)) on top of `root`, another frame of G
// (a calling context chosen by a rule).
func rerootFrame(pf, root *frame) *frame {
	if pf == nil || pf.caller == nil {
		return root
	}
	return &frame{fn: pf.fn, caller: rerootFrame(pf.caller, root), call: pf.call, depth: pf.depth, recv: pf.recv}
}

// rehome: a statement helper - an unexported function of the package that executes the statement
// text it is handed as a string parameter (`func (c *Collection) docExec(q queryable, stmt string,
// key string, more ...any)`). Seen from inside the helper the text is unknown. Instead of one site
// in the helper the model gets one site per call of the helper, placed AT that call (Fn = the
// caller, Call = the helper call, whose results have the shape of Exec's / QueryRow's), with the
// text folded and the arguments resolved in the frame of that call. nil if the site is not of
// this kind or some call cannot be resolved (the site then stays where it is and is reported).
func (m *Model) rehome(site *SQLSite, args []ssa.Value) (res []*SQLSite) {
	h := site.Fn
	if site.Holes == 0 || site.IsSchema || len(args) == 0 || h.Parent() != nil || ast.IsExported(h.Name()) {
		return nil
	}
	// the text is the helper's string parameter, or is computed from one inside the helper
	p, isParam := stripConv(args[0]).(*ssa.Parameter)
	if isParam && p.Parent() != h {
		return nil
	}
	if !isParam {
		hasStr := false
		for _, q := range h.Params {
			if b, ok := q.Type().Underlying().(*types.Basic); ok && b.Kind() == types.String {
				hasStr = true
			}
		}
		if !hasStr {
			return nil
		}
	}
	// the helper's results must be the statement's own results (so that Scan / RowsAffected link up)
	consumed := false
	if cv := site.Call.Value(); cv != nil && cv.Referrers() != nil {
		// ... unless the helper consumes the row itself (scans it and returns what it found)
		consumed = len(*cv.Referrers()) > 0
		for _, ref := range *cv.Referrers() {
			c, isCall := ref.(*ssa.Call)
			if !isCall {
				consumed = false
				continue
			}
			isScan := isMethodCall(c.Common(), "database/sql", "Row", "Scan") || (m.A.ScanHelper != nil && c.Common().StaticCallee() == m.A.ScanHelper)
			if !isScan {
				consumed = false
			}
		}
	}
	if cv := site.Call.Value(); cv != nil && !consumed {
		for _, ret := range returnsOf(h) {
			okRet := false
			for _, rv := range ret.Results {
				if rv == ssa.Value(cv) {
					okRet = true
				}
				if ex, isEx := rv.(*ssa.Extract); isEx && ex.Tuple == ssa.Value(cv) {
					okRet = true
				}
			}
			if !okRet {
				return nil
			}
		}
	}
	callers := m.staticCallersOf(h)
	if len(callers) == 0 {
		return nil
	}
	var out []*SQLSite
	for _, c := range callers {
		if _, isCall := c.(*ssa.Call); !isCall {
			return nil
		}
		g := c.Parent()
		fr := topFrame(g).inline(c, h)
		ev := newStrEval(m)
		texts, ok := ev.eval(args[0], fr)
		if !ok || ev.holes > 0 || len(texts) == 0 {
			return nil
		}
		clone := &SQLSite{Call: c, Fn: g, Method: site.Method, Recv: site.Recv, Named: map[string]Binding{}, Helper: h, posFr: map[int]*frame{}}
		if isParam {
			if tv, _, ok := fr.actual(p); ok {
				clone.Text = tv
			}
		} else {
			clone.Text, clone.textFr = args[0], fr
		}
		if rp, isP := stripConv(site.Recv).(*ssa.Parameter); isP && rp.Parent() == h {
			if av, _, ok := fr.actual(rp); ok {
				clone.Recv = av
			}
		}
		for _, t := range texts {
			v := &Variant{SQL: t}
			v.Stmts, v.Err = sqlp.ParseScript(t)
			clone.Variants = append(clone.Variants, v)
		}
		if len(args) > 1 {
			elems, ok := m.sliceElems(args[1], fr, 0)
			if !ok {
				return nil
			}
			for _, el := range elems {
				sv := stripConv(el.V)
				if call, isCall := sv.(*ssa.Call); isCall {
					if f := call.Common().StaticCallee(); f != nil && f.Pkg != nil && f.Pkg.Pkg.Path() == "database/sql" && f.Name() == "Named" {
						if cst, isC := call.Common().Args[0].(*ssa.Const); isC && cst.Value != nil && cst.Value.Kind() == constant.String {
							clone.Named[constant.StringVal(cst.Value)] = Binding{V: call.Common().Args[1], Fr: el.Fr}
							clone.Positional = append(clone.Positional, nil)
							continue
						}
					}
				}
				clone.posFr[len(clone.Positional)] = el.Fr
				clone.Positional = append(clone.Positional, el.V)
			}
		}
		clone.Classes = map[HandleClass]bool{}
		m.classifyHandle(clone.Recv, topFrame(g), clone.Classes, map[ssa.Value]bool{}, 0)
		out = append(out, clone)
	}
	return out
}

// sliceElems lists the elements of an argument slice that is put together from literals,
// appends, parameters (resolved through the frame) and straight-line packing helpers.
func (m *Model) sliceElems(v ssa.Value, fr *frame, depth int) (rb []Binding, rok bool) {
	if depth > 6 {
		return nil, false
	}
	v = stripConv(v)

	switch x := v.(type) {
	case *ssa.Const:
		return nil, x.Value == nil
	case *ssa.Slice:
		vals, dyn := varargValues(x)
		if dyn {
			return nil, false
		}
		var out []Binding
		for _, e := range vals {
			out = append(out, Binding{V: e, Fr: fr})
		}
		return out, true
	case *ssa.Phi:
		// copy-append loop: `out := <init>; for _, a := range more { out = append(out, a) }`
		if init, src, ok := copyAppendLoop(x); ok {
			a, ok1 := m.sliceElems(init, fr, depth+1)
			b, ok2 := m.sliceElems(src, fr, depth+1)
			if ok1 && ok2 {
				return append(append([]Binding{}, a...), b...), true
			}
		}
		return nil, false
	case *ssa.MakeSlice:
		// make([]any, 0, n): empty, to be appended to
		if c, ok := x.Len.(*ssa.Const); ok && c.Value != nil && c.Int64() == 0 {
			return nil, true
		}
		return nil, false
	case *ssa.Parameter:
		if fr == nil {
			return nil, false
		}
		av, afr, ok := fr.actual(x)
		if !ok {
			return nil, false
		}
		return m.sliceElems(av, afr, depth+1)
	case *ssa.Call:
		if bi, ok := x.Common().Value.(*ssa.Builtin); ok && bi.Name() == "append" && len(x.Common().Args) == 2 {
			a, ok1 := m.sliceElems(x.Common().Args[0], fr, depth+1)
			b, ok2 := m.sliceElems(x.Common().Args[1], fr, depth+1)
			if !ok1 || !ok2 {
				return nil, false
			}
			return append(append([]Binding{}, a...), b...), true
		}
		if fr != nil && x.Parent() == fr.fn {
			if rv, rfr := m.accessorResultX(x, 0, fr, true); rv != nil {
				return m.sliceElems(rv, rfr, depth+1)
			}
			// a packing helper with one return (it may loop over its variadic parameter)
			if h := x.Common().StaticCallee(); h != nil && m.inPkg(h) && h.Blocks != nil && h.Signature.Results().Len() == 1 {
				if rets := returnsOf(h); len(rets) == 1 {
					return m.sliceElems(rets[0].Results[0], fr.inline(x, h), depth+1)
				}
			}
		}
	}
	return nil, false
}

// copyAppendLoop matches the loop-header phi of `for _, a := range src { out = append(out, a) }`:
// one edge is the initial slice, the other the append of exactly the current element of src, in a
// block that runs on every iteration of a loop that is left only through its header.
func copyAppendLoop(phi *ssa.Phi) (init, src ssa.Value, ok bool) {
	if len(phi.Edges) != 2 {
		return nil, nil, false
	}
	for i, e := range phi.Edges {
		app, isCall := e.(*ssa.Call)
		if !isCall {
			continue
		}
		bi, isB := app.Common().Value.(*ssa.Builtin)
		if !isB || bi.Name() != "append" || len(app.Common().Args) != 2 || app.Common().Args[0] != ssa.Value(phi) {
			continue
		}
		if !loopRunsAll(phi.Block(), app.Block()) && app.Block() != phi.Block() {
			return nil, nil, false
		}
		vals, dyn := varargValues(app.Common().Args[1])
		if dyn || len(vals) != 1 {
			return nil, nil, false
		}
		el := vals[0]
		if mi, isMI := el.(*ssa.MakeInterface); isMI {
			el = mi.X
		}
		ld, isLd := el.(*ssa.UnOp)
		if !isLd || ld.Op != token.MUL {
			return nil, nil, false
		}
		ia, isIA := ld.X.(*ssa.IndexAddr)
		if !isIA {
			return nil, nil, false
		}
		// the index is the range counter of this loop: phi(-1, idx+1) tested against len(src)
		idx, isBin := ia.Index.(*ssa.BinOp)
		if !isBin || idx.Op != token.ADD {
			return nil, nil, false
		}
		cnt, isPhi := idx.X.(*ssa.Phi)
		if !isPhi || cnt.Block() != phi.Block() {
			return nil, nil, false
		}
		lenOK := false
		for _, ref := range *idx.Referrers() {
			if cmp, isCmp := ref.(*ssa.BinOp); isCmp && cmp.Op == token.LSS && cmp.X == ssa.Value(idx) {
				if lc, isCall := cmp.Y.(*ssa.Call); isCall {
					if lb, isB := lc.Common().Value.(*ssa.Builtin); isB && lb.Name() == "len" && lc.Common().Args[0] == ia.X {
						lenOK = true
					}
				}
			}
		}
		if !lenOK {
			return nil, nil, false
		}
		return phi.Edges[1-i], ia.X, true
	}
	return nil, nil, false
}
