package lint

import (
	"strings"

	"rosmarlint/sqlp"
)

// A tableUse is one reference to a base table in a statement, together with the
// conjuncts that can restrict it (the WHERE of the query block it appears in plus all JOIN
// ... ON conditions of that block) and the other tables of the same block.
type tableUse struct {
	Table     string // lower-case base table name
	RefName   string // alias or name, lower-case
	Role      string // "target", "from", "insert"
	Conjuncts []*sqlp.Expr
	Siblings  []*tableUse // other table uses in the same block (for equality joins)
	InsertVal map[string]*sqlp.Expr
}

func lower(s string) string { return strings.ToLower(s) }

// tableUses enumerates every base-table reference in the statement.
func tableUses(st *sqlp.Stmt) []*tableUse {
	var out []*tableUse
	cte := map[string]bool{}
	for _, c := range st.With {
		cte[lower(c.Name)] = true
	}
	var visitSel func(s *sqlp.Select, outer []*tableUse)
	var visitExprSubs func(e *sqlp.Expr, outer []*tableUse)
	visitExprSubs = func(e *sqlp.Expr, outer []*tableUse) {
		if e == nil {
			return
		}
		if e.Sub != nil {
			visitSel(e.Sub, outer)
		}
		for _, a := range e.Args {
			visitExprSubs(a, outer)
		}
	}
	visitSel = func(s *sqlp.Select, outer []*tableUse) {
		if s == nil {
			return
		}
		// conjuncts that filter the rows of the j-th table: the WHERE clause, and the ON clauses
		// with regard to outer joins (an ON condition of `A LEFT JOIN B` filters B only, A's rows
		// are all preserved; RIGHT JOIN symmetrically; FULL JOIN filters neither)
		conjFor := func(j int) []*sqlp.Expr {
			conj := append([]*sqlp.Expr{}, sqlp.Conjuncts(s.Where)...)
			for i, t := range s.From {
				if t.On == nil {
					continue
				}
				kind := strings.ToUpper(t.Join)
				switch {
				case strings.Contains(kind, "LEFT"):
					if j != i {
						continue
					}
				case strings.Contains(kind, "RIGHT"):
					if j >= i {
						continue
					}
				case strings.Contains(kind, "FULL"):
					continue
				}
				conj = append(conj, sqlp.Conjuncts(t.On)...)
			}
			return conj
		}
		var block []*tableUse
		for i := range s.From {
			t := &s.From[i]
			if t.Sub != nil {
				visitSel(t.Sub, outer)
				continue
			}
			if cte[lower(t.Name)] {
				continue
			}
			block = append(block, &tableUse{Table: lower(t.Name), RefName: lower(t.RefName()), Role: "from", Conjuncts: conjFor(i)})
		}
		for _, u := range block {
			u.Siblings = append(append([]*tableUse{}, block...), outer...)
		}
		out = append(out, block...)
		scope := append(append([]*tableUse{}, block...), outer...)
		for _, c := range s.Cols {
			visitExprSubs(c.Expr, scope)
		}
		visitExprSubs(s.Where, scope)
		visitExprSubs(s.Having, scope)
		for i := range s.From {
			visitExprSubs(s.From[i].On, scope)
		}
		for _, c := range s.Compound {
			visitSel(c, outer)
		}
	}
	for _, c := range st.With {
		visitSel(c.Select, nil)
	}
	switch st.Kind {
	case sqlp.SSelect:
		visitSel(st.Select, nil)
	case sqlp.SUpdate, sqlp.SDelete:
		u := &tableUse{Table: lower(st.Table), RefName: lower(st.Table), Role: "target", Conjuncts: sqlp.Conjuncts(st.Where)}
		u.Siblings = []*tableUse{u}
		out = append(out, u)
		visitExprSubs(st.Where, []*tableUse{u})
		for _, a := range st.Set {
			visitExprSubs(a.Expr, []*tableUse{u})
		}
	case sqlp.SInsert:
		u := &tableUse{Table: lower(st.Table), RefName: lower(st.Table), Role: "insert", InsertVal: map[string]*sqlp.Expr{}}
		if len(st.Values) > 0 {
			for i, c := range st.Cols {
				if i < len(st.Values[0]) {
					u.InsertVal[lower(c)] = st.Values[0][i]
				}
			}
		}
		u.Siblings = []*tableUse{u}
		out = append(out, u)
		if st.InsSel != nil {
			visitSel(st.InsSel, nil)
		}
		if st.Conflict != nil {
			visitExprSubs(st.Conflict.Where, []*tableUse{u})
		}
	}
	return out
}

// colOf decides whether expression e is column `col` of table use u: qualified by u's
// reference name, or unqualified and not provided by any sibling table.
func (m *Model) colOf(e *sqlp.Expr, u *tableUse, col string) bool {
	if e == nil || e.Kind != sqlp.EColumn || !strings.EqualFold(e.Name, col) {
		return false
	}
	if e.Table != "" {
		return lower(e.Table) == u.RefName
	}
	// unqualified: SQLite resolves against the innermost block; accept when u's table has
	// the column and no other table in the same block does
	if m.Schema.Table(u.Table).Col(col) == nil {
		return false
	}
	for _, s := range u.Siblings {
		if s != u && s.Role == u.Role && m.Schema.Table(s.Table).Col(col) != nil {
			return false
		}
	}
	return true
}

// eqConjunct finds, among u's conjuncts, "u.col = <other>" and returns the other side.
func (m *Model) eqConjuncts(u *tableUse, col string) []*sqlp.Expr {
	var out []*sqlp.Expr
	for _, c := range u.Conjuncts {
		if c.Kind != sqlp.EBinary || c.Op != "=" {
			continue
		}
		if m.colOf(c.Args[0], u, col) {
			out = append(out, c.Args[1])
		} else if m.colOf(c.Args[1], u, col) {
			out = append(out, c.Args[0])
		}
	}
	return out
}
