package lint

import (
	"fmt"
	"go/constant"
	"go/token"
	"go/types"
	"sort"
	"strings"

	"golang.org/x/tools/go/ssa"
)

// A frame is an analysis context: a function, and (when the function is being looked at
// as the callee of one particular call) the call site and the caller's frame, so that
// parameters can be replaced by the actual arguments.
type frame struct {
	fn     *ssa.Function
	caller *frame
	call   ssa.CallInstruction
	depth  int
	recv   ssa.Value // for a method used as a bound method value (x.m): the receiver it was bound to, in caller
}

func topFrame(fn *ssa.Function) *frame { return &frame{fn: fn} }

func (f *frame) inline(call ssa.CallInstruction, callee *ssa.Function) *frame {
	return &frame{fn: callee, caller: f, call: call, depth: f.depth + 1}
}

// actual returns the caller-side value bound to parameter p in this frame, if known.
func (f *frame) actual(p *ssa.Parameter) (ssa.Value, *frame, bool) {
	if f.recv != nil && f.caller != nil && len(f.fn.Params) > 0 && f.fn.Params[0] == p {
		return f.recv, f.caller, true
	}
	if f.call == nil || f.caller == nil {
		return nil, nil, false
	}
	args := f.call.Common().Args
	for i, q := range f.fn.Params {
		if q == p && i < len(args) {
			return args[i], f.caller, true
		}
	}
	return nil, nil, false
}

type strKey struct {
	v  ssa.Value
	fr *frame
}

const holeToken = "__hole__"
const maxStrSet = 256

// strEval folds string-valued SSA values to finite sets of strings.
type strEval struct {
	m          *Model
	synth      map[string]synthBinding // synthetic named parameters introduced for %d etc.
	holes      int
	fmtHoles   int // caller-supplied text used as (part of) a Sprintf FORMAT string
	xformHoles int // text produced by a function outside the package (strings.*, regexp.*): transformed, not verbatim
	xformBy    string
	why        []string // reasons for giving up
	loadVal    map[*ssa.UnOp][]string
	busy       map[strKey]bool
	// liveEdge, when set, restricts evaluation to a cut CFG: a phi edge coming from a
	// predecessor that is unreachable (or over a removed edge) contributes nothing.
	liveEdge func(pred, blk *ssa.BasicBlock, fr *frame) bool
	// liveRet, when set, says whether a return of an inlined helper is reachable on the cut CFG
	liveRet func(ret *ssa.Return, fr *frame) bool
}

type synthBinding struct {
	v  ssa.Value
	fr *frame
}

func newStrEval(m *Model) *strEval {
	return &strEval{m: m, synth: map[string]synthBinding{}, loadVal: map[*ssa.UnOp][]string{}, busy: map[strKey]bool{}}
}

func uniq(ss []string) []string {
	sort.Strings(ss)
	out := ss[:0]
	for i, s := range ss {
		if i == 0 || s != ss[i-1] {
			out = append(out, s)
		}
	}
	return out
}

func product(a, b []string) []string {
	var out []string
	for _, x := range a {
		for _, y := range b {
			out = append(out, x+y)
		}
	}
	return uniq(out)
}

func (e *strEval) giveUp(format string, args ...any) ([]string, bool) {
	e.why = append(e.why, fmt.Sprintf(format, args...))
	return nil, false
}

func (e *strEval) hole() ([]string, bool) {
	e.holes++
	return []string{holeToken}, true
}

// eval returns the set of strings v may denote. ok=false means "cannot bound".
func (e *strEval) eval(v ssa.Value, fr *frame) ([]string, bool) {
	if fr.depth > 4 {
		return e.giveUp("inlining too deep at %s", v)
	}
	k := strKey{v, fr}
	if e.busy[k] {
		// cyclic (loop-carried) string: not a finite set we can enumerate
		return e.giveUp("loop-carried string value %s in %s", v.Name(), fr.fn)
	}
	e.busy[k] = true
	defer delete(e.busy, k)

	switch x := v.(type) {
	case *ssa.Const:
		if x.Value == nil {
			return []string{""}, true
		}
		if x.Value.Kind() == constant.String {
			return []string{constant.StringVal(x.Value)}, true
		}
		return []string{x.Value.ExactString()}, true
	case *ssa.Phi:
		var out []string
		for i, ed := range x.Edges {
			if e.liveEdge != nil && i < len(x.Block().Preds) && !e.liveEdge(x.Block().Preds[i], x.Block(), fr) {
				continue
			}
			s, ok := e.eval(ed, fr)
			if !ok {
				return nil, false
			}
			out = append(out, s...)
		}
		out = uniq(out)
		if len(out) > maxStrSet {
			return e.giveUp("more than %d variants at %s", maxStrSet, v.Name())
		}
		return out, true
	case *ssa.BinOp:
		if x.Op != token.ADD {
			return e.hole()
		}
		a, ok := e.eval(x.X, fr)
		if !ok {
			return nil, false
		}
		b, ok := e.eval(x.Y, fr)
		if !ok {
			return nil, false
		}
		out := product(a, b)
		if len(out) > maxStrSet {
			return e.giveUp("more than %d variants at %s", maxStrSet, v.Name())
		}
		return out, true
	case *ssa.Parameter:
		if av, afr, ok := fr.actual(x); ok {
			return e.eval(av, afr)
		}
		return e.hole() // caller-supplied text
	case *ssa.MakeInterface:
		return e.eval(x.X, fr)
	case *ssa.ChangeType:
		return e.eval(x.X, fr)
	case *ssa.Convert:
		if b, ok := x.X.Type().Underlying().(*types.Basic); ok && b.Info()&types.IsString != 0 {
			return e.eval(x.X, fr)
		}
		return e.hole()
	case *ssa.UnOp:
		if x.Op != token.MUL {
			return e.hole()
		}
		switch cell := x.X.(type) {
		case *ssa.Alloc, *ssa.FreeVar:
			if vals, ok := e.loadVal[x]; ok {
				if vals == nil {
					return e.giveUp("unbounded string cell %s", cell.Name())
				}
				return vals, true
			}
			// no flow analysis has been run for this cell in this function: run it now
			if al, ok := cell.(*ssa.Alloc); ok {
				e.analyzeCell(fr, al, nil, false)
				if vals, ok := e.loadVal[x]; ok {
					if vals == nil {
						return e.giveUp("unbounded string cell %s", cell.Name())
					}
					return vals, true
				}
			}
			if fv, ok := cell.(*ssa.FreeVar); ok {
				// captured cell read in a closure: value at closure creation in the parent
				if bind, pfr := e.m.freeVarBinding(fv, fr); bind != nil {
					if al, ok := bind.(*ssa.Alloc); ok {
						if st := singleStore(al); st != nil {
							return e.eval(st.Val, pfr)
						}
					}
				}
			}
			return e.hole()
		case *ssa.Global:
			return e.hole()
		case *ssa.FieldAddr:
			// a field of a package-level table of statement texts (`bucketSQL.setName`)
			if g, ok := cell.X.(*ssa.Global); ok {
				if str, ok := e.m.globalStructString(g, cell.Field); ok {
					return []string{str}, true
				}
				return e.hole()
			}
			// a string field of a local struct that is built up step by step (a statement builder)
			if vals, ok := e.loadVal[x]; ok {
				if vals == nil {
					return e.giveUp("unbounded string field %s", fieldOf(cell).Name())
				}
				return vals, true
			}
			if base, ok := stripConv(cell.X).(*ssa.Alloc); ok && base.Parent() == fr.fn {
				e.analyzeCellF(fr, base, cell.Field, nil, false)
				if vals, ok := e.loadVal[x]; ok {
					if vals == nil {
						return e.giveUp("unbounded string field %s", fieldOf(cell).Name())
					}
					return vals, true
				}
			}
			return e.hole()
		}
		return e.hole()
	case *ssa.Extract:
		if call, ok := x.Tuple.(*ssa.Call); ok {
			return e.evalCall(call, x.Index, fr)
		}
		return e.hole()
	case *ssa.Call:
		return e.evalCall(x, 0, fr)
	}
	return e.hole()
}

func (e *strEval) evalCall(call *ssa.Call, resIdx int, fr *frame) ([]string, bool) {
	callee := call.Common().StaticCallee()
	if callee == nil {
		return e.hole()
	}
	if callee.Pkg != nil && callee.Pkg.Pkg.Path() == "fmt" && callee.Name() == "Sprintf" {
		return e.evalSprintf(call, fr)
	}
	if callee.Pkg != nil && callee.Pkg.Pkg.Path() == "strings" && (callee.Name() == "Replace" || callee.Name() == "ReplaceAll") && len(call.Common().Args) >= 3 {
		// the one documented substitution: the keyspace token (a `$name` placeholder, not SQL text)
		// is replaced by the name of the CTE; the rest of the caller's text is untouched
		if oldS, ok := constString(call.Common().Args[1]); ok && strings.HasPrefix(oldS, "$") {
			if _, ok := constString(call.Common().Args[2]); ok {
				return e.eval(call.Common().Args[0], fr)
			}
		}
	}
	if isBuilderMethod(callee, "String") && len(call.Common().Args) == 1 {
		if out, ok := e.evalBuilder(call, fr); ok {
			return out, true
		}
	}
	if !e.m.inPkg(callee) || len(callee.Blocks) == 0 {
		e.xformHoles++
		if callee.Pkg != nil {
			e.xformBy = callee.Pkg.Pkg.Name() + "." + callee.Name()
		}
		return e.hole()
	}
	// package-local function: union over its return sites, parameters bound to the actuals
	cfr := fr.inline(call, callee)
	var out []string
	found := false
	for _, b := range callee.Blocks {
		for _, in := range b.Instrs {
			ret, ok := in.(*ssa.Return)
			if !ok || resIdx >= len(ret.Results) {
				continue
			}
			found = true
			if e.liveRet != nil && !e.liveRet(ret, cfr) {
				continue
			}
			s, ok := e.eval(ret.Results[resIdx], cfr)
			if !ok {
				return nil, false
			}
			out = append(out, s...)
		}
	}
	if !found {
		return e.hole()
	}
	out = uniq(out)
	if len(out) > maxStrSet {
		return e.giveUp("more than %d variants from %s", maxStrSet, callee)
	}
	return out, true
}

func (e *strEval) evalSprintf(call *ssa.Call, fr *frame) ([]string, bool) {
	args := call.Common().Args
	if len(args) < 1 {
		return e.hole()
	}
	formats, ok := e.eval(args[0], fr)
	if !ok {
		return nil, false
	}
	for _, f := range formats {
		if strings.Contains(f, holeToken) {
			e.fmtHoles++
		}
	}
	var vargs []ssa.Value
	if len(args) > 1 {
		var dyn bool
		vargs, dyn = varargValues(args[1])
		if dyn {
			return e.hole()
		}
	}
	var out []string
	for _, format := range formats {
		cur := []string{""}
		argi := 0
		i := 0
		for i < len(format) {
			c := format[i]
			if c != '%' {
				j := strings.IndexByte(format[i:], '%')
				lit := format[i:]
				if j >= 0 {
					lit = format[i : i+j]
				}
				cur = product(cur, []string{lit})
				i += len(lit)
				continue
			}
			// verb
			j := i + 1
			for j < len(format) && strings.IndexByte("+-# 0123456789.", format[j]) >= 0 {
				j++
			}
			if j >= len(format) {
				return e.giveUp("bad format %q", format)
			}
			verb := format[j]
			i = j + 1
			if verb == '%' {
				cur = product(cur, []string{"%"})
				continue
			}
			if argi >= len(vargs) {
				return e.giveUp("format %q has more verbs than arguments", format)
			}
			arg := vargs[argi]
			argi++
			switch verb {
			case 's', 'v':
				if b, ok := stripConv(arg).Type().Underlying().(*types.Basic); ok && b.Info()&types.IsString != 0 {
					s, ok := e.eval(arg, fr)
					if !ok {
						return nil, false
					}
					cur = product(cur, s)
				} else {
					cur = product(cur, []string{e.newSynth(arg, fr)})
				}
			case 'd', 'x', 'X', 'q':
				if c, ok := stripConv(arg).(*ssa.Const); ok && c.Value != nil && verb != 'q' {
					cur = product(cur, []string{c.Value.ExactString()})
				} else {
					cur = product(cur, []string{e.newSynth(arg, fr)})
				}
			default:
				cur = product(cur, []string{e.newSynth(arg, fr)})
			}
			if len(cur) > maxStrSet {
				return e.giveUp("more than %d variants in Sprintf", maxStrSet)
			}
		}
		out = append(out, cur...)
	}
	return uniq(out), true
}

// newSynth introduces a synthetic named SQL parameter standing for a Go value that is
// formatted into the statement text (e.g. "collection=%d").
func (e *strEval) newSynth(v ssa.Value, fr *frame) string {
	for name, b := range e.synth {
		if b.v == v && b.fr == fr {
			return name
		}
	}
	name := fmt.Sprintf("@__go%d", len(e.synth)+1)
	e.synth[name] = synthBinding{v, fr}
	return name
}

// varargValues recovers the elements of a variadic []any built at a call site.
// dynamic=true when the slice is not a literal pack (e.g. args... passed through).
func varargValues(v ssa.Value) (vals []ssa.Value, dynamic bool) {
	switch x := v.(type) {
	case *ssa.Const:
		return nil, false // nil slice: no arguments
	case *ssa.Slice:
		al, ok := x.X.(*ssa.Alloc)
		if !ok {
			return nil, true
		}
		arr, ok := al.Type().Underlying().(*types.Pointer).Elem().Underlying().(*types.Array)
		if !ok {
			return nil, true
		}
		vals = make([]ssa.Value, arr.Len())
		for _, ref := range *al.Referrers() {
			ia, ok := ref.(*ssa.IndexAddr)
			if !ok {
				continue
			}
			idx, ok := ia.Index.(*ssa.Const)
			if !ok {
				return nil, true
			}
			n := int(idx.Int64())
			for _, r2 := range *ia.Referrers() {
				if st, ok := r2.(*ssa.Store); ok && st.Addr == ia && n < len(vals) {
					vals[n] = st.Val
				}
			}
		}
		for _, x := range vals {
			if x == nil {
				return nil, true
			}
		}
		return vals, false
	}
	return nil, true
}

// singleStore returns the only Store to an Alloc cell anywhere (parent and closures), or nil.
func singleStore(al *ssa.Alloc) *ssa.Store {
	var found *ssa.Store
	n := 0
	var visit func(v ssa.Value)
	seen := map[ssa.Value]bool{}
	visit = func(v ssa.Value) {
		if seen[v] {
			return
		}
		seen[v] = true
		refs := v.Referrers()
		if refs == nil {
			return
		}
		for _, ref := range *refs {
			switch r := ref.(type) {
			case *ssa.Store:
				if r.Addr == v {
					found = r
					n++
				}
				if r.Val == v && !storedIntoReadOnlyWrapper(r) && !storedIntoReadOnlyField(r) {
					n += 2 // the cell's address is stored somewhere (e.g. into a variadic pack handed to Scan): it may be written through it
				}
			case *ssa.MakeClosure:
				fn := r.Fn.(*ssa.Function)
				for i, b := range r.Bindings {
					if b == v && i < len(fn.FreeVars) {
						visit(fn.FreeVars[i])
					}
				}
			case *ssa.MakeInterface, *ssa.ChangeType, *ssa.Convert, *ssa.Phi:
				n += 2 // the address is boxed or merged (e.g. `scan(row, &x)` boxes it into an `any`): it may be written through it
			case ssa.CallInstruction:
				// address passed to a call: may be written, unless the callee provably only reads through it
				for i, a := range r.Common().Args {
					if a == v {
						callee := r.Common().StaticCallee()
						if callee == nil || r.Common().IsInvoke() || paramWritten(callee, i, 0) {
							n += 2
						}
					}
				}
			}
		}
	}
	visit(al)
	if n == 1 {
		return found
	}
	return nil
}

// fieldPointerWritten is installed by the model: may a store happen through a pointer that was
// loaded from struct field f, anywhere in the package?
var fieldPointerWritten func(f *types.Var) bool

// storedIntoReadOnlyField: the store puts a pointer into a struct field (of a command object
// such as removal{ifCas: p}) and nothing in the package ever stores through a pointer loaded from
// that field.
func storedIntoReadOnlyField(st *ssa.Store) bool {
	fa, ok := st.Addr.(*ssa.FieldAddr)
	if !ok || fieldPointerWritten == nil {
		return false
	}
	if _, isPtr := st.Val.Type().Underlying().(*types.Pointer); !isPtr {
		return false
	}
	return !fieldPointerWritten(fieldOf(fa))
}

// storedIntoReadOnlyWrapper: the store puts a pointer into the single field of a local struct
// literal (a wrapper such as casCheck{expected: &cas}) whose only use is to be passed BY VALUE to
// package functions that merely read through that pointer.
func storedIntoReadOnlyWrapper(st *ssa.Store) bool {
	fa, ok := st.Addr.(*ssa.FieldAddr)
	if !ok {
		return false
	}
	w, ok := fa.X.(*ssa.Alloc)
	if !ok || w.Referrers() == nil {
		return false
	}
	pt, ok := w.Type().Underlying().(*types.Pointer)
	if !ok {
		return false
	}
	stT, ok := pt.Elem().Underlying().(*types.Struct)
	if !ok || stT.NumFields() != 1 {
		return false
	}
	for _, ref := range *w.Referrers() {
		switch x := ref.(type) {
		case *ssa.FieldAddr:
			for _, r2 := range *x.Referrers() {
				if s2, isSt := r2.(*ssa.Store); !isSt || s2.Addr != ssa.Value(x) {
					return false
				}
			}
		case *ssa.DebugRef:
		case *ssa.UnOp:
			if x.Referrers() == nil {
				continue
			}
			for _, r2 := range *x.Referrers() {
				call, isCall := r2.(ssa.CallInstruction)
				if !isCall {
					if _, isDbg := r2.(*ssa.DebugRef); isDbg {
						continue
					}
					return false
				}
				callee := call.Common().StaticCallee()
				if callee == nil || call.Common().IsInvoke() || len(callee.Blocks) == 0 {
					return false
				}
				for i, a := range call.Common().Args {
					if a == ssa.Value(x) && (i >= len(callee.Params) || structFieldPointerWritten(callee.Params[i])) {
						return false
					}
				}
			}
		default:
			return false
		}
	}
	return true
}

// structFieldPointerWritten: p is a struct-valued parameter holding a pointer; may the callee
// store through that pointer (or let it escape)?
func structFieldPointerWritten(p *ssa.Parameter) bool {
	if p.Referrers() == nil {
		return false
	}
	for _, ref := range *p.Referrers() {
		switch x := ref.(type) {
		case *ssa.DebugRef:
		case *ssa.Field:
			if pointerWritten(x, 0, map[ssa.Value]bool{}) {
				return true
			}
		case *ssa.Store:
			al, ok := x.Addr.(*ssa.Alloc)
			if !ok || x.Val != ssa.Value(p) || al.Referrers() == nil {
				return true
			}
			for _, r2 := range *al.Referrers() {
				switch y := r2.(type) {
				case *ssa.Store, *ssa.DebugRef:
				case *ssa.FieldAddr:
					for _, r3 := range *y.Referrers() {
						ld, isLd := r3.(*ssa.UnOp)
						if !isLd {
							return true
						}
						if pointerWritten(ld, 0, map[ssa.Value]bool{}) {
							return true
						}
					}
				default:
					return true
				}
			}
		default:
			return true
		}
	}
	return false
}

// freeVarBinding finds what a closure's free variable is bound to in the parent function.
func (m *Model) freeVarBinding(fv *ssa.FreeVar, fr *frame) (ssa.Value, *frame) {
	clos := fv.Parent()
	parent := clos.Parent()
	if parent == nil {
		// the synthetic wrapper of a bound method value (x.m): bound where the value is created
		if strings.HasSuffix(clos.Name(), "$bound") && len(clos.FreeVars) == 1 {
			var site *ssa.MakeClosure
			n := 0
			for _, g := range m.Funcs {
				for _, b := range g.Blocks {
					for _, in := range b.Instrs {
						if mc, ok := in.(*ssa.MakeClosure); ok && mc.Fn == clos {
							site = mc
							n++
						}
					}
				}
			}
			if n == 1 {
				return site.Bindings[0], m.closureFrame(site.Parent())
			}
		}
		return nil, nil
	}
	idx := -1
	for i, x := range clos.FreeVars {
		if x == fv {
			idx = i
		}
	}
	if idx < 0 {
		return nil, nil
	}
	for _, b := range parent.Blocks {
		for _, in := range b.Instrs {
			if mc, ok := in.(*ssa.MakeClosure); ok && mc.Fn == clos {
				pfr := topFrame(parent)
				if fr != nil && fr.fn == clos && fr.caller != nil && fr.caller.fn == parent {
					pfr = fr.caller
				}
				return mc.Bindings[idx], pfr
			}
		}
	}
	return nil, nil
}

// analyzeCell runs a forward dataflow over fn for one string cell (a local Alloc that is
// address-taken, typically because a closure captures it), recording the set of strings
// each load of the cell may observe. Calls to closures that capture the cell are applied
// through a recursive analysis of the closure body. init/hasInit give the state on entry
// (used when analysing a closure whose free variable is the cell).
// It returns the set of states at the function's exits.
func (e *strEval) analyzeCell(fr *frame, cell ssa.Value, init []string, hasInit bool) (exit []string, ok bool) {
	return e.analyzeCellF(fr, cell, -1, init, hasInit)
}

// analyzeCellF: field >= 0 selects a string field of the struct `cell` points to (a local
// Alloc, or in a callee the pointer parameter it was passed as); package-local callees that
// receive the struct's address are analysed recursively.
func (e *strEval) analyzeCellF(fr *frame, cell ssa.Value, field int, init []string, hasInit bool) (exit []string, ok bool) {
	fn := fr.fn
	isAddr := func(v ssa.Value) bool {
		if field < 0 {
			return v == cell
		}
		fa, ok := v.(*ssa.FieldAddr)
		return ok && fa.Field == field && stripConv(fa.X) == cell
	}
	type state struct {
		vals []string
		top  bool
		set  bool // reached
	}
	in := make([]state, len(fn.Blocks))
	out := make([]state, len(fn.Blocks))
	if hasInit {
		in[0] = state{vals: init, set: true}
	} else {
		in[0] = state{vals: nil, set: true}
	}
	join := func(a, b state) state {
		if !a.set {
			return b
		}
		if !b.set {
			return a
		}
		if a.top || b.top {
			return state{top: true, set: true}
		}
		v := uniq(append(append([]string{}, a.vals...), b.vals...))
		if len(v) > maxStrSet {
			return state{top: true, set: true}
		}
		return state{vals: v, set: true}
	}
	eq := func(a, b state) bool {
		if a.set != b.set || a.top != b.top || len(a.vals) != len(b.vals) {
			return false
		}
		for i := range a.vals {
			if a.vals[i] != b.vals[i] {
				return false
			}
		}
		return true
	}
	captures := func(mc *ssa.MakeClosure) (int, bool) {
		for i, b := range mc.Bindings {
			if b == cell {
				return i, true
			}
		}
		return 0, false
	}
	for iter := 0; iter < 50; iter++ {
		changed := false
		for bi, b := range fn.Blocks {
			st := in[bi]
			if bi != 0 {
				st = state{}
				for _, p := range b.Preds {
					st = join(st, out[p.Index])
				}
			}
			if !st.set {
				continue
			}
			in[bi] = st
			for _, ins := range b.Instrs {
				switch x := ins.(type) {
				case *ssa.Alloc:
					if ssa.Value(x) == cell {
						st = state{vals: []string{""}, set: true}
					}
				case *ssa.UnOp:
					if x.Op == token.MUL && isAddr(x.X) {
						if st.top {
							e.loadVal[x] = nil
						} else {
							e.loadVal[x] = st.vals
						}
					}
				case *ssa.Store:
					if isAddr(x.Addr) {
						vals, ok := e.eval(x.Val, fr)
						if !ok {
							st = state{top: true, set: true}
						} else {
							st = state{vals: vals, set: true}
						}
					}
				case ssa.CallInstruction:
					cc := x.Common()
					if mc, ok := cc.Value.(*ssa.MakeClosure); ok {
						if idx, ok := captures(mc); ok {
							clos := mc.Fn.(*ssa.Function)
							if st.top {
								break
							}
							// closure params are bound through an inlined frame; note Args excludes the closure itself
							cfr := &frame{fn: clos, caller: fr, call: x, depth: fr.depth + 1}
							ex, ok := e.analyzeCell(cfr, clos.FreeVars[idx], st.vals, true)
							if !ok {
								st = state{top: true, set: true}
							} else {
								st = state{vals: ex, set: true}
							}
						}
					} else if field >= 0 {
						// the struct's address handed to a package-local function: follow the field there
						for ai, a := range cc.Args {
							if stripConv(a) != cell {
								continue
							}
							callee := cc.StaticCallee()
							if callee == nil || cc.IsInvoke() || !e.m.inPkg(callee) || len(callee.Blocks) == 0 || ai >= len(callee.Params) || fr.depth > 3 || st.top {
								st = state{top: true, set: true}
								continue
							}
							cfr := fr.inline(x, callee)
							ex, ok := e.analyzeCellF(cfr, callee.Params[ai], field, st.vals, true)
							if !ok {
								st = state{top: true, set: true}
							} else {
								st = state{vals: ex, set: true}
							}
						}
					} else {
						for _, a := range cc.Args {
							if a == cell {
								st = state{top: true, set: true} // address escapes to a call
							}
						}
					}
				}
			}
			if !eq(out[bi], st) {
				out[bi] = st
				changed = true
			}
		}
		if !changed {
			break
		}
	}
	ok = true
	for bi, b := range fn.Blocks {
		if len(b.Instrs) == 0 {
			continue
		}
		if _, isRet := b.Instrs[len(b.Instrs)-1].(*ssa.Return); isRet && out[bi].set {
			if out[bi].top {
				ok = false
			}
			exit = append(exit, out[bi].vals...)
		}
	}
	return uniq(exit), ok
}

// paramWritten reports (conservatively) whether function fn may store through its i-th
// pointer parameter.
func paramWritten(fn *ssa.Function, i int, depth int) bool {
	if fn == nil || len(fn.Blocks) == 0 || i >= len(fn.Params) || depth > 3 {
		return true
	}
	return pointerWritten(fn.Params[i], depth, map[ssa.Value]bool{})
}

// pointerWritten: may a store happen through pointer value p (or copies of it)?
func pointerWritten(p ssa.Value, depth int, seen map[ssa.Value]bool) bool {
	if seen[p] {
		return false
	}
	seen[p] = true
	refs := p.Referrers()
	if refs == nil {
		return false
	}
	for _, ref := range *refs {
		switch r := ref.(type) {
		case *ssa.Store:
			if r.Addr == p {
				return true
			}
			// the pointer itself is stored somewhere (e.g. into a capture cell): follow loads of that cell
			if al, ok := r.Addr.(*ssa.Alloc); ok {
				if cellPointerWritten(al, depth, seen) {
					return true
				}
			} else if !storedIntoReadOnlyWrapper(r) && !storedIntoReadOnlyField(r) {
				return true
			}
		case *ssa.UnOp: // load through the pointer: a read
		case *ssa.FieldAddr, *ssa.IndexAddr:
			if pointerWritten(r.(ssa.Value), depth, seen) {
				return true
			}
		case *ssa.Phi:
			if pointerWritten(r, depth, seen) {
				return true
			}
		case *ssa.MakeInterface, *ssa.ChangeType, *ssa.Convert:
			if pointerWritten(r.(ssa.Value), depth, seen) {
				return true
			}
		case *ssa.MakeClosure:
			return true
		case ssa.CallInstruction:
			for j, a := range r.Common().Args {
				if a == p {
					callee := r.Common().StaticCallee()
					if callee == nil || r.Common().IsInvoke() || paramWritten(callee, j, depth+1) {
						return true
					}
				}
			}
		case *ssa.BinOp, *ssa.If, *ssa.DebugRef:
		default:
			return true
		}
	}
	return false
}

// cellPointerWritten: al is a cell holding a pointer (typically a captured parameter);
// is any pointer loaded from it written through?
func cellPointerWritten(al ssa.Value, depth int, seen map[ssa.Value]bool) bool {
	if seen[al] {
		return false
	}
	seen[al] = true
	refs := al.Referrers()
	if refs == nil {
		return false
	}
	for _, ref := range *refs {
		switch r := ref.(type) {
		case *ssa.UnOp:
			if pointerWritten(r, depth, seen) {
				return true
			}
		case *ssa.Store:
		case *ssa.MakeClosure:
			fn := r.Fn.(*ssa.Function)
			for i, b := range r.Bindings {
				if b == al && i < len(fn.FreeVars) {
					if cellPointerWritten(fn.FreeVars[i], depth, seen) {
						return true
					}
				}
			}
		case *ssa.DebugRef:
		default:
			return true
		}
	}
	return false
}

func isBuilderMethod(f *ssa.Function, name string) bool {
	if f == nil || f.Name() != name || f.Signature.Recv() == nil {
		return false
	}
	return isPtrToNamed(f.Signature.Recv().Type(), "strings", "Builder")
}

// evalBuilder folds `b.String()` of a local strings.Builder that is only ever written with
// WriteString/WriteByte/WriteRune: the set of texts written on the paths from the variable's
// declaration to the call (a forward dataflow over the function's blocks; a write inside a loop
// makes the set grow beyond the bound and the folder gives up).
func (e *strEval) evalBuilder(call *ssa.Call, fr *frame) ([]string, bool) {
	al, ok := stripConv(call.Common().Args[0]).(*ssa.Alloc)
	if !ok || al.Referrers() == nil {
		return nil, false
	}
	fn := call.Parent()
	writes := map[*ssa.BasicBlock][]*ssa.Call{}
	for _, ref := range *al.Referrers() {
		c, ok := ref.(*ssa.Call)
		if !ok || len(c.Common().Args) == 0 || stripConv(c.Common().Args[0]) != ssa.Value(al) {
			return nil, false // the builder escapes
		}
		g := c.Common().StaticCallee()
		switch {
		case isBuilderMethod(g, "WriteString"), isBuilderMethod(g, "WriteByte"), isBuilderMethod(g, "WriteRune"):
			writes[c.Block()] = append(writes[c.Block()], c)
		case isBuilderMethod(g, "String"), isBuilderMethod(g, "Len"), isBuilderMethod(g, "Grow"):
		default:
			return nil, false
		}
	}
	textOf := func(c *ssa.Call) ([]string, bool) {
		arg := c.Common().Args[1]
		if c.Common().StaticCallee().Name() == "WriteString" {
			return e.eval(arg, fr)
		}
		if k, ok := stripConv(arg).(*ssa.Const); ok && k.Value != nil {
			if n, ok := constant.Int64Val(k.Value); ok {
				return []string{string(rune(n))}, true
			}
		}
		return nil, false
	}
	// out[b]: texts accumulated when control leaves b
	in := map[*ssa.BasicBlock][]string{al.Block(): {""}}
	out := map[*ssa.BasicBlock][]string{}
	apply := func(b *ssa.BasicBlock, acc []string, upto ssa.Instruction) ([]string, bool) {
		for _, ins := range b.Instrs {
			if ins == upto {
				break
			}
			c, ok := ins.(*ssa.Call)
			if !ok {
				continue
			}
			isW := false
			for _, w := range writes[b] {
				if w == c {
					isW = true
				}
			}
			if !isW {
				continue
			}
			t, ok := textOf(c)
			if !ok {
				return nil, false
			}
			acc = product(acc, t)
			if len(acc) > maxStrSet {
				return nil, false
			}
		}
		return uniq(acc), true
	}
	work := []*ssa.BasicBlock{al.Block()}
	for steps := 0; len(work) > 0; steps++ {
		if steps > 20*len(fn.Blocks)+100 {
			return nil, false
		}
		b := work[0]
		work = work[1:]
		o, ok := apply(b, in[b], nil)
		if !ok {
			return nil, false
		}
		if len(o) == len(out[b]) && out[b] != nil {
			continue
		}
		out[b] = o
		for _, s := range b.Succs {
			merged := uniq(append(append([]string(nil), in[s]...), o...))
			if len(merged) > maxStrSet {
				return nil, false
			}
			if len(merged) != len(in[s]) || in[s] == nil {
				in[s] = merged
				work = append(work, s)
			}
		}
	}
	acc, have := in[call.Block()]
	if !have {
		return nil, false
	}
	res, ok := apply(call.Block(), acc, call)
	if !ok || len(res) == 0 {
		return nil, false
	}
	return res, true
}
