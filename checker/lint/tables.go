package lint

import (
	"go/ast"
	"go/constant"
	"go/token"
	"go/types"

	"golang.org/x/tools/go/ssa"
)

// Table-driven code: `for _, row := range kTable { use(row.a, row.b) }` over a package-level
// array or slice whose initialiser is a composite literal of constants and that is never
// written afterwards. tableField resolves a value to (table, field index, loop header);
// tableRows evaluates the initialiser; loopRunsAll says that a block of the loop body is
// executed once for every row.

func (m *Model) tableField(v ssa.Value) (g *ssa.Global, field int, hdr *ssa.BasicBlock, ok bool) {
	ld, isLd := stripConv(v).(*ssa.UnOp)
	if !isLd || ld.Op != token.MUL {
		return
	}
	fa, isFa := ld.X.(*ssa.FieldAddr)
	if !isFa {
		return
	}
	var arr, idx ssa.Value
	fromElem := func(e ssa.Value) bool {
		switch e := e.(type) {
		case *ssa.Index:
			arr, idx = e.X, e.Index
			return true
		case *ssa.UnOp:
			if ia, isIa := e.X.(*ssa.IndexAddr); isIa && e.Op == token.MUL {
				arr, idx = ia.X, ia.Index
				return true
			}
		}
		return false
	}
	switch x := fa.X.(type) {
	case *ssa.Alloc:
		var st *ssa.Store
		n := 0
		for _, ref := range *x.Referrers() {
			switch ref := ref.(type) {
			case *ssa.Store:
				if ref.Addr == x {
					st = ref
					n++
				} else {
					return
				}
			case *ssa.FieldAddr, *ssa.DebugRef:
			default:
				return
			}
		}
		if n != 1 || !fromElem(st.Val) {
			return
		}
	case *ssa.IndexAddr:
		arr, idx = x.X, x.Index
	default:
		return
	}
	switch a := arr.(type) {
	case *ssa.Global:
		g = a
	case *ssa.UnOp:
		if gg, isG := a.X.(*ssa.Global); isG && a.Op == token.MUL {
			g = gg
		}
	}
	if g == nil {
		return
	}
	bo, isBo := idx.(*ssa.BinOp)
	if !isBo || bo.Op != token.ADD {
		return
	}
	phi, isPhi := bo.X.(*ssa.Phi)
	if !isPhi || phi.Comment != "rangeindex" {
		return
	}
	if c, isC := bo.Y.(*ssa.Const); !isC || c.Value == nil || constant.Compare(c.Value, token.NEQ, constant.MakeInt64(1)) {
		return
	}
	return g, fa.Field, phi.Block(), true
}

// loopRunsAll: blk lies in the loop headed by hdr, is executed on every iteration (dominates
// every back edge) and the loop is left only through its header.
func loopRunsAll(hdr, blk *ssa.BasicBlock) bool {
	in := map[*ssa.BasicBlock]bool{hdr: true}
	var latches []*ssa.BasicBlock
	var back func(b *ssa.BasicBlock)
	back = func(b *ssa.BasicBlock) {
		if in[b] {
			return
		}
		in[b] = true
		for _, p := range b.Preds {
			back(p)
		}
	}
	for _, p := range hdr.Preds {
		if hdr.Dominates(p) {
			latches = append(latches, p)
			back(p)
		}
	}
	if len(latches) == 0 || !in[blk] || blk == hdr {
		return false
	}
	for b := range in {
		if b == hdr {
			continue
		}
		if !hdr.Dominates(b) {
			return false
		}
		for _, s := range b.Succs {
			if !in[s] {
				return false
			}
		}
	}
	for _, l := range latches {
		if !(blk == l || blk.Dominates(l)) {
			return false
		}
	}
	return true
}

// tableRows evaluates the composite-literal initialiser of a package-level table: one slice of
// field values per row ("<dynamic>" for a field that is not a constant). ok is false when the
// variable has no such initialiser or is written (or its address taken) anywhere else.
func (m *Model) tableRows(g *ssa.Global) (rows [][]string, ok bool) {
	obj := g.Object()
	if obj == nil {
		return nil, false
	}
	var lit *ast.CompositeLit
	for _, f := range m.Pkg.Syntax {
		for _, d := range f.Decls {
			gd, isGd := d.(*ast.GenDecl)
			if !isGd || gd.Tok != token.VAR {
				continue
			}
			for _, sp := range gd.Specs {
				vs := sp.(*ast.ValueSpec)
				for i, nm := range vs.Names {
					if m.Pkg.TypesInfo.Defs[nm] == obj && i < len(vs.Values) && len(vs.Values) == len(vs.Names) {
						lit, _ = ast.Unparen(vs.Values[i]).(*ast.CompositeLit)
					}
				}
			}
		}
	}
	if lit == nil {
		return nil, false
	}
	var elemT types.Type
	switch t := obj.Type().Underlying().(type) {
	case *types.Array:
		elemT = t.Elem()
	case *types.Slice:
		elemT = t.Elem()
	default:
		return nil, false
	}
	st, isSt := elemT.Underlying().(*types.Struct)
	if !isSt {
		return nil, false
	}
	for _, el := range lit.Elts {
		cl, isCl := el.(*ast.CompositeLit)
		if !isCl {
			return nil, false // keyed array elements, pointers: not a plain table
		}
		row := make([]string, st.NumFields())
		for i, fe := range cl.Elts {
			fi := i
			val := fe
			if kv, isKv := fe.(*ast.KeyValueExpr); isKv {
				fi = -1
				if id, isId := kv.Key.(*ast.Ident); isId {
					for j := 0; j < st.NumFields(); j++ {
						if st.Field(j).Name() == id.Name {
							fi = j
						}
					}
				}
				val = kv.Value
			}
			if fi < 0 || fi >= len(row) {
				return nil, false
			}
			if tv, has := m.Pkg.TypesInfo.Types[val]; has && tv.Value != nil && tv.Value.Kind() == constant.String {
				row[fi] = constant.StringVal(tv.Value)
			} else if has && tv.Value != nil {
				row[fi] = tv.Value.ExactString()
			} else {
				row[fi] = "<dynamic>"
			}
		}
		rows = append(rows, row)
	}
	// never written after initialisation
	_, isSlice := obj.Type().Underlying().(*types.Slice)
	onlyRead := func(v ssa.Value) bool {
		refs := v.Referrers()
		if refs == nil {
			return true
		}
		for _, ref := range *refs {
			switch ref := ref.(type) {
			case *ssa.UnOp, *ssa.DebugRef:
			case *ssa.FieldAddr:
				for _, r2 := range *ref.Referrers() {
					if _, isLd := r2.(*ssa.UnOp); !isLd {
						return false
					}
				}
			default:
				return false
			}
		}
		return true
	}
	for _, fn := range m.Funcs {
		if fn.Synthetic != "" && fn.Name() == "init" {
			continue // the package initialiser evaluates the literal
		}
		for _, b := range fn.Blocks {
			for _, ins := range b.Instrs {
				for _, op := range ins.Operands(nil) {
					if *op != ssa.Value(g) {
						continue
					}
					ld, isLd := ins.(*ssa.UnOp)
					if !isLd || ld.Op != token.MUL {
						if ia, isIa := ins.(*ssa.IndexAddr); isIa && onlyRead(ia) {
							continue
						}
						return nil, false
					}
					if !isSlice {
						continue // an array value is a copy
					}
					for _, ref := range *ld.Referrers() {
						switch ref := ref.(type) {
						case *ssa.IndexAddr:
							if !onlyRead(ref) {
								return nil, false
							}
						case *ssa.Call:
							if bi, isBi := ref.Common().Value.(*ssa.Builtin); !isBi || (bi.Name() != "len" && bi.Name() != "cap") {
								return nil, false
							}
						case *ssa.DebugRef:
						default:
							return nil, false
						}
					}
				}
			}
		}
	}
	return rows, true
}

// globalStructString: the constant string that the initialiser of package-level struct variable
// g gives to field number `field`, provided the variable is only ever read field by field.
func (m *Model) globalStructString(g *ssa.Global, field int) (string, bool) {
	obj := g.Object()
	if obj == nil {
		return "", false
	}
	st, ok := obj.Type().Underlying().(*types.Struct)
	if !ok || field >= st.NumFields() {
		return "", false
	}
	var lit *ast.CompositeLit
	for _, f := range m.Pkg.Syntax {
		for _, d := range f.Decls {
			gd, isGd := d.(*ast.GenDecl)
			if !isGd || gd.Tok != token.VAR {
				continue
			}
			for _, sp := range gd.Specs {
				vs := sp.(*ast.ValueSpec)
				for i, nm := range vs.Names {
					if m.Pkg.TypesInfo.Defs[nm] == obj && i < len(vs.Values) && len(vs.Values) == len(vs.Names) {
						lit, _ = ast.Unparen(vs.Values[i]).(*ast.CompositeLit)
					}
				}
			}
		}
	}
	if lit == nil {
		return "", false
	}
	var val ast.Expr
	for i, el := range lit.Elts {
		if kv, isKv := el.(*ast.KeyValueExpr); isKv {
			if id, isId := kv.Key.(*ast.Ident); isId && id.Name == st.Field(field).Name() {
				val = kv.Value
			}
		} else if i == field {
			val = el
		}
	}
	if val == nil {
		return "", false
	}
	tv, has := m.Pkg.TypesInfo.Types[val]
	if !has || tv.Value == nil || tv.Value.Kind() != constant.String {
		return "", false
	}
	// only ever read field by field
	for _, fn := range m.Funcs {
		if fn.Synthetic != "" && fn.Name() == "init" {
			continue
		}
		for _, b := range fn.Blocks {
			for _, ins := range b.Instrs {
				for _, op := range ins.Operands(nil) {
					if *op != ssa.Value(g) {
						continue
					}
					fa, isFA := ins.(*ssa.FieldAddr)
					if !isFA || fa.Referrers() == nil {
						return "", false
					}
					for _, ref := range *fa.Referrers() {
						if ld, isLd := ref.(*ssa.UnOp); !isLd || ld.Op != token.MUL {
							if _, isDbg := ref.(*ssa.DebugRef); !isDbg {
								return "", false
							}
						}
					}
				}
			}
		}
	}
	return constant.StringVal(tv.Value), true
}
