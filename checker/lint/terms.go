package lint

// reachDefs is filled in by the flow engine (terms.go grows in a later step).
type reachDefs struct{}
